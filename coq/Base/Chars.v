(* Characters are Unicode code points as [N]; text is [list char].
   [is_ws] is the table of Rust's [char::is_whitespace], [is_digit] of
   [char::is_ascii_digit]; both tables are compared with the implementation over all
   0x110000 code points on every run of the C10/C11 checks (a complete sweep on the
   implementation side). *)
From Coq Require Export List NArith ZArith Bool Lia.
From Coq Require Import String Ascii.
Export ListNotations.
Open Scope N_scope.

Definition char := N.
Definition text := list char.

Definition c_tab := 9. Definition c_nl := 10. Definition c_cr := 13. Definition c_space := 32.
Definition c_dq := 34. Definition c_pct := 37. Definition c_quote := 39. Definition c_open := 40.
Definition c_close := 41. Definition c_plus := 43. Definition c_comma := 44. Definition c_minus := 45.
Definition c_semi := 59. Definition c_bs := 92.

Definition is_ws (c : char) : bool :=
  ((9 <=? c) && (c <=? 13)) || (c =? 32) || (c =? 133) || (c =? 160) || (c =? 5760)
  || ((8192 <=? c) && (c <=? 8202)) || (c =? 8232) || (c =? 8233) || (c =? 8239)
  || (c =? 8287) || (c =? 12288).

Definition is_digit (c : char) : bool := (48 <=? c) && (c <=? 57).

(* a Unicode scalar value *)
Definition is_scalar (c : char) : bool := (c <? 55296) || ((57343 <? c) && (c <? 1114112)).

Definition s (x : string) : text := map N_of_ascii (list_ascii_of_string x).

Fixpoint text_eqb (a b : text) : bool :=
  match a, b with
  | [], [] => true
  | x :: a', y :: b' => (x =? y) && text_eqb a' b'
  | _, _ => false
  end.

Lemma text_eqb_spec a b : reflect (a = b) (text_eqb a b).
Proof.
  revert b; induction a as [|x a IH]; intros [|y b]; cbn; try (constructor; congruence).
  destruct (N.eqb_spec x y) as [->|Hn]; cbn.
  - destruct (IH b) as [->|Hn]; constructor; congruence.
  - constructor; congruence.
Qed.

Lemma text_eqb_eq a b : text_eqb a b = true <-> a = b.
Proof. destruct (text_eqb_spec a b); split; congruence. Qed.

Lemma text_eqb_refl a : text_eqb a a = true.
Proof. apply text_eqb_eq; reflexivity. Qed.
