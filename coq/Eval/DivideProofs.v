(* C16: the variadic division of the generated prelude, for EVERY list of numbers: no argument 1,
   one argument 1 divided by it, otherwise the first divided by the product of the others (truncating
   division) - provided no divisor is zero and the intermediate results the function computes (the
   running products of the others, then the quotient) stay within the 64-bit range. *)
From PL Require Import Eval.PreludeState Eval.EvalRules Eval.SemProofs Eval.PreludeProofs Eval.CatchProofs Eval.LengthProofs Eval.FoldProofs Eval.MacroProofs2 Eval.SumProofs Eval.MinusProofs.
From Coq Require Import String Lia ZArith.
Local Open Scope string_scope.
Local Open Scope list_scope.
Local Open Scope N_scope.

Lemma div_call_meta f st x y a b env d : getv x = VNum a -> getv y = VNum b -> b <> 0%Z -> in_i64 (Z.quot a b) = true ->
  call_native (S f) st (s "divide") [x; y] env d = (st, ROk (VNum (Z.quot a b))).
Proof.
  intros Hx Hy Hb H. cbn. rewrite Hx, Hy. cbn. destruct (Z.eqb_spec b 0) as [E|_]; [contradiction|]. rewrite H. reflexivity.
Qed.

Definition dv_val : val := match prelude_global (s "/") with Some v => v | None => VNil end.
Definition dv_parts := match getv dv_val with VFun _ _ ps b e em => (ps, b, e, em) | _ => ([], VNil, VNil, []) end.
Definition dv_body : val := let '(_, b, _, _) := dv_parts in b.
Definition dv_env (numbers : val) : val :=
  let '(ps, _, e, _) := dv_parts in
  match pair_params (s "#<function>") ps false [numbers] e 0 1 with inl env => env | inr _ => VNil end.
Definition dv_then : val := nth_form 2 dv_body.
Definition dv_else : val := nth_form 3 dv_body.
Definition dv_lambda : val := nth_form 0 dv_then.
Definition dv_car : val := nth_form 1 dv_then.
Definition dv_cdr : val := nth_form 2 dv_then.
Definition dv_closure (numbers : val) : val :=
  match make_function_internal (match forms_of dv_lambda with _ :: r => r | [] => [] end) (dv_env numbers) pm "lambda" false with ROk v => v | _ => VNil end.
Definition dv_params (numbers : val) : list val := match dv_closure numbers with VFun _ _ ps _ _ _ => ps | _ => [] end.
Definition dv_inner (numbers : val) : val := match dv_closure numbers with VFun _ _ _ b _ _ => b | _ => VNil end.
Definition dv_inner_env (numbers first rest : val) : val :=
  match pair_params (s "#<function>") (dv_params numbers) false [first; rest] (dv_env numbers) 0 2 with inl e => e | inr _ => VNil end.
Definition dv_sub (numbers : val) : val := nth_form 2 (dv_inner numbers).      (* (divide first (foldl multiply 1 rest)) *)
Definition dv_neg (numbers : val) : val := nth_form 3 (dv_inner numbers).      (* (divide 1 first) *)
Definition dv_fold (numbers : val) : val := nth_form 2 (dv_sub numbers).       (* (foldl multiply 1 rest) *)
Definition dv_zero (numbers : val) : val := nth_form 2 (dv_fold numbers).
Definition dv_lit (numbers : val) : val := nth_form 1 (dv_neg numbers).

Example divide_is_a_rest_closure : exists ps b e, getv dv_val = VFun false true ps b e pm /\ List.length ps = 1%nat.
Proof. vm_compute. eexists; eexists; eexists; split; reflexivity. Qed.

Lemma divide_call_env src vals i n : (let '(ps, _, e, _) := dv_parts in pair_params src ps true vals e i n) = inl (dv_env (vec_to_list vals)).
Proof.
  assert (H : exists p e, dv_parts = ([p], dv_body, e, pm)) by (vm_compute; eexists; eexists; reflexivity).
  destruct H as (p & e & H). unfold dv_env. rewrite H. rewrite pair_rest. reflexivity.
Qed.

Definition divide_ok (zs : list Z) : bool :=
  match zs with
  | [] => true
  | [z] => negb (z =? 0)%Z && in_i64 (Z.quot 1 z)
  | z :: rest => in_range_from Z.mul 1%Z rest && negb (fold_left Z.mul rest 1%Z =? 0)%Z && in_i64 (Z.quot z (fold_left Z.mul rest 1%Z))
  end.
Definition divide_spec (zs : list Z) : Z :=
  (match zs with [] => 1 | [z] => Z.quot 1 z | z :: rest => Z.quot z (fold_left Z.mul rest 1) end)%Z.

Definition div_native_v : val := match get_global (mods prelude_state) (s "divide") pm with GOk v => v | _ => VNil end.

(* the operand (foldl multiply 1 rest) of divide: a closure call that is not in tail position *)
Lemma ev_prod_form numbers first vals zs d : Forall2 (fun v z => getv v = VNum z) vals zs -> in_range_from Z.mul 1%Z zs = true -> d + 5 <= MAXD ->
  exists R, getv R = VNum (fold_left Z.mul zs 1%Z) /\
    evals_to (2 * List.length vals + 20) (dv_fold numbers) (dv_inner_env numbers first (vec_to_list vals)) (d + 1) R.
Proof.
  intros HF Hr Hd. rewrite <- onto_nil.
  assert (Hadd : forall f st x y a b env d, getv x = VNum a -> getv y = VNum b -> in_i64 (a * b)%Z = true ->
                 call_native (S f) st (s "multiply") [x; y] env d = (st, ROk (VNum (a * b)%Z))) by (intros; apply mul_call_meta; assumption).
  destruct (noks Z.mul vals zs (dv_zero numbers) 1%Z HF eq_refl Hr) as [Hok Hres].
  exists (fold_left (nstep Z.mul) vals (dv_zero numbers)). split; [exact Hres|].
  intros st0 g0 Hg.
  set (E := dv_inner_env numbers first (onto vals VNil)).
  replace (2 * List.length vals + 20 + g0)%nat with (S (S (2 + (2 * List.length vals + 16 + g0)))) by lia.
  rewrite R_entry, (dok (d + 1) 1 ltac:(lia)).
  destruct (loop_closure 2 (2 * List.length vals + 16 + g0) st0 (dv_fold numbers) E (d + 1) (nth_form 0 (dv_fold numbers))
              (match forms_of (dv_fold numbers) with _ :: l => l | _ => [] end) [mul_native_v; dv_zero numbers; onto vals VNil] foldl_val false false
              (let '(ps, _, _, _) := foldl_parts in ps) fl_body (let '(_, _, e, _) := foldl_parts in e) pm
              (fl_env mul_native_v (dv_zero numbers) (onto vals VNil)) Hg eq_refl eq_refl) as (st1 & Hg1 & Hcall).
  - apply (ev_global _ (s "foldl")); [lia|reflexivity|reflexivity|reflexivity|reflexivity].
  - reflexivity.
  - constructor; [arg_global|]. constructor; [apply (ev_number _ 1%Z); [lia|reflexivity|reflexivity]|]. constructor; [arg_local|constructor].
  - reflexivity.
  - destruct (foldl_runs_guarded mul_native_v (nstep Z.mul) (nok Z.mul) 6 ltac:(lia)
                (num_step (s "multiply") mul_native_v Z.mul eq_refl eq_refl Hadd) VNil eq_refl vals (dv_zero numbers) (8 + g0)%nat st1 (d + 1) Hok Hg1 ltac:(lia))
      as (st2 & Hrun & Hg2).
    exists st2. split; [|exact Hg2]. rewrite Hcall.
    replace (2 + (2 * List.length vals + 16 + g0))%nat with (2 * List.length vals + 6 + 4 + (8 + g0))%nat by lia. exact Hrun.
Qed.

Theorem divide_runs vals zs st d : Forall2 (fun v z => getv v = VNum z) vals zs -> divide_ok zs = true ->
  has_prelude st -> d + 5 <= MAXD ->
  exists fuel st' r, eval_loop fuel st dv_body (dv_env (vec_to_list vals)) pm d = (st', ROk r) /\ has_prelude st' /\
                     getv r = VNum (divide_spec zs).
Proof.
  intros HF Hok Hg Hd.
  set (numbers := vec_to_list vals). set (E := dv_env numbers).
  assert (Hfirst : forall g1, exists st1, has_prelude st1 /\
            eval_loop (S (2 + g1)) st dv_body E pm d = eval_loop (2 + g1) st1 (if is_nil numbers then dv_else else dv_then) E pm d).
  { intros g1. apply (loop_if 2 g1 st dv_body E d (nth_form 0 dv_body) (nth_form 1 dv_body) dv_then dv_else numbers Hg eq_refl eq_refl eq_refl eq_refl). arg_local. }
  destruct HF as [|v z vals' zs' Hv HF'].
  - (* no argument: the literal 0 *)
    destruct (Hfirst 0%nat) as (st1 & Hg1 & Hif).
    destruct (loop_self 1 st1 dv_else E d Hg1 eq_refl I) as (st2 & He & Hg2).
    exists 3%nat, st2, dv_else. split; [|split; [exact Hg2|reflexivity]].
    change 3%nat with (S (2 + 0)). rewrite Hif. exact He.
  - (* at least one: ((lambda (first rest) ...) (car numbers) (cdr numbers)) *)
    set (rest := vec_to_list vals').
    assert (Hcar : evals_to 4 dv_car E (d + 1) v).
    { intros st0 g Hg0.
      destruct (ev_native_call 2 dv_car (nth_form 0 dv_car) (match forms_of dv_car with _ :: l => l | [] => [] end) [numbers] (s "car") car_native_v E (d + 1)
                  ltac:(lia) ltac:(lia) eq_refl eq_refl) with (st0 := st0) (g := g) as (st2 & Hg2 & He); try exact Hg0.
      - apply (ev_global _ (s "car")); [lia|reflexivity|reflexivity|reflexivity|reflexivity].
      - reflexivity.
      - reflexivity.
      - repeat constructor. arg_local.
      - exists st2. split; [|exact Hg2]. etransitivity; [exact He|]. reflexivity. }
    assert (Hcdr : evals_to 4 dv_cdr E (d + 1) rest).
    { intros st0 g Hg0.
      destruct (ev_native_call 2 dv_cdr (nth_form 0 dv_cdr) (match forms_of dv_cdr with _ :: l => l | [] => [] end) [numbers] (s "cdr") cdr_native E (d + 1)
                  ltac:(lia) ltac:(lia) eq_refl eq_refl) with (st0 := st0) (g := g) as (st2 & Hg2 & He); try exact Hg0.
      - apply (ev_global _ (s "cdr")); [lia|reflexivity|reflexivity|reflexivity|reflexivity].
      - reflexivity.
      - reflexivity.
      - repeat constructor. arg_local.
      - exists st2. split; [|exact Hg2]. etransitivity; [exact He|]. reflexivity. }
    set (E2 := dv_inner_env numbers v rest).
    assert (Hsecond : forall st1 g2, has_prelude st1 -> exists st2, has_prelude st2 /\
              eval_loop (S (4 + g2)) st1 dv_then E pm d = eval_loop (4 + g2) st2 (dv_inner numbers) E2 pm d).
    { intros st1 g2 Hg1.
      apply (loop_closure 4 g2 st1 dv_then E d dv_lambda [dv_car; dv_cdr] [v; rest] (dv_closure numbers) false false
                (dv_params numbers) (dv_inner numbers) E pm E2 Hg1 eq_refl eq_refl).
      - apply (evals_to_mono 2 4); [lia|]. eapply ev_lambda; [lia|reflexivity|reflexivity|reflexivity].
      - reflexivity.
      - constructor; [exact Hcar|]. constructor; [exact Hcdr|constructor].
      - reflexivity. }
    assert (Hthird : forall st2 g3, has_prelude st2 -> exists st3, has_prelude st3 /\
              eval_loop (S (2 + g3)) st2 (dv_inner numbers) E2 pm d = eval_loop (2 + g3) st3 (if is_nil rest then dv_neg numbers else dv_sub numbers) E2 pm d).
    { intros st2 g3 Hg2.
      apply (loop_if 2 g3 st2 (dv_inner numbers) E2 d (nth_form 0 (dv_inner numbers)) (nth_form 1 (dv_inner numbers))
                  (dv_sub numbers) (dv_neg numbers) rest Hg2 eq_refl eq_refl eq_refl eq_refl). arg_local. }
    destruct HF' as [|w z2 vals2 zs2 Hw HF2].
    + (* exactly one: (divide 1 first) *)
      cbn [divide_ok] in Hok. apply andb_prop in Hok as [Hnz Hok]. apply negb_true_iff in Hnz. apply Z.eqb_neq in Hnz.
      destruct (Hfirst 13%nat) as (st1 & Hg1 & Hif).
      destruct (Hsecond st1 10%nat Hg1) as (st2 & Hg2 & Hcall).
      destruct (Hthird st2 11%nat Hg2) as (st3 & Hg3 & Hif2).
      destruct (loop_native_call 2 10 st3 (dv_neg numbers) E2 d (nth_form 0 (dv_neg numbers))
                  (match forms_of (dv_neg numbers) with _ :: l => l | _ => [] end) [dv_lit numbers; v] (s "divide") div_native_v Hg3 ltac:(lia) eq_refl eq_refl)
        as (st4 & Hg4 & Hnat).
      * apply (ev_global _ (s "divide")); [lia|reflexivity|reflexivity|reflexivity|reflexivity].
      * reflexivity.
      * reflexivity.
      * constructor; [apply (ev_number _ 1%Z); [lia|reflexivity|reflexivity]|]. constructor; [arg_local|constructor].
      * exists (S (2 + 13)), st4, (VNum (Z.quot 1 z)). split; [|split; [exact Hg4|reflexivity]].
        rewrite Hif. cbn [is_nil getv numbers vec_to_list].
        change (2 + 13)%nat with (S (4 + 10)). rewrite Hcall.
        change (4 + 10)%nat with (S (2 + 11)). rewrite Hif2.
        cbn [is_nil getv rest vec_to_list].
        change (2 + 11)%nat with (S (2 + 10)). rewrite Hnat.
        change (2 + 10)%nat with (S 11).
        apply div_call_meta; [reflexivity|exact Hv|exact Hnz|exact Hok].
    + (* more: (divide first (foldl multiply 1 rest)) *)
      assert (HFr : Forall2 (fun v z => getv v = VNum z) (w :: vals2) (z2 :: zs2)) by (constructor; assumption).
      change (divide_ok (z :: z2 :: zs2)) with (in_range_from Z.mul 1%Z (z2 :: zs2) && negb (fold_left Z.mul (z2 :: zs2) 1%Z =? 0)%Z && in_i64 (Z.quot z (fold_left Z.mul (z2 :: zs2) 1%Z))) in Hok.
      apply andb_prop in Hok as [Hok Hdiff]. apply andb_prop in Hok as [Hrange Hnz]. apply negb_true_iff in Hnz. apply Z.eqb_neq in Hnz.
      destruct (ev_prod_form numbers v (w :: vals2) (z2 :: zs2) d HFr Hrange Hd) as (R & HR & HevR).
      set (KK := (2 * List.length (w :: vals2) + 20)%nat) in *.
      destruct (Hfirst (KK + 11)%nat) as (st1 & Hg1 & Hif).
      destruct (Hsecond st1 (KK + 8)%nat Hg1) as (st2 & Hg2 & Hcall).
      destruct (Hthird st2 (KK + 9)%nat Hg2) as (st3 & Hg3 & Hif2).
      destruct (loop_native_call KK 10 st3 (dv_sub numbers) E2 d (nth_form 0 (dv_sub numbers))
                  (match forms_of (dv_sub numbers) with _ :: l => l | _ => [] end) [v; R] (s "divide") div_native_v Hg3 ltac:(lia) eq_refl eq_refl)
        as (st4 & Hg4 & Hnat).
      * apply (evals_to_mono 2 KK); [unfold KK; lia|]. apply (ev_global _ (s "divide")); [lia|reflexivity|reflexivity|reflexivity|reflexivity].
      * reflexivity.
      * reflexivity.
      * constructor; [apply (evals_to_mono 2 KK); [unfold KK; lia|]; arg_local|]. constructor; [exact HevR|constructor].
      * exists (S (2 + (KK + 11))), st4, (VNum (Z.quot z (fold_left Z.mul (z2 :: zs2) 1%Z))).
        split; [|split; [exact Hg4|reflexivity]].
        rewrite Hif. cbn [is_nil getv numbers vec_to_list].
        replace (2 + (KK + 11))%nat with (S (4 + (KK + 8))) by lia. rewrite Hcall.
        replace (4 + (KK + 8))%nat with (S (2 + (KK + 9))) by lia. rewrite Hif2.
        cbn [is_nil getv rest vec_to_list].
        replace (2 + (KK + 9))%nat with (S (KK + 10)) by lia. rewrite Hnat.
        replace (KK + 10)%nat with (S (KK + 9)) by lia.
        apply div_call_meta; [exact Hv|exact HR|exact Hnz|exact Hdiff].
Qed.
