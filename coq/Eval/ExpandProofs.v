From PL Require Import Eval.EvalRules Eval.PreludeState.
From Coq Require Import String.
Local Open Scope string_scope.
Local Open Scope list_scope.
Local Open Scope N_scope.

Lemma eval_native_expand_then_eval f st x env d st1 x' :
  expand_completely f st x env (cur st) (d + 1) = (st1, ROk x') ->
  call_native (S f) st (s "eval") [x] env d = eval_internal f st1 x' env (cur st) (d + 1).
Proof.
  intros H. cbn [call_native].
  change (find_native (s "eval") native_table) with (Some (Build_native_info (s "eval") false [s "object"] (n_doc (match find_native (s "eval") native_table with Some i => i | None => Build_native_info [] false [] [] None false end)) (Some [TAny]) false)).
  cbn. rewrite H. reflexivity.
Qed.

(* the operand-expansion loop (copy of the local fix in expand_internal) *)
Definition expand_args (f : nat) (env : val) (envmod : text) (d : N) :=
  fix go (st : state) (xs acc : list val) (ch : bool) : state * (list val + res) * bool :=
    match xs with
    | [] => (st, inl (rev acc), ch)
    | x :: xs' => match expand_internal f st x env envmod (d + 1) ch with
                  | (st', ROk v, ch') => go st' xs' (v :: acc) ch'
                  | (st', r, ch') => (st', inr r, ch')
                  end
    end.

Lemma X_macro_call f st e env m d ch first rest st1 op ch1 restp params body cenv cmod st2 args ch2 newenv :
  (MAXD <? d) = false -> list_to_vec e = Some (first :: rest) ->
  is_sym first (s "macro") = false -> is_sym first (s "quote") = false ->
  expand_internal f st first env m (d + 1) ch = (st1, ROk op, ch1) ->
  getv op = VFun true restp params body cenv cmod ->
  expand_args f env m d st1 rest [] ch1 = (st2, inl args, ch2) ->
  pair_params (call_source e) params restp args cenv 0 (List.length args) = inl newenv ->
  expand_internal (S f) st e env m d ch =
  (let '(st3, r) := eval_internal f st2 body newenv cmod (d + 1) in (st3, r, true)).
Proof.
  intros Hd Hl Hm Hq Ho Hg Ha Hp. unfold expand_args in Ha.
  cbn [expand_internal]. rewrite Hd, Hl, Hm, Hq, Ho, Ha, Hg, Hp. reflexivity.
Qed.

(* ((lambda (x) (when x 1)) 1) *)
Definition op_position_text : text := s "((lambda (x) (when x 1)) 1)".
Definition op_position_form : val :=
  match read_text SrcStdin op_position_text false 1 1 with inl (v, _, _) => v | inr _ => VNil end.

Definition operator_position_statement : Prop :=
  exists st1 e1, expand_completely 100 prelude_state op_position_form VNil (s "default") 1 = (st1, ROk e1) /\
                 strip e1 = strip (match read_text SrcStdin (s "((lambda (x) (if x 1 ())) 1)") false 1 1 with inl (v, _, _) => v | inr _ => VNil end) /\
                 snd (eval_top 200 prelude_state op_position_form) = ROk (VMeta (Meta [49] LStdin 1 22 []) (VNum 1)).

Lemma operator_position_proof : operator_position_statement.
Proof. unfold operator_position_statement. eexists. eexists. vm_compute. repeat split. Qed.
