(* One-step rules of the evaluator, DERIVED from the executable model (each is the
   unfolding of one branch of eval_loop / expand_internal).  They are the interface the
   property theorems use; a change of the model in one of these branches - e.g. a
   `continue` turned into a recursive call, a trap that also catches nil, an operand
   evaluated in another order - breaks the corresponding rule. *)
From PL Require Export Eval.Eval.
From Coq Require Import String.
Local Open Scope string_scope.
Local Open Scope list_scope.
Local Open Scope N_scope.

(* the operand-evaluation loop of an application (copy of the local fix in eval_loop) *)
Definition eval_args (f : nat) (env : val) (envmod : text) (d : N) :=
  fix go (st : state) (xs acc : list val) : state * (list val + res) :=
    match xs with
    | [] => (st, inl (rev acc))
    | x :: xs' => match eval_internal f st x env envmod (d + 1) with
                  | (st', ROk v) => go st' xs' (v :: acc)
                  | (st', r) => (st', inr r)
                  end
    end.

Definition special_form (first : val) : bool :=
  is_sym first (s "lambda") || is_sym first (s "quote") || is_sym first (s "if") || is_sym first (s "trap").

Lemma special_false first : special_form first = false ->
  is_sym first (s "lambda") = false /\ is_sym first (s "quote") = false /\
  is_sym first (s "if") = false /\ is_sym first (s "trap") = false.
Proof. unfold special_form. intros H. repeat (apply orb_false_iff in H as [H ?]). auto. Qed.

(* entry: the depth test, then the loop *)
Lemma R_entry f st e env m d :
  eval_internal (S f) st e env m d = if MAXD <? d then (st, overflow "eval") else eval_loop f st e env m d.
Proof. reflexivity. Qed.

(* a pending debugger command wins over everything else, whatever is being evaluated *)
Lemma R_poll f st e env m d st' r : poll st = (st', Some r) -> eval_loop (S f) st e env m d = (st', r).
Proof. intros H. cbn [eval_loop]. rewrite H. reflexivity. Qed.

Section Rules.
Variables (f : nat) (st st' : state) (e env : val) (m : text) (d : N).
Hypothesis Hpoll : poll st = (st', None).

Lemma R_nil : list_to_vec e = Some [] -> eval_loop (S f) st e env m d = (st', ROk VNil).
Proof. intros H. cbn [eval_loop]. rewrite Hpoll, H. reflexivity. Qed.

Lemma R_quote q x : list_to_vec e = Some [q; x] -> is_sym q (s "lambda") = false -> is_sym q (s "quote") = true ->
  eval_loop (S f) st e env m d = (st', ROk x).
Proof. intros H Hl Hq. cbn [eval_loop]. rewrite Hpoll, H, Hl, Hq. reflexivity. Qed.

Lemma R_lambda q rest : list_to_vec e = Some (q :: rest) -> is_sym q (s "lambda") = true ->
  eval_loop (S f) st e env m d = (st', make_function_internal rest env m "lambda" false).
Proof. intros H Hl. cbn [eval_loop]. rewrite Hpoll, H, Hl. reflexivity. Qed.

Lemma R_trap_form q nb tb : list_to_vec e = Some [q; nb; tb] ->
  is_sym q (s "lambda") = false -> is_sym q (s "quote") = false -> is_sym q (s "if") = false -> is_sym q (s "trap") = true ->
  eval_loop (S f) st e env m d = (st', ROk (VTrap nb tb)).
Proof. intros H H1 H2 H3 H4. cbn [eval_loop]. rewrite Hpoll, H, H1, H2, H3, H4. reflexivity. Qed.

(* if: the condition one level deeper, the chosen branch AT THE SAME DEPTH (tail position) *)
Lemma R_if q c t o st1 cv : list_to_vec e = Some [q; c; t; o] ->
  is_sym q (s "lambda") = false -> is_sym q (s "quote") = false -> is_sym q (s "if") = true ->
  eval_internal f st' c env m (d + 1) = (st1, ROk cv) ->
  eval_loop (S f) st e env m d = eval_loop f st1 (if is_nil cv then o else t) env m d.
Proof.
  intros H H1 H2 H3 Hc. cbn [eval_loop]. rewrite Hpoll, H, H1, H2, H3. cbn. rewrite Hc.
  destruct (is_nil cv); reflexivity.
Qed.

Lemma R_if_escape q c t o st1 r : list_to_vec e = Some [q; c; t; o] ->
  is_sym q (s "lambda") = false -> is_sym q (s "quote") = false -> is_sym q (s "if") = true ->
  eval_internal f st' c env m (d + 1) = (st1, r) -> (forall v, r <> ROk v) ->
  eval_loop (S f) st e env m d = (st1, r).
Proof.
  intros H H1 H2 H3 Hc Hr. cbn [eval_loop]. rewrite Hpoll, H, H1, H2, H3. cbn. rewrite Hc.
  destruct r; try reflexivity. exfalso; eapply Hr; reflexivity.
Qed.

(* a trap object: normal body one level deeper; a non-nil signal [sg] goes to the handler,
   which runs in the trap's environment extended with *trapped-signal* bound to EXACTLY sg *)
Lemma R_trap_sig nb tb st1 sg : list_to_vec e = None -> getv e = VTrap nb tb ->
  eval_internal f st' nb env m (d + 1) = (st1, RSig sg) ->
  eval_loop (S f) st e env m d = eval_internal f st1 tb (VCons (VCons (vsym "*trapped-signal*") sg) env) m (d + 1).
Proof. intros Hl Hg He. cbn [eval_loop]. rewrite Hpoll, Hl, Hg, He. reflexivity. Qed.

(* ... anything else - a value, an ABORT, a panic, non-termination - passes through untouched *)
Lemma R_trap_other nb tb st1 r : list_to_vec e = None -> getv e = VTrap nb tb ->
  eval_internal f st' nb env m (d + 1) = (st1, r) -> (forall sg, r <> RSig sg) ->
  eval_loop (S f) st e env m d = (st1, r).
Proof.
  intros Hl Hg He Hr. cbn [eval_loop]. rewrite Hpoll, Hl, Hg, He.
  destruct r; try reflexivity. exfalso; eapply Hr; reflexivity.
Qed.

Lemma R_cons a b st1 av st2 bv : list_to_vec e = None -> getv e = VCons a b ->
  eval_internal f st' a env m (d + 1) = (st1, ROk av) -> eval_internal f st1 b env m (d + 1) = (st2, ROk bv) ->
  eval_loop (S f) st e env m d = (st2, ROk (VCons av bv)).
Proof. intros Hl Hg Ha Hb. cbn [eval_loop]. rewrite Hpoll, Hl, Hg, Ha, Hb. reflexivity. Qed.

(* variables: the local environment first (innermost binding wins), then the globals visible
   from the module the code was created in *)
Lemma R_var_local k v : list_to_vec e = None -> getv e = VSym k -> env_lookup env k = LFound v ->
  eval_loop (S f) st e env m d = (st', ROk v).
Proof. intros Hl Hg He. cbn [eval_loop]. rewrite Hpoll, Hl, Hg, He. reflexivity. Qed.

Lemma R_var_global n : list_to_vec e = None -> getv e = VSym (Named n) -> env_lookup env (Named n) = LMissing ->
  eval_loop (S f) st e env m d =
  match get_global (mods st') n m with
  | GOk v => (st', ROk v)
  | GAmbiguous ms => (st', RSig (ambiguous_error "eval" e ms))
  | GNotFound => (st', RSig (make_error "unbound-symbol" (s "eval") [("symbol", e)]))
  end.
Proof. intros Hl Hg He. cbn [eval_loop]. rewrite Hpoll, Hl, Hg, He. reflexivity. Qed.

Lemma R_self : list_to_vec e = None ->
  match getv e with VCons _ _ | VTrap _ _ | VSym _ => False | _ => True end ->
  eval_loop (S f) st e env m d = (st', ROk e).
Proof. intros Hl Hg. cbn [eval_loop]. rewrite Hpoll, Hl. destruct (getv e); try contradiction; reflexivity. Qed.

(* application *)
Variables (first : val) (rest : list val).
Hypothesis Hlist : list_to_vec e = Some (first :: rest).
Hypothesis Hspecial : special_form first = false.

Lemma R_app_operator_escape st1 r : eval_internal f st' first env m (d + 1) = (st1, r) -> (forall v, r <> ROk v) ->
  eval_loop (S f) st e env m d = (st1, r).
Proof.
  intros Ho Hr. destruct (special_false _ Hspecial) as (H1 & H2 & H3 & H4).
  cbn [eval_loop]. rewrite Hpoll, Hlist, H1, H2, H3, H4, Ho.
  destruct r; try reflexivity. exfalso; eapply Hr; reflexivity.
Qed.

Lemma R_app_bad_operator st1 op : eval_internal f st' first env m (d + 1) = (st1, ROk op) ->
  match getv op with VFun _ _ _ _ _ _ | VNative _ => False | _ => True end ->
  eval_loop (S f) st e env m d = (st1, RSig (make_error "eval-bad-operator" (s "eval") [("symbol", first)])).
Proof.
  intros Ho Hg. destruct (special_false _ Hspecial) as (H1 & H2 & H3 & H4).
  cbn [eval_loop]. rewrite Hpoll, Hlist, H1, H2, H3, H4, Ho. destruct (getv op); try contradiction; reflexivity.
Qed.

(* closure call: operator first, then the operands left to right (eval_args), then the body
   in the CAPTURED environment extended with the parameters, in the closure's HOME module,
   at the SAME depth (tail position) *)
Lemma R_app_closure st1 op mac restp params body cenv cmod st2 args newenv :
  eval_internal f st' first env m (d + 1) = (st1, ROk op) ->
  getv op = VFun mac restp params body cenv cmod ->
  eval_args f env m d st1 rest [] = (st2, inl args) ->
  pair_params (call_source e) params restp args cenv 0 (List.length args) = inl newenv ->
  eval_loop (S f) st e env m d = eval_loop f st2 body newenv cmod d.
Proof.
  intros Ho Hg Ha Hp. destruct (special_false _ Hspecial) as (H1 & H2 & H3 & H4). unfold eval_args in Ha.
  cbn [eval_loop]. rewrite Hpoll, Hlist, H1, H2, H3, H4, Ho, Hg, Ha, Hp. reflexivity.
Qed.

Lemma R_app_closure_arity st1 op mac restp params body cenv cmod st2 args sg :
  eval_internal f st' first env m (d + 1) = (st1, ROk op) ->
  getv op = VFun mac restp params body cenv cmod ->
  eval_args f env m d st1 rest [] = (st2, inl args) ->
  pair_params (call_source e) params restp args cenv 0 (List.length args) = inr sg ->
  eval_loop (S f) st e env m d = (st2, RSig sg).
Proof.
  intros Ho Hg Ha Hp. destruct (special_false _ Hspecial) as (H1 & H2 & H3 & H4). unfold eval_args in Ha.
  cbn [eval_loop]. rewrite Hpoll, Hlist, H1, H2, H3, H4, Ho, Hg, Ha, Hp. reflexivity.
Qed.

(* the first operand that does not yield a value decides the result; later operands are not evaluated *)
Lemma R_app_operand_escape st1 op st2 r : eval_internal f st' first env m (d + 1) = (st1, ROk op) ->
  match getv op with VFun _ _ _ _ _ _ | VNative _ => True | _ => False end ->
  eval_args f env m d st1 rest [] = (st2, inr r) ->
  eval_loop (S f) st e env m d = (st2, r).
Proof.
  intros Ho Hg Ha. destruct (special_false _ Hspecial) as (H1 & H2 & H3 & H4). unfold eval_args in Ha.
  cbn [eval_loop]. rewrite Hpoll, Hlist, H1, H2, H3, H4, Ho.
  destruct (getv op); try contradiction; rewrite Ha; reflexivity.
Qed.

Lemma R_app_native st1 op name st2 args : eval_internal f st' first env m (d + 1) = (st1, ROk op) ->
  getv op = VNative name -> text_eqb name (s "eval") = false ->
  eval_args f env m d st1 rest [] = (st2, inl args) ->
  eval_loop (S f) st e env m d = call_native f st2 name args env (d + 1).
Proof.
  intros Ho Hg Hn Ha. destruct (special_false _ Hspecial) as (H1 & H2 & H3 & H4). unfold eval_args in Ha.
  cbn [eval_loop]. rewrite Hpoll, Hlist, H1, H2, H3, H4, Ho, Hg, Ha, Hn. reflexivity.
Qed.

(* (eval x): expansion one level deeper, then the expansion is evaluated AT THE SAME DEPTH *)
Lemma R_app_eval st1 op st2 x st3 x' : eval_internal f st' first env m (d + 1) = (st1, ROk op) ->
  getv op = VNative (s "eval") ->
  eval_args f env m d st1 rest [] = (st2, inl [x]) ->
  expand_completely f st2 x env m (d + 1) = (st3, ROk x') ->
  eval_loop (S f) st e env m d = eval_loop f st3 x' env m d.
Proof.
  intros Ho Hg Ha Hx. destruct (special_false _ Hspecial) as (H1 & H2 & H3 & H4). unfold eval_args in Ha.
  cbn [eval_loop]. rewrite Hpoll, Hlist, H1, H2, H3, H4, Ho, Hg, Ha.
  rewrite text_eqb_refl. cbn. rewrite Hx. reflexivity.
Qed.
End Rules.

(* operands: strictly left to right, each exactly once, stop at the first non-value *)
Lemma eval_args_nil f env m d st acc : eval_args f env m d st [] acc = (st, inl (rev acc)).
Proof. reflexivity. Qed.

Lemma eval_args_cons_ok f env m d st x xs acc st1 v :
  eval_internal f st x env m (d + 1) = (st1, ROk v) ->
  eval_args f env m d st (x :: xs) acc = eval_args f env m d st1 xs (v :: acc).
Proof. intros H. cbn. rewrite H. reflexivity. Qed.

Lemma eval_args_cons_escape f env m d st x xs acc st1 r :
  eval_internal f st x env m (d + 1) = (st1, r) -> (forall v, r <> ROk v) ->
  eval_args f env m d st (x :: xs) acc = (st1, inr r).
Proof. intros H Hr. cbn. rewrite H. destruct r; try reflexivity. exfalso; eapply Hr; reflexivity. Qed.

(* the depth guard: nothing is evaluated beyond the configured limit *)
Lemma depth_guard f st e env m d : MAXD < d ->
  eval_internal (S f) st e env m d = (st, RSig (make_error "stackoverflow" (s "eval") [])).
Proof. intros H. cbn [eval_internal]. apply N.ltb_lt in H. rewrite H. reflexivity. Qed.

(* ---- macro expansion ---- *)
Lemma X_quote f st e env m d ch q rest : (MAXD <? d) = false -> list_to_vec e = Some (q :: rest) ->
  is_sym q (s "macro") = false -> is_sym q (s "quote") = true ->
  expand_internal (S f) st e env m d ch = (st, ROk e, ch).
Proof. intros Hd Hl Hm Hq. cbn [expand_internal]. rewrite Hd, Hl, Hm, Hq. reflexivity. Qed.

Lemma X_atom f st e env m d ch : (MAXD <? d) = false -> list_to_vec e = None ->
  match getv e with VCons _ _ | VSym _ => False | _ => True end ->
  expand_internal (S f) st e env m d ch = (st, ROk e, ch).
Proof. intros Hd Hl Hg. cbn [expand_internal]. rewrite Hd, Hl. destruct (getv e); try contradiction; reflexivity. Qed.

(* one pass that reports no change ends the expansion with that pass's result *)
Lemma X_completely_fixpoint f st e env m d st1 e' :
  expand_internal f st e env m (d + 1) false = (st1, ROk e', false) ->
  expand_completely (S f) st e env m d = (st1, ROk e').
Proof. intros H. cbn [expand_completely]. rewrite H. reflexivity. Qed.

Lemma X_completely_again f st e env m d st1 e' :
  expand_internal f st e env m (d + 1) false = (st1, ROk e', true) ->
  expand_completely (S f) st e env m d = expand_completely f st1 e' env m d.
Proof. intros H. cbn [expand_completely]. rewrite H. reflexivity. Qed.
