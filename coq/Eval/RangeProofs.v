(* C16: range, as loaded from the generated prelude text: (range m) is the list 0 1 ... m-1 for EVERY
   number m (the empty list for m <= 0), running at the depth it was called at. *)
From PL Require Import Eval.PreludeState Eval.EvalRules Eval.SemProofs Eval.PreludeProofs Eval.CatchProofs Eval.LengthProofs.
From Coq Require Import String Lia ZArith.
Local Open Scope string_scope.
Local Open Scope list_scope.
Local Open Scope N_scope.

Definition mrange_val : val := match get_global (mods prelude_state) (s "-range") pm with GOk v => v | _ => VNil end.
Definition mrange_parts := match getv mrange_val with VFun _ _ ps b e em => (ps, b, e, em) | _ => ([], VNil, VNil, []) end.
Definition mr_body : val := let '(_, b, _, _) := mrange_parts in b.
Definition mr_env (n init : val) : val :=
  let '(ps, _, e, _) := mrange_parts in
  match pair_params (s "#<function>") ps false [n; init] e 0 2 with inl env => env | inr _ => VNil end.

Definition r_if_head : val := match forms_of mr_body with x :: _ => x | _ => VNil end.
Definition r_cond : val := match forms_of mr_body with _ :: x :: _ => x | _ => VNil end.          (* (< n 0) *)
Definition r_then : val := match forms_of mr_body with _ :: _ :: x :: _ => x | _ => VNil end.     (* init *)
Definition r_call : val := match forms_of mr_body with _ :: _ :: _ :: x :: _ => x | _ => VNil end. (* (-range (substract n 1) (cons n init)) *)
Definition r_sub : val := match forms_of r_call with _ :: x :: _ => x | _ => VNil end.
Definition r_cons : val := match forms_of r_call with _ :: _ :: x :: _ => x | _ => VNil end.
Definition lt_native : val := match get_global (mods prelude_state) (s "<") pm with GOk v => v | _ => VNil end.
Definition sub_native : val := match get_global (mods prelude_state) (s "substract") pm with GOk v => v | _ => VNil end.
Definition cons_native : val := match get_global (mods prelude_state) (s "cons") pm with GOk v => v | _ => VNil end.

Example mrange_is_a_closure : exists ps b e, getv mrange_val = VFun false false ps b e pm.
Proof. vm_compute. eexists; eexists; eexists; reflexivity. Qed.

(* the test (< n 0) *)
Lemma ev_lt nv n init d : d + 2 <= MAXD -> getv nv = VNum n -> evals_to 4 r_cond (mr_env nv init) (d + 1) (bool_val (n <? 0)%Z).
Proof.
  intros Hd Hnv st0 g Hg.
  destruct (ev_native_call 2 r_cond (match forms_of r_cond with y :: _ => y | [] => VNil end)
              (match forms_of r_cond with _ :: l => l | [] => [] end) [nv; match forms_of r_cond with _ :: _ :: y :: _ => y | _ => VNil end]
              (s "<") lt_native (mr_env nv init) (d + 1) ltac:(lia) ltac:(lia) eq_refl eq_refl) with (st0 := st0) (g := g) as (st1 & Hg1 & He); try exact Hg.
  - apply (ev_global _ (s "<")); [lia|reflexivity|reflexivity|reflexivity|reflexivity].
  - reflexivity.
  - reflexivity.
  - repeat constructor; [arg_local|eapply ev_number; [lia|reflexivity|reflexivity]].
  - exists st1. split; [|exact Hg1]. rewrite He. change (2 + g)%nat with (S (1 + g)). cbn. rewrite Hnv. reflexivity.
Qed.

Lemma ev_sub nv n init d : d + 2 <= MAXD -> getv nv = VNum n -> in_i64 (n - 1)%Z = true -> evals_to 4 r_sub (mr_env nv init) (d + 1) (VNum (n - 1)%Z).
Proof.
  intros Hd Hnv Hi st0 g Hg.
  destruct (ev_native_call 2 r_sub (match forms_of r_sub with y :: _ => y | [] => VNil end)
              (match forms_of r_sub with _ :: l => l | [] => [] end) [nv; match forms_of r_sub with _ :: _ :: y :: _ => y | _ => VNil end]
              (s "substract") sub_native (mr_env nv init) (d + 1) ltac:(lia) ltac:(lia) eq_refl eq_refl) with (st0 := st0) (g := g) as (st1 & Hg1 & He); try exact Hg.
  - apply (ev_global _ (s "substract")); [lia|reflexivity|reflexivity|reflexivity|reflexivity].
  - reflexivity.
  - reflexivity.
  - repeat constructor; [arg_local|eapply ev_number; [lia|reflexivity|reflexivity]].
  - exists st1. split; [|exact Hg1]. rewrite He. change (2 + g)%nat with (S (1 + g)). cbn. rewrite Hnv. cbn. rewrite Hi. reflexivity.
Qed.

Lemma ev_cons_n nv init d : d + 2 <= MAXD -> evals_to 4 r_cons (mr_env nv init) (d + 1) (VCons nv init).
Proof.
  intros Hd st0 g Hg.
  destruct (ev_native_call 2 r_cons (match forms_of r_cons with y :: _ => y | [] => VNil end)
              (match forms_of r_cons with _ :: l => l | [] => [] end) [nv; init]
              (s "cons") cons_native (mr_env nv init) (d + 1) ltac:(lia) ltac:(lia) eq_refl eq_refl) with (st0 := st0) (g := g) as (st1 & Hg1 & He); try exact Hg.
  - apply (ev_global _ (s "cons")); [lia|reflexivity|reflexivity|reflexivity|reflexivity].
  - reflexivity.
  - reflexivity.
  - repeat constructor; [arg_local|arg_local].
  - exists st1. split; [|exact Hg1]. rewrite He. reflexivity.
Qed.

(* 0 1 ... k-1 in front of [tail] *)
Fixpoint upto (k : nat) (tail : val) : val :=
  match k with O => tail | S j => upto j (VCons (VNum (Z.of_nat j)) tail) end.

Lemma in_i64_small k : in_i64 (Z.of_nat k - 1) = true -> forall j, (j <= k)%nat -> in_i64 (Z.of_nat j - 1) = true.
Proof.
  unfold in_i64, i64_min, i64_max. intros H j Hj. apply andb_true_iff in H as [H1 H2]. apply Z.leb_le in H1, H2.
  apply andb_true_iff; split; apply Z.leb_le; lia.
Qed.

(* the loop, k iterations from n = k - 1 down to -1, at the SAME depth *)
Lemma mrange_runs : forall k init g st d, has_prelude st -> d + 3 <= MAXD -> in_i64 (Z.of_nat k - 1) = true ->
  exists st', eval_loop (2 * k + 10 + g) st mr_body (mr_env (VNum (Z.of_nat k - 1)) init) pm d = (st', ROk (upto k init)) /\ has_prelude st'.
Proof.
  induction k as [|j IH]; intros init g st d Hg Hd Hi.
  - (* n = -1: the test is true, the result is init *)
    destruct (loop_if 4 (5 + g) st mr_body (mr_env (VNum (Z.of_nat 0 - 1)) init) d r_if_head r_cond r_then r_call
                (bool_val (Z.of_nat 0 - 1 <? 0)%Z) Hg eq_refl eq_refl eq_refl eq_refl) as (st1 & Hg1 & Hif); [apply ev_lt; [lia|reflexivity]|].
    destruct (loop_local (8 + g) st1 r_then (Named (s "init")) init (mr_env (VNum (Z.of_nat 0 - 1)) init) d Hg1 eq_refl eq_refl eq_refl) as (st2 & He & Hg2).
    exists st2. split; [|exact Hg2].
    change (2 * 0 + 10 + g)%nat with (S (4 + (5 + g))). rewrite Hif. exact He.
  - (* n = j >= 0: the test is nil, the tail call continues with n - 1 and (cons n init) *)
    set (n := (Z.of_nat (S j) - 1)%Z). assert (Hn : n = Z.of_nat j) by (unfold n; lia).
    assert (Hlt : (n <? 0)%Z = false) by (apply Z.ltb_ge; lia).
    destruct (loop_if 4 (2 * j + 7 + g) st mr_body (mr_env (VNum n) init) d r_if_head r_cond r_then r_call
                (bool_val (n <? 0)%Z) Hg eq_refl eq_refl eq_refl eq_refl) as (st1 & Hg1 & Hif); [apply ev_lt; [lia|reflexivity]|].
    rewrite Hlt in Hif. cbn [bool_val is_nil getv] in Hif.
    assert (Hi' : in_i64 (n - 1) = true) by (replace (n - 1)%Z with (Z.of_nat j - 1)%Z by lia; apply (in_i64_small (S j) Hi); lia).
    destruct (loop_closure 4 (2 * j + 6 + g) st1 r_call (mr_env (VNum n) init) d (match forms_of r_call with x :: _ => x | _ => VNil end) [r_sub; r_cons]
                [VNum (n - 1)%Z; VCons (VNum n) init] mrange_val false false
                (let '(ps, _, _, _) := mrange_parts in ps) mr_body (let '(_, _, e, _) := mrange_parts in e) pm
                (mr_env (VNum (n - 1)%Z) (VCons (VNum n) init)) Hg1 eq_refl eq_refl) as (st2 & Hg2 & Hcall).
    + apply (evals_to_mono 2 4); [lia|]. apply (ev_global _ (s "-range")); [lia|reflexivity|reflexivity|reflexivity|reflexivity].
    + reflexivity.
    + constructor; [apply (ev_sub (VNum n) n); [lia|reflexivity|exact Hi']|]. constructor; [apply ev_cons_n; lia|constructor].
    + reflexivity.
    + replace (n - 1)%Z with (Z.of_nat j - 1)%Z in * by lia.
      destruct (IH (VCons (VNum n) init) g st2 d Hg2 Hd Hi') as (st3 & Hrec & Hg3).
      exists st3. split; [|exact Hg3].
      replace (2 * S j + 10 + g)%nat with (S (4 + (2 * j + 7 + g))) by lia. rewrite Hif.
      replace (4 + (2 * j + 7 + g))%nat with (S (4 + (2 * j + 6 + g))) by lia. rewrite Hcall.
      replace (4 + (2 * j + 6 + g))%nat with (2 * j + 10 + g)%nat by lia. rewrite Hrec.
      cbn [upto]. rewrite Hn. reflexivity.
Qed.

(* a negative counter: the loop returns at once *)
Lemma mrange_negative n init g st d : has_prelude st -> d + 3 <= MAXD -> (n < 0)%Z ->
  exists st', eval_loop (10 + g) st mr_body (mr_env (VNum n) init) pm d = (st', ROk init) /\ has_prelude st'.
Proof.
  intros Hg Hd Hn. assert (Hlt : (n <? 0)%Z = true) by (apply Z.ltb_lt; exact Hn).
  destruct (loop_if 4 (5 + g) st mr_body (mr_env (VNum n) init) d r_if_head r_cond r_then r_call
              (bool_val (n <? 0)%Z) Hg eq_refl eq_refl eq_refl eq_refl) as (st1 & Hg1 & Hif); [apply ev_lt; [lia|reflexivity]|].
  rewrite Hlt in Hif. cbn [bool_val is_nil getv sym_t vsym] in Hif.
  destruct (loop_local (8 + g) st1 r_then (Named (s "init")) init (mr_env (VNum n) init) d Hg1 eq_refl eq_refl eq_refl) as (st2 & He & Hg2).
  exists st2. split; [|exact Hg2]. change (10 + g)%nat with (S (4 + (5 + g))). rewrite Hif. exact He.
Qed.

(* range itself: (-range (substract n 1) nil), a tail call *)
Definition range_statement (mv : val) (expected : val) : Prop :=
  exists restp params body cenv cmod,
    option_map getv (prelude_global (s "range")) = Some (VFun false restp params body cenv cmod) /\
    exists newenv, pair_params (s "#<function>") params restp [mv] cenv 0 1 = inl newenv /\
    forall st d, has_prelude st -> d + 3 <= MAXD ->
    exists fuel st', eval_loop fuel st body newenv cmod d = (st', ROk expected) /\ has_prelude st'.

Lemma range_common mv m : getv mv = VNum m -> in_i64 (m - 1)%Z = true ->
  exists restp params body cenv cmod,
    option_map getv (prelude_global (s "range")) = Some (VFun false restp params body cenv cmod) /\
    exists newenv, pair_params (s "#<function>") params restp [mv] cenv 0 1 = inl newenv /\
    forall st d g, has_prelude st -> d + 3 <= MAXD ->
    exists st1, has_prelude st1 /\
      eval_loop (S (4 + g)) st body newenv cmod d = eval_loop (4 + g) st1 mr_body (mr_env (VNum (m - 1)%Z) nil_value) pm d.
Proof.
  intros Hmv Hi. eexists; eexists; eexists; eexists; eexists; split; [vm_compute; reflexivity|].
  eexists; split; [reflexivity|].
  intros st d g Hg Hd.
  match goal with |- exists st1, _ /\ eval_loop _ st ?body ?env ?m d = _ => set (B := body); set (E := env) end.
  set (sub := match forms_of B with _ :: x :: _ => x | _ => VNil end).
  destruct (loop_closure 4 g st B E d (match forms_of B with x :: _ => x | _ => VNil end)
              (match forms_of B with _ :: l => l | _ => [] end) [VNum (m - 1)%Z; nil_value] mrange_val false false
              (let '(ps, _, _, _) := mrange_parts in ps) mr_body (let '(_, _, e, _) := mrange_parts in e) pm
              (mr_env (VNum (m - 1)%Z) nil_value) Hg eq_refl eq_refl) as (st1 & Hg1 & Hcall).
  - apply (evals_to_mono 2 4); [lia|]. apply (ev_global _ (s "-range")); [lia|reflexivity|reflexivity|reflexivity|reflexivity].
  - reflexivity.
  - constructor.
    + (* (substract n 1) *)
      intros st0 g0 Hg0.
      destruct (ev_native_call 2 sub (match forms_of sub with y :: _ => y | [] => VNil end)
                  (match forms_of sub with _ :: l => l | [] => [] end) [mv; match forms_of sub with _ :: _ :: y :: _ => y | _ => VNil end]
                  (s "substract") sub_native E (d + 1) ltac:(lia) ltac:(lia) eq_refl eq_refl) with (st0 := st0) (g := g0) as (st2 & Hg2 & He); try exact Hg0.
      * apply (ev_global _ (s "substract")); [lia|reflexivity|reflexivity|reflexivity|reflexivity].
      * reflexivity.
      * reflexivity.
      * repeat constructor; [arg_local|eapply ev_number; [lia|reflexivity|reflexivity]].
      * exists st2. split; [|exact Hg2]. etransitivity; [exact He|]. change (2 + g0)%nat with (S (1 + g0)). cbn. rewrite Hmv. cbn. rewrite Hi. reflexivity.
    + constructor; [|constructor]. apply (evals_to_mono 2 4); [lia|]. arg_global.
  - reflexivity.
  - exists st1. split; [exact Hg1|exact Hcall].
Qed.

(* every non-negative number *)
Theorem range_spec_nonneg mv k : getv mv = VNum (Z.of_nat k) -> in_i64 (Z.of_nat k) = true -> range_statement mv (upto k nil_value).
Proof.
  intros Hmv Hi.
  assert (Hi' : in_i64 (Z.of_nat k - 1) = true).
  { revert Hi. unfold in_i64, i64_min, i64_max. intros H. apply andb_true_iff in H as [H1 H2]. apply Z.leb_le in H1, H2.
    apply andb_true_iff; split; apply Z.leb_le; lia. }
  destruct (range_common mv (Z.of_nat k) Hmv Hi') as (restp & params & body & cenv & cmod & Hf & newenv & Hp & H).
  exists restp, params, body, cenv, cmod. split; [exact Hf|]. exists newenv. split; [exact Hp|].
  intros st d Hg Hd. destruct (H st d (2 * k + 6)%nat Hg Hd) as (st1 & Hg1 & Hcall).
  destruct (mrange_runs k nil_value 0%nat st1 d Hg1 Hd Hi') as (st2 & Hrun & Hg2).
  exists (S (4 + (2 * k + 6))), st2. split; [|exact Hg2].
  rewrite Hcall. replace (4 + (2 * k + 6))%nat with (2 * k + 10 + 0)%nat by lia. exact Hrun.
Qed.

(* every negative number (except the one whose predecessor is not representable) *)
Theorem range_spec_negative mv m : getv mv = VNum m -> (m < 0)%Z -> in_i64 (m - 1)%Z = true -> range_statement mv nil_value.
Proof.
  intros Hmv Hm Hi.
  destruct (range_common mv m Hmv Hi) as (restp & params & body & cenv & cmod & Hf & newenv & Hp & H).
  exists restp, params, body, cenv, cmod. split; [exact Hf|]. exists newenv. split; [exact Hp|].
  intros st d Hg Hd. destruct (H st d 6%nat Hg Hd) as (st1 & Hg1 & Hcall).
  destruct (mrange_negative (m - 1)%Z nil_value 0%nat st1 d Hg1 Hd ltac:(lia)) as (st2 & Hrun & Hg2).
  exists (S (4 + 6)), st2. split; [|exact Hg2]. rewrite Hcall. exact Hrun.
Qed.

Example range_instances : range_statement (VNum 3) (upto 3 nil_value) /\ range_statement (VNum (-5)) nil_value.
Proof. split; [apply (range_spec_nonneg (VNum 3) 3); reflexivity|apply (range_spec_negative (VNum (-5)) (-5)); [reflexivity|lia|reflexivity]]. Qed.
Example upto_example : strip (upto 3 VNil) = vec_to_list [VNum 0; VNum 1; VNum 2].
Proof. reflexivity. Qed.
