(* C06: no primitive reaches a panic site, whatever its arguments: for every native of the generated
   table, every argument list that passes the generated validate_args! signature gives a value, a
   signal or an abort. *)
From PL Require Import Eval.Eval Eval.TotalityProofs.
From Coq Require Import String Lia.
Local Open Scope string_scope.
Local Open Scope list_scope.
Local Open Scope N_scope.

Ltac split_args args :=
  destruct args as [|?a1 [|?a2 [|?a3 [|?a4 [|?a5 [|?a6 ?rest]]]]]].

Ltac crunch H :=
  repeat match type of H with
         | context [match ?x with _ => _ end] => destruct x eqn:?; try discriminate
         | context [if ?x then _ else _] => destruct x eqn:?; try discriminate
         end.

Ltac no_panic Hv H args :=
  unfold validate in Hv; split_args args; cbn in Hv; try discriminate;
  crunch Hv; cbn in H; try discriminate; crunch H.

Definition model_limit (site : string) : Prop :=
  site = "model: file system access is not modelled" \/ site = "model: native function value without a table entry".

Definition native_ok (info : native_info) : Prop :=
  forall st sig args d st' site, n_sig info = Some sig -> validate (n_name info) sig args = None ->
    simple_native st (n_name info) args d = Some (st', RPanic site) -> model_limit site.

Lemma export_walk_total name : forall l st st' site, export_walk name st l <> (st', RPanic site).
Proof.
  induction l as [|x r IH]; intros st st' site; cbn [export_walk]; [discriminate|].
  destruct (getv x); try discriminate. apply IH.
Qed.

Ltac one_native :=
  let st := fresh "st" in let sig := fresh "sig" in let args := fresh "args" in let d := fresh "d" in
  let st' := fresh "st'" in let site := fresh "site" in let Hs := fresh "Hs" in let Hv := fresh "Hv" in let H := fresh "H" in
  intros st sig args d st' site Hs Hv H; cbn [n_sig n_name] in *;
  first [discriminate Hs | injection Hs as <-];
  try (timeout 60 (no_panic Hv H args));
  try (unfold make_function_internal, print_val in H; crunch H);
  try (exfalso; injection H as _ H; first [exact (read_result_never_panics _ _ _ _ _ H) | exact (send_walk_total _ _ _ (le_n _) _ H)]);
  try (exfalso; injection H as H; exact (export_walk_total _ _ _ _ _ H));
  try (injection H as _ <-; unfold model_limit; auto).

Lemma all_natives_ok : Forall native_ok native_table.
Proof.
  unfold native_table. repeat (apply Forall_cons; [one_native|]); [..|apply Forall_nil].
Qed.

Lemma find_native_In name : forall l info, find_native name l = Some info -> In info l /\ n_name info = name.
Proof.
  induction l as [|n r IH]; intros info H; cbn [find_native] in H; [discriminate|].
  destruct (text_eqb_spec name (n_name n)) as [E|E].
  - injection H as <-. split; [left; reflexivity|auto].
  - destruct (IH info H) as [Hin Hn]. split; [right; exact Hin|exact Hn].
Qed.

(* every native of the generated table, every argument list that passes its generated signature *)
Theorem natives_never_panic st name info sig args d st' site :
  find_native name native_table = Some info -> n_sig info = Some sig -> validate name sig args = None ->
  simple_native st name args d = Some (st', RPanic site) -> model_limit site.
Proof.
  intros Hf Hs Hv H. destruct (find_native_In name native_table info Hf) as [Hin Hn]. subst name.
  pose proof all_natives_ok as Hall. rewrite Forall_forall in Hall. exact (Hall info Hin st sig args d st' site Hs Hv H).
Qed.

(* the only native without a signature takes any arguments *)
Lemma list_native_total st args d : simple_native st (s "list") args d = Some (st, ROk (vec_to_list args)).
Proof. reflexivity. Qed.

Example signatures_cover_the_table : List.length (filter (fun i => match n_sig i with Some _ => true | None => false end) native_table) = 39%nat /\ List.length native_table = 40%nat.
Proof. split; reflexivity. Qed.

(* the table: only `list` has no signature; every native except the four that call back into the
   evaluator has a model in simple_native *)
Lemma sig_none_is_list name info : find_native name native_table = Some info -> n_sig info = None -> name = s "list".
Proof.
  intros Hf Hs. destruct (find_native_In name native_table info Hf) as [Hin <-].
  assert (H : Forall (fun i => n_sig i = None -> n_name i = s "list") native_table).
  { unfold native_table. repeat (apply Forall_cons; [cbn; intros; first [discriminate|reflexivity]|]). apply Forall_nil. }
  rewrite Forall_forall in H. exact (H info Hin Hs).
Qed.

Definition calls_back (name : text) : bool :=
  text_eqb name (s "eval") || text_eqb name (s "macroexpand") || text_eqb name (s "call-native-function") || text_eqb name (s "load-all").

Ltac some_or_none :=
  repeat match goal with
         | |- context [match ?x with _ => _ end] => destruct x
         | |- context [if ?x then _ else _] => destruct x
         end; try discriminate.

Lemma simple_native_modelled name info st args d : find_native name native_table = Some info -> calls_back name = false ->
  simple_native st name args d <> None.
Proof.
  intros Hf Hc. destruct (find_native_In name native_table info Hf) as [Hin <-].
  assert (H : Forall (fun i => calls_back (n_name i) = false -> forall st args d, simple_native st (n_name i) args d <> None) native_table).
  { unfold native_table. repeat (apply Forall_cons; [cbn [n_name]; intros Hcb st0 args0 d0; first [discriminate Hcb | timeout 120 (cbn; some_or_none)]|]). apply Forall_nil. }
  rewrite Forall_forall in H. exact (H info Hin Hc st args d).
Qed.
