(* C20, attached to a scripted debugger: stepping into everything, over everything, and mixed. *)
From PL Require Import Eval.PreludeState Eval.DebuggerProofs.
Local Open Scope list_scope.

Definition scripts : list (list text) :=
  [[step_in]; [step_over]; [step_over; step_in; step_in; step_over; step_in]].

Definition attached_family : list val := effect_programs ++ filter has_body (sample programs1).

Lemma attached_all : forallb (fun sc => forallb (agrees_with sc) attached_family) scripts = true.
Proof. vm_cast_no_check (eq_refl true). Qed.

Theorem enumerated_agree_attached : forall script p, In script scripts -> In p attached_family -> agrees_with script p = true.
Proof.
  intros script p Hs Hp.
  exact (forallb_In (agrees_with script) attached_family
           (forallb_In (fun sc => forallb (agrees_with sc) attached_family) scripts attached_all script Hs) p Hp).
Qed.

Example attached_family_size : Nat.ltb 50 (List.length attached_family) = true.
Proof. vm_compute. reflexivity. Qed.
