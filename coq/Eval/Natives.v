(* Results, error plists, argument validation (error_utils::validate_args!) and the
   primitives that do not re-enter the evaluator.  Argument signatures are NOT written
   here: they come from Generated/NativeTable_gen.v (extracted from each native's
   validate_args! line), so a change of a signature in the source changes the model. *)
From PL Require Export Eval.State Data.Reader Data.Printer Data.Equal Data.ArithImpl Generated.NativeTable_gen IO.Stdin.
From Coq Require Import String.
Local Open Scope string_scope.
Local Open Scope list_scope.
Local Open Scope N_scope.

Inductive res :=
| ROk (v : val)
| RSig (v : val)         (* Err(signal), signal non-nil *)
| RAbort                 (* Err(nil) *)
| RPanic (site : string) (* the Rust code panics here *)
| RFuel.                 (* model fuel exhausted: stands for non-termination *)

Fixpoint plist (kv : list (string * val)) : val :=
  match kv with [] => VNil | (k, v) :: r => VCons (vsym k) (VCons v (plist r)) end.

Definition make_error (kind : string) (source : text) (details : list (string * val)) : val :=
  VCons (vsym "kind") (VCons (vsym kind) (VCons (vsym "source") (VCons (VSym (Named source)) (plist details)))).

Definition vnat (n : nat) : val := VNum (Z.of_nat n).
Definition tsym (t : text) : val := VSym (Named t).
Definition sym_t : val := vsym "t".
Definition sym_ok : val := vsym "ok".
Definition bool_val (b : bool) : val := if b then sym_t else VNil.

(* error_utils::cast! *)
Definition cast_ok (t : tlabel) (v : val) : bool :=
  match t with
  | TAny => true
  | TNil => is_nil v
  | TNumber => match getv v with VNum _ => true | _ => false end
  | TCharacter => match getv v with VChar _ => true | _ => false end
  | TSymbol => match getv v with VSym _ => true | _ => false end
  | TCons => match getv v with VCons _ _ => true | _ => false end
  | TString => match list_to_string v with Some _ => true | None => false end
  | TList => match list_to_vec v with Some _ => true | None => false end
  | TFunction => match getv v with VFun _ _ _ _ _ _ | VNative _ => true | _ => false end
  | TTrap => match getv v with VTrap _ _ => true | _ => false end
  end.

Fixpoint validate_types (source : text) (sig : list tlabel) (args : list val) : option val :=
  match sig, args with
  | t :: sig', a :: args' =>
    if cast_ok t a then validate_types source sig' args'
    else Some (make_error "wrong-argument-type" source
                 [("argument-value", a); ("expected", vsym (tlabel_name t)); ("actual", vsym (tlabel_name (extended_get_type a)))])
  | _, _ => None
  end.

(* Some signal = validation failed *)
Definition validate (source : text) (sig : list tlabel) (args : list val) : option val :=
  if Nat.eqb (List.length args) (List.length sig) then validate_types source sig args
  else Some (make_error "wrong-number-of-arguments" source
               [("expected", vnat (List.length sig)); ("actual", vnat (List.length args))]).

Fixpoint find_native (name : text) (l : list native_info) : option native_info :=
  match l with
  | [] => None
  | n :: r => if text_eqb name (n_name n) then Some n else find_native name r
  end.

(* get_property_internal *)
Fixpoint get_property (key : sym) (pl : list val) : option val :=
  match pl with
  | [] => Some VNil
  | k :: r => match getv k with
              | VSym k' => if sym_eqb k' key
                           then match r with v :: _ => Some v | [] => None end
                           else match r with _ :: r' => get_property key r' | [] => Some VNil end
              | _ => None
              end
  end.

Definition property (key : string) (pl : val) : option val :=
  match list_to_vec pl with Some l => get_property (Named (s key)) l | None => None end.

(* Function::get_param_names for a normal function *)
Definition param_name (p : val) : text :=
  match getv p with VSym x => sym_name x | _ => s "#<invalid-parameter-name>" end.

Definition param_names (rest : bool) (params : list val) : list text :=
  if rest then
    match rev params with
    | last :: init_rev => map param_name (rev init_rev) ++ [s "&"; param_name last]
    | [] => []
    end
  else map param_name params.

(* destructure-function hands out the parameter symbols themselves (a gensym has no usable name) *)
Definition param_symbol (p : val) : val :=
  match getv p with VSym _ => p | _ => tsym (s "#<invalid-parameter-name>") end.

Definition param_symbols (rest : bool) (params : list val) : list val :=
  if rest then
    match rev params with
    | last :: init_rev => map param_symbol (rev init_rev) ++ [tsym (s "&"); param_symbol last]
    | [] => []
    end
  else map param_symbol params.

(* ---- standard input: one buffered reader for the whole session (IO/Stdin.v) ---- *)

(* ---- metadata as a property list (get-metadata) ---- *)
Definition metadata_plist (m : meta) : val :=
  let file := match m_kind m with
              | LNative => vsym "native" | LPrelude => vsym "prelude" | LStdin => vsym "stdin"
              | LFile p => string_to_proper_list p
              end in
  let pos := match m_kind m with
             | LNative => []
             | _ => [("line", VNum (Z.of_N (m_line m))); ("column", VNum (Z.of_N (m_col m)))]
             end in
  plist ([("documentation", string_to_list (m_doc m)); ("file", file)] ++ pos).

(* the printed form as a value *)
Definition print_fuel : nat := 1100.   (* > MAX_RECURSION_DEPTH + 2 nested print_internal frames *)

Definition print_val (v : val) (d : N) : res :=
  match print_native print_fuel v d with
  | PrOk t => ROk (string_to_list t)
  | PrOverflow => RSig (make_error "stackoverflow" (s "print") [])
  | PrFuel => RFuel
  end.

Definition ares_res (source : text) (a : ares) : res :=
  match a with
  | AOk z => ROk (VNum z)
  | ABool b => ROk (bool_val b)
  | ASig k => RSig (make_error k source [])
  | APanic => RPanic "arithmetic panic"
  | APanicOrWrap w => RPanic "arithmetic overflow (debug profile)"
  end.

(* the native `read` after validation *)
Definition read_result (input source : val) (line col : Z) : res :=
  if (line <? 0)%Z || (col <? 1)%Z then RSig (make_error "wrong-arg-value" (s "read") []) else
  let src := match list_to_string source with
             | Some p => Some (SrcFile p)
             | None => if is_sym source (s "prelude") then Some SrcPrelude
                       else if is_sym source (s "stdin") then Some SrcStdin else None
             end in
  match src with
  | None => RSig (make_error "unknown-read-source" (s "read") [("the-unknown-source", source)])
  | Some k =>
    let '(t, inv) := val_chars input in
    match read_text k t inv (Z.to_N line) (Z.to_N col) with
    | inl (v, rest, Loc rl rc) =>
      ROk (plist [("status", vsym "ok"); ("result", v);
                  ("rest", val_drop (List.length t - List.length rest) input);
                  ("line", VNum (wrap64 (Z.of_N rl))); ("column", VNum (wrap64 (Z.of_N (rc + 1))))])   (* `as i64` casts *)
    | inr ENothing => ROk (plist [("status", vsym "nothing")])
    | inr EIncomplete => ROk (plist [("status", vsym "incomplete")])
    | inr EInvalid => ROk (plist [("status", vsym "invalid")])
    | inr (EPanic site) => RPanic site
    | inr (EError msg (Loc el ec) rest rl rc) =>
      let file := match k with SrcPrelude => vsym "prelude" | SrcStdin => vsym "stdin" | SrcFile p => string_to_proper_list p end in
      let eloc := plist [("file", file); ("line", VNum (Z.of_N el)); ("column", VNum (Z.of_N ec))] in
      let err := plist [("location", eloc); ("message", string_to_list msg)] in
      ROk (plist [("status", vsym "error"); ("error", err);
                  ("rest", val_drop (List.length t - List.length rest) input);
                  ("line", VNum (wrap64 (Z.of_N rl))); ("column", VNum (wrap64 (Z.of_N rc)))])
    end
  end.

Fixpoint assoc_text_string {A} (k : text) (l : list (string * A)) : option A :=
  match l with
  | [] => None
  | (k', v) :: r => if text_eqb k (s k') then Some v else assoc_text_string k r
  end.

(* make_function_internal: the parameter list with an optional `& rest` tail *)
Fixpoint mk_params (source : text) (ps : list val) (i count : nat) (has_rest : bool) (acc : list val) : (list val * bool) + val :=
  match ps with
  | [] => inl (rev acc, has_rest)
  | p :: r =>
    match getv p with
    | VSym x =>
      if has_rest then inl (rev (p :: acc), true)
      else if sym_eqb x (Named (s "&")) then
        if Nat.eqb (i + 2) count then mk_params source r (S i) count true acc
        else if Nat.ltb count (i + 2) then inr (make_error "missing-rest-parameter" source [])
        else inr (make_error "multiple-rest-parameters" source [])
      else mk_params source r (S i) count has_rest (p :: acc)
    | _ => inr (make_error "param-is-not-symbol" source [("param", p)])
    end
  end.

Definition make_function_internal (args : list val) (env : val) (envmod : text) (source : string) (mac : bool) : res :=
  match validate (s source) [TList; TAny] args with
  | Some e => RSig e
  | None =>
    match args with
    | [params; body] =>
      match list_to_vec params with
      | Some ps => match mk_params (s source) ps 0 (List.length ps) false [] with
                   | inl (actual, rest) => ROk (VFun mac rest actual body env envmod)
                   | inr e => RSig e
                   end
      | None => RPanic "model: argument shape after validation"
      end
    | _ => RPanic "model: argument shape after validation"
    end
  end.

(* natives that do not call back into the evaluator; arguments already validated against the
   generated signature.  None = not one of these. *)
(* export: every element must be a symbol; the names before the first non-symbol stay exported *)
Fixpoint export_walk (name : text) (st : state) (l : list val) : state * res :=
  match l with
  | [] => (st, ROk sym_ok)
  | x :: r => match getv x with
              | VSym sx => export_walk name (add_export st (sym_name sx)) r
              | _ => (st, RSig (make_error "wrong-argument-type" name
                                 [("expected", vsym "symbol-type"); ("actual", vsym (tlabel_name (get_type x))); ("symbol", x)]))
              end
  end.

(* send: walks the property list two by two; a lone last key is an invalid property list *)
Fixpoint send_walk (name : text) (l : list val) : res :=
  match l with
  | [] => ROk sym_ok
  | k :: r => match getv k with
              | VSym _ => match r with
                          | _ :: r' => send_walk name r'
                          | [] => RSig (make_error "invalid-plist" name [("symbol", vsym "data")])
                          end
              | _ => RSig (make_error "invalid-plist" name [("symbol", vsym "data")])
              end
  end.

(* answers of a scripted debugger to [receive]: the entries of [inject] with key 0, in order; the
   last one is never used up *)
Fixpoint has_answer (inj : list (N * text)) : bool :=
  match inj with [] => false | (k, _) :: r => (k =? 0) || has_answer r end.
Fixpoint next_answer (inj : list (N * text)) : option text * list (N * text) :=
  match inj with
  | [] => (None, [])
  | (k, c) :: r =>
    if k =? 0 then (Some c, if has_answer r then r else (k, c) :: r)
    else let '(a, r') := next_answer r in (a, (k, c) :: r')
  end.

Definition simple_native (st : state) (name : text) (args : list val) (d : N) : option (state * res) :=
  let is n := text_eqb name (s n) in
  let bad := Some (st, RPanic "model: argument shape after validation") in
  if is "cons" then match args with [a; b] => Some (st, ROk (VCons a b)) | _ => bad end
  else if is "car" then match args with [c] => match getv c with VCons a _ => Some (st, ROk a) | _ => bad end | _ => bad end
  else if is "cdr" then match args with [c] => match getv c with VCons _ b => Some (st, ROk b) | _ => bad end | _ => bad end
  else if is "list" then Some (st, ROk (vec_to_list args))
  else if is "." then
    match args with
    | [pl; k] => match list_to_vec pl, getv k with
                 | Some l, VSym key => match get_property key l with
                                       | Some v => Some (st, ROk v)
                                       | None => Some (st, RSig (make_error "wrong-plist-format" name []))
                                       end
                 | _, _ => bad
                 end
    | _ => bad
    end
  else if is "append" then
    match args with
    | [a; b] => match list_to_vec a, list_to_vec b with
                | Some la, Some lb => Some (st, ROk (vec_to_list (la ++ lb)))
                | _, _ => bad
                end
    | _ => bad
    end
  else if is "unrest" then
    match args with
    | [f] => match getv f with
             | VFun m _ ps b e em => Some (st, ROk (VFun m false ps b e em))
             | _ => Some (st, ROk f)
             end
    | _ => bad
    end
  else if is "abort" then Some (st, RAbort)
  else if is "signal" then
    match args with
    | [x] => if is_nil x
             then Some (st, RSig (make_error "wrong-argument-type" name
                                    [("argument-value", x); ("expected", vsym "any-non-nil-type"); ("actual", vsym "nil-type")]))
             else Some (st, RSig x)
    | _ => bad
    end
  else if is "read" then
    match args with
    | [input; source; l; c] => match getv l, getv c with
                               | VNum lz, VNum cz => Some (st, read_result input source lz cz)
                               | _, _ => bad
                               end
    | _ => bad
    end
  else if is "make-trap" then match args with [a; b] => Some (st, ROk (VTrap a b)) | _ => bad end
  else if is "make-function" then
    match args with
    | [params; body; environment; envmod; kind] =>
      match getv envmod, getv kind with
      | VSym em, VSym k =>
        if text_eqb (sym_name k) (s "lambda-type") then Some (st, make_function_internal [params; body] environment (sym_name em) "lambda" false)
        else if text_eqb (sym_name k) (s "macro-type") then Some (st, make_function_internal [params; body] environment (sym_name em) "macro" true)
        else Some (st, RSig (make_error "wrong-arg-value" name []))
      | _, _ => bad
      end
    | _ => bad
    end
  else if is "print" then match args with [x] => Some (st, print_val x d) | _ => bad end
  else if is "add" || is "substract" || is "multiply" || is "divide" || is "<" || is ">" then
    match args with
    | [a; b] => match getv a, getv b, assoc_text_string name numbers_impl with
                | VNum x, VNum y, Some impl => Some (st, ares_res name (arith_eval impl x y))
                | _, _, _ => bad
                end
    | _ => bad
    end
  else if is "define" then
    match args with
    | [n; v; doc] =>
      match getv n, list_to_string doc with
      | VSym x, Some dtext =>
        let nm := sym_name x in
        if is_global_defined st nm then Some (st, RSig (make_error "already-defined" name [("symbol", n)]))
        else
          let value := match get_meta n with
                       | Some md => VMeta (Meta (m_name md) (m_kind md) (m_line md) (m_col md) dtext) (getv v)
                       | None => v
                       end in
          Some (define_global st nm value, ROk sym_ok)
      | _, _ => bad
      end
    | _ => bad
    end
  else if is "undefine" then
    match args with
    | [n] => match getv n with VSym x => Some (undefine_global st (sym_name x), ROk sym_ok) | _ => bad end
    | _ => bad
    end
  else if is "whereis" then
    match args with
    | [n] => match getv n with
             | VSym x => Some (st, ROk (vec_to_list (map tsym (modules_defining (mods st) (sym_name x)))))
             | _ => bad
             end
    | _ => bad
    end
  else if is "export" then
    match args with
    | [names] =>
      match list_to_vec names with
      | Some l =>
        Some (export_walk name st l)
      | None => bad
      end
    | _ => bad
    end
  else if is "get-current-module" then Some (st, ROk (tsym (cur st)))
  else if is "from-module" then
    match args with
    | [n; m] => match getv n, getv m with
                | VSym x, VSym y =>
                  match get_global_from_module (mods st) (sym_name x) (sym_name y) with
                  | FOk v => Some (st, ROk v)
                  | FNotFound => Some (st, RSig (make_error "unbound-symbol" name [("symbol", n)]))
                  | FNoModule => Some (st, RSig (make_error "no-such-module" name [("module", m)]))
                  end
                | _, _ => bad
                end
    | _ => bad
    end
  else if is "with-current-module" then
    match args with
    | [n; m] => match getv n, getv m with
                | VSym x, VSym y =>
                  match get_global (mods st) (sym_name x) (sym_name y) with
                  | GOk v => Some (st, ROk v)
                  | _ => Some (st, RSig (make_error "unbound-symbol" name [("symbol", n)]))
                  end
                | _, _ => bad
                end
    | _ => bad
    end
  else if is "destructure-trap" then
    match args with
    | [t] => match getv t with VTrap a b => Some (st, ROk (vec_to_list [a; b])) | _ => bad end
    | _ => bad
    end
  else if is "destructure-function" then
    match args with
    | [f] =>
      match getv f with
      | VFun mac rest ps b e em =>
        Some (st, ROk (plist [("kind", vsym (if mac then "macro" else "lambda"));
                              ("parameters", vec_to_list (param_symbols rest ps));
                              ("body", b); ("environment", e); ("module", tsym em)]))
      | VNative n =>
        match find_native n native_table with
        | Some info => Some (st, ROk (plist [("kind", vsym (if n_macro info then "macro" else "lambda"));
                                            ("parameters", vec_to_list (map tsym (n_params info)));
                                            ("body", VNil); ("environment", VNil); ("module", tsym [])]))
        | None => Some (st, RPanic "model: native function value without a table entry")   (* not a value the interpreter can make *)
        end
      | _ => bad
      end
    | _ => bad
    end
  else if is "type-of" then
    match args with
    | [x] => Some (st, ROk (match get_type x with
                            | TCons => match extended_get_type x with
                                       | TString => vsym "string-type" | TList => vsym "list-type" | _ => vsym "cons-type"
                                       end
                            | t => vsym (tlabel_name t)
                            end))
    | _ => bad
    end
  else if is "get-metadata" then
    match args with
    | [x] => Some (st, ROk (match get_meta x with Some m => metadata_plist m | None => VNil end))
    | _ => bad
    end
  else if is "send" then
    match args with
    | [data] =>
      match list_to_vec data with
      | Some l => Some (st, send_walk name l)
      | None => bad
      end
    | _ => bad
    end
  else if is "receive" then
    if attached st then
      (* a scripted debugger answers each receive at the moment the worker blocks in it (entries of
         [inject] with key 0, the last one repeated for ever); commands already queued come first *)
      let '(answer, inj) := next_answer (inject st) in
      match chan st ++ (match answer with Some c => [c] | None => [] end) with
      | c :: r =>
        let st' := State (mods st) (cur st) (gensyms st) (out st) (stdin st) (attached st) r inj (polls st) in
        if text_eqb c (s "INTERRUPT") then Some (st', RSig (make_error "interrupted" name []))
        else if text_eqb c (s "ABORT") then Some (st', RAbort)
        else Some (st', ROk (plist [("command", tsym c)]))
      | [] => Some (st, RFuel)     (* blocks until the debugger sends something *)
      end
    else Some (st, ROk VNil)
  else if is "input-file" then
    match args with
    | [src] =>
      if is_sym src (s "*stdin*") then
        let '(line, rest) := read_line (stdin st) [] in
        let st' := set_stdin st rest in
        match line with
        | [] => Some (st', RSig (make_error "eof" name []))
        | _ => Some (st', ROk (string_to_list line))
        end
      else match list_to_string src with
           | Some _ => Some (st, RPanic "model: file system access is not modelled")
           | None => Some (st, RSig (make_error "wrong-argument-type" name
                                       [("expected", vsym "string-type"); ("actual", vsym (tlabel_name (get_type src)))]))
           end
    | _ => bad
    end
  else if is "output-file" then
    match args with
    | [dst; str] =>
      match list_to_string str with
      | Some t =>
        if is_sym dst (s "*stdout*") then Some (set_out st (out st ++ t), ROk sym_ok)
        else match list_to_string dst with
             | Some _ => Some (st, RPanic "model: file system access is not modelled")
             | None => Some (st, RSig (make_error "wrong-argument-type" name
                                         [("expected", vsym "string-type"); ("actual", vsym (tlabel_name (get_type dst)))]))
             end
      | None => bad
      end
    | _ => bad
    end
  else if is "gensym" then Some (bump_gensym st, ROk (VSym (Unique (gensyms st))))
  else if is "=" then
    match args with
    | [a; b] => match equal (S (vsize a)) a b with
                | Some r => Some (st, ROk (bool_val r))
                | None => Some (st, RFuel)
                end
    | _ => bad
    end
  else None.
