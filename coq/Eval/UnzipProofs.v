(* C16: unzip-list, as loaded from the generated prelude text, on EVERY list of an even number of
   elements: the odd-numbered elements and the even-numbered elements, in order.  The recursion is in
   an operand position: one level of recursion depth per pair (the premise says so). *)
From PL Require Import Eval.PreludeState Eval.EvalRules Eval.SemProofs Eval.PreludeProofs Eval.CatchProofs Eval.LengthProofs Eval.FoldProofs Eval.MacroProofs2 Eval.SumProofs Eval.CompareProofs Eval.MinusProofs Eval.ConcatProofs.
From Coq Require Import String Lia ZArith.
Local Open Scope string_scope.
Local Open Scope list_scope.
Local Open Scope N_scope.

Definition uz_val : val := match prelude_global (s "unzip-list") with Some v => v | None => VNil end.
Definition uz_parts := match getv uz_val with VFun _ _ ps b e em => (ps, b, e, em) | _ => ([], VNil, VNil, []) end.
Definition uz_body : val := let '(_, b, _, _) := uz_parts in b.
Definition uz_env (pairs : val) : val :=
  let '(ps, _, e, _) := uz_parts in
  match pair_params (s "#<function>") ps false [pairs] e 0 1 with inl env => env | inr _ => VNil end.
Definition uz_then : val := nth_form 2 uz_body.        (* ((lambda (fsts-snds) ...) (unzip-list (cdr (if ...)))) *)
Definition uz_else : val := nth_form 3 uz_body.        (* (cons nil nil) *)
Definition uz_lam : val := nth_form 0 uz_then.
Definition uz_rec : val := nth_form 1 uz_then.         (* (unzip-list (cdr (if (cdr pairs) (cdr pairs) (signal ...)))) *)
Definition uz_cdrif : val := nth_form 1 uz_rec.
Definition uz_iff : val := nth_form 1 uz_cdrif.
Definition uz_C (pairs : val) : val := closure_of uz_lam (uz_env pairs).
Definition uz_E2 (pairs r : val) : val :=
  match pair_params (s "#<function>") (fparams (uz_C pairs)) false [r] (uz_env pairs) 0 1 with inl e => e | inr _ => VNil end.
Definition uz_cons3 (pairs : val) : val := fbody (uz_C pairs).
Definition uz_c1 (pairs : val) : val := nth_form 1 (uz_cons3 pairs).    (* (cons (car pairs) (car fsts-snds)) *)
Definition uz_c2 (pairs : val) : val := nth_form 2 (uz_cons3 pairs).    (* (cons (car (cdr pairs)) (cdr fsts-snds)) *)

Example unzip_is_a_closure : exists ps b e, getv uz_val = VFun false false ps b e pm /\ List.length ps = 1%nat.
Proof. vm_compute. eexists; eexists; eexists; split; reflexivity. Qed.

(* the flat list a1 e1 a2 e2 ... and the result *)
Fixpoint flat (ps : list (val * val)) (tl : val) : val :=
  match ps with [] => tl | (a, e) :: r => VCons a (VCons e (flat r tl)) end.
Definition uzres (ps : list (val * val)) : val :=
  VCons (onto (map fst ps) nil_value) (onto (map snd ps) nil_value).

(* a primitive call whose operands are already known to evaluate *)
Ltac prim k form name native vals sub :=
  let sx := fresh "sx" in let gx := fresh "gx" in let Hgx := fresh "Hgx" in
  intros sx gx Hgx;
  match goal with |- exists st1, eval_internal _ _ _ ?E _ ?dd = _ /\ _ =>
  destruct (ev_native_call k form (nth_form 0 form) (match forms_of form with _ :: l => l | [] => [] end) vals (s name) native E dd
              ltac:(lia) ltac:(lia) eq_refl eq_refl) with (st0 := sx) (g := gx) as (?sy & ?Hgy & ?Hey); try exact Hgx;
  [ apply (evals_to_mono 2 k); [lia|]; apply (ev_global _ (s name)); [lia|reflexivity|reflexivity|reflexivity|reflexivity]
  | reflexivity | reflexivity | sub
  | eexists; split; [etransitivity; [eassumption|reflexivity]|assumption] ] end.

Definition KU (n : nat) : nat := (21 * n + 4)%nat.

Lemma unzip_rec tl : is_nil tl = true -> forall ps d g st, d + N.of_nat (List.length ps) + 5 <= MAXD -> has_prelude st ->
  exists st', eval_loop (KU (List.length ps) + g) st uz_body (uz_env (flat ps tl)) pm d = (st', ROk (uzres ps)) /\ has_prelude st'.
Proof.
  intros Htl. induction ps as [|[a e] ps IH]; intros d g st Hd Hg.
  - cbn [flat]. set (E := uz_env tl).
    destruct (loop_if 2 (1 + g) st uz_body E d (nth_form 0 uz_body) (nth_form 1 uz_body) uz_then uz_else tl Hg eq_refl eq_refl eq_refl eq_refl)
      as (st1 & Hg1 & Hif); [arg_local|].
    destruct (loop_native_call 2 g st1 uz_else E d (nth_form 0 uz_else) (match forms_of uz_else with _ :: l => l | _ => [] end)
                [nil_value; nil_value] (s "cons") cons_native_v Hg1 ltac:(lia) eq_refl eq_refl) as (st2 & Hg2 & Hnat).
    + apply (ev_global _ (s "cons")); [lia|reflexivity|reflexivity|reflexivity|reflexivity].
    + reflexivity.
    + reflexivity.
    + constructor; [arg_global|]. constructor; [arg_global|constructor].
    + exists st2. split; [|exact Hg2].
      change (KU (List.length (@nil (val * val))) + g)%nat with (S (2 + (1 + g))). rewrite Hif, Htl.
      change (2 + (1 + g))%nat with (S (2 + g)). rewrite Hnat. reflexivity.
  - set (n := List.length ps) in *. cbn [List.length] in Hd. cbn [flat].
    set (rest := flat ps tl). set (pairs := VCons a (VCons e rest)). set (E := uz_env pairs).
    (* (if (cdr pairs) (cdr pairs) (signal ...)) : the list has a second element *)
    assert (Hiff : evals_to 6 uz_iff E (d + 1 + 1 + 1) (VCons e rest)).
    { intros st0 g0 Hg0. change (6 + g0)%nat with (S (S (4 + g0))). rewrite R_entry, (dok (d + 1 + 1 + 1) 1 ltac:(lia)).
      destruct (loop_if 4 g0 st0 uz_iff E (d + 1 + 1 + 1) (nth_form 0 uz_iff) (nth_form 1 uz_iff) (nth_form 2 uz_iff) (nth_form 3 uz_iff) (VCons e rest) Hg0 eq_refl eq_refl eq_refl eq_refl)
        as (st1 & Hg1 & Hif).
      - prim 2%nat (nth_form 1 uz_iff) "cdr" cdr_native [pairs] ltac:(repeat constructor; arg_local).
      - destruct (loop_native_call 2 (1 + g0) st1 (nth_form 2 uz_iff) E (d + 1 + 1 + 1) (nth_form 0 (nth_form 2 uz_iff))
                    (match forms_of (nth_form 2 uz_iff) with _ :: l => l | _ => [] end) [pairs] (s "cdr") cdr_native Hg1 ltac:(lia) eq_refl eq_refl)
          as (st2 & Hg2 & Hnat).
        + apply (ev_global _ (s "cdr")); [lia|reflexivity|reflexivity|reflexivity|reflexivity].
        + reflexivity.
        + reflexivity.
        + repeat constructor. arg_local.
        + exists st2. split; [|exact Hg2]. rewrite Hif. cbn [is_nil getv]. change (4 + g0)%nat with (S (2 + (1 + g0))). rewrite Hnat. reflexivity. }
    assert (Hcdrif : evals_to 8 uz_cdrif E (d + 1 + 1) rest).
    { prim 6%nat uz_cdrif "cdr" cdr_native [VCons e rest] ltac:(constructor; [exact Hiff|constructor]). }
    (* the recursive call, an operand: one level deeper *)
    assert (Hrec : evals_to (KU n + 10) uz_rec E (d + 1) (uzres ps)).
    { intros st0 g0 Hg0.
      replace (KU n + 10 + g0)%nat with (S (S (8 + (KU n + g0)))) by lia.
      rewrite R_entry, (dok (d + 1) 1 ltac:(lia)).
      destruct (loop_closure 8 (KU n + g0) st0 uz_rec E (d + 1) (nth_form 0 uz_rec)
                  (match forms_of uz_rec with _ :: l => l | _ => [] end) [rest] uz_val false false
                  (let '(ps, _, _, _) := uz_parts in ps) uz_body (let '(_, _, e, _) := uz_parts in e) pm (uz_env rest) Hg0 eq_refl eq_refl) as (st1 & Hg1 & Hcall).
      - apply (evals_to_mono 2 8); [lia|]. apply (ev_global _ (s "unzip-list")); [lia|reflexivity|reflexivity|reflexivity|reflexivity].
      - reflexivity.
      - constructor; [exact Hcdrif|constructor].
      - reflexivity.
      - destruct (IH (d + 1) (8 + g0)%nat st1 ltac:(fold n; lia) Hg1) as (st2 & Hrun & Hg2).
        exists st2. split; [|exact Hg2]. rewrite Hcall.
        replace (8 + (KU n + g0))%nat with (KU n + (8 + g0))%nat by lia. exact Hrun. }
    set (R := uzres ps). set (E2 := uz_E2 pairs R).
    set (X1 := onto (map fst ps) nil_value). set (X2 := onto (map snd ps) nil_value).
    (* the body of the lambda: (cons (cons (car pairs) (car fsts-snds)) (cons (car (cdr pairs)) (cdr fsts-snds))) *)
    assert (Hc1 : evals_to 6 (uz_c1 pairs) E2 (d + 1) (VCons a X1)).
    { prim 4%nat (uz_c1 pairs) "cons" cons_native_v [a; X1]
        ltac:(constructor; [prim 2%nat (nth_form 1 (uz_c1 pairs)) "car" car_native_v [pairs] ltac:(repeat constructor; arg_local)|];
              constructor; [prim 2%nat (nth_form 2 (uz_c1 pairs)) "car" car_native_v [R] ltac:(repeat constructor; arg_local)|constructor]). }
    assert (Hc2 : evals_to 8 (uz_c2 pairs) E2 (d + 1) (VCons e X2)).
    { prim 6%nat (uz_c2 pairs) "cons" cons_native_v [e; X2]
        ltac:(constructor;
              [prim 4%nat (nth_form 1 (uz_c2 pairs)) "car" car_native_v [VCons e rest]
                 ltac:(constructor; [prim 2%nat (nth_form 1 (nth_form 1 (uz_c2 pairs))) "cdr" cdr_native [pairs] ltac:(repeat constructor; arg_local)|constructor])|];
              constructor; [apply (evals_to_mono 4 6); [lia|]; prim 2%nat (nth_form 2 (uz_c2 pairs)) "cdr" cdr_native [R] ltac:(repeat constructor; arg_local)|constructor]). }
    set (kT := (KU n + 10)%nat).
    destruct (loop_if 2 (kT + 8 + g) st uz_body E d (nth_form 0 uz_body) (nth_form 1 uz_body) uz_then uz_else pairs Hg eq_refl eq_refl eq_refl eq_refl)
      as (st1 & Hg1 & Hif); [arg_local|].
    destruct (loop_closure kT (9 + g) st1 uz_then E d uz_lam [uz_rec] [R] (uz_C pairs) false false
                (fparams (uz_C pairs)) (uz_cons3 pairs) E pm E2 Hg1 eq_refl eq_refl) as (st2 & Hg2 & Hcall).
    + apply (evals_to_mono 2 kT); [unfold kT, KU; lia|]. eapply ev_lambda; [lia|reflexivity|reflexivity|reflexivity].
    + reflexivity.
    + constructor; [exact Hrec|constructor].
    + reflexivity.
    + destruct (loop_native_call 8 (kT + g) st2 (uz_cons3 pairs) E2 d (nth_form 0 (uz_cons3 pairs))
                  (match forms_of (uz_cons3 pairs) with _ :: l => l | _ => [] end) [VCons a X1; VCons e X2] (s "cons") cons_native_v Hg2 ltac:(lia) eq_refl eq_refl)
        as (st3 & Hg3 & Hnat).
      * apply (evals_to_mono 2 8); [lia|]. apply (ev_global _ (s "cons")); [lia|reflexivity|reflexivity|reflexivity|reflexivity].
      * reflexivity.
      * reflexivity.
      * constructor; [apply (evals_to_mono 6 8); [lia|]; exact Hc1|]. constructor; [exact Hc2|constructor].
      * exists st3. split; [|exact Hg3].
        change (List.length ((a, e) :: ps)) with (S n).
        replace (KU (S n) + g)%nat with (S (2 + (kT + 8 + g))) by (unfold kT, KU; lia). rewrite Hif.
        cbn [is_nil getv pairs].
        replace (2 + (kT + 8 + g))%nat with (S (kT + (9 + g))) by lia. rewrite Hcall.
        replace (kT + (9 + g))%nat with (S (8 + (kT + g))) by lia. rewrite Hnat.
        replace (8 + (kT + g))%nat with (S (7 + (kT + g))) by lia. reflexivity.
Qed.

Theorem unzip_runs tl ps d st : is_nil tl = true -> d + N.of_nat (List.length ps) + 5 <= MAXD -> has_prelude st ->
  exists fuel st', eval_loop fuel st uz_body (uz_env (flat ps tl)) pm d = (st', ROk (uzres ps)) /\ has_prelude st'.
Proof. intros Htl Hd Hg. destruct (unzip_rec tl Htl ps d 0%nat st Hd Hg) as (st' & H & Hg'). eexists; exists st'. split; [exact H|exact Hg']. Qed.

Lemma strip_onto l tl : is_nil tl = true -> strip (onto l tl) = strip (vec_to_list l).
Proof.
  intros Htl. induction l as [|x l IH]; cbn [onto vec_to_list strip].
  - unfold is_nil in Htl. destruct tl as [| | | | | | | |m w]; cbn in Htl; try discriminate; [reflexivity|].
    destruct w; try discriminate. reflexivity.
  - rewrite IH. reflexivity.
Qed.

(* ---- let: (let (a1 e1 .. an en) body) -> ((lambda (a1 .. an) body) e1 .. en), for EVERY number of bindings ---- *)
Theorem let_expansion ps B : macro_expands_within (N.of_nat (List.length ps) + 8) (s "let") [flat ps VNil; B]
  (VCons (vec_to_list [vsym "lambda"; vec_to_list (map fst ps); B]) (vec_to_list (map snd ps))).
Proof.
  unfold macro_expands_within.
  eexists; eexists; eexists; eexists; eexists; split; [vm_compute; reflexivity|].
  eexists; split; [reflexivity|].
  intros st d Hg Hd.
  match goal with |- exists fuel st' r, eval_internal fuel st ?b ?env ?m d = _ /\ _ /\ _ => set (LB := b); set (E := env) end.
  match goal with |- exists fuel st' r, eval_internal fuel st LB E ?m d = _ /\ _ /\ _ => change m with pm end.
  set (n := List.length ps) in *.
  set (R := uzres ps). set (X1 := onto (map fst ps) nil_value). set (X2 := onto (map snd ps) nil_value).
  set (outer := nth_form 0 LB). set (arg := nth_form 1 LB).
  set (tform := nth_form 1 arg). set (nb := nth_form 1 tform). set (tb := nth_form 2 tform).
  (* the operand (eval (trap (unzip-list bindings) (signal ...))) *)
  assert (Harg : evals_to (KU n + 9) arg E (d + 1) R).
  { intros st0 g0 Hg0.
    replace (KU n + 9 + g0)%nat with (S (S (S (S (KU n + 5 + g0))))) by lia.
    rewrite R_entry, (dok (d + 1) 1 ltac:(lia)).
    destruct (poll_has st0 Hg0) as (st1 & Hp1 & Hg1).
    assert (Hop : evals_to 2 (nth_form 0 arg) E (d + 1 + 1) eval_native).
    { apply (ev_global _ (s "eval")); [lia|reflexivity|reflexivity|reflexivity|reflexivity]. }
    destruct (Hop st1 (KU n + 5 + g0)%nat Hg1) as (st2 & Ho & Hg2).
    assert (Htf : evals_to 2 tform E (d + 1 + 1) (VTrap nb tb)).
    { eapply ev_trap_form; [lia|reflexivity|reflexivity|reflexivity|reflexivity|reflexivity]. }
    destruct (Htf st2 (KU n + 5 + g0)%nat Hg2) as (st3 & Ht & Hg3).
    change (S (S (KU n + 5 + g0))) with (2 + (KU n + 5 + g0))%nat.
    rewrite (R_app_eval (2 + (KU n + 5 + g0)) st0 st1 arg E pm (d + 1) Hp1 (nth_form 0 arg) [tform] eq_refl eq_refl st2 eval_native st3 (VTrap nb tb) st3 (VTrap nb tb) Ho eq_refl).
    - (* the trap object: its normal body is the call of unzip-list *)
      destruct (poll_has st3 Hg3) as (st4 & Hp4 & Hg4).
      assert (Hnb : exists st5, eval_internal (S (KU n + 5 + g0)) st4 nb E pm (d + 1 + 1) = (st5, ROk R) /\ has_prelude st5).
      { replace (S (KU n + 5 + g0)) with (S (S (4 + (KU n + g0)))) by lia.
        rewrite R_entry, (dok (d + 1 + 1) 1 ltac:(lia)).
        destruct (loop_closure 4 (KU n + g0) st4 nb E (d + 1 + 1) (nth_form 0 nb)
                    (match forms_of nb with _ :: l => l | _ => [] end) [flat ps VNil] uz_val false false
                    (let '(ps, _, _, _) := uz_parts in ps) uz_body (let '(_, _, e, _) := uz_parts in e) pm (uz_env (flat ps VNil)) Hg4 eq_refl eq_refl) as (st5 & Hg5 & Hcall).
        - apply (evals_to_mono 2 4); [lia|]. apply (ev_global _ (s "unzip-list")); [lia|reflexivity|reflexivity|reflexivity|reflexivity].
        - reflexivity.
        - constructor; [apply (evals_to_mono 2 4); [lia|]; arg_local|constructor].
        - reflexivity.
        - destruct (unzip_rec VNil eq_refl ps (d + 1 + 1) (4 + g0)%nat st5 ltac:(fold n; lia) Hg5) as (st6 & Hrun & Hg6).
          exists st6. split; [|exact Hg6]. rewrite Hcall.
          replace (4 + (KU n + g0))%nat with (KU n + (4 + g0))%nat by (fold n; lia). exact Hrun. }
      destruct Hnb as (st5 & Hnb & Hg5).
      exists st5. split; [|exact Hg5].
      change (2 + (KU n + 5 + g0))%nat with (S (S (KU n + 5 + g0))).
      apply (R_trap_other (S (KU n + 5 + g0)) st3 st4 (VTrap nb tb) E pm (d + 1) Hp4 nb tb st5 (ROk R) eq_refl eq_refl Hnb). intros sg; discriminate.
    - rewrite (eval_args_cons_ok (2 + (KU n + 5 + g0)) E pm (d + 1) st2 tform [] [] st3 (VTrap nb tb) Ht). reflexivity.
    - change (2 + (KU n + 5 + g0))%nat with (S (S (KU n + 5 + g0))). apply X_completely_fixpoint.
      apply X_atom; [apply (dok (d + 1 + 1 + 1) 2); lia|reflexivity|exact I]. }
  set (C1 := closure_of outer E).
  set (E1 := match pair_params (s "#<function>") (fparams C1) false [R] E 0 1 with inl e => e | inr _ => VNil end).
  set (app2 := fbody C1).
  set (C2 := closure_of (nth_form 0 app2) E1).
  set (E2 := match pair_params (s "#<function>") (fparams C2) false [X1; X2] E1 0 2 with inl e => e | inr _ => VNil end).
  set (consf := fbody C2).
  set (kA := (KU n + 9)%nat).
  destruct (loop_closure kA 0 st LB E d outer [arg] [R] C1 false false (fparams C1) app2 E pm E1 Hg eq_refl eq_refl) as (st1 & Hg1 & Hcall1).
  - apply (evals_to_mono 2 kA); [unfold kA, KU; lia|]. eapply ev_lambda; [lia|reflexivity|reflexivity|reflexivity].
  - reflexivity.
  - constructor; [exact Harg|constructor].
  - reflexivity.
  - destruct (loop_closure 4 (KU n + 4) st1 app2 E1 d (nth_form 0 app2) [nth_form 1 app2; nth_form 2 app2] [X1; X2] C2 false false
                (fparams C2) consf E1 pm E2 Hg1 eq_refl eq_refl) as (st2 & Hg2 & Hcall2).
    + apply (evals_to_mono 2 4); [lia|]. eapply ev_lambda; [lia|reflexivity|reflexivity|reflexivity].
    + reflexivity.
    + constructor; [prim 2%nat (nth_form 1 app2) "car" car_native_v [R] ltac:(repeat constructor; arg_local)|].
      constructor; [prim 2%nat (nth_form 2 app2) "cdr" cdr_native [R] ltac:(repeat constructor; arg_local)|constructor].
    + reflexivity.
    + set (lam := nth_form 1 consf).
      set (L := vec_to_list [nth_form 1 (nth_form 1 lam); X1; B]).
      destruct (loop_native_call 4 (KU n + 3) st2 consf E2 d (nth_form 0 consf) (match forms_of consf with _ :: l => l | _ => [] end)
                  [L; X2] (s "cons") cons_native_v Hg2 ltac:(lia) eq_refl eq_refl) as (st3 & Hg3 & Hnat).
      * apply (evals_to_mono 2 4); [lia|]. apply (ev_global _ (s "cons")); [lia|reflexivity|reflexivity|reflexivity|reflexivity].
      * reflexivity.
      * reflexivity.
      * constructor; [prim 2%nat lam "list" list_native [nth_form 1 (nth_form 1 lam); X1; B]
                        ltac:(constructor; [arg_quote|]; constructor; [arg_local|]; constructor; [arg_local|constructor])|].
        constructor; [apply (evals_to_mono 2 4); [lia|]; arg_local|constructor].
      * exists (S (S (kA + 0))), st3, (VCons L X2). split; [|split; [exact Hg3|]].
        -- rewrite R_entry, (dok d 1 ltac:(lia)). rewrite Hcall1.
           replace (kA + 0)%nat with (S (4 + (KU n + 4))) by (unfold kA; lia). rewrite Hcall2.
           replace (4 + (KU n + 4))%nat with (S (4 + (KU n + 3))) by lia. rewrite Hnat.
           replace (4 + (KU n + 3))%nat with (S (KU n + 6)) by lia. reflexivity.
        -- unfold L, X1, X2. cbn [strip vec_to_list]. rewrite !strip_onto by reflexivity. reflexivity.
Qed.
