(* C16: zip, as loaded from the generated prelude text, for EVERY pair of lists: the pairs of
   corresponding elements, as many as the shorter list has, at constant depth. *)
From PL Require Import Eval.PreludeState Eval.EvalRules Eval.SemProofs Eval.PreludeProofs Eval.CatchProofs Eval.LengthProofs Eval.FoldProofs.
From Coq Require Import String Lia ZArith.
Local Open Scope string_scope.
Local Open Scope list_scope.
Local Open Scope N_scope.

Definition mzip_val : val := match get_global (mods prelude_state) (s "-zip") pm with GOk v => v | _ => VNil end.
Definition mzip_parts := match getv mzip_val with VFun _ _ ps b e em => (ps, b, e, em) | _ => ([], VNil, VNil, []) end.
Definition mz_body : val := let '(_, b, _, _) := mzip_parts in b.
Definition mz_env (t1 t2 init : val) : val :=
  let '(ps, _, e, _) := mzip_parts in
  match pair_params (s "#<function>") ps false [t1; t2; init] e 0 3 with inl env => env | inr _ => VNil end.

Definition mz_if1 : val := match forms_of mz_body with x :: _ => x | _ => VNil end.
Definition mz_c1 : val := match forms_of mz_body with _ :: x :: _ => x | _ => VNil end.            (* things1 *)
Definition mz_inner : val := match forms_of mz_body with _ :: _ :: x :: _ => x | _ => VNil end.     (* (if things2 ... init) *)
Definition mz_e1 : val := match forms_of mz_body with _ :: _ :: _ :: x :: _ => x | _ => VNil end.   (* init *)
Definition mz_if2 : val := match forms_of mz_inner with x :: _ => x | _ => VNil end.
Definition mz_c2 : val := match forms_of mz_inner with _ :: x :: _ => x | _ => VNil end.           (* things2 *)
Definition mz_call : val := match forms_of mz_inner with _ :: _ :: x :: _ => x | _ => VNil end.
Definition mz_e2 : val := match forms_of mz_inner with _ :: _ :: _ :: x :: _ => x | _ => VNil end.  (* init *)
Definition mz_cdr1 : val := match forms_of mz_call with _ :: x :: _ => x | _ => VNil end.
Definition mz_cdr2 : val := match forms_of mz_call with _ :: _ :: x :: _ => x | _ => VNil end.
Definition mz_cons : val := match forms_of mz_call with _ :: _ :: _ :: x :: _ => x | _ => VNil end. (* (cons (cons (car things1) (car things2)) init) *)
Definition mz_pair : val := match forms_of mz_cons with _ :: x :: _ => x | _ => VNil end.          (* (cons (car things1) (car things2)) *)
Definition mz_car1 : val := match forms_of mz_pair with _ :: x :: _ => x | _ => VNil end.
Definition mz_car2 : val := match forms_of mz_pair with _ :: _ :: x :: _ => x | _ => VNil end.
Definition car_native_v : val := match get_global (mods prelude_state) (s "car") pm with GOk v => v | _ => VNil end.

Example mzip_is_a_closure : exists ps b e, getv mzip_val = VFun false false ps b e pm.
Proof. vm_compute. eexists; eexists; eexists; reflexivity. Qed.

(* a primitive applied to one local variable *)
Ltac prim1 form name native v :=
  let st0 := fresh "st0" in let g := fresh "g" in let Hg := fresh "Hg" in
  intros st0 g Hg;
  match goal with |- exists st1, eval_internal _ _ _ ?E _ ?dd = _ /\ _ =>
  destruct (ev_native_call 2 form (match forms_of form with y :: _ => y | [] => VNil end)
              (match forms_of form with _ :: l => l | [] => [] end) [v] (s name) native E dd
              ltac:(lia) ltac:(lia) eq_refl eq_refl) with (st0 := st0) (g := g) as (?st1 & ?Hg1 & ?He); try exact Hg;
  [ apply (ev_global _ (s name)); [lia|reflexivity|reflexivity|reflexivity|reflexivity]
  | reflexivity | reflexivity | repeat constructor; arg_local
  | eexists; split; [etransitivity; [eassumption|reflexivity]|assumption] ] end.

Section Zip.
Variables (x y : val) (r1 r2 acc : val).
Let E := mz_env (VCons x r1) (VCons y r2) acc.

Lemma ev_mz_cdr1 d : d + 2 <= MAXD -> evals_to 4 mz_cdr1 E (d + 1) r1.
Proof. intros Hd. prim1 mz_cdr1 "cdr" cdr_native (VCons x r1). Qed.
Lemma ev_mz_cdr2 d : d + 2 <= MAXD -> evals_to 4 mz_cdr2 E (d + 1) r2.
Proof. intros Hd. prim1 mz_cdr2 "cdr" cdr_native (VCons y r2). Qed.
Lemma ev_mz_car1 d : d + 4 <= MAXD -> evals_to 4 mz_car1 E (d + 1 + 1 + 1) x.
Proof. intros Hd. prim1 mz_car1 "car" car_native_v (VCons x r1). Qed.
Lemma ev_mz_car2 d : d + 4 <= MAXD -> evals_to 4 mz_car2 E (d + 1 + 1 + 1) y.
Proof. intros Hd. prim1 mz_car2 "car" car_native_v (VCons y r2). Qed.

Lemma ev_mz_pair d : d + 4 <= MAXD -> evals_to 6 mz_pair E (d + 1 + 1) (VCons x y).
Proof.
  intros Hd st0 g Hg.
  destruct (ev_native_call 4 mz_pair (match forms_of mz_pair with z :: _ => z | [] => VNil end)
              (match forms_of mz_pair with _ :: l => l | [] => [] end) [x; y] (s "cons") cons_native_v E (d + 1 + 1)
              ltac:(lia) ltac:(lia) eq_refl eq_refl) with (st0 := st0) (g := g) as (st1 & Hg1 & He); try exact Hg.
  - apply (evals_to_mono 2 4); [lia|]. apply (ev_global _ (s "cons")); [lia|reflexivity|reflexivity|reflexivity|reflexivity].
  - reflexivity.
  - reflexivity.
  - constructor; [apply ev_mz_car1; exact Hd|]. constructor; [apply ev_mz_car2; exact Hd|constructor].
  - exists st1. split; [|exact Hg1]. etransitivity; [exact He|]. reflexivity.
Qed.

Lemma ev_mz_cons d : d + 4 <= MAXD -> evals_to 8 mz_cons E (d + 1) (VCons (VCons x y) acc).
Proof.
  intros Hd st0 g Hg.
  destruct (ev_native_call 6 mz_cons (match forms_of mz_cons with z :: _ => z | [] => VNil end)
              (match forms_of mz_cons with _ :: l => l | [] => [] end) [VCons x y; acc] (s "cons") cons_native_v E (d + 1)
              ltac:(lia) ltac:(lia) eq_refl eq_refl) with (st0 := st0) (g := g) as (st1 & Hg1 & He); try exact Hg.
  - apply (evals_to_mono 2 6); [lia|]. apply (ev_global _ (s "cons")); [lia|reflexivity|reflexivity|reflexivity|reflexivity].
  - reflexivity.
  - reflexivity.
  - constructor; [apply ev_mz_pair; exact Hd|]. constructor; [apply (evals_to_mono 2 6); [lia|]; arg_local|constructor].
  - exists st1. split; [|exact Hg1]. etransitivity; [exact He|]. reflexivity.
Qed.
End Zip.

(* the accumulating loop: pairs are consed in front of [acc], in reverse order, at the SAME depth;
   it ends as soon as either list ends *)
Lemma mzip_runs tl1 tl2 : is_nil tl1 = true -> is_nil tl2 = true -> forall xs ys acc g st d, has_prelude st -> d + 4 <= MAXD ->
  exists st', eval_loop (3 * List.length xs + 16 + g) st mz_body (mz_env (onto xs tl1) (onto ys tl2) acc) pm d
              = (st', ROk (fold_left (fun a p => VCons (VCons (fst p) (snd p)) a) (combine xs ys) acc)) /\ has_prelude st'.
Proof.
  intros Ht1 Ht2. induction xs as [|x xs IH]; intros ys acc g st d Hg Hd.
  - (* things1 is empty *)
    cbn [onto combine fold_left].
    destruct (loop_if 2 (13 + g) st mz_body (mz_env tl1 (onto ys tl2) acc) d mz_if1 mz_c1 mz_inner mz_e1 tl1 Hg eq_refl eq_refl eq_refl eq_refl)
      as (st1 & Hg1 & Hif); [arg_local|].
    destruct (loop_local (14 + g) st1 mz_e1 (Named (s "init")) acc (mz_env tl1 (onto ys tl2) acc) d Hg1 eq_refl eq_refl eq_refl) as (st2 & He & Hg2).
    exists st2. split; [|exact Hg2].
    change (3 * List.length (@nil val) + 16 + g)%nat with (S (2 + (13 + g))). rewrite Hif, Ht1. exact He.
  - destruct ys as [|y ys].
    + (* things2 is empty *)
      cbn [onto combine fold_left]. set (L1 := VCons x (onto xs tl1)).
      destruct (loop_if 2 (3 * List.length xs + 16 + g) st mz_body (mz_env L1 tl2 acc) d mz_if1 mz_c1 mz_inner mz_e1 L1 Hg eq_refl eq_refl eq_refl eq_refl)
        as (st1 & Hg1 & Hif); [arg_local|].
      destruct (loop_if 2 (3 * List.length xs + 15 + g) st1 mz_inner (mz_env L1 tl2 acc) d mz_if2 mz_c2 mz_call mz_e2 tl2 Hg1 eq_refl eq_refl eq_refl eq_refl)
        as (st2 & Hg2 & Hif2); [arg_local|].
      destruct (loop_local (3 * List.length xs + 16 + g) st2 mz_e2 (Named (s "init")) acc (mz_env L1 tl2 acc) d Hg2 eq_refl eq_refl eq_refl) as (st3 & He & Hg3).
      exists st3. split; [|exact Hg3].
      replace (3 * List.length (x :: xs) + 16 + g)%nat with (S (2 + (3 * List.length xs + 16 + g))) by (cbn [List.length]; lia).
      rewrite Hif. cbn [is_nil getv L1].
      replace (2 + (3 * List.length xs + 16 + g))%nat with (S (2 + (3 * List.length xs + 15 + g))) by lia. rewrite Hif2, Ht2.
      replace (2 + (3 * List.length xs + 15 + g))%nat with (S (3 * List.length xs + 16 + g)) by lia. exact He.
    + (* both have a first element: the tail call *)
      cbn [onto combine fold_left fst snd]. set (L1 := VCons x (onto xs tl1)). set (L2 := VCons y (onto ys tl2)).
      destruct (loop_if 2 (3 * List.length xs + 16 + g) st mz_body (mz_env L1 L2 acc) d mz_if1 mz_c1 mz_inner mz_e1 L1 Hg eq_refl eq_refl eq_refl eq_refl)
        as (st1 & Hg1 & Hif); [arg_local|].
      destruct (loop_if 2 (3 * List.length xs + 15 + g) st1 mz_inner (mz_env L1 L2 acc) d mz_if2 mz_c2 mz_call mz_e2 L2 Hg1 eq_refl eq_refl eq_refl eq_refl)
        as (st2 & Hg2 & Hif2); [arg_local|].
      destruct (loop_closure 8 (3 * List.length xs + 8 + g) st2 mz_call (mz_env L1 L2 acc) d (match forms_of mz_call with z :: _ => z | _ => VNil end)
                  [mz_cdr1; mz_cdr2; mz_cons] [onto xs tl1; onto ys tl2; VCons (VCons x y) acc] mzip_val false false
                  (let '(ps, _, _, _) := mzip_parts in ps) mz_body (let '(_, _, e, _) := mzip_parts in e) pm
                  (mz_env (onto xs tl1) (onto ys tl2) (VCons (VCons x y) acc)) Hg2 eq_refl eq_refl) as (st3 & Hg3 & Hcall).
      * apply (evals_to_mono 2 8); [lia|]. apply (ev_global _ (s "-zip")); [lia|reflexivity|reflexivity|reflexivity|reflexivity].
      * reflexivity.
      * constructor; [apply (evals_to_mono 4 8); [lia|]; apply ev_mz_cdr1; lia|].
        constructor; [apply (evals_to_mono 4 8); [lia|]; apply ev_mz_cdr2; lia|].
        constructor; [apply ev_mz_cons; exact Hd|constructor].
      * reflexivity.
      * destruct (IH ys (VCons (VCons x y) acc) g st3 d Hg3 Hd) as (st4 & Hrec & Hg4).
        exists st4. split; [|exact Hg4].
        replace (3 * List.length (x :: xs) + 16 + g)%nat with (S (2 + (3 * List.length xs + 16 + g))) by (cbn [List.length]; lia).
        rewrite Hif. cbn [is_nil getv L1].
        replace (2 + (3 * List.length xs + 16 + g))%nat with (S (2 + (3 * List.length xs + 15 + g))) by lia. rewrite Hif2. cbn [is_nil getv L2].
        replace (2 + (3 * List.length xs + 15 + g))%nat with (S (8 + (3 * List.length xs + 8 + g))) by lia. rewrite Hcall.
        replace (8 + (3 * List.length xs + 8 + g))%nat with (3 * List.length xs + 16 + g)%nat by lia. exact Hrec.
Qed.

(* ---- zip = (reverse (-zip things1 things2 nil)) ---- *)
Definition zip_val : val := match prelude_global (s "zip") with Some v => v | None => VNil end.
Definition zip_parts := match getv zip_val with VFun _ _ ps b e em => (ps, b, e, em) | _ => ([], VNil, VNil, []) end.
Definition zp_body : val := let '(_, b, _, _) := zip_parts in b.
Definition zp_env (t1 t2 : val) : val :=
  let '(ps, _, e, _) := zip_parts in
  match pair_params (s "#<function>") ps false [t1; t2] e 0 2 with inl env => env | inr _ => VNil end.
Definition zp_inner : val := match forms_of zp_body with _ :: x :: _ => x | _ => VNil end.

Definition pair_of (p : val * val) : val := VCons (fst p) (snd p).

Lemma ev_zip_inner tl1 tl2 xs ys d : is_nil tl1 = true -> is_nil tl2 = true -> d + 5 <= MAXD ->
  evals_to (3 * List.length xs + 22) zp_inner (zp_env (onto xs tl1) (onto ys tl2)) (d + 1)
           (fold_left (fun a p => VCons (VCons (fst p) (snd p)) a) (combine xs ys) nil_value).
Proof.
  intros Ht1 Ht2 Hd st0 g0 Hg.
  replace (3 * List.length xs + 22 + g0)%nat with (S (S (4 + (3 * List.length xs + 16 + g0)))) by lia.
  rewrite R_entry, (dok (d + 1) 1 ltac:(lia)).
  destruct (loop_closure 4 (3 * List.length xs + 16 + g0) st0 zp_inner (zp_env (onto xs tl1) (onto ys tl2)) (d + 1) (match forms_of zp_inner with z :: _ => z | _ => VNil end)
              (match forms_of zp_inner with _ :: l => l | _ => [] end) [onto xs tl1; onto ys tl2; nil_value] mzip_val false false
              (let '(ps, _, _, _) := mzip_parts in ps) mz_body (let '(_, _, e, _) := mzip_parts in e) pm
              (mz_env (onto xs tl1) (onto ys tl2) nil_value) Hg eq_refl eq_refl) as (st1 & Hg1 & Hcall).
  - apply (evals_to_mono 2 4); [lia|]. apply (ev_global _ (s "-zip")); [lia|reflexivity|reflexivity|reflexivity|reflexivity].
  - reflexivity.
  - constructor; [apply (evals_to_mono 2 4); [lia|]; arg_local|]. constructor; [apply (evals_to_mono 2 4); [lia|]; arg_local|].
    constructor; [apply (evals_to_mono 2 4); [lia|]; arg_global|constructor].
  - reflexivity.
  - destruct (mzip_runs tl1 tl2 Ht1 Ht2 xs ys nil_value (4 + g0)%nat st1 (d + 1) Hg1 ltac:(lia)) as (st2 & Hrun & Hg2).
    exists st2. split; [|exact Hg2]. rewrite Hcall.
    replace (4 + (3 * List.length xs + 16 + g0))%nat with (3 * List.length xs + 16 + (4 + g0))%nat by lia. exact Hrun.
Qed.

Lemma onto_app l1 l2 acc : onto (l1 ++ l2) acc = onto l1 (onto l2 acc).
Proof. induction l1 as [|y l IH]; cbn; [reflexivity|rewrite IH; reflexivity]. Qed.

Lemma zipped_is_onto : forall (ps : list (val * val)) acc,
  fold_left (fun a p => VCons (VCons (fst p) (snd p)) a) ps acc = onto (rev (map pair_of ps)) acc.
Proof.
  induction ps as [|p ps IH]; intros acc; cbn [fold_left map rev]; [reflexivity|].
  rewrite IH, onto_app. reflexivity.
Qed.

(* zip's body with explicit fuel *)
Lemma zip_runs_fuel tl1 tl2 xs ys g st d : is_nil tl1 = true -> is_nil tl2 = true -> has_prelude st -> d + 5 <= MAXD ->
  exists st' r, eval_loop (3 * List.length xs + 2 * List.length (combine xs ys) + 36 + g) st zp_body (zp_env (onto xs tl1) (onto ys tl2)) pm d = (st', ROk r) /\
                has_prelude st' /\ strip r = strip (vec_to_list (map pair_of (combine xs ys))).
Proof.
  intros Ht1 Ht2 Hg Hd.
  set (M := fold_left (fun a p => VCons (VCons (fst p) (snd p)) a) (combine xs ys) nil_value).
  set (KK := (3 * List.length xs + 22)%nat).
  destruct (loop_closure KK (2 * List.length (combine xs ys) + 13 + g) st zp_body (zp_env (onto xs tl1) (onto ys tl2)) d (match forms_of zp_body with z :: _ => z | _ => VNil end)
              [zp_inner] [M] reverse_val false false
              (let '(ps, _, _, _) := reverse_parts in ps) rv_body (let '(_, _, e, _) := reverse_parts in e) pm
              (rv_env M) Hg eq_refl eq_refl) as (st1 & Hg1 & Hcall).
  - apply (evals_to_mono 2 KK); [unfold KK; lia|]. apply (ev_global _ (s "reverse")); [lia|reflexivity|reflexivity|reflexivity|reflexivity].
  - reflexivity.
  - constructor; [apply ev_zip_inner; assumption|constructor].
  - reflexivity.
  - unfold M in *. rewrite zipped_is_onto in *.
    assert (Hnil : is_nil nil_value = true) by reflexivity.
    destruct (reverse_runs (rev (map pair_of (combine xs ys))) nil_value (KK + g)%nat st1 d Hnil Hg1 ltac:(lia)) as (st2 & r & Hrun & Hg2 & Hr).
    exists st2, r. split; [|split; [exact Hg2|]].
    + replace (3 * List.length xs + 2 * List.length (combine xs ys) + 36 + g)%nat with (S (KK + (2 * List.length (combine xs ys) + 13 + g))) by (unfold KK; lia).
      rewrite Hcall. replace (KK + (2 * List.length (combine xs ys) + 13 + g))%nat with (2 * List.length (rev (map pair_of (combine xs ys))) + 13 + (KK + g))%nat by (rewrite rev_length, map_length; lia).
      exact Hrun.
    + rewrite Hr, strip_fold_cons, rev_involutive. reflexivity.
Qed.

(* zip: the pairs in order, as many as the shorter list has, for every two lists *)
Theorem zip_runs tl1 tl2 xs ys st d : is_nil tl1 = true -> is_nil tl2 = true -> has_prelude st -> d + 5 <= MAXD ->
  exists fuel st' r, eval_loop fuel st zp_body (zp_env (onto xs tl1) (onto ys tl2)) pm d = (st', ROk r) /\ has_prelude st' /\
                     strip r = strip (vec_to_list (map pair_of (combine xs ys))).
Proof.
  intros Ht1 Ht2 Hg Hd. destruct (zip_runs_fuel tl1 tl2 xs ys 0%nat st d Ht1 Ht2 Hg Hd) as (st' & r & H).
  eexists. exists st', r. exact H.
Qed.

Example zip_instance : forall st d, has_prelude st -> d + 5 <= MAXD ->
  exists fuel st' r, eval_loop fuel st zp_body (zp_env (vec_to_list [VNum 1; VNum 2; VNum 3]) (vec_to_list [vsym "a"; vsym "b"])) pm d = (st', ROk r) /\ has_prelude st' /\
                     strip r = vec_to_list [VCons (VNum 1) (vsym "a"); VCons (VNum 2) (vsym "b")].
Proof. intros st d Hg Hd. rewrite <- !onto_nil. exact (zip_runs VNil VNil _ _ st d eq_refl eq_refl Hg Hd). Qed.
