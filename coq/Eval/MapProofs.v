(* C16: map, as loaded from the generated prelude text, for EVERY list and every function whose
   applications evaluate: the list of results, in order; each element costs no recursion depth. *)
From PL Require Import Eval.PreludeState Eval.EvalRules Eval.SemProofs Eval.PreludeProofs Eval.CatchProofs Eval.LengthProofs Eval.FoldProofs.
From Coq Require Import String Lia ZArith.
Local Open Scope string_scope.
Local Open Scope list_scope.
Local Open Scope N_scope.

Definition mmap_val : val := match get_global (mods prelude_state) (s "-map") pm with GOk v => v | _ => VNil end.
Definition mmap_parts := match getv mmap_val with VFun _ _ ps b e em => (ps, b, e, em) | _ => ([], VNil, VNil, []) end.
Definition mm_body : val := let '(_, b, _, _) := mmap_parts in b.
Definition mm_env (f things init : val) : val :=
  let '(ps, _, e, _) := mmap_parts in
  match pair_params (s "#<function>") ps false [f; things; init] e 0 3 with inl env => env | inr _ => VNil end.

Definition mm_if_head : val := match forms_of mm_body with x :: _ => x | _ => VNil end.
Definition mm_cond : val := match forms_of mm_body with _ :: x :: _ => x | _ => VNil end.
Definition mm_call : val := match forms_of mm_body with _ :: _ :: x :: _ => x | _ => VNil end.   (* (-map f (cdr things) (cons (f (car things)) init)) *)
Definition mm_else : val := match forms_of mm_body with _ :: _ :: _ :: x :: _ => x | _ => VNil end.
Definition mm_f : val := match forms_of mm_call with _ :: x :: _ => x | _ => VNil end.
Definition mm_cdr : val := match forms_of mm_call with _ :: _ :: x :: _ => x | _ => VNil end.
Definition mm_cons : val := match forms_of mm_call with _ :: _ :: _ :: x :: _ => x | _ => VNil end.  (* (cons (f (car things)) init) *)
Definition mm_app : val := match forms_of mm_cons with _ :: x :: _ => x | _ => VNil end.           (* (f (car things)) *)

Example mmap_is_a_closure : exists ps b e, getv mmap_val = VFun false false ps b e pm.
Proof. vm_compute. eexists; eexists; eexists; reflexivity. Qed.

Lemma ev_mm_cdr fv x r acc d : d + 2 <= MAXD -> evals_to 4 mm_cdr (mm_env fv (VCons x r) acc) (d + 1) r.
Proof.
  intros Hd st0 g Hg.
  destruct (ev_native_call 2 mm_cdr (match forms_of mm_cdr with y :: _ => y | [] => VNil end)
              (match forms_of mm_cdr with _ :: l => l | [] => [] end) [VCons x r] (s "cdr") cdr_native (mm_env fv (VCons x r) acc) (d + 1)
              ltac:(lia) ltac:(lia) eq_refl eq_refl) with (st0 := st0) (g := g) as (st1 & Hg1 & He); try exact Hg.
  - apply (ev_global _ (s "cdr")); [lia|reflexivity|reflexivity|reflexivity|reflexivity].
  - reflexivity.
  - reflexivity.
  - repeat constructor. arg_local.
  - exists st1. split; [|exact Hg1]. etransitivity; [exact He|]. reflexivity.
Qed.

Section Map.
Variables (fv : val) (g : val -> val) (K : nat).
Hypothesis HK : (2 <= K)%nat.
(* what the application (f (car things)) evaluates to when the first element is x *)
Hypothesis Happ : forall x r acc d, d + 4 <= MAXD -> evals_to K mm_app (mm_env fv (VCons x r) acc) (d + 1 + 1) (g x).

Lemma ev_mm_cons x r acc d : d + 4 <= MAXD -> evals_to (S (S K)) mm_cons (mm_env fv (VCons x r) acc) (d + 1) (VCons (g x) acc).
Proof.
  intros Hd st0 g0 Hg.
  destruct (ev_native_call K mm_cons (match forms_of mm_cons with y :: _ => y | [] => VNil end)
              (match forms_of mm_cons with _ :: l => l | [] => [] end) [g x; acc] (s "cons") cons_native_v (mm_env fv (VCons x r) acc) (d + 1)
              ltac:(lia) HK eq_refl eq_refl) with (st0 := st0) (g := g0) as (st1 & Hg1 & He); try exact Hg.
  - apply (evals_to_mono 2 K); [exact HK|]. apply (ev_global _ (s "cons")); [lia|reflexivity|reflexivity|reflexivity|reflexivity].
  - reflexivity.
  - reflexivity.
  - constructor; [apply Happ; exact Hd|]. constructor; [apply (evals_to_mono 2 K); [exact HK|]; arg_local|constructor].
  - exists st1. split; [|exact Hg1]. etransitivity; [exact He|]. destruct (K + g0)%nat eqn:E; [lia|]. reflexivity.
Qed.

(* the accumulating loop: results are consed in front of [acc], in reverse order, at the SAME depth *)
Lemma mmap_runs tl : is_nil tl = true -> forall xs acc g0 st d, has_prelude st -> d + 4 <= MAXD ->
  exists st', eval_loop (2 * List.length xs + K + 6 + g0) st mm_body (mm_env fv (onto xs tl) acc) pm d
              = (st', ROk (fold_left (fun a x => VCons (g x) a) xs acc)) /\ has_prelude st'.
Proof.
  intros Htl. induction xs as [|x xs IH]; intros acc g0 st d Hg Hd.
  - cbn [onto].
    destruct (loop_if 2 (K + 3 + g0) st mm_body (mm_env fv tl acc) d mm_if_head mm_cond mm_call mm_else tl Hg eq_refl eq_refl eq_refl eq_refl)
      as (st1 & Hg1 & Hif); [arg_local|].
    destruct (loop_local (K + 4 + g0) st1 mm_else (Named (s "init")) acc (mm_env fv tl acc) d Hg1 eq_refl eq_refl eq_refl) as (st2 & He & Hg2).
    exists st2. split; [|exact Hg2].
    replace (2 * List.length (@nil val) + K + 6 + g0)%nat with (S (2 + (K + 3 + g0))) by (cbn [List.length]; lia). rewrite Hif. rewrite Htl.
    replace (2 + (K + 3 + g0))%nat with (S (K + 4 + g0)) by lia. exact He.
  - cbn [onto]. set (L := VCons x (onto xs tl)).
    destruct (loop_if 2 (2 * List.length xs + K + 5 + g0) st mm_body (mm_env fv L acc) d mm_if_head mm_cond mm_call mm_else L Hg eq_refl eq_refl eq_refl eq_refl)
      as (st1 & Hg1 & Hif); [arg_local|].
    destruct (loop_closure (K + 4) (2 * List.length xs + 2 + g0) st1 mm_call (mm_env fv L acc) d (match forms_of mm_call with y :: _ => y | _ => VNil end)
                [mm_f; mm_cdr; mm_cons] [fv; onto xs tl; VCons (g x) acc] mmap_val false false
                (let '(ps, _, _, _) := mmap_parts in ps) mm_body (let '(_, _, e, _) := mmap_parts in e) pm
                (mm_env fv (onto xs tl) (VCons (g x) acc)) Hg1 eq_refl eq_refl) as (st2 & Hg2 & Hcall).
    + apply (evals_to_mono 2 (K + 4)); [lia|]. apply (ev_global _ (s "-map")); [lia|reflexivity|reflexivity|reflexivity|reflexivity].
    + reflexivity.
    + constructor; [apply (evals_to_mono 2 (K + 4)); [lia|]; arg_local|].
      constructor; [apply (evals_to_mono 4 (K + 4)); [lia|]; apply ev_mm_cdr; lia|].
      constructor; [apply (evals_to_mono (S (S K)) (K + 4)); [lia|]; apply ev_mm_cons; exact Hd|constructor].
    + reflexivity.
    + destruct (IH (VCons (g x) acc) g0 st2 d Hg2 Hd) as (st3 & Hrec & Hg3).
      exists st3. split; [|exact Hg3].
      replace (2 * List.length (x :: xs) + K + 6 + g0)%nat with (S (2 + (2 * List.length xs + K + 5 + g0))) by (cbn [List.length]; lia).
      rewrite Hif. cbn [is_nil getv L].
      replace (2 + (2 * List.length xs + K + 5 + g0))%nat with (S (K + 4 + (2 * List.length xs + 2 + g0))) by lia.
      rewrite Hcall.
      replace (K + 4 + (2 * List.length xs + 2 + g0))%nat with (2 * List.length xs + K + 6 + g0)%nat by lia.
      exact Hrec.
Qed.

(* ---- map = (reverse (-map f things nil)) ---- *)
Definition map_val : val := match prelude_global (s "map") with Some v => v | None => VNil end.
Definition map_parts := match getv map_val with VFun _ _ ps b e em => (ps, b, e, em) | _ => ([], VNil, VNil, []) end.
Definition mp_body : val := let '(_, b, _, _) := map_parts in b.
Definition mp_env (f things : val) : val :=
  let '(ps, _, e, _) := map_parts in
  match pair_params (s "#<function>") ps false [f; things] e 0 2 with inl env => env | inr _ => VNil end.
Definition mp_inner : val := match forms_of mp_body with _ :: x :: _ => x | _ => VNil end.    (* (-map f things nil) *)

(* the operand (-map f things nil): a closure call that is not in tail position *)
Lemma ev_inner tl xs d : is_nil tl = true -> d + 5 <= MAXD ->
  evals_to (2 * List.length xs + K + 12) mp_inner (mp_env fv (onto xs tl)) (d + 1) (fold_left (fun a x => VCons (g x) a) xs nil_value).
Proof.
  intros Htl Hd st0 g0 Hg.
  replace (2 * List.length xs + K + 12 + g0)%nat with (S (S (4 + (2 * List.length xs + K + 6 + g0)))) by lia.
  rewrite R_entry, (dok (d + 1) 1 ltac:(lia)).
  destruct (loop_closure 4 (2 * List.length xs + K + 6 + g0) st0 mp_inner (mp_env fv (onto xs tl)) (d + 1) (match forms_of mp_inner with y :: _ => y | _ => VNil end)
              (match forms_of mp_inner with _ :: l => l | _ => [] end) [fv; onto xs tl; nil_value] mmap_val false false
              (let '(ps, _, _, _) := mmap_parts in ps) mm_body (let '(_, _, e, _) := mmap_parts in e) pm
              (mm_env fv (onto xs tl) nil_value) Hg eq_refl eq_refl) as (st1 & Hg1 & Hcall).
  - apply (evals_to_mono 2 4); [lia|]. apply (ev_global _ (s "-map")); [lia|reflexivity|reflexivity|reflexivity|reflexivity].
  - reflexivity.
  - constructor; [apply (evals_to_mono 2 4); [lia|]; arg_local|]. constructor; [apply (evals_to_mono 2 4); [lia|]; arg_local|].
    constructor; [apply (evals_to_mono 2 4); [lia|]; arg_global|constructor].
  - reflexivity.
  - destruct (mmap_runs tl Htl xs nil_value (4 + g0)%nat st1 (d + 1) Hg1 ltac:(lia)) as (st2 & Hrun & Hg2).
    exists st2. split; [|exact Hg2]. rewrite Hcall.
    replace (4 + (2 * List.length xs + K + 6 + g0))%nat with (2 * List.length xs + K + 6 + (4 + g0))%nat by lia. exact Hrun.
Qed.

Lemma mapped_is_onto : forall xs acc, fold_left (fun a x => VCons (g x) a) xs acc = onto (rev (map g xs)) acc.
Proof.
  induction xs as [|x xs IH]; intros acc; cbn [fold_left map rev]; [reflexivity|].
  rewrite IH. clear IH. induction (rev (map g xs)) as [|y l IHl]; cbn; [reflexivity|rewrite IHl; reflexivity].
Qed.

(* map: the results in order, for every list; the tail call to reverse and the loops cost no depth *)
Theorem map_runs tl xs st d : is_nil tl = true -> has_prelude st -> d + 5 <= MAXD ->
  exists fuel st' r, eval_loop fuel st mp_body (mp_env fv (onto xs tl)) pm d = (st', ROk r) /\ has_prelude st' /\
                     strip r = strip (vec_to_list (map g xs)).
Proof.
  intros Htl Hg Hd.
  set (M := fold_left (fun a x => VCons (g x) a) xs nil_value).
  set (KK := (2 * List.length xs + K + 12)%nat).
  destruct (loop_closure KK (2 * List.length xs + 13) st mp_body (mp_env fv (onto xs tl)) d (match forms_of mp_body with y :: _ => y | _ => VNil end)
              [mp_inner] [M] reverse_val false false
              (let '(ps, _, _, _) := reverse_parts in ps) rv_body (let '(_, _, e, _) := reverse_parts in e) pm
              (rv_env M) Hg eq_refl eq_refl) as (st1 & Hg1 & Hcall).
  - apply (evals_to_mono 2 KK); [unfold KK; lia|]. apply (ev_global _ (s "reverse")); [lia|reflexivity|reflexivity|reflexivity|reflexivity].
  - reflexivity.
  - constructor; [apply ev_inner; [exact Htl|exact Hd]|constructor].
  - reflexivity.
  - unfold M in *. rewrite mapped_is_onto in *.
    assert (Hnil : is_nil nil_value = true) by reflexivity.
    destruct (reverse_runs (rev (map g xs)) nil_value KK st1 d Hnil Hg1 ltac:(lia)) as (st2 & r & Hrun & Hg2 & Hr).
    exists (S (KK + (2 * List.length xs + 13))), st2, r. split; [|split; [exact Hg2|]].
    + rewrite Hcall. replace (KK + (2 * List.length xs + 13))%nat with (2 * List.length (rev (map g xs)) + 13 + KK)%nat by (rewrite rev_length, map_length; lia).
      exact Hrun.
    + rewrite Hr, strip_fold_cons, rev_involutive. reflexivity.
Qed.
End Map.

(* an instance (non-vacuity): mapping the primitive `list` over any list *)
Lemma app_list_native x r acc d : d + 4 <= MAXD ->
  evals_to 6 mm_app (mm_env list_native (VCons x r) acc) (d + 1 + 1) (vec_to_list [x]).
Proof.
  intros Hd st0 g0 Hg.
  set (E := mm_env list_native (VCons x r) acc).
  set (car_form := match forms_of mm_app with _ :: y :: _ => y | _ => VNil end).
  assert (Hcar : evals_to 4 car_form E (d + 1 + 1 + 1) x).
  { intros st1 g1 Hg1.
    destruct (ev_native_call 2 car_form (match forms_of car_form with y :: _ => y | [] => VNil end)
                (match forms_of car_form with _ :: l => l | [] => [] end) [VCons x r] (s "car")
                (match get_global (mods prelude_state) (s "car") pm with GOk v => v | _ => VNil end) E (d + 1 + 1 + 1)
                ltac:(lia) ltac:(lia) eq_refl eq_refl) with (st0 := st1) (g := g1) as (st2 & Hg2 & He); try exact Hg1.
    - apply (ev_global _ (s "car")); [lia|reflexivity|reflexivity|reflexivity|reflexivity].
    - reflexivity.
    - reflexivity.
    - repeat constructor. arg_local.
    - exists st2. split; [|exact Hg2]. etransitivity; [exact He|]. reflexivity. }
  destruct (ev_native_call 4 mm_app (match forms_of mm_app with y :: _ => y | [] => VNil end)
              (match forms_of mm_app with _ :: l => l | [] => [] end) [x] (s "list") list_native E (d + 1 + 1)
              ltac:(lia) ltac:(lia) eq_refl eq_refl) with (st0 := st0) (g := g0) as (st1 & Hg1 & He); try exact Hg.
  - apply (evals_to_mono 2 4); [lia|]. arg_local.
  - reflexivity.
  - reflexivity.
  - constructor; [exact Hcar|constructor].
  - exists st1. split; [|exact Hg1]. etransitivity; [exact He|]. reflexivity.
Qed.

Example map_list_instance : forall xs st d, has_prelude st -> d + 5 <= MAXD ->
  exists fuel st' r, eval_loop fuel st mp_body (mp_env list_native (vec_to_list xs)) pm d = (st', ROk r) /\ has_prelude st' /\
                     strip r = strip (vec_to_list (map (fun x => vec_to_list [x]) xs)).
Proof.
  intros xs st d Hg Hd. rewrite <- onto_nil.
  exact (map_runs list_native (fun x => vec_to_list [x]) 6 ltac:(lia) app_list_native VNil xs st d eq_refl Hg Hd).
Qed.
