(* C06 - totality: where the model can panic (the sites transcribed from Rust panics) and why the
   evaluator's own data never reaches them. *)
From PL Require Import Eval.Eval Data.ArithProofs Data.ReaderProofs.
From Coq Require Import String Lia.
Local Open Scope string_scope.
Local Open Scope list_scope.
Local Open Scope N_scope.

(* ---------- environments: lookup is total on every value, and exact on association lists ---------- *)

(* a well-formed environment: a proper list of (symbol . value) pairs (metadata wrappers allowed
   where the Rust code looks through them) *)
Inductive wf_env : val -> Prop :=
| wf_nil : wf_env VNil
| wf_nil_meta m : wf_env (VMeta m VNil)
| wf_cons kv rest key v k : getv kv = VCons key v -> getv key = VSym k -> wf_env rest -> wf_env (VCons kv rest)
| wf_cons_meta m kv rest key v k : getv kv = VCons key v -> getv key = VSym k -> wf_env rest -> wf_env (VMeta m (VCons kv rest)).

(* the first binding of the symbol wins, and nothing else is consulted *)
Lemma lookup_first_binding kv rest key v k' k : getv kv = VCons key v -> getv key = VSym k' ->
  env_lookup (VCons kv rest) k = if sym_eqb k' k then LFound v else env_lookup rest k.
Proof. intros Hkv Hkey. cbn [env_lookup]. rewrite Hkv, Hkey. reflexivity. Qed.

(* hand-made environments (make-function, call-native-function) cannot crash it: anything that is
   not an association list binds nothing, a malformed entry is skipped *)
Lemma lookup_handmade k rest : env_lookup (VNum 5) k = LMissing /\ env_lookup (VSym (Named (s "e"))) k = LMissing /\
  env_lookup (VCons (VNum 1) rest) k = env_lookup rest k /\ env_lookup (VCons (VCons (VNum 1) (VNum 2)) rest) k = env_lookup rest k.
Proof. repeat split; reflexivity. Qed.

(* the environments the evaluator builds itself stay well formed *)
Definition symbols (ps : list val) : Prop := Forall (fun p => exists k, getv p = VSym k) ps.

Lemma wf_bind p a env : (exists k, getv p = VSym k) -> wf_env env -> wf_env (VCons (VCons p a) env).
Proof. intros [k Hk] H. eapply wf_cons; [reflexivity|exact Hk|exact H]. Qed.

Lemma pair_params_wf src : forall params rest args env i n env',
  symbols params -> wf_env env -> pair_params src params rest args env i n = inl env' -> wf_env env'.
Proof.
  induction params as [|p ps IH]; intros rest args env i n env' Hs Hw H.
  - destruct args; cbn [pair_params] in H; [injection H as <-; exact Hw|discriminate].
  - inversion Hs as [|p' ps' Hp Hps]; subst. destruct ps as [|p2 ps].
    + destruct rest.
      * destruct args; cbn [pair_params] in H; injection H as <-; apply wf_bind; assumption.
      * destruct args as [|a args]; cbn [pair_params] in H; [discriminate|].
        eapply (IH false args _ (S i) n env' Hps); [|exact H]. apply wf_bind; assumption.
    + destruct args as [|a args]; cbn [pair_params] in H; [discriminate|].
      eapply (IH rest args _ (S i) n env' Hps); [|exact H]. apply wf_bind; assumption.
Qed.

Lemma trap_env_wf sg env : wf_env env -> wf_env (VCons (VCons (vsym "*trapped-signal*") sg) env).
Proof. intros H. apply wf_bind; [eexists; reflexivity|exact H]. Qed.

(* ---------- arithmetic: the natives as written in the source never panic ---------- *)
Lemma arith_never_panics n x y a : in_i64 x = true -> in_i64 y = true -> impl_of n = Some a ->
  arith_eval a x y <> APanic /\ forall w, arith_eval a x y <> APanicOrWrap w.
Proof.
  intros Hx Hy Ha. rewrite (impl_meets_spec n x y a Hx Hy Ha).
  pose proof (spec_exact_or_signal n x y) as H. destruct (arith_spec n x y); split; try discriminate; try contradiction; intros; discriminate.
Qed.

(* ---------- send: the one primitive with an index panic ---------- *)
Lemma send_walk_total name : forall n l, (List.length l <= n)%nat -> forall site, send_walk name l <> RPanic site.
Proof.
  induction n as [|n IH]; intros l Hl site.
  - destruct l; [discriminate|cbn in Hl; lia].
  - destruct l as [|k [|v r]]; cbn [send_walk]; try discriminate.
    + destruct (getv k); discriminate.
    + destruct (getv k); try discriminate. apply IH. cbn in Hl. lia.
Qed.

Lemma send_is_walk st data d l : list_to_vec data = Some l -> simple_native st (s "send") [data] d = Some (st, send_walk (s "send") l).
Proof.
  intros Hl. unfold simple_native. cbn. rewrite Hl. reflexivity.
Qed.

Lemma send_never_panics st data d l : list_to_vec data = Some l ->
  exists r, simple_native st (s "send") [data] d = Some (st, r) /\ forall site, r <> RPanic site.
Proof. intros Hl. eexists. split; [apply send_is_walk; exact Hl|apply (send_walk_total _ (List.length l)); lia]. Qed.

(* an odd property list is an invalid-plist signal (the case that used to index past the end) *)
Lemma send_odd_signals st d : simple_native st (s "send") [VCons (vsym "a") VNil] d =
  Some (st, RSig (make_error "invalid-plist" (s "send") [("symbol", vsym "data")])).
Proof. reflexivity. Qed.

(* ---------- read: every start position ---------- *)
Lemma read_result_never_panics input source line col site : read_result input source line col <> RPanic site.
Proof.
  unfold read_result. destruct ((line <? 0)%Z || (col <? 1)%Z); [discriminate|].
  destruct (match list_to_string source with Some p => Some (SrcFile p) | None => _ end) as [k|]; [|discriminate].
  destruct (val_chars input) as [t inv].
  pose proof (read_text_never_panics k t inv (Z.to_N line) (Z.to_N col)) as H.
  destruct (read_text k t inv (Z.to_N line) (Z.to_N col)) as [[[v rest] [rl rc]]|e]; [discriminate|].
  destruct e as [| | |msg [el ec] rest rl rc|site']; try discriminate. contradiction.
Qed.

Lemma read_bad_position_signals input source : read_result input source 1 0 = RSig (make_error "wrong-arg-value" (s "read") []).
Proof. reflexivity. Qed.
