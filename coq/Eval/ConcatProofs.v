(* C16: append and concat.  append is the primitive: on two lists it is list concatenation.  concat,
   as loaded from the generated prelude text, concatenates EVERY list of lists (any number of lists of
   any lengths); it recurses in an operand position, so it needs one level of recursion depth per list
   (not per element) - the premise says so. *)
From PL Require Import Eval.PreludeState Eval.EvalRules Eval.SemProofs Eval.PreludeProofs Eval.CatchProofs Eval.LengthProofs Eval.FoldProofs Eval.MacroProofs2 Eval.SumProofs Eval.CompareProofs Eval.MinusProofs.
From PL Require Import Data.EqualProofs.
From Coq Require Import String Lia ZArith.
Local Open Scope string_scope.
Local Open Scope list_scope.
Local Open Scope N_scope.

Theorem append_call f st a b la lb env d : list_to_vec a = Some la -> list_to_vec b = Some lb ->
  call_native (S f) st (s "append") [a; b] env d = (st, ROk (vec_to_list (la ++ lb))).
Proof. intros Ha Hb. cbn. rewrite Ha, Hb. reflexivity. Qed.

Definition co_val : val := match prelude_global (s "concat") with Some v => v | None => VNil end.
Definition co_parts := match getv co_val with VFun _ _ ps b e em => (ps, b, e, em) | _ => ([], VNil, VNil, []) end.
Definition co_body : val := let '(_, b, _, _) := co_parts in b.
Definition co_env (lists : val) : val :=
  let '(ps, _, e, _) := co_parts in
  match pair_params (s "#<function>") ps false [lists] e 0 1 with inl env => env | inr _ => VNil end.
Definition co_outer : val := nth_form 0 co_body.       (* (lambda (f) (f f lists)) *)
Definition co_inner : val := nth_form 1 co_body.       (* (lambda (f xs) (if xs (append (car xs) (f f (cdr xs))) nil)) *)
Definition closure_of (form env : val) : val :=
  match make_function_internal (match forms_of form with _ :: r => r | [] => [] end) env pm "lambda" false with ROk v => v | _ => VNil end.
Definition fparams (c : val) : list val := match c with VFun _ _ ps _ _ _ => ps | _ => [] end.
Definition fbody (c : val) : val := match c with VFun _ _ _ b _ _ => b | _ => VNil end.
Definition co_G (lists : val) : val := closure_of co_outer (co_env lists).
Definition co_F (lists : val) : val := closure_of co_inner (co_env lists).
Definition co_E1 (lists : val) : val :=
  match pair_params (s "#<function>") (fparams (co_G lists)) false [co_F lists] (co_env lists) 0 1 with inl e => e | inr _ => VNil end.
Definition co_EF (lists xs : val) : val :=
  match pair_params (s "#<function>") (fparams (co_F lists)) false [co_F lists; xs] (co_env lists) 0 2 with inl e => e | inr _ => VNil end.
Definition co_fb (lists : val) : val := fbody (co_F lists).
Definition co_app (lists : val) : val := nth_form 2 (co_fb lists).     (* (append (car xs) (f f (cdr xs))) *)
Definition co_nil (lists : val) : val := nth_form 3 (co_fb lists).
Definition co_car (lists : val) : val := nth_form 1 (co_app lists).
Definition co_rec (lists : val) : val := nth_form 2 (co_app lists).     (* (f f (cdr xs)) *)
Definition co_cdr (lists : val) : val := nth_form 2 (co_rec lists).

Example concat_is_a_rest_closure : exists ps b e, getv co_val = VFun false true ps b e pm /\ List.length ps = 1%nat.
Proof. vm_compute. eexists; eexists; eexists; split; reflexivity. Qed.

Lemma concat_call_env src vals i n : (let '(ps, _, e, _) := co_parts in pair_params src ps true vals e i n) = inl (co_env (vec_to_list vals)).
Proof.
  assert (H : exists p e, co_parts = ([p], co_body, e, pm)) by (vm_compute; eexists; eexists; reflexivity).
  destruct H as (p & e & H). unfold co_env. rewrite H. rewrite pair_rest. reflexivity.
Qed.

(* the value concat returns *)
Definition lv (x : val) : list val := match list_to_vec x with Some l => l | None => [] end.
Fixpoint cres (vals : list val) : val :=
  match vals with [] => nil_value | v :: vs => vec_to_list (lv v ++ lv (cres vs)) end.

Lemma list_to_vec_vtl' l : list_to_vec (vec_to_list l) = Some l.
Proof. apply list_to_vec_vec_to_list. auto. Qed.

Lemma cres_spec : forall vals ls, Forall2 (fun v l => list_to_vec v = Some l) vals ls -> list_to_vec (cres vals) = Some (List.concat ls).
Proof.
  induction 1 as [|v l vals ls Hv _ IH]; [reflexivity|].
  cbn [cres List.concat]. rewrite list_to_vec_vtl'. unfold lv. rewrite Hv, IH. reflexivity.
Qed.

Definition KF (n : nat) : nat := (9 * n + 3)%nat.

Lemma concat_rec lists : forall vals ls, Forall2 (fun v l => list_to_vec v = Some l) vals ls ->
  forall d g st, d + N.of_nat (List.length vals) + 3 <= MAXD -> has_prelude st ->
  exists st', eval_loop (KF (List.length vals) + g) st (co_fb lists) (co_EF lists (vec_to_list vals)) pm d = (st', ROk (cres vals)) /\ has_prelude st'.
Proof.
  induction 1 as [|v l vals ls Hv HF IH]; intros d g st Hd Hg.
  - set (E := co_EF lists (vec_to_list [])).
    destruct (loop_if 2 g st (co_fb lists) E d (nth_form 0 (co_fb lists)) (nth_form 1 (co_fb lists)) (co_app lists) (co_nil lists) VNil Hg eq_refl eq_refl eq_refl eq_refl)
      as (st1 & Hg1 & Hif); [arg_local|].
    destruct (loop_global (1 + g) st1 (co_nil lists) (s "nil") nil_value E d Hg1 eq_refl eq_refl eq_refl eq_refl) as (st2 & He & Hg2).
    exists st2. split; [|exact Hg2].
    change (KF (List.length (@nil val)) + g)%nat with (S (2 + g)). rewrite Hif. exact He.
  - set (xs := vec_to_list (v :: vals)). set (rest := vec_to_list vals). set (E := co_EF lists xs).
    set (n := List.length vals) in *. cbn [List.length] in Hd.
    assert (Hcar : evals_to 4 (co_car lists) E (d + 1) v).
    { intros st0 g0 Hg0.
      destruct (ev_native_call 2 (co_car lists) (nth_form 0 (co_car lists)) (match forms_of (co_car lists) with _ :: l => l | [] => [] end) [xs] (s "car") car_native_v E (d + 1)
                  ltac:(lia) ltac:(lia) eq_refl eq_refl) with (st0 := st0) (g := g0) as (st2 & Hg2 & He); try exact Hg0.
      - apply (ev_global _ (s "car")); [lia|reflexivity|reflexivity|reflexivity|reflexivity].
      - reflexivity.
      - reflexivity.
      - repeat constructor. arg_local.
      - exists st2. split; [|exact Hg2]. etransitivity; [exact He|]. reflexivity. }
    assert (Hcdr : evals_to 4 (co_cdr lists) E (d + 1 + 1) rest).
    { intros st0 g0 Hg0.
      destruct (ev_native_call 2 (co_cdr lists) (nth_form 0 (co_cdr lists)) (match forms_of (co_cdr lists) with _ :: l => l | [] => [] end) [xs] (s "cdr") cdr_native E (d + 1 + 1)
                  ltac:(lia) ltac:(lia) eq_refl eq_refl) with (st0 := st0) (g := g0) as (st2 & Hg2 & He); try exact Hg0.
      - apply (ev_global _ (s "cdr")); [lia|reflexivity|reflexivity|reflexivity|reflexivity].
      - reflexivity.
      - reflexivity.
      - repeat constructor. arg_local.
      - exists st2. split; [|exact Hg2]. etransitivity; [exact He|]. reflexivity. }
    (* the recursive call (f f (cdr xs)), an operand of append: one level deeper *)
    assert (Hrec : evals_to (KF n + 6) (co_rec lists) E (d + 1) (cres vals)).
    { intros st0 g0 Hg0.
      replace (KF n + 6 + g0)%nat with (S (S (4 + (KF n + g0)))) by lia.
      rewrite R_entry, (dok (d + 1) 1 ltac:(lia)).
      destruct (loop_closure 4 (KF n + g0) st0 (co_rec lists) E (d + 1) (nth_form 0 (co_rec lists))
                  (match forms_of (co_rec lists) with _ :: l => l | _ => [] end) [co_F lists; rest] (co_F lists) false false
                  (fparams (co_F lists)) (co_fb lists) (co_env lists) pm (co_EF lists rest) Hg0 eq_refl eq_refl) as (st1 & Hg1 & Hcall).
      - apply (evals_to_mono 2 4); [lia|]. arg_local.
      - reflexivity.
      - constructor; [apply (evals_to_mono 2 4); [lia|]; arg_local|]. constructor; [exact Hcdr|constructor].
      - reflexivity.
      - destruct (IH (d + 1) (4 + g0)%nat st1 ltac:(fold n; lia) Hg1) as (st2 & Hrun & Hg2).
        exists st2. split; [|exact Hg2]. rewrite Hcall.
        replace (4 + (KF n + g0))%nat with (KF n + (4 + g0))%nat by lia. exact Hrun. }
    destruct (loop_if 2 (KF n + 6 + g) st (co_fb lists) E d (nth_form 0 (co_fb lists)) (nth_form 1 (co_fb lists)) (co_app lists) (co_nil lists) xs Hg eq_refl eq_refl eq_refl eq_refl)
      as (st1 & Hg1 & Hif); [arg_local|].
    destruct (loop_native_call (KF n + 6) (1 + g) st1 (co_app lists) E d (nth_form 0 (co_app lists))
                (match forms_of (co_app lists) with _ :: l => l | _ => [] end) [v; cres vals] (s "append")
                (match get_global (mods prelude_state) (s "append") pm with GOk x => x | _ => VNil end) Hg1 ltac:(lia) eq_refl eq_refl)
      as (st2 & Hg2 & Hnat).
    + apply (evals_to_mono 2 (KF n + 6)); [unfold KF; lia|]. apply (ev_global _ (s "append")); [lia|reflexivity|reflexivity|reflexivity|reflexivity].
    + reflexivity.
    + reflexivity.
    + constructor; [apply (evals_to_mono 4 (KF n + 6)); [unfold KF; lia|]; exact Hcar|]. constructor; [exact Hrec|constructor].
    + exists st2. split; [|exact Hg2].
      change (List.length (v :: vals)) with (S n).
      replace (KF (S n) + g)%nat with (S (2 + (KF n + 6 + g))) by (unfold KF; lia). rewrite Hif.
      cbn [is_nil getv xs vec_to_list].
      replace (2 + (KF n + 6 + g))%nat with (S (KF n + 6 + (1 + g))) by lia. rewrite Hnat.
      replace (KF n + 6 + (1 + g))%nat with (S (KF n + 6 + g)) by lia.
      cbn [cres]. unfold lv. rewrite Hv, (cres_spec vals ls HF). apply append_call; [exact Hv|apply (cres_spec vals ls HF)].
Qed.

(* concat on EVERY list of lists: ((lambda (f) (f f lists)) (lambda (f xs) ...)) - both calls are tail calls,
   the recursion inside costs one level of depth per list *)
Theorem concat_runs vals ls st d : Forall2 (fun v l => list_to_vec v = Some l) vals ls ->
  has_prelude st -> d + N.of_nat (List.length vals) + 3 <= MAXD ->
  exists fuel st' r, eval_loop fuel st co_body (co_env (vec_to_list vals)) pm d = (st', ROk r) /\ has_prelude st' /\
                     list_to_vec r = Some (List.concat ls).
Proof.
  intros HF Hg Hd.
  set (lists := vec_to_list vals). set (E0 := co_env lists).
  set (n := List.length vals) in *.
  assert (Hinner : evals_to 2 co_inner E0 (d + 1) (co_F lists)).
  { eapply ev_lambda; [lia|reflexivity|reflexivity|reflexivity]. }
  destruct (loop_closure 2 (KF n + 6) st co_body E0 d co_outer [co_inner] [co_F lists] (co_G lists) false false
              (fparams (co_G lists)) (fbody (co_G lists)) E0 pm (co_E1 lists) Hg eq_refl eq_refl) as (st1 & Hg1 & Hcall1).
  - eapply ev_lambda; [lia|reflexivity|reflexivity|reflexivity].
  - reflexivity.
  - constructor; [exact Hinner|constructor].
  - reflexivity.
  - set (call := fbody (co_G lists)) in *.
    destruct (loop_closure 2 (KF n + 5) st1 call (co_E1 lists) d (nth_form 0 call)
                (match forms_of call with _ :: l => l | _ => [] end) [co_F lists; lists] (co_F lists) false false
                (fparams (co_F lists)) (co_fb lists) E0 pm (co_EF lists lists) Hg1 eq_refl eq_refl) as (st2 & Hg2 & Hcall2).
    + arg_local.
    + reflexivity.
    + constructor; [arg_local|]. constructor; [arg_local|constructor].
    + reflexivity.
    + destruct (concat_rec lists vals ls HF d 7%nat st2 ltac:(fold n; lia) Hg2) as (st3 & Hrun & Hg3).
      exists (S (2 + (KF n + 6))), st3, (cres vals). split; [|split; [exact Hg3|apply cres_spec; exact HF]].
      rewrite Hcall1. replace (2 + (KF n + 6))%nat with (S (2 + (KF n + 5))) by lia. rewrite Hcall2.
      replace (2 + (KF n + 5))%nat with (KF n + 7)%nat by lia. exact Hrun.
Qed.

(* non-vacuity *)
Example concat_premise_example : Forall2 (fun v l => list_to_vec v = Some l) [vec_to_list [VNum 1; VNum 2]; VNil; string_to_list (s "ab")] [[VNum 1; VNum 2]; []; [VChar 97; VChar 98]].
Proof. repeat constructor. Qed.
