(* C16: get-property-safe, the function every catch clause reads the kind of a signal with:
   for EVERY key and EVERY value used as property list it returns what `.` returns when `.`
   returns a value, and nil when `.` signals (not a list, not a property list, odd length, ...). *)
From PL Require Import Eval.PreludeState Eval.EvalRules Eval.SemProofs Eval.PreludeProofs.
From Coq Require Import String Lia.
Local Open Scope string_scope.
Local Open Scope list_scope.
Local Open Scope N_scope.

(* what the primitive `.` answers (it neither reads nor changes the interpreter state) *)
Definition dot_res (pl key : val) : res :=
  match validate (s ".") [TList; TSymbol] [pl; key] with
  | Some er => RSig er
  | None => match list_to_vec pl, getv key with
            | Some l, VSym k => match get_property k l with
                                | Some v => ROk v
                                | None => RSig (make_error "wrong-plist-format" (s ".") [])
                                end
            | _, _ => RPanic "model: argument shape after validation"
            end
  end.

Lemma dot_call f st pl key env d : call_native (S f) st (s ".") [pl; key] env d = (st, dot_res pl key).
Proof.
  unfold dot_res. cbn.
  destruct (extended_get_type pl); try reflexivity; destruct (getv key); try reflexivity;
    destruct (list_to_vec pl); try reflexivity; destruct (get_property _ _); reflexivity.
Qed.

(* a trap form evaluates to a trap object, without evaluating either body *)
Lemma ev_trap_form e q nb tb env d : d <= MAXD -> list_to_vec e = Some [q; nb; tb] ->
  is_sym q (s "lambda") = false -> is_sym q (s "quote") = false -> is_sym q (s "if") = false -> is_sym q (s "trap") = true ->
  evals_to 2 e env d (VTrap nb tb).
Proof.
  intros Hd Hl H1 H2 H3 H4 st0 g Hg. destruct (poll_has st0 Hg) as (st' & Hp & Hg').
  exists st'. split; [|exact Hg']. change (2 + g)%nat with (S (S g)). rewrite R_entry, (dok d 0 ltac:(lia)).
  eapply R_trap_form; eassumption.
Qed.

(* the application of a native (other than eval) whose operator and operands evaluate: the call *)
Lemma ev_native_call k e head args vals name op env d : d + 1 <= MAXD -> (2 <= k)%nat ->
  list_to_vec e = Some (head :: args) -> special_form head = false ->
  evals_to k head env (d + 1) op -> getv op = VNative name -> text_eqb name (s "eval") = false ->
  Forall2 (fun a v => evals_to k a env (d + 1) v) args vals ->
  forall st0 g, has_prelude st0 -> exists st1, has_prelude st1 /\
    eval_internal (S (S k) + g) st0 e env pm d = call_native (k + g) st1 name vals env (d + 1).
Proof.
  intros Hd Hk Hl Hs Hop Hgo Hne HF st0 g Hg.
  destruct (poll_has st0 Hg) as (st1 & Hp & Hg1).
  change (S (S k) + g)%nat with (S (S (k + g))). rewrite R_entry, (dok d 1 Hd).
  destruct (Hop st1 g Hg1) as (st2 & Ho & Hg2).
  destruct (eval_args_all k env d args vals st2 g [] Hg2 HF) as (st3 & Ha & Hg3). cbn [rev app] in Ha.
  exists st3. split; [exact Hg3|].
  exact (R_app_native (k + g) st0 st1 e env pm d Hp head args Hl Hs st2 op name st3 vals Ho Hgo Hne Ha).
Qed.

Definition dot_native : val := match get_global (mods prelude_state) (s ".") pm with GOk v => v | _ => VNil end.
Definition eval_native : val := match get_global (mods prelude_state) (s "eval") pm with GOk v => v | _ => VNil end.

Definition gps_statement (key pl : val) (expected : val) : Prop :=
  exists restp params body cenv cmod,
    option_map getv (prelude_global (s "get-property-safe")) = Some (VFun false restp params body cenv cmod) /\
    exists newenv, pair_params (s "#<function>") params restp [key; pl] cenv 0 2 = inl newenv /\
    forall st d, has_prelude st -> d + 4 <= MAXD ->
    exists fuel st' r, eval_internal fuel st body newenv cmod d = (st', ROk r) /\ has_prelude st' /\ strip r = strip expected.

Lemma gps_common key pl :
  exists restp params body cenv cmod,
    option_map getv (prelude_global (s "get-property-safe")) = Some (VFun false restp params body cenv cmod) /\
    exists newenv, pair_params (s "#<function>") params restp [key; pl] cenv 0 2 = inl newenv /\
    forall st d, has_prelude st -> d + 4 <= MAXD ->
    exists nb tb st3, has_prelude st3 /\
      (* the body evaluates like the trap object it builds, whose normal body is the call of `.` *)
      eval_internal 12 st body newenv cmod d = eval_loop 10 st3 (VTrap nb tb) newenv pm d /\
      (forall st4 g, has_prelude st4 -> exists st5, has_prelude st5 /\
         eval_internal (4 + g) st4 nb newenv pm (d + 1) = (st5, dot_res pl key)) /\
      (forall sg, evals_to 2 tb (VCons (VCons (vsym "*trapped-signal*") sg) newenv) (d + 1) nil_value).
Proof.
  eexists; eexists; eexists; eexists; eexists; split; [vm_compute; reflexivity|].
  eexists; split; [reflexivity|].
  intros st d Hg Hd.
  match goal with |- exists nb tb st3, _ /\ eval_internal 12 st ?body ?env ?m d = _ /\ _ /\ _ => set (B := body); set (E := env) end.
  set (first := match forms_of B with x :: _ => x | [] => VNil end).
  set (tform := match forms_of B with _ :: x :: _ => x | _ => VNil end).
  set (nb := match forms_of tform with _ :: x :: _ => x | _ => VNil end).
  set (tb := match forms_of tform with _ :: _ :: x :: _ => x | _ => VNil end).
  exists nb, tb.
  destruct (poll_has st Hg) as (st1 & Hp1 & Hg1).
  assert (Hop : evals_to 2 first E (d + 1) eval_native).
  { apply (ev_global first (s "eval")); [lia|reflexivity|reflexivity|reflexivity|reflexivity]. }
  destruct (Hop st1 8%nat Hg1) as (st2 & Ho & Hg2).
  assert (Htf : evals_to 2 tform E (d + 1) (VTrap nb tb)).
  { eapply ev_trap_form; [lia|reflexivity|reflexivity|reflexivity|reflexivity|reflexivity]. }
  destruct (Htf st2 8%nat Hg2) as (st3 & Ht & Hg3).
  exists st3. split; [exact Hg3|]. split; [|split].
  - change 12%nat with (S (S 10)). rewrite R_entry, (dok d 4 Hd).
    apply (R_app_eval 10 st st1 B E pm d Hp1 first [tform] eq_refl eq_refl st2 eval_native st3 (VTrap nb tb) st3 (VTrap nb tb) Ho eq_refl).
    + rewrite (eval_args_cons_ok 10 E pm d st2 tform [] [] st3 (VTrap nb tb) Ht). reflexivity.
    + change 10%nat with (S 9). apply X_completely_fixpoint. change 9%nat with (S 8).
      apply X_atom; [apply (dok (d + 1 + 1) 2); lia|reflexivity|exact I].
  - intros st4 g Hg4.
    destruct (ev_native_call 2 nb (match forms_of nb with x :: _ => x | [] => VNil end)
                (match forms_of nb with _ :: r => r | [] => [] end) [pl; key] (s ".") dot_native E (d + 1)
                ltac:(lia) ltac:(lia) eq_refl eq_refl) with (st0 := st4) (g := g) as (st5 & Hg5 & He); try exact Hg4.
    + apply (ev_global _ (s ".")); [lia|reflexivity|reflexivity|reflexivity|reflexivity].
    + reflexivity.
    + reflexivity.
    + repeat constructor; [arg_local|arg_local].
    + exists st5. split; [exact Hg5|]. rewrite He. change (2 + g)%nat with (S (1 + g)). apply dot_call.
  - intros sg. apply (ev_global tb (s "nil")); [lia|reflexivity|reflexivity|reflexivity|reflexivity].
Qed.

(* `.` returns a value: get-property-safe returns that value *)
Theorem get_property_safe_value key pl v : dot_res pl key = ROk v -> gps_statement key pl v.
Proof.
  intros Hdot. destruct (gps_common key pl) as (restp & params & body & cenv & cmod & Hf & newenv & Hp & H).
  exists restp, params, body, cenv, cmod. split; [exact Hf|]. exists newenv. split; [exact Hp|].
  intros st d Hg Hd. destruct (H st d Hg Hd) as (nb & tb & st3 & Hg3 & Hbody & Hnb & _).
  destruct (poll_has st3 Hg3) as (st4 & Hp4 & Hg4).
  destruct (Hnb st4 5%nat Hg4) as (st5 & Hg5 & Hcall). rewrite Hdot in Hcall.
  exists 12%nat, st5, v. split; [|split; [exact Hg5|reflexivity]].
  rewrite Hbody. change 10%nat with (S 9).
  apply (R_trap_other 9 st3 st4 (VTrap nb tb) newenv pm d Hp4 nb tb st5 (ROk v) eq_refl eq_refl Hcall). intros sg; discriminate.
Qed.

(* `.` signals (the value is not a list, not a property list, of odd length, the key not a symbol):
   get-property-safe returns nil *)
Theorem get_property_safe_signal key pl sg : dot_res pl key = RSig sg -> gps_statement key pl nil_value.
Proof.
  intros Hdot. destruct (gps_common key pl) as (restp & params & body & cenv & cmod & Hf & newenv & Hp & H).
  exists restp, params, body, cenv, cmod. split; [exact Hf|]. exists newenv. split; [exact Hp|].
  intros st d Hg Hd. destruct (H st d Hg Hd) as (nb & tb & st3 & Hg3 & Hbody & Hnb & Htb).
  destruct (poll_has st3 Hg3) as (st4 & Hp4 & Hg4).
  destruct (Hnb st4 5%nat Hg4) as (st5 & Hg5 & Hcall). rewrite Hdot in Hcall.
  destruct (Htb sg st5 7%nat Hg5) as (st6 & Hnil & Hg6).
  exists 12%nat, st6, nil_value. split; [|split; [exact Hg6|reflexivity]].
  rewrite Hbody. change 10%nat with (S 9).
  rewrite (R_trap_sig 9 st3 st4 (VTrap nb tb) newenv pm d Hp4 nb tb st5 sg eq_refl eq_refl Hcall). exact Hnil.
Qed.

(* the two cases are all there is: `.` never panics, aborts or runs out of fuel *)
Lemma dot_res_cases pl key : (exists v, dot_res pl key = ROk v) \/ (exists sg, dot_res pl key = RSig sg) \/
  dot_res pl key = RPanic "model: argument shape after validation".
Proof.
  unfold dot_res. destruct (validate _ _ _); [right; left; eexists; reflexivity|].
  destruct (list_to_vec pl); [|right; right; reflexivity]. destruct (getv key); try (right; right; reflexivity).
  destruct (get_property _ _); [left|right; left]; eexists; reflexivity.
Qed.

(* non-vacuity: each case occurs *)
Example dot_value_example : dot_res (vec_to_list [vsym "kind"; vsym "k"]) (vsym "kind") = ROk (vsym "k").
Proof. reflexivity. Qed.
Example dot_signal_examples :
  (exists sg, dot_res (vec_to_list [VNum 1; VNum 2; VNum 3]) (vsym "kind") = RSig sg) /\
  (exists sg, dot_res (vec_to_list [vsym "kind"]) (vsym "kind") = RSig sg) /\ (exists sg, dot_res (VNum 5) (vsym "kind") = RSig sg).
Proof. repeat split; eexists; reflexivity. Qed.
