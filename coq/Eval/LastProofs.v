(* C16: last, for EVERY non-empty list. *)
From PL Require Import Eval.PreludeState Eval.EvalRules Eval.SemProofs Eval.PreludeProofs Eval.CatchProofs Eval.LengthProofs Eval.FoldProofs Eval.ZipProofs.
From Coq Require Import String Lia ZArith.
Local Open Scope string_scope.
Local Open Scope list_scope.
Local Open Scope N_scope.

Definition last_val : val := match prelude_global (s "last") with Some v => v | None => VNil end.
Definition last_parts := match getv last_val with VFun _ _ ps b e em => (ps, b, e, em) | _ => ([], VNil, VNil, []) end.
Definition ls_body : val := let '(_, b, _, _) := last_parts in b.
Definition ls_env (things : val) : val :=
  let '(ps, _, e, _) := last_parts in
  match pair_params (s "#<function>") ps false [things] e 0 1 with inl env => env | inr _ => VNil end.
Definition ls_if1 : val := match forms_of ls_body with x :: _ => x | _ => VNil end.
Definition ls_c1 : val := match forms_of ls_body with _ :: x :: _ => x | _ => VNil end.
Definition ls_inner : val := match forms_of ls_body with _ :: _ :: x :: _ => x | _ => VNil end.   (* (if (cdr things) (last (cdr things)) (car things)) *)
Definition ls_sig : val := match forms_of ls_body with _ :: _ :: _ :: x :: _ => x | _ => VNil end.
Definition ls_if2 : val := match forms_of ls_inner with x :: _ => x | _ => VNil end.
Definition ls_c2 : val := match forms_of ls_inner with _ :: x :: _ => x | _ => VNil end.          (* (cdr things) *)
Definition ls_call : val := match forms_of ls_inner with _ :: _ :: x :: _ => x | _ => VNil end.   (* (last (cdr things)) *)
Definition ls_car : val := match forms_of ls_inner with _ :: _ :: _ :: x :: _ => x | _ => VNil end. (* (car things) *)
Definition ls_cdr2 : val := match forms_of ls_call with _ :: x :: _ => x | _ => VNil end.

Example last_is_a_closure : exists ps b e, getv last_val = VFun false false ps b e pm.
Proof. vm_compute. eexists; eexists; eexists; reflexivity. Qed.

Section Last.
Variables (x r : val).
Let E := ls_env (VCons x r).
Lemma ev_ls_c2 d : d + 2 <= MAXD -> evals_to 4 ls_c2 E (d + 1) r.
Proof. intros Hd. prim1 ls_c2 "cdr" cdr_native (VCons x r). Qed.
Lemma ev_ls_cdr2 d : d + 2 <= MAXD -> evals_to 4 ls_cdr2 E (d + 1) r.
Proof. intros Hd. prim1 ls_cdr2 "cdr" cdr_native (VCons x r). Qed.
End Last.

Lemma last_default {A} : forall (l : list A) a d1 d2, List.last (a :: l) d1 = List.last (a :: l) d2.
Proof. induction l as [|b l IH]; intros a d1 d2; [reflexivity|]. cbn [List.last]. apply (IH b). Qed.

(* the last element of every non-empty list, in a loop at the depth of the call *)
Lemma last_runs tl : is_nil tl = true -> forall xs x g st d, has_prelude st -> d + 3 <= MAXD ->
  exists st', eval_loop (3 * List.length xs + 12 + g) st ls_body (ls_env (onto (x :: xs) tl)) pm d
              = (st', ROk (List.last (x :: xs) x)) /\ has_prelude st'.
Proof.
  intros Htl. induction xs as [|y xs IH]; intros x g st d Hg Hd.
  - (* one element: (cdr things) is nil, the result is (car things) *)
    cbn [onto List.last]. set (L := VCons x tl).
    destruct (loop_if 2 (9 + g) st ls_body (ls_env L) d ls_if1 ls_c1 ls_inner ls_sig L Hg eq_refl eq_refl eq_refl eq_refl) as (st1 & Hg1 & Hif); [arg_local|].
    destruct (loop_if 4 (6 + g) st1 ls_inner (ls_env L) d ls_if2 ls_c2 ls_call ls_car tl Hg1 eq_refl eq_refl eq_refl eq_refl) as (st2 & Hg2 & Hif2); [apply ev_ls_c2; lia|].
    destruct (loop_native_call 2 (7 + g) st2 ls_car (ls_env L) d (match forms_of ls_car with z :: _ => z | _ => VNil end)
                (match forms_of ls_car with _ :: l => l | _ => [] end) [L] (s "car") car_native_v Hg2 ltac:(lia) eq_refl eq_refl) as (st3 & Hg3 & Hnat).
    + apply (ev_global _ (s "car")); [lia|reflexivity|reflexivity|reflexivity|reflexivity].
    + reflexivity.
    + reflexivity.
    + repeat constructor. arg_local.
    + exists st3. split; [|exact Hg3].
      change (3 * List.length (@nil val) + 12 + g)%nat with (S (2 + (9 + g))). rewrite Hif. cbn [is_nil getv L].
      change (2 + (9 + g))%nat with (S (4 + (6 + g))). rewrite Hif2, Htl.
      change (4 + (6 + g))%nat with (S (2 + (7 + g))). rewrite Hnat. reflexivity.
  - (* more than one: the tail call on (cdr things) *)
    cbn [onto]. set (L := VCons x (VCons y (onto xs tl))).
    destruct (loop_if 2 (3 * List.length xs + 12 + g) st ls_body (ls_env L) d ls_if1 ls_c1 ls_inner ls_sig L Hg eq_refl eq_refl eq_refl eq_refl) as (st1 & Hg1 & Hif); [arg_local|].
    destruct (loop_if 4 (3 * List.length xs + 9 + g) st1 ls_inner (ls_env L) d ls_if2 ls_c2 ls_call ls_car (VCons y (onto xs tl)) Hg1 eq_refl eq_refl eq_refl eq_refl)
      as (st2 & Hg2 & Hif2); [apply ev_ls_c2; lia|].
    destruct (loop_closure 4 (3 * List.length xs + 8 + g) st2 ls_call (ls_env L) d (match forms_of ls_call with z :: _ => z | _ => VNil end)
                [ls_cdr2] [VCons y (onto xs tl)] last_val false false
                (let '(ps, _, _, _) := last_parts in ps) ls_body (let '(_, _, e, _) := last_parts in e) pm
                (ls_env (VCons y (onto xs tl))) Hg2 eq_refl eq_refl) as (st3 & Hg3 & Hcall).
    + apply (evals_to_mono 2 4); [lia|]. apply (ev_global _ (s "last")); [lia|reflexivity|reflexivity|reflexivity|reflexivity].
    + reflexivity.
    + constructor; [apply ev_ls_cdr2; lia|constructor].
    + reflexivity.
    + destruct (IH y g st3 d Hg3 Hd) as (st4 & Hrec & Hg4).
      exists st4. split; [|exact Hg4].
      replace (3 * List.length (y :: xs) + 12 + g)%nat with (S (2 + (3 * List.length xs + 12 + g))) by (cbn [List.length]; lia).
      rewrite Hif. cbn [is_nil getv L].
      replace (2 + (3 * List.length xs + 12 + g))%nat with (S (4 + (3 * List.length xs + 9 + g))) by lia. rewrite Hif2. cbn [is_nil getv].
      replace (4 + (3 * List.length xs + 9 + g))%nat with (S (4 + (3 * List.length xs + 8 + g))) by lia. rewrite Hcall.
      replace (4 + (3 * List.length xs + 8 + g))%nat with (3 * List.length xs + 12 + g)%nat by lia.
      cbn [onto] in Hrec. rewrite Hrec. f_equal. f_equal.
      change (List.last (x :: y :: xs) x) with (List.last (y :: xs) x). apply last_default.
Qed.


Definition last_statement (xs : list val) (x : val) (tl : val) : Prop :=
  exists restp params body cenv cmod,
    option_map getv (prelude_global (s "last")) = Some (VFun false restp params body cenv cmod) /\
    exists newenv, pair_params (s "#<function>") params restp [onto (x :: xs) tl] cenv 0 1 = inl newenv /\
    forall st d, has_prelude st -> d + 3 <= MAXD ->
    exists fuel st', eval_loop fuel st body newenv cmod d = (st', ROk (List.last (x :: xs) x)) /\ has_prelude st'.

Theorem last_spec xs x tl : is_nil tl = true -> last_statement xs x tl.
Proof.
  intros Htl. eexists; eexists; eexists; eexists; eexists; split; [vm_compute; reflexivity|].
  eexists; split; [reflexivity|].
  intros st d Hg Hd. destruct (last_runs tl Htl xs x 0%nat st d Hg Hd) as (st' & Hrun & Hg').
  exists (3 * List.length xs + 12 + 0)%nat, st'. split; [exact Hrun|exact Hg'].
Qed.
