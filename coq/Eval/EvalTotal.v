(* C06: the evaluator, the expander, eval / macroexpand / call-native-function / load-all never reach
   a transcribed panic site, for every expression, environment, state, depth and amount of fuel. *)
From PL Require Import Eval.Eval Eval.EvalRules Eval.ExpandProofs Eval.TotalityProofs Eval.NativesTotal Eval.ModulesPersist.
From Coq Require Import String Lia.
Local Open Scope string_scope.
Local Open Scope list_scope.
Local Open Scope N_scope.

(* what remains outside the theorem, by name: an invariant of the interpreter's own data that the
   model does not track (a native function value always names a table entry) and the part of the
   model that is missing (file system).  The unwraps of load-all are proved unreachable: what read
   returns is a property list, and no module ever disappears (Eval/ModulesPersist.v). *)
Definition residual (site : string) : Prop :=
  model_limit site \/ site = "model: unknown native".

Lemma validate_length name sig args : validate name sig args = None -> List.length args = List.length sig.
Proof. unfold validate. destruct (Nat.eqb_spec (List.length args) (List.length sig)); [auto|discriminate]. Qed.

Lemma poll_never_panics st st' site : poll st <> (st', Some (RPanic site)).
Proof.
  unfold poll. destruct (attached st); [|discriminate].
  destruct (chan st ++ _) as [|c r]; [discriminate|].
  destruct (text_eqb c (s "INTERRUPT")); [discriminate|]. destruct (text_eqb c (s "ABORT")); discriminate.
Qed.

(* what `read` hands back is a property list, and looking a key up in one always answers *)
Lemma list_to_vec_plist kv : exists l, list_to_vec (plist kv) = Some l /\ forall key, exists v, get_property key l = Some v.
Proof.
  induction kv as [|[k v] r (l & Hl & Hp)].
  - exists []. split; [reflexivity|]. intros key. exists VNil. reflexivity.
  - exists (vsym k :: v :: l). split; [cbn [plist list_to_vec]; rewrite Hl; reflexivity|].
    intros key. cbn [get_property]. cbn [getv vsym]. destruct (sym_eqb _ key); [eexists; reflexivity|apply Hp].
Qed.

Lemma property_plist key kv : exists v, property key (plist kv) = Some v.
Proof. unfold property. destruct (list_to_vec_plist kv) as (l & Hl & Hp). rewrite Hl. apply Hp. Qed.

Ltac answers key := unfold property; cbn [list_to_vec]; cbn [get_property getv vsym];
  repeat match goal with |- context [if ?c then _ else _] => destruct c; [eexists; reflexivity|] end; eexists; reflexivity.

Lemma read_result_property input source line col output key : read_result input source line col = ROk output ->
  exists x, property key output = Some x.
Proof.
  unfold read_result. destruct ((line <? 0)%Z || (col <? 1)%Z); [discriminate|].
  destruct (match list_to_string source with Some p => Some (SrcFile p) | None => _ end) as [k|]; [|discriminate].
  destruct (val_chars input) as [t inv].
  destruct (read_text k t inv (Z.to_N line) (Z.to_N col)) as [[[v rest] [rl rc]]|e].
  - intros H. injection H as <-. answers key.
  - destruct e as [| | |msg [el ec] rest rl rc|site']; intros H; try discriminate; injection H as <-; answers key.
Qed.

Lemma read_call_property f st cursor source line col env d st1 output key :
  call_native f st (s "read") [cursor; source; VNum line; VNum col] env d = (st1, ROk output) -> exists x, property key output = Some x.
Proof.
  destruct f as [|f]; [discriminate|]. cbn.
  destruct (MAXD <? d); [discriminate|].
  intros H. injection H as _ H. eapply read_result_property; exact H.
Qed.

Section Step.
Variable f : nat.

Ltac ok :=
  lazymatch goal with
  | |- cur_ok ?b =>
    first [ assumption
          | match goal with
            | E : poll _ = (b, _) |- _ => apply (proj2 (keeps_poll _ _ _ E)); ok
            | E : eval_internal _ _ _ _ _ _ = (b, _) |- _ => apply (proj2 (persist_e _ _ _ _ _ _ _ _ E)); ok
            | E : eval_args _ _ _ _ _ _ _ = (b, _) |- _ => apply (proj2 (persist_args _ _ _ _ _ _ _ _ _ E)); ok
            | E : expand_internal _ _ _ _ _ _ _ = (b, _, _) |- _ => apply (proj2 (persist_x _ _ _ _ _ _ _ _ _ _ E)); ok
            | E : expand_args _ _ _ _ _ _ _ _ = (b, _, _) |- _ => apply (proj2 (persist_xargs _ _ _ _ _ _ _ _ _ _ _ E)); ok
            | E : expand_completely _ _ _ _ _ _ = (b, _) |- _ => apply (proj2 (persist_c _ _ _ _ _ _ _ _ E)); ok
            | E : call_native _ _ _ _ _ _ = (b, _) |- _ => apply (proj2 (persist_n _ _ _ _ _ _ _ _ E)); ok
            | E : load_loop _ _ _ _ _ _ _ = (b, _) |- _ => apply (proj2 (persist_ld _ _ _ _ _ _ _ _ _ E)); ok
            end ]
  end.

Hypothesis IHe : forall st e env m d st' site, cur_ok st -> eval_internal f st e env m d = (st', RPanic site) -> residual site.
Hypothesis IHl : forall st e env m d st' site, cur_ok st -> eval_loop f st e env m d = (st', RPanic site) -> residual site.
Hypothesis IHx : forall st e env m d ch st' site ch', cur_ok st -> expand_internal f st e env m d ch = (st', RPanic site, ch') -> residual site.
Hypothesis IHc : forall st e env m d st' site, cur_ok st -> expand_completely f st e env m d = (st', RPanic site) -> residual site.
Hypothesis IHn : forall st name args env d st' site, cur_ok st -> call_native f st name args env d = (st', RPanic site) -> residual site.
Hypothesis IHld : forall st cursor source line col d st' site, cur_ok st -> load_loop f st cursor source line col d = (st', RPanic site) -> residual site.

Lemma eval_args_total env m d : forall xs st acc st' site, cur_ok st -> eval_args f env m d st xs acc = (st', inr (RPanic site)) -> residual site.
Proof.
  induction xs as [|x xs IH]; intros st acc st' site Hok H; cbn in H; [discriminate|].
  destruct (eval_internal f st x env m (d + 1)) as [st1 r] eqn:E.
  destruct r; try (injection H as <- <-; (eapply IHe; [|exact E]; ok)); try discriminate.
  - (eapply IH; [|exact H]; ok).
Qed.

Lemma make_function_total args env m src mac site : make_function_internal args env m src mac <> RPanic site.
Proof.
  unfold make_function_internal. destruct (validate (s src) [TList; TAny] args) eqn:Hv; [discriminate|].
  unfold validate in Hv. split_args args; cbn in Hv; try discriminate. crunch Hv.
  destruct (list_to_vec a1) as [ps|]; [|discriminate].
  destruct (mk_params (s src) ps 0 (List.length ps) false []) as [[? ?]|?]; discriminate.
Qed.

Ltac shape Hv args := apply validate_length in Hv; split_args args; cbn in Hv; try discriminate.

Lemma step_loop st e env m d st' site : cur_ok st -> eval_loop (S f) st e env m d = (st', RPanic site) -> residual site.
Proof.
  intros Hok H. cbn [eval_loop] in H.
  destruct (poll st) as [st0 [r|]] eqn:Ep.
  { injection H as <- ->. exfalso. eapply poll_never_panics; exact Ep. }
  destruct (list_to_vec e) as [[|first rest]|] eqn:El; [discriminate| |].
  - destruct (is_sym first (s "lambda")).
    { injection H as _ H. exfalso. eapply make_function_total; exact H. }
    destruct (is_sym first (s "quote")).
    { destruct (validate (s "quote") [TAny] rest) eqn:Hv; [discriminate|]. shape Hv rest; discriminate. }
    destruct (is_sym first (s "if")).
    { destruct (validate (s "if") [TAny; TAny; TAny] rest) eqn:Hv; [discriminate|]. shape Hv rest.
      destruct (eval_internal f st0 a1 env m (d + 1)) as [st1 r] eqn:E.
      destruct r; try discriminate; try (injection H as <- <-; (eapply IHe; [|exact E]; ok)).
      destruct (is_nil v); (eapply IHl; [|exact H]; ok). }
    destruct (is_sym first (s "trap")).
    { destruct (validate (s "trap") [TAny; TAny] rest) eqn:Hv; [discriminate|]. shape Hv rest; discriminate. }
    destruct (eval_internal f st0 first env m (d + 1)) as [st1 r] eqn:E.
    destruct r; try discriminate; try (injection H as <- <-; (eapply IHe; [|exact E]; ok)).
    change (fix go (st : state) (xs acc : list val) {struct xs} : state * (list val + res) :=
              match xs with
              | [] => (st, inl (rev acc))
              | x :: xs' => match eval_internal f st x env m (d + 1) with
                            | (st', ROk v) => go st' xs' (v :: acc)
                            | (st', r) => (st', inr r)
                            end
              end) with (eval_args f env m d) in H.
    destruct (getv v); try discriminate.
    + destruct (eval_args f env m d st1 rest []) as [st2 [args|r]] eqn:Ea.
      * destruct (pair_params _ _ _ _ _ _ _); [(eapply IHl; [|exact H]; ok)|discriminate].
      * injection H as <- ->. (eapply eval_args_total; [|exact Ea]; ok).
    + destruct (eval_args f env m d st1 rest []) as [st2 [args|r]] eqn:Ea.
      * destruct (text_eqb name (s "eval")).
        -- destruct (validate (s "eval") [TAny] args) eqn:Hv; [discriminate|]. shape Hv args.
           destruct (expand_completely f st2 a1 env m (d + 1)) as [st3 r] eqn:Ex.
           destruct r; try discriminate; try (injection H as <- <-; (eapply IHc; [|exact Ex]; ok)). (eapply IHl; [|exact H]; ok).
        -- (eapply IHn; [|exact H]; ok).
      * injection H as <- ->. (eapply eval_args_total; [|exact Ea]; ok).
  - destruct (getv e) as [| | |k|a b| | |nb tb|] eqn:Eg; try discriminate.
    + destruct (env_lookup env k); [discriminate|]. destruct k as [n|u]; [|discriminate]. destruct (get_global _ _ _); discriminate.
    + destruct (eval_internal f st0 a env m (d + 1)) as [st1 r] eqn:E1.
      destruct r; try discriminate; try (injection H as <- <-; (eapply IHe; [|exact E1]; ok)).
      destruct (eval_internal f st1 b env m (d + 1)) as [st2 r] eqn:E2.
      destruct r; try discriminate; try (injection H as <- <-; (eapply IHe; [|exact E2]; ok)).
    + destruct (eval_internal f st0 nb env m (d + 1)) as [st1 r] eqn:E1.
      destruct r; try discriminate; try (injection H as <- <-; (eapply IHe; [|exact E1]; ok)).
      (eapply IHe; [|exact H]; ok).
Qed.

Lemma expand_args_total env m d : forall xs st acc ch st' site ch', cur_ok st -> expand_args f env m d st xs acc ch = (st', inr (RPanic site), ch') -> residual site.
Proof.
  induction xs as [|x xs IH]; intros st acc ch st' site ch' Hok H; cbn in H; [discriminate|].
  destruct (expand_internal f st x env m (d + 1) ch) as [[st1 r] ch1] eqn:E.
  destruct r; try (injection H as <- <- <-; (eapply IHx; [|exact E]; ok)); try discriminate.
  (eapply IH; [|exact H]; ok).
Qed.

Lemma step_expand st e env m d ch st' site ch' : cur_ok st -> expand_internal (S f) st e env m d ch = (st', RPanic site, ch') -> residual site.
Proof.
  intros Hok H. cbn [expand_internal] in H.
  destruct (MAXD <? d); [discriminate|].
  destruct (list_to_vec e) as [[|first rest]|] eqn:El; [discriminate| |].
  - destruct (is_sym first (s "macro")).
    { injection H as _ H _. exfalso. eapply make_function_total; exact H. }
    destruct (is_sym first (s "quote")); [discriminate|].
    destruct (expand_internal f st first env m (d + 1) ch) as [[st1 r] ch1] eqn:E.
    destruct r; try discriminate; try (injection H as <- <- <-; (eapply IHx; [|exact E]; ok)).
    change (fix go (st : state) (xs acc : list val) (ch : bool) {struct xs} : state * (list val + res) * bool :=
              match xs with
              | [] => (st, inl (rev acc), ch)
              | x :: xs' => match expand_internal f st x env m (d + 1) ch with
                            | (st', ROk v, ch') => go st' xs' (v :: acc) ch'
                            | (st', r, ch') => (st', inr r, ch')
                            end
              end) with (expand_args f env m d) in H.
    destruct (expand_args f env m d st1 rest [] ch1) as [[st2 [args|r]] ch2] eqn:Ea.
    + destruct (getv v) as [| | | | |mac restp params body cenv cmod|name| |]; try discriminate.
      * destruct mac; [|discriminate]. destruct (pair_params _ _ _ _ _ _ _); [|discriminate].
        destruct (eval_internal f st2 body v0 cmod (d + 1)) as [st3 r] eqn:Ee. injection H as <- -> <-. (eapply IHe; [|exact Ee]; ok).
      * destruct (find_native name native_table); [|discriminate]. destruct (n_macro n); [|discriminate].
        destruct (call_native f st2 name args env (d + 1)) as [st3 r] eqn:Ec. injection H as <- -> <-. (eapply IHn; [|exact Ec]; ok).
    + injection H as <- -> <-. (eapply expand_args_total; [|exact Ea]; ok).
  - destruct (getv e) as [| | |k|a b| | | |] eqn:Eg; try discriminate.
    + destruct (env_lookup env k) as [v|].
      * destruct (getv v) as [| | | | |mac ? ? ? ? ?|name| |]; try discriminate.
        -- destruct mac; discriminate.
        -- destruct (find_native name native_table); [|discriminate]. destruct (n_macro n); discriminate.
      * destruct k as [n|u]; [|discriminate]. destruct (get_global _ _ _) as [v| |]; try discriminate.
        destruct (getv v) as [| | | | |mac ? ? ? ? ?|name| |]; try discriminate.
        -- destruct mac; discriminate.
        -- destruct (find_native name native_table); [|discriminate]. destruct (n_macro n0); discriminate.
    + destruct (expand_internal f st a env m (d + 1) ch) as [[st1 r] ch1] eqn:E1.
      destruct r; try discriminate; try (injection H as <- <- <-; (eapply IHx; [|exact E1]; ok)).
      destruct (expand_internal f st1 b env m (d + 1) ch1) as [[st2 r] ch2] eqn:E2.
      destruct r; try discriminate; try (injection H as <- <- <-; (eapply IHx; [|exact E2]; ok)).
Qed.

Lemma step_completely st e env m d st' site : cur_ok st -> expand_completely (S f) st e env m d = (st', RPanic site) -> residual site.
Proof.
  intros Hok H. cbn [expand_completely] in H.
  destruct (expand_internal f st e env m (d + 1) false) as [[st1 r] ch1] eqn:E.
  destruct r; try discriminate; try (injection H as <- <-; (eapply IHx; [|exact E]; ok)).
  destruct ch1; [(eapply IHc; [|exact H]; ok)|discriminate].
Qed.

Lemma step_internal st e env m d st' site : cur_ok st -> eval_internal (S f) st e env m d = (st', RPanic site) -> residual site.
Proof.
  intros Hok H. rewrite R_entry in H. destruct (MAXD <? d); [discriminate|]. (eapply IHl; [|exact H]; ok).
Qed.

Ltac known_name Hn Hf Hv :=
  match type of Hn with text_eqb ?name ?lit = true =>
    destruct (text_eqb_spec name lit) as [->|]; [|discriminate Hn]; vm_compute in Hf; injection Hf as <-; cbn [n_sig] in Hv end.

Lemma step_native st name args env d st' site : cur_ok st -> call_native (S f) st name args env d = (st', RPanic site) -> residual site.
Proof.
  intros Hok H. cbn [call_native] in H.
  destruct (find_native name native_table) as [info|] eqn:Hf; [|injection H as _ <-; right; reflexivity].
  destruct (n_depth_check info && (MAXD <? d)); [discriminate|].
  destruct (match n_sig info with Some sig => validate name sig args | None => None end) eqn:Hv; [discriminate|].
  destruct (text_eqb name (s "eval")) eqn:N1.
  { known_name N1 Hf Hv. shape Hv args.
    destruct (expand_completely f st a1 env (cur st) (d + 1)) as [st1 r] eqn:Ex.
    destruct r; try discriminate; try (injection H as <- <-; (eapply IHc; [|exact Ex]; ok)). (eapply IHe; [|exact H]; ok). }
  destruct (text_eqb name (s "macroexpand")) eqn:N2.
  { known_name N2 Hf Hv. shape Hv args. (eapply IHc; [|exact H]; ok). }
  destruct (text_eqb name (s "call-native-function")) eqn:N3.
  { known_name N3 Hf Hv. unfold validate in Hv. split_args args; cbn in Hv; try discriminate. crunch Hv.
    destruct (getv a1); try discriminate; destruct (list_to_vec a2); try discriminate. (eapply IHn; [|exact H]; ok). }
  destruct (text_eqb name (s "load-all")) eqn:N4.
  { known_name N4 Hf Hv. shape Hv args.
    set (st0 := match list_to_string a2 with Some nm => define_module st nm | None => st end) in *.
    assert (K0 : keeps st st0) by (subst st0; destruct (list_to_string a2); [apply keeps_define_module|apply keeps_refl]).
    destruct (load_loop f st0 a1 a2 1 1 d) as [st1 r] eqn:El.
    pose proof (persist_ld _ _ _ _ _ _ _ _ _ El) as K1.
    unfold set_current_module in H. destruct (find_module (cur st) (mods st1)) eqn:Ef.
    - injection H as <- ->. eapply IHld; [|exact El]. apply (proj2 K0), Hok.
    - exfalso. apply (proj1 K1 (cur st)); [apply (proj1 K0), Hok|exact Ef]. }
  destruct (simple_native st name args d) as [[st1 r]|] eqn:Es.
  - injection H as <- ->. left.
    destruct (n_sig info) as [sig|] eqn:Hs.
    + eapply natives_never_panic; eassumption.
    + rewrite (sig_none_is_list name info Hf Hs) in Es. rewrite list_native_total in Es. discriminate.
  - exfalso. eapply (simple_native_modelled name info st args d Hf); [|exact Es].
    unfold calls_back. rewrite N1, N2, N3, N4. reflexivity.
Qed.

Lemma step_load st cursor source line col d st' site : cur_ok st -> load_loop (S f) st cursor source line col d = (st', RPanic site) -> residual site.
Proof.
  intros Hok H. cbn [load_loop] in H.
  destruct (is_nil cursor); [discriminate|].
  destruct (call_native f st (s "read") [cursor; source; VNum line; VNum col] VNil (d + 1)) as [st1 r] eqn:Er.
  destruct r as [output| | | |]; try discriminate; try (injection H as <- <-; (eapply IHn; [|exact Er]; ok)).
  destruct (read_call_property f st cursor source line col VNil (d + 1) st1 output "status" Er) as [status Hp_status]; rewrite Hp_status in H.
  destruct (read_call_property f st cursor source line col VNil (d + 1) st1 output "result" Er) as [result Hp_result]; rewrite Hp_result in H.
  destruct (read_call_property f st cursor source line col VNil (d + 1) st1 output "rest" Er) as [rest Hp_rest]; rewrite Hp_rest in H.
  destruct (read_call_property f st cursor source line col VNil (d + 1) st1 output "error" Er) as [rerror Hp_rerror]; rewrite Hp_rerror in H.
  destruct (read_call_property f st cursor source line col VNil (d + 1) st1 output "line" Er) as [l Hp_l]; rewrite Hp_l in H.
  destruct (read_call_property f st cursor source line col VNil (d + 1) st1 output "column" Er) as [c Hp_c]; rewrite Hp_c in H.
  assert (Hcont : forall st2, cur_ok st2 -> match getv l, getv c with
              | VNum lz, VNum cz => load_loop f st2 rest source lz cz d
              | _, _ => if is_nil rest then load_loop f st2 rest source 1 1 d
                        else (st2, RSig (make_error "wrong-argument-type" (s "read")
                                          [("argument-value", l); ("expected", vsym "number-type"); ("actual", vsym (tlabel_name (extended_get_type l)))]))
              end = (st', RPanic site) -> residual site).
  { intros st2 Hok2 Hc. destruct (getv l); destruct (getv c); try (destruct (is_nil rest); [(eapply IHld; [|exact Hc]; ok)|discriminate]). (eapply IHld; [|exact Hc]; ok). }
  destruct (is_sym status (s "ok")).
  { destruct (call_native f st1 (s "eval") [result] VNil (d + 1)) as [st2 r] eqn:Ee.
    destruct r; try discriminate; try (injection H as <- <-; (eapply IHn; [|exact Ee]; ok)). (eapply Hcont; [|exact H]; ok). }
  destruct (is_sym status (s "incomplete")); [discriminate|].
  destruct (is_sym status (s "error")); [discriminate|].
  destruct (is_sym status (s "invalid")); [discriminate|].
  (eapply Hcont; [|exact H]; ok).
Qed.
End Step.

(* every expression, environment, module, depth, state and amount of fuel *)
Theorem evaluator_never_panics : forall fuel,
  (forall st e env m d st' site, cur_ok st -> eval_internal fuel st e env m d = (st', RPanic site) -> residual site) /\
  (forall st e env m d st' site, cur_ok st -> eval_loop fuel st e env m d = (st', RPanic site) -> residual site) /\
  (forall st e env m d ch st' site ch', cur_ok st -> expand_internal fuel st e env m d ch = (st', RPanic site, ch') -> residual site) /\
  (forall st e env m d st' site, cur_ok st -> expand_completely fuel st e env m d = (st', RPanic site) -> residual site) /\
  (forall st name args env d st' site, cur_ok st -> call_native fuel st name args env d = (st', RPanic site) -> residual site) /\
  (forall st cursor source line col d st' site, cur_ok st -> load_loop fuel st cursor source line col d = (st', RPanic site) -> residual site).
Proof.
  induction fuel as [|f (IHe & IHl & IHx & IHc & IHn & IHld)].
  - repeat split; intros; discriminate.
  - split; [|split; [|split; [|split; [|split]]]].
    + intros st e env m d st' site. apply (step_internal f IHl).
    + intros st e env m d st' site. apply (step_loop f IHe IHl IHc IHn).
    + intros st e env m d ch st' site ch'. apply (step_expand f IHe IHx IHn).
    + intros st e env m d st' site. apply (step_completely f IHx IHc).
    + intros st name args env d st' site. apply (step_native f IHe IHc IHn IHld).
    + intros st cursor source line col d st' site. apply (step_load f IHn IHld).
Qed.

(* the embedder's entry point: evaluating ANY form from ANY state *)
Corollary eval_top_never_panics fuel st e st' site : cur_ok st -> eval_top fuel st e = (st', RPanic site) -> residual site.
Proof. unfold eval_top. apply (evaluator_never_panics fuel). Qed.

