(* C16: facts about the closures obtained by loading the generated prelude text. *)
From PL Require Import Eval.EvalRules Eval.SemProofs Eval.PreludeState.
From Coq Require Import String.
Local Open Scope string_scope.
Local Open Scope list_scope.
Local Open Scope N_scope.

Lemma prelude_loads : prelude_ok = true /\ repl_ok = true /\ debugger_ok = true.
Proof. vm_compute. auto. Qed.

(* the value of a prelude global, as the evaluator sees it from the default module *)
Definition prelude_global (name : text) : option val :=
  match get_global (mods prelude_state) name (s "default") with GOk v => Some v | _ => None end.

Definition nil_value : val := match prelude_global (s "nil") with Some v => v | None => VNil end.
Definition t_value : val := match prelude_global (s "t") with Some v => v | None => VNil end.

(* [macro_expands_to name operands result]: the prelude macro [name], applied to the
   operand FORMS [operands] (unevaluated, arbitrary values), evaluates its body to [result],
   from every state that has the prelude's globals and no debugger, with enough fuel *)
Definition has_prelude (st : state) : Prop := attached st = false /\ mods st = mods prelude_state.

Definition macro_expands_to (name : text) (operands : list val) (result : val) : Prop :=
  exists restp params body cenv cmod,
    option_map getv (prelude_global name) = Some (VFun true restp params body cenv cmod) /\
    exists newenv, pair_params (s "#<function>") params restp operands cenv 0 (List.length operands) = inl newenv /\
    forall st d, has_prelude st -> d + 3 <= MAXD ->
    exists fuel st' r, eval_internal fuel st body newenv cmod d = (st', ROk r) /\ has_prelude st' /\
                       strip r = strip result.   (* equal up to the reader's source-location metadata *)

Lemma poll_has st : has_prelude st -> exists st', poll st = (st', None) /\ has_prelude st'.
Proof. intros [Ha Hm]. unfold poll. rewrite Ha. eexists. split; [reflexivity|]. split; [reflexivity|exact Hm]. Qed.

Lemma dok d k : d + k <= MAXD -> (MAXD <? d) = false.
Proof. intros H. apply N.ltb_ge. lia. Qed.

Definition pm : text := s "prelude".

(* [evals_to k e env d v]: from every state with the prelude and no debugger, with any fuel
   of the form k + g, the form e evaluates at depth d to v (and stays in such a state) *)
Definition evals_to (k : nat) (e env : val) (d : N) (v : val) : Prop :=
  forall st0 g, has_prelude st0 ->
  exists st1, eval_internal (k + g) st0 e env pm d = (st1, ROk v) /\ has_prelude st1.

Lemma evals_to_mono k k' e env d v : (k <= k')%nat -> evals_to k e env d v -> evals_to k' e env d v.
Proof.
  intros Hk H st0 g Hg. destruct (H st0 (k' - k + g)%nat Hg) as (st1 & He & Hg1).
  exists st1. split; [|exact Hg1]. replace (k' + g)%nat with (k + (k' - k + g))%nat by lia. exact He.
Qed.

Lemma ev_local e k v env d : d <= MAXD -> list_to_vec e = None -> getv e = VSym k ->
  env_lookup env k = LFound v -> evals_to 2 e env d v.
Proof.
  intros Hd Hl Hgv He st0 g Hg. destruct (poll_has st0 Hg) as (st' & Hp & Hg').
  exists st'. split; [|exact Hg']. change (2 + g)%nat with (S (S g)). rewrite R_entry, (dok d 0 ltac:(lia)).
  eapply R_var_local; eassumption.
Qed.

Lemma ev_global e n v env d : d <= MAXD -> list_to_vec e = None -> getv e = VSym (Named n) ->
  env_lookup env (Named n) = LMissing -> get_global (mods prelude_state) n pm = GOk v -> evals_to 2 e env d v.
Proof.
  intros Hd Hl Hgv He Hglob st0 g Hg. destruct (poll_has st0 Hg) as (st' & Hp & Hg').
  exists st'. split; [|exact Hg']. change (2 + g)%nat with (S (S g)). rewrite R_entry, (dok d 0 ltac:(lia)).
  rewrite (R_var_global g st0 st' e env pm d Hp n Hl Hgv He).
  destruct Hg' as [_ Hm]. rewrite Hm, Hglob. reflexivity.
Qed.

Lemma ev_quote e q x env d : d <= MAXD -> list_to_vec e = Some [q; x] ->
  is_sym q (s "lambda") = false -> is_sym q (s "quote") = true -> evals_to 2 e env d x.
Proof.
  intros Hd Hl H1 H2 st0 g Hg. destruct (poll_has st0 Hg) as (st' & Hp & Hg').
  exists st'. split; [|exact Hg']. change (2 + g)%nat with (S (S g)). rewrite R_entry, (dok d 0 ltac:(lia)).
  eapply R_quote; eassumption.
Qed.

(* operands all evaluate, in order *)
Lemma eval_args_all k env d : forall args vals st0 g acc, has_prelude st0 ->
  Forall2 (fun a v => evals_to k a env (d + 1) v) args vals ->
  exists st1, eval_args (k + g) env pm d st0 args acc = (st1, inl (rev acc ++ vals)) /\ has_prelude st1.
Proof.
  induction args as [|a args IH]; intros vals st0 g acc Hg HF; inversion HF as [|? v ? vals' Ha Hrest]; subst.
  - exists st0. rewrite app_nil_r. split; [reflexivity|exact Hg].
  - destruct (Ha st0 g Hg) as (st1 & He & Hg1).
    destruct (IH vals' st1 g (v :: acc) Hg1 Hrest) as (st2 & Hr & Hg2).
    exists st2. split; [|exact Hg2].
    rewrite (eval_args_cons_ok _ _ _ _ _ _ _ _ _ _ He). rewrite Hr. cbn [rev]. rewrite <- app_assoc. reflexivity.
Qed.

(* the native `list`, looked up as a global from the prelude module *)
Definition list_native : val := match get_global (mods prelude_state) (s "list") pm with GOk v => v | _ => VNil end.

Lemma ev_list k e head args vals env d : d + 1 <= MAXD -> (2 <= k)%nat ->
  list_to_vec e = Some (head :: args) -> special_form head = false ->
  list_to_vec head = None -> getv head = VSym (Named (s "list")) -> env_lookup env (Named (s "list")) = LMissing ->
  Forall2 (fun a v => evals_to k a env (d + 1) v) args vals ->
  evals_to (S (S k)) e env d (vec_to_list vals).
Proof.
  intros Hd Hk Hl Hs Hhl Hhg Hhe HF st0 g Hg.
  destruct (poll_has st0 Hg) as (st1 & Hp & Hg1).
  change (S (S k) + g)%nat with (S (S (k + g))). rewrite R_entry, (dok d 1 Hd).
  assert (Hop : evals_to k head env (d + 1) list_native).
  { apply (evals_to_mono 2 k); [exact Hk|]. apply (ev_global head (s "list")); auto; try lia. }
  destruct (Hop st1 g Hg1) as (st2 & Ho & Hg2).
  destruct (eval_args_all k env d args vals st2 g [] Hg2 HF) as (st3 & Ha & Hg3). cbn [rev app] in Ha.
  exists st3. split; [|exact Hg3].
  rewrite (R_app_native (k + g) st0 st1 e env pm d Hp head args Hl Hs st2 list_native (s "list") st3 vals Ho eq_refl eq_refl Ha).
  destruct (k + g)%nat as [|f'] eqn:E; [lia|]. reflexivity.
Qed.

(* ---- the macros, as loaded from the generated prelude text ---- *)
Definition macro_parts (name : text) : option (bool * list val * val * val * text) :=
  match option_map getv (prelude_global name) with
  | Some (VFun true r ps b e em) => Some (r, ps, b, e, em)
  | _ => None
  end.

Definition forms_of (b : val) : list val := match list_to_vec b with Some l => l | None => [] end.

Ltac open_macro :=
  unfold macro_expands_to;
  eexists; eexists; eexists; eexists; eexists; split; [vm_compute; reflexivity|];
  eexists; split; [reflexivity|];
  intros st d Hg Hd.

Ltac finish_macro H st Hg :=
  destruct (H st 0%nat Hg) as (st' & He & Hg');
  eexists; exists st'; eexists; split; [exact He|]; split; [exact Hg'|reflexivity].

Ltac arg_quote := eapply ev_quote; [lia|reflexivity|reflexivity|reflexivity].
Ltac arg_local := eapply ev_local; [lia|reflexivity|reflexivity|reflexivity].
Ltac arg_global := eapply ev_global; [lia|reflexivity|reflexivity|reflexivity|reflexivity].
Ltac list_call n := eapply (ev_list n); [lia|lia|reflexivity|reflexivity|reflexivity|reflexivity|reflexivity|].

(* (and x y) -> (if x y nil) : x once, y once and only in the then-branch *)
Theorem and_expansion X Y : macro_expands_to (s "and") [X; Y] (vec_to_list [vsym "if"; X; Y; nil_value]).
Proof.
  open_macro.
  match goal with |- exists fuel st' r, eval_internal fuel st ?body ?env ?m d = _ /\ _ /\ _ =>
    assert (H : exists r, evals_to 4 body env d r /\ strip r = strip (vec_to_list [vsym "if"; X; Y; nil_value])) end.
  { eexists. split.
    - list_call 2%nat. repeat constructor; [arg_quote|arg_local|arg_local|arg_global].
    - reflexivity. }
  destruct H as (r & H & Hs). destruct (H st 0%nat Hg) as (st' & He & Hg').
  eexists; exists st', r. split; [exact He|]. split; [exact Hg'|exact Hs].
Qed.

Theorem when_expansion X Y : macro_expands_to (s "when") [X; Y] (vec_to_list [vsym "if"; X; Y; nil_value]).
Proof.
  open_macro.
  match goal with |- exists fuel st' r, eval_internal fuel st ?body ?env ?m d = _ /\ _ /\ _ =>
    assert (H : exists r, evals_to 4 body env d r /\ strip r = strip (vec_to_list [vsym "if"; X; Y; nil_value])) end.
  { eexists. split.
    - list_call 2%nat. repeat constructor; [arg_quote|arg_local|arg_local|arg_global].
    - reflexivity. }
  destruct H as (r & H & Hs). destruct (H st 0%nat Hg) as (st' & He & Hg').
  eexists; exists st', r. split; [exact He|]. split; [exact Hg'|exact Hs].
Qed.

Theorem not_expansion X : macro_expands_to (s "not") [X] (vec_to_list [vsym "if"; X; nil_value; t_value]).
Proof.
  open_macro.
  match goal with |- exists fuel st' r, eval_internal fuel st ?body ?env ?m d = _ /\ _ /\ _ =>
    assert (H : exists r, evals_to 4 body env d r /\ strip r = strip (vec_to_list [vsym "if"; X; nil_value; t_value])) end.
  { eexists. split.
    - list_call 2%nat. repeat constructor; [arg_quote|arg_local|arg_global|arg_global].
    - reflexivity. }
  destruct H as (r & H & Hs). destruct (H st 0%nat Hg) as (st' & He & Hg').
  eexists; exists st', r. split; [exact He|]. split; [exact Hg'|exact Hs].
Qed.

(* (or x y) -> ((lambda (g) (if g g y)) x) with g a generated symbol: x is evaluated once
   (as the operand of the lambda), y once and only when g is nil *)
Definition or_form (g X Y : val) : val :=
  vec_to_list [vec_to_list [vsym "lambda"; vec_to_list [g]; vec_to_list [vsym "if"; g; g; Y]]; X].

Definition or_expansion_statement : Prop := forall X Y,
  exists restp params body cenv cmod,
    option_map getv (prelude_global (s "or")) = Some (VFun true restp params body cenv cmod) /\
    exists newenv, pair_params (s "#<function>") params restp [X; Y] cenv 0 2 = inl newenv /\
    forall st d, has_prelude st -> d + 6 <= MAXD ->
    exists fuel st' r n, eval_internal fuel st body newenv cmod d = (st', ROk r) /\ has_prelude st' /\
                         strip r = strip (or_form (VSym (Unique n)) X Y).

Lemma gensym_call f st env d : has_prelude st ->
  call_native (S f) st (s "gensym") [] env d = (bump_gensym st, ROk (VSym (Unique (gensyms st)))) /\ has_prelude (bump_gensym st).
Proof. intros [Ha Hm]. split; [reflexivity|]. split; [exact Ha|exact Hm]. Qed.

Lemma or_expansion_proof : or_expansion_statement.
Proof.
  intros X Y. eexists; eexists; eexists; eexists; eexists; split; [vm_compute; reflexivity|].
  eexists; split; [reflexivity|].
  intros st d Hg Hd. remember 20%nat as n0 eqn:Hn0.
  match goal with |- exists fuel st' r n, eval_internal fuel st ?body ?env ?m d = _ /\ _ /\ _ => set (B := body); set (E := env) end.
  (* B = ((lambda (value) B2) (gensym)) *)
  destruct (poll_has st Hg) as (st1 & Hp1 & Hg1).
  (* the operator: a lambda form, evaluates to a closure over E *)
  destruct (poll_has st1 Hg1) as (st2 & Hp2 & Hg2).
  set (first := match forms_of B with x :: _ => x | [] => VNil end).
  set (gform := match forms_of B with _ :: x :: _ => x | _ => VNil end).
  set (ghead := match forms_of gform with x :: _ => x | [] => VNil end).
  (* the operand (gensym) *)
  destruct (poll_has st2 Hg2) as (st3 & Hp3 & Hg3).
  destruct (poll_has st3 Hg3) as (st4 & Hp4 & Hg4).
  destruct (gensym_call (5 + n0) st4 E (d + 2) Hg4) as (Hcall & Hg5).
  set (g := VSym (Unique (gensyms st4))) in *.
  set (st5 := bump_gensym st4) in *.
  (* the closure's body B2 in the environment with value bound to g *)
  set (clo := match make_function_internal (match forms_of first with _ :: r => r | [] => [] end) E pm "lambda" false with ROk v => v | _ => VNil end).
  set (B2 := match clo with VFun _ _ _ b _ _ => b | _ => VNil end).
  set (P2 := match clo with VFun _ _ ps _ _ _ => ps | _ => [] end).
  set (E2 := match pair_params (s "#<function>") P2 false [g] E 0 1 with inl e => e | inr _ => VNil end).
  assert (H2 : exists r, evals_to 8 B2 E2 d r /\ strip r = strip (or_form g X Y)).
  { eexists. split.
    - list_call 6%nat. constructor; [|constructor; [|constructor]].
      + list_call 4%nat. constructor; [|constructor; [|constructor; [|constructor]]].
        * apply (evals_to_mono 2 4); [lia|]. arg_quote.
        * list_call 2%nat. constructor; [|constructor]. arg_local.
        * list_call 2%nat. repeat constructor; [arg_quote|arg_local|arg_local|arg_local].
      + apply (evals_to_mono 2 6); [lia|]. arg_local.
    - reflexivity. }
  destruct H2 as (r & H2 & Hs).
  destruct (H2 st5 (S n0) Hg5) as (st6 & He6 & Hg6).
  replace (8 + S n0)%nat with (S (8 + n0)) in He6 by lia. rewrite R_entry, (dok d 6 Hd) in He6.
  exists (S (S (8 + n0))), st6, r, (gensyms st4). split; [|split; [exact Hg6|exact Hs]].
  rewrite R_entry, (dok d 6 Hd).
  (* operator *)
  assert (Hop : eval_internal (8 + n0) st1 first E pm (d + 1) = (st2, ROk clo)).
  { change (8 + n0)%nat with (S (S (6 + n0))). rewrite R_entry, (dok (d + 1) 5 ltac:(lia)).
    rewrite (R_lambda (6 + n0) st1 st2 first E pm (d + 1) Hp2 _ _ eq_refl eq_refl). reflexivity. }
  (* operand *)
  assert (Harg : eval_internal (8 + n0) st2 gform E pm (d + 1) = (st5, ROk g)).
  { change (8 + n0)%nat with (S (S (6 + n0))). rewrite R_entry, (dok (d + 1) 5 ltac:(lia)).
    assert (Hgs : eval_internal (6 + n0) st3 ghead E pm (d + 1 + 1) = (st4, ROk (match get_global (mods prelude_state) (s "gensym") pm with GOk v => v | _ => VNil end))).
    { change (6 + n0)%nat with (S (S (4 + n0))). rewrite R_entry, (dok (d + 1 + 1) 4 ltac:(lia)).
      rewrite (R_var_global (4 + n0) st3 st4 ghead E pm (d + 1 + 1) Hp4 (s "gensym") eq_refl eq_refl eq_refl).
      destruct Hg4 as [_ Hm]. rewrite Hm. reflexivity. }
    rewrite (R_app_native (6 + n0) st2 st3 gform E pm (d + 1) Hp3 ghead [] eq_refl eq_refl st4 _ (s "gensym") st4 [] Hgs eq_refl eq_refl eq_refl).
    replace (d + 1 + 1) with (d + 2) by lia. exact Hcall. }
  transitivity (eval_loop (8 + n0) st5 B2 E2 pm d); [|exact He6].
  apply (R_app_closure (8 + n0) st st1 B E pm d Hp1 first [gform] eq_refl eq_refl st2 clo false false P2 B2 E pm st5 [g] E2 Hop eq_refl).
  - rewrite (eval_args_cons_ok _ _ _ _ _ _ _ _ _ _ Harg). reflexivity.
  - reflexivity.
Qed.

(* ---- try / catch: what a catcher clause is made of ---- *)

(* the same statement with more room below the depth limit (nested list calls in the macro body) *)
Definition macro_expands_within (slack : N) (name : text) (operands : list val) (result : val) : Prop :=
  exists restp params body cenv cmod,
    option_map getv (prelude_global name) = Some (VFun true restp params body cenv cmod) /\
    exists newenv, pair_params (s "#<function>") params restp operands cenv 0 (List.length operands) = inl newenv /\
    forall st d, has_prelude st -> d + slack <= MAXD ->
    exists fuel st' r, eval_internal fuel st body newenv cmod d = (st', ROk r) /\ has_prelude st' /\
                       strip r = strip result.

Ltac open_macro_within :=
  unfold macro_expands_within;
  eexists; eexists; eexists; eexists; eexists; split; [vm_compute; reflexivity|];
  eexists; split; [reflexivity|];
  intros st d Hg Hd.

(* (catch-all B) -> (test t body B): the clause matches every signal *)
Theorem catch_all_expansion B : macro_expands_within 3 (s "catch-all") [B] (vec_to_list [vsym "test"; t_value; vsym "body"; B]).
Proof.
  open_macro_within.
  match goal with |- exists fuel st' r, eval_internal fuel st ?body ?env ?m d = _ /\ _ /\ _ =>
    assert (H : exists r, evals_to 4 body env d r /\ strip r = strip (vec_to_list [vsym "test"; t_value; vsym "body"; B])) end.
  { eexists. split.
    - list_call 2%nat. repeat constructor; [arg_quote|arg_global|arg_quote|arg_local].
    - reflexivity. }
  destruct H as (r & H & Hs). destruct (H st 0%nat Hg) as (st' & He & Hg').
  eexists; exists st', r. split; [exact He|]. split; [exact Hg'|exact Hs].
Qed.

(* (catch K B) -> (test (= (get-property-safe 'kind TRAPPED-SIGNAL) 'K) body B) where TRAPPED-SIGNAL is
   the variable the trap binds: the clause's test
   reads the kind of the trapped signal through get-property-safe and compares it with K, for
   EVERY kind form K and body form B *)
Definition catch_clause (K B : val) : val :=
  vec_to_list [vsym "test";
               vec_to_list [vsym "="; vec_to_list [vsym "get-property-safe"; vec_to_list [vsym "quote"; vsym "kind"]; vsym "*trapped-signal*"];
                            vec_to_list [vsym "quote"; K]];
               vsym "body"; B].

Theorem catch_expansion K B : macro_expands_within 5 (s "catch") [K; B] (catch_clause K B).
Proof.
  open_macro_within.
  match goal with |- exists fuel st' r, eval_internal fuel st ?body ?env ?m d = _ /\ _ /\ _ =>
    assert (H : exists r, evals_to 10 body env d r /\ strip r = strip (catch_clause K B)) end.
  { eexists. split.
    - list_call 8%nat. constructor; [apply (evals_to_mono 2 8); [lia|]; arg_quote|].
      constructor; [|constructor; [apply (evals_to_mono 2 8); [lia|]; arg_quote|constructor; [apply (evals_to_mono 2 8); [lia|]; arg_local|constructor]]].
      list_call 6%nat. constructor; [apply (evals_to_mono 2 6); [lia|]; arg_quote|]. constructor; [|constructor; [|constructor]].
      + list_call 4%nat. constructor; [apply (evals_to_mono 2 4); [lia|]; arg_quote|].
        constructor; [|constructor; [apply (evals_to_mono 2 4); [lia|]; arg_quote|constructor]].
        list_call 2%nat. repeat constructor; [arg_quote|arg_quote].
      + apply (evals_to_mono 4 6); [lia|]. list_call 2%nat. repeat constructor; [arg_quote|arg_local].
    - reflexivity. }
  destruct H as (r & H & Hs). destruct (H st 0%nat Hg) as (st' & He & Hg').
  eexists; exists st', r. split; [exact He|]. split; [exact Hg'|exact Hs].
Qed.
