(* Running the model the way the harness drives the implementation: a fresh interpreter
   (natives, then the Lisp sources loaded from their generated text), then every form of a
   text read and evaluated in turn. *)
From PL Require Export Eval.Eval Generated.LispSrc_gen.
From Coq Require Import String.
Local Open Scope string_scope.
Local Open Scope list_scope.
Local Open Scope N_scope.

Definition native_value (info : native_info) : val :=
  VMeta (Meta (n_name info) LNative 0 0 (n_doc info)) (VNative (n_name info)).

Definition init_state : state :=
  State [Module (s "default") [] None;
         Module (s "native") (map (fun i => (n_name i, native_value i)) native_table) None]
        (s "default") 0 [] [] false [] [] 0.

Definition big_fuel : nat := N.to_nat 200000.

(* ui::load : (load-all "<text>" "<module>") through eval_external *)
Definition load_source (fuel : nat) (st : state) (text name : text) : state * res :=
  eval_top fuel st (vec_to_list [vsym "load-all"; string_to_proper_list text; string_to_proper_list name]).

Definition reset_polls (st : state) : state :=
  State (mods st) (cur st) (gensyms st) (out st) (stdin st) (attached st) (chan st) (inject st) 0.

Inductive outcome :=
| OOk (v : val) | OSig (v : val) | OAbort | ORd (status : text) | ORdSig (v : val) | OPanic | OFuel
| OAnyOk | OAnySig.   (* wildcards used on the expected side when a dump was truncated *)

(* the loop of the driver's `run` verb *)
Fixpoint run_forms (cont : bool) (n : nat) (fuel : nat) (st : state) (cursor : val) (line col : Z) : state * list outcome :=
  match n with
  | O => (st, [OFuel])
  | S n' =>
    if is_nil cursor then (st, []) else
    match call_native fuel st (s "read") [cursor; vsym "stdin"; VNum line; VNum col] VNil 1 with
    | (st1, ROk output) =>
      match property "status" output with
      | Some status =>
        if is_sym status (s "ok") then
          match property "result" output, property "rest" output, property "line" output, property "column" output with
          | Some form, Some rest, Some l, Some c =>
            match getv l, getv c with
            | VNum lz, VNum cz =>
              match eval_top fuel st1 form with
              | (st2, ROk v) => let '(st3, os) := run_forms cont n' fuel st2 rest lz cz in (st3, OOk v :: os)
              | (st2, RSig v) => if cont then let '(st3, os) := run_forms cont n' fuel st2 rest lz cz in (st3, OSig v :: os)
                                 else (st2, [OSig v])
              | (st2, RAbort) => if cont then let '(st3, os) := run_forms cont n' fuel st2 rest lz cz in (st3, OAbort :: os)
                                 else (st2, [OAbort])
              | (st2, RPanic _) => (st2, [OPanic])
              | (st2, RFuel) => (st2, [OFuel])
              end
            | _, _ => (st1, [OPanic])
            end
          | _, _, _, _ => (st1, [OPanic])
          end
        else if is_sym status (s "nothing") then (st1, [])
        else match getv status with
             | VSym (Named nm) => (st1, [ORd nm])
             | _ => (st1, [OPanic])
             end
      | None => (st1, [OPanic])
      end
    | (st1, RSig v) => (st1, [ORdSig v])
    | (st1, RPanic _) => (st1, [OPanic])
    | (st1, _) => (st1, [OFuel])
    end
  end.

Definition run_text_cont (cont : bool) (fuel : nat) (st : state) (t : text) : state * list outcome :=
  run_forms cont (S (List.length t)) fuel (reset_polls st) (string_to_list t) 1 1.
Definition run_text (fuel : nat) (st : state) (t : text) : state * list outcome := run_text_cont false fuel st t.

(* ---- comparison with what the implementation produced ---- *)
(* values are compared structurally, metadata included (documentation and file paths are
   not part of the dump), generated symbols up to a bijection built along the way *)
Definition umap := list (N * N).
Fixpoint ulookup (x : N) (m : umap) : option N := match m with [] => None | (a, b) :: r => if a =? x then Some b else ulookup x r end.
Fixpoint urange (y : N) (m : umap) : bool := match m with [] => false | (_, b) :: r => (b =? y) || urange y r end.

Definition lockind_match (a b : lockind) : bool :=
  match a, b with
  | LNative, LNative | LPrelude, LPrelude | LStdin, LStdin | LFile _, LFile _ => true
  | _, _ => false
  end.
Definition meta_match (a b : meta) : bool :=
  text_eqb (m_name a) (m_name b) && lockind_match (m_kind a) (m_kind b) && (m_line a =? m_line b) && (m_col a =? m_col b).

Fixpoint vmatch (fuel : nat) (m : umap) (a b : val) : option umap :=
  match fuel with
  | O => None
  | S f =>
    let vmatch_list :=
        fix go (m : umap) (l1 l2 : list val) : option umap :=
          match l1, l2 with
          | [], [] => Some m
          | x :: r1, y :: r2 => match vmatch f m x y with Some m' => go m' r1 r2 | None => None end
          | _, _ => None
          end in
    match a, b with
    | VNil, VNil => Some m
    | VNum x, VNum y => if (x =? y)%Z then Some m else None
    | VChar x, VChar y => if x =? y then Some m else None
    | VSym (Named x), VSym (Named y) => if text_eqb x y then Some m else None
    | VSym (Unique x), VSym (Unique y) =>
      match ulookup x m with
      | Some y' => if y' =? y then Some m else None
      | None => if urange y m then None else Some ((x, y) :: m)
      end
    | VCons a1 d1, VCons a2 d2 => match vmatch f m a1 a2 with Some m' => vmatch f m' d1 d2 | None => None end
    | VTrap a1 d1, VTrap a2 d2 => match vmatch f m a1 a2 with Some m' => vmatch f m' d1 d2 | None => None end
    | VMeta m1 x, VMeta m2 y => if meta_match m1 m2 then vmatch f m x y else None
    | VNative x, VNative y => if text_eqb x y then Some m else None
    | VFun mac1 r1 p1 b1 e1 em1, VFun mac2 r2 p2 b2 e2 em2 =>
      if Bool.eqb mac1 mac2 && Bool.eqb r1 r2 && text_eqb em1 em2 then
        match vmatch_list m p1 p2 with
        | Some m1 => match vmatch f m1 b1 b2 with Some m2 => vmatch f m2 e1 e2 | None => None end
        | None => None
        end
      else None
    | _, _ => None
    end
  end.

Definition match_fuel : nat := N.to_nat 100000.

Definition outcome_match (mf : nat) (m : umap) (a b : outcome) : option umap :=
  match b with
  | OAnyOk => match a with OOk _ => Some m | _ => None end
  | OAnySig => match a with OSig _ => Some m | _ => None end
  | OOk y => match a with OOk x => vmatch mf m x y | _ => None end
  | OSig y => match a with OSig x => vmatch mf m x y | _ => None end
  | ORdSig y => match a with ORdSig x => vmatch mf m x y | _ => None end
  | OAbort => match a with OAbort => Some m | _ => None end
  | ORd y => match a with ORd x => if text_eqb x y then Some m else None | _ => None end
  | OPanic => match a with OPanic => Some m | _ => None end
  | OFuel => match a with OFuel => Some m | _ => None end
  end.

Fixpoint outcomes_match (mf : nat) (m : umap) (model expected : list outcome) {struct model} : bool :=
  match model with
  | [] => match expected with [] => true | _ => false end
  | a :: r1 => match expected with
               | [] => false
               | b :: r2 => match outcome_match mf m a b with Some m' => outcomes_match mf m' r1 r2 | None => false end
               end
  end.
