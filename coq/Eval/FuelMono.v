(* Fuel only stands for "enough steps": a result other than out-of-fuel is the result for every
   larger amount of fuel - for the evaluator, the expander, the natives that call back, and load. *)
From PL Require Import Eval.Eval Eval.EvalRules Eval.ExpandProofs Eval.SemProofs Eval.NativesTotal Eval.ModulesPersist.
From Coq Require Import String Lia.
Local Open Scope string_scope.
Local Open Scope list_scope.
Local Open Scope N_scope.

Section Step.
Variable f : nat.

Ltac ok :=
  lazymatch goal with
  | |- cur_ok ?b =>
    first [ assumption
          | match goal with
            | E : poll _ = (b, _) |- _ => apply (proj2 (keeps_poll _ _ _ E)); ok
            | E : eval_internal _ _ _ _ _ _ = (b, _) |- _ => apply (proj2 (persist_e _ _ _ _ _ _ _ _ E)); ok
            | E : eval_args _ _ _ _ _ _ _ = (b, _) |- _ => apply (proj2 (persist_args _ _ _ _ _ _ _ _ _ E)); ok
            | E : expand_internal _ _ _ _ _ _ _ = (b, _, _) |- _ => apply (proj2 (persist_x _ _ _ _ _ _ _ _ _ _ E)); ok
            | E : expand_args _ _ _ _ _ _ _ _ = (b, _, _) |- _ => apply (proj2 (persist_xargs _ _ _ _ _ _ _ _ _ _ _ E)); ok
            | E : expand_completely _ _ _ _ _ _ = (b, _) |- _ => apply (proj2 (persist_c _ _ _ _ _ _ _ _ E)); ok
            | E : call_native _ _ _ _ _ _ = (b, _) |- _ => apply (proj2 (persist_n _ _ _ _ _ _ _ _ E)); ok
            | E : load_loop _ _ _ _ _ _ _ = (b, _) |- _ => apply (proj2 (persist_ld _ _ _ _ _ _ _ _ _ E)); ok
            end ]
  end.

Ltac st_of E := match type of E with
  | eval_internal _ ?a _ _ _ _ = _ => a | eval_loop _ ?a _ _ _ _ = _ => a | expand_internal _ ?a _ _ _ _ _ = _ => a
  | expand_completely _ ?a _ _ _ _ = _ => a | call_native _ ?a _ _ _ _ = _ => a | load_loop _ ?a _ _ _ _ _ = _ => a
  | eval_args _ _ _ _ ?a _ _ = _ => a | expand_args _ _ _ _ ?a _ _ _ = _ => a end.
Ltac okfor E K := let a := st_of E in assert (K : cur_ok a) by ok.

Hypothesis IHe : forall st e env m d st' r, cur_ok st -> eval_internal f st e env m d = (st', r) -> r <> RFuel -> eval_internal (S f) st e env m d = (st', r).
Hypothesis IHl : forall st e env m d st' r, cur_ok st -> eval_loop f st e env m d = (st', r) -> r <> RFuel -> eval_loop (S f) st e env m d = (st', r).
Hypothesis IHx : forall st e env m d ch st' r ch', cur_ok st -> expand_internal f st e env m d ch = (st', r, ch') -> r <> RFuel -> expand_internal (S f) st e env m d ch = (st', r, ch').
Hypothesis IHc : forall st e env m d st' r, cur_ok st -> expand_completely f st e env m d = (st', r) -> r <> RFuel -> expand_completely (S f) st e env m d = (st', r).
Hypothesis IHn : forall st name args env d st' r, cur_ok st -> call_native f st name args env d = (st', r) -> r <> RFuel -> call_native (S f) st name args env d = (st', r).
Hypothesis IHld : forall st cursor source line col d st' r, cur_ok st -> load_loop f st cursor source line col d = (st', r) -> r <> RFuel -> load_loop (S f) st cursor source line col d = (st', r).

(* a sub-evaluation whose out-of-fuel would have been the result did not run out of fuel *)
Ltac nofuel H Hr r1 := let X := fresh in assert (X : r1 <> RFuel) by (intros ->; cbv beta iota in H; injection H; intros; subst; apply Hr; reflexivity); exact X.

Lemma mono_args env m d : forall xs st acc st' r, cur_ok st -> eval_args f env m d st xs acc = (st', r) ->
  (forall rr, r = inr rr -> rr <> RFuel) -> eval_args (S f) env m d st xs acc = (st', r).
Proof.
  induction xs as [|x xs IH]; intros st acc st' r Hok H Hr; [exact H|].
  cbn in H. destruct (eval_internal f st x env m (d + 1)) as [st1 r1] eqn:E.
  assert (Hn : r1 <> RFuel).
  { intros ->. injection H as <- <-. apply (Hr RFuel); reflexivity. }
  pose proof (IHe _ _ _ _ _ _ _ Hok E Hn) as E'.
  destruct r1; try (rewrite (eval_args_cons_escape (S f) env m d st x xs acc st1 _ E') by (intros; discriminate); exact H).
  rewrite (eval_args_cons_ok (S f) env m d st x xs acc st1 v E'). apply IH; [ok|assumption|assumption].
Qed.

(* sub-call [E] at fuel f with result r1 that is not out-of-fuel (else [H] would make r = RFuel): the same at S f *)
Ltac sub IH E H Hr :=
  match type of E with _ = (_, ?r1) =>
    let Hn := fresh "Hn" in
    assert (Hn : r1 <> RFuel) by (intros ->; first [injection H; intros; subst; apply Hr; reflexivity | discriminate H]);
    let K := fresh "K" in okfor E K; rewrite (IH _ _ _ _ _ _ _ K E Hn) end.

Lemma mono_loop st e env m d st' r : cur_ok st -> eval_loop (S f) st e env m d = (st', r) -> r <> RFuel -> eval_loop (S (S f)) st e env m d = (st', r).
Proof.
  intros Hok H Hr. cbn [eval_loop] in H |- *.
  destruct (poll st) as [st0 [pr|]] eqn:Ep; [exact H|].
  destruct (list_to_vec e) as [[|first rest]|] eqn:El; [exact H| |].
  - destruct (is_sym first (s "lambda")); [exact H|].
    destruct (is_sym first (s "quote")); [exact H|].
    destruct (is_sym first (s "if")).
    { destruct (validate (s "if") [TAny; TAny; TAny] rest); [exact H|]. destruct rest as [|c [|t [|o [|? ?]]]]; try exact H.
      destruct (eval_internal f st0 c env m (d + 1)) as [st1 r1] eqn:E. sub IHe E H Hr.
      destruct r1; try exact H. destruct (is_nil v); (apply IHl; [ok|assumption|assumption]). }
    destruct (is_sym first (s "trap")); [exact H|].
    destruct (eval_internal f st0 first env m (d + 1)) as [st1 r1] eqn:E. sub IHe E H Hr.
    destruct r1; try exact H.
    change (fix go (st : state) (xs acc : list val) {struct xs} : state * (list val + res) :=
              match xs with
              | [] => (st, inl (rev acc))
              | x :: xs' => match eval_internal f st x env m (d + 1) with
                            | (st', ROk v) => go st' xs' (v :: acc)
                            | (st', r) => (st', inr r)
                            end
              end) with (eval_args f env m d) in H.
    change (fix go (st : state) (xs acc : list val) {struct xs} : state * (list val + res) :=
              match xs with
              | [] => (st, inl (rev acc))
              | x :: xs' => match eval_internal (S f) st x env m (d + 1) with
                            | (st', ROk v) => go st' xs' (v :: acc)
                            | (st', r) => (st', inr r)
                            end
              end) with (eval_args (S f) env m d).
    destruct (getv v); try exact H.
    + destruct (eval_args f env m d st1 rest []) as [st2 [args|r2]] eqn:Ea.
      * okfor Ea Ka. rewrite (mono_args env m d rest st1 [] st2 (inl args) Ka Ea) by (intros; discriminate).
        destruct (pair_params _ _ _ _ _ _ _); [(apply IHl; [ok|assumption|assumption])|exact H].
      * okfor Ea Ka. rewrite (mono_args env m d rest st1 [] st2 (inr r2) Ka Ea); [exact H|].
        intros rr Hrr. injection Hrr as <-. injection H as _ <-. exact Hr.
    + destruct (eval_args f env m d st1 rest []) as [st2 [args|r2]] eqn:Ea.
      * okfor Ea Ka. rewrite (mono_args env m d rest st1 [] st2 (inl args) Ka Ea) by (intros; discriminate).
        destruct (text_eqb name (s "eval")).
        -- destruct (validate (s "eval") [TAny] args); [exact H|]. destruct args as [|x [|? ?]]; try exact H.
           destruct (expand_completely f st2 x env m (d + 1)) as [st3 r3] eqn:Ex. sub IHc Ex H Hr.
           destruct r3; try exact H. (apply IHl; [ok|assumption|assumption]).
        -- (apply IHn; [ok|assumption|assumption]).
      * okfor Ea Ka. rewrite (mono_args env m d rest st1 [] st2 (inr r2) Ka Ea); [exact H|].
        intros rr Hrr. injection Hrr as <-. injection H as _ <-. exact Hr.
  - destruct (getv e) as [| | |k|a b| | |nb tb|] eqn:Eg; try exact H.
    + destruct (eval_internal f st0 a env m (d + 1)) as [st1 r1] eqn:E1. sub IHe E1 H Hr.
      destruct r1; try exact H.
      destruct (eval_internal f st1 b env m (d + 1)) as [st2 r2] eqn:E2. sub IHe E2 H Hr. exact H.
    + destruct (eval_internal f st0 nb env m (d + 1)) as [st1 r1] eqn:E1. sub IHe E1 H Hr.
      destruct r1; try exact H. (apply IHe; [ok|assumption|assumption]).
Qed.

Lemma mono_xargs env m d : forall xs st acc ch st' r ch', cur_ok st -> expand_args f env m d st xs acc ch = (st', r, ch') ->
  (forall rr, r = inr rr -> rr <> RFuel) -> expand_args (S f) env m d st xs acc ch = (st', r, ch').
Proof.
  induction xs as [|x xs IH]; intros st acc ch st' r ch' Hok H Hr; [exact H|].
  cbn in H. destruct (expand_internal f st x env m (d + 1) ch) as [[st1 r1] ch1] eqn:E.
  assert (Hn : r1 <> RFuel).
  { intros ->. injection H as <- <- <-. apply (Hr RFuel); reflexivity. }
  pose proof (IHx _ _ _ _ _ _ _ _ _ Hok E Hn) as E'.
  unfold expand_args. cbn [fold_right]. fold (expand_args (S f) env m d).
  change (expand_args (S f) env m d st (x :: xs) acc ch) with
    (match expand_internal (S f) st x env m (d + 1) ch with
     | (st', ROk v, ch') => expand_args (S f) env m d st' xs (v :: acc) ch'
     | (st', r, ch') => (st', inr r, ch')
     end).
  rewrite E'. destruct r1; try exact H. apply IH; [ok|assumption|assumption].
Qed.

Ltac subx E H Hr :=
  match type of E with _ = (_, ?r1, _) =>
    let Hn := fresh "Hn" in
    assert (Hn : r1 <> RFuel) by (intros ->; first [injection H; intros; subst; apply Hr; reflexivity | discriminate H]);
    let K := fresh "K" in okfor E K; rewrite (IHx _ _ _ _ _ _ _ _ _ K E Hn) end.

Lemma mono_expand st e env m d ch st' r ch' : cur_ok st -> expand_internal (S f) st e env m d ch = (st', r, ch') -> r <> RFuel ->
  expand_internal (S (S f)) st e env m d ch = (st', r, ch').
Proof.
  intros Hok H Hr. cbn [expand_internal] in H. remember (S f) as f1 eqn:Ef1. cbn [expand_internal]. subst f1.
  destruct (MAXD <? d); [exact H|].
  destruct (list_to_vec e) as [[|first rest]|] eqn:El; [exact H| |].
  - destruct (is_sym first (s "macro")); [exact H|].
    destruct (is_sym first (s "quote")); [exact H|].
    destruct (expand_internal f st first env m (d + 1) ch) as [[st1 r1] ch1] eqn:E. subx E H Hr.
    destruct r1; try exact H.
    change (fix go (st : state) (xs acc : list val) (ch : bool) {struct xs} : state * (list val + res) * bool :=
              match xs with
              | [] => (st, inl (rev acc), ch)
              | x :: xs' => match expand_internal f st x env m (d + 1) ch with
                            | (st', ROk v, ch') => go st' xs' (v :: acc) ch'
                            | (st', r, ch') => (st', inr r, ch')
                            end
              end) with (expand_args f env m d) in H.
    change (fix go (st : state) (xs acc : list val) (ch : bool) {struct xs} : state * (list val + res) * bool :=
              match xs with
              | [] => (st, inl (rev acc), ch)
              | x :: xs' => match expand_internal (S f) st x env m (d + 1) ch with
                            | (st', ROk v, ch') => go st' xs' (v :: acc) ch'
                            | (st', r, ch') => (st', inr r, ch')
                            end
              end) with (expand_args (S f) env m d).
    destruct (expand_args f env m d st1 rest [] ch1) as [[st2 [args|r2]] ch2] eqn:Ea.
    + okfor Ea Ka. rewrite (mono_xargs env m d rest st1 [] ch1 st2 (inl args) ch2 Ka Ea) by (intros; discriminate).
      destruct (getv v) as [| | | | |mac restp params body cenv cmod|name| |]; try exact H.
      * destruct mac; [|exact H]. destruct (pair_params _ _ _ _ _ _ _) as [newenv|]; [|exact H].
        destruct (eval_internal f st2 body newenv cmod (d + 1)) as [st3 r3] eqn:Ee.
        assert (Hn3 : r3 <> RFuel) by (intros ->; injection H; intros; subst; apply Hr; reflexivity).
        okfor Ee K3. rewrite (IHe _ _ _ _ _ _ _ K3 Ee Hn3). exact H.
      * destruct (find_native name native_table) as [info|]; [|exact H]. destruct (n_macro info); [|exact H].
        destruct (call_native f st2 name args env (d + 1)) as [st3 r3] eqn:Ec.
        assert (Hn3 : r3 <> RFuel) by (intros ->; injection H; intros; subst; apply Hr; reflexivity).
        okfor Ec K3. rewrite (IHn _ _ _ _ _ _ _ K3 Ec Hn3). exact H.
    + okfor Ea Ka. rewrite (mono_xargs env m d rest st1 [] ch1 st2 (inr r2) ch2 Ka Ea); [exact H|].
      intros rr Hrr. injection Hrr as <-. injection H as _ <- _. exact Hr.
  - destruct (getv e) as [| | |k|a b| | | |] eqn:Eg; try exact H.
    destruct (expand_internal f st a env m (d + 1) ch) as [[st1 r1] ch1] eqn:E1. subx E1 H Hr.
    destruct r1; try exact H.
    destruct (expand_internal f st1 b env m (d + 1) ch1) as [[st2 r2] ch2] eqn:E2. subx E2 H Hr. exact H.
Qed.

Lemma mono_completely st e env m d st' r : cur_ok st -> expand_completely (S f) st e env m d = (st', r) -> r <> RFuel ->
  expand_completely (S (S f)) st e env m d = (st', r).
Proof.
  intros Hok H Hr. cbn [expand_completely] in H. remember (S f) as f1 eqn:Ef1. cbn [expand_completely]. subst f1.
  destruct (expand_internal f st e env m (d + 1) false) as [[st1 r1] ch1] eqn:E. subx E H Hr.
  destruct r1; try exact H. destruct ch1; [(apply IHc; [ok|assumption|assumption])|exact H].
Qed.

Lemma mono_internal st e env m d st' r : cur_ok st -> eval_internal (S f) st e env m d = (st', r) -> r <> RFuel ->
  eval_internal (S (S f)) st e env m d = (st', r).
Proof. intros Hok H Hr. rewrite R_entry in H |- *. destruct (MAXD <? d); [exact H|]. (apply IHl; [ok|assumption|assumption]). Qed.

Lemma mono_native st name args env d st' r : cur_ok st -> call_native (S f) st name args env d = (st', r) -> r <> RFuel ->
  call_native (S (S f)) st name args env d = (st', r).
Proof.
  intros Hok H Hr. cbn [call_native] in H. remember (S f) as f1 eqn:Ef1. cbn [call_native]. subst f1.
  destruct (find_native name native_table) as [info|]; [|exact H].
  destruct (n_depth_check info && (MAXD <? d)); [exact H|].
  destruct (match n_sig info with Some sig => validate name sig args | None => None end); [exact H|].
  destruct (text_eqb name (s "eval")).
  { destruct args as [|x [|? ?]]; try exact H.
    destruct (expand_completely f st x env (cur st) (d + 1)) as [st1 r1] eqn:Ex. sub IHc Ex H Hr.
    destruct r1; try exact H. (apply IHe; [ok|assumption|assumption]). }
  destruct (text_eqb name (s "macroexpand")).
  { destruct args as [|x [|? ?]]; try exact H. (apply IHc; [ok|assumption|assumption]). }
  destruct (text_eqb name (s "call-native-function")).
  { destruct args as [|fn [|arguments [|environment [|? ?]]]]; try exact H.
    destruct (getv fn); try exact H; destruct (list_to_vec arguments); try exact H. (apply IHn; [ok|assumption|assumption]). }
  destruct (text_eqb name (s "load-all")).
  { destruct args as [|input [|source [|? ?]]]; try exact H.
    set (st0 := match list_to_string source with Some nm => define_module st nm | None => st end) in *.
    assert (K0 : keeps st st0) by (subst st0; destruct (list_to_string source); [apply keeps_define_module|apply keeps_refl]).
    destruct (load_loop f st0 input source 1 1 d) as [st1 r1] eqn:El.
    pose proof (persist_ld _ _ _ _ _ _ _ _ _ El) as K1.
    assert (Hsome : set_current_module st1 (cur st) <> None).
    { unfold set_current_module. destruct (find_module (cur st) (mods st1)) eqn:Ef; [discriminate|].
      exfalso. apply (proj1 K1 (cur st)); [apply (proj1 K0), Hok|exact Ef]. }
    assert (Hn : r1 <> RFuel).
    { intros ->. destruct (set_current_module st1 (cur st)); [injection H; intros; subst; apply Hr; reflexivity|congruence]. }
    rewrite (IHld _ _ _ _ _ _ _ _ (proj2 K0 Hok) El Hn). exact H. }
  exact H.
Qed.

Lemma mono_load st cursor source line col d st' r : cur_ok st -> load_loop (S f) st cursor source line col d = (st', r) -> r <> RFuel ->
  load_loop (S (S f)) st cursor source line col d = (st', r).
Proof.
  intros Hok H Hr. cbn [load_loop] in H. remember (S f) as f1 eqn:Ef1. cbn [load_loop]. subst f1.
  destruct (is_nil cursor); [exact H|].
  destruct (call_native f st (s "read") [cursor; source; VNum line; VNum col] VNil (d + 1)) as [st1 r1] eqn:Er. sub IHn Er H Hr.
  destruct r1 as [output| | | |]; try exact H.
  destruct (property "status" output) as [status|]; [|exact H]. destruct (property "result" output) as [result|]; [|exact H].
  destruct (property "rest" output) as [rest|]; [|exact H]. destruct (property "error" output) as [rerror|]; [|exact H].
  destruct (property "line" output) as [l|]; [|exact H]. destruct (property "column" output) as [c|]; [|exact H].
  assert (Hcont : forall st2, cur_ok st2 -> match getv l, getv c with
              | VNum lz, VNum cz => load_loop f st2 rest source lz cz d
              | _, _ => if is_nil rest then load_loop f st2 rest source 1 1 d
                        else (st2, RSig (make_error "wrong-argument-type" (s "read")
                                          [("argument-value", l); ("expected", vsym "number-type"); ("actual", vsym (tlabel_name (extended_get_type l)))]))
              end = (st', r) ->
              match getv l, getv c with
              | VNum lz, VNum cz => load_loop (S f) st2 rest source lz cz d
              | _, _ => if is_nil rest then load_loop (S f) st2 rest source 1 1 d
                        else (st2, RSig (make_error "wrong-argument-type" (s "read")
                                          [("argument-value", l); ("expected", vsym "number-type"); ("actual", vsym (tlabel_name (extended_get_type l)))]))
              end = (st', r)).
  { intros st2 Hok2 Hc. destruct (getv l); destruct (getv c); try (destruct (is_nil rest); [(apply IHld; [ok|assumption|assumption])|exact Hc]). (apply IHld; [ok|assumption|assumption]). }
  destruct (is_sym status (s "ok")).
  { destruct (call_native f st1 (s "eval") [result] VNil (d + 1)) as [st2 r2] eqn:Ee. sub IHn Ee H Hr.
    destruct r2; try exact H. apply Hcont; [ok|exact H]. }
  destruct (is_sym status (s "incomplete")); [exact H|].
  destruct (is_sym status (s "error")); [exact H|].
  destruct (is_sym status (s "invalid")); [exact H|].
  apply Hcont; [ok|exact H].
Qed.
End Step.

(* one more unit of fuel never changes a result *)
Theorem fuel_succ : forall f,
  (forall st e env m d st' r, cur_ok st -> eval_internal f st e env m d = (st', r) -> r <> RFuel -> eval_internal (S f) st e env m d = (st', r)) /\
  (forall st e env m d st' r, cur_ok st -> eval_loop f st e env m d = (st', r) -> r <> RFuel -> eval_loop (S f) st e env m d = (st', r)) /\
  (forall st e env m d ch st' r ch', cur_ok st -> expand_internal f st e env m d ch = (st', r, ch') -> r <> RFuel -> expand_internal (S f) st e env m d ch = (st', r, ch')) /\
  (forall st e env m d st' r, cur_ok st -> expand_completely f st e env m d = (st', r) -> r <> RFuel -> expand_completely (S f) st e env m d = (st', r)) /\
  (forall st name args env d st' r, cur_ok st -> call_native f st name args env d = (st', r) -> r <> RFuel -> call_native (S f) st name args env d = (st', r)) /\
  (forall st cursor source line col d st' r, cur_ok st -> load_loop f st cursor source line col d = (st', r) -> r <> RFuel -> load_loop (S f) st cursor source line col d = (st', r)).
Proof.
  induction f as [|f (IHe & IHl & IHx & IHc & IHn & IHld)].
  - split; [|split; [|split; [|split; [|split]]]]; intros; match goal with H : _ = _, Hr : _ <> RFuel |- _ => cbn in H; injection H; intros; subst; exfalso; apply Hr; reflexivity end.
  - split; [|split; [|split; [|split; [|split]]]].
    + intros st e env m d st' r. eapply mono_internal; eassumption.
    + intros st e env m d st' r. eapply mono_loop; eassumption.
    + intros st e env m d ch st' r ch'. eapply mono_expand; eassumption.
    + intros st e env m d st' r. eapply mono_completely; eassumption.
    + intros st name args env d st' r. eapply mono_native; eassumption.
    + intros st cursor source line col d st' r. eapply mono_load; eassumption.
Qed.

(* ... hence any larger amount: the value, signal or abort an evaluation ends in does not depend on the fuel *)
Corollary fuel_irrelevant_loop f f' st e env m d st' r : (f <= f')%nat -> cur_ok st -> eval_loop f st e env m d = (st', r) -> r <> RFuel ->
  eval_loop f' st e env m d = (st', r).
Proof. intros Hle Hok H Hr. induction Hle as [|k Hle IH]; [exact H|]. apply (fuel_succ k); assumption. Qed.

Corollary fuel_irrelevant f f' st e env m d st' r : (f <= f')%nat -> cur_ok st -> eval_internal f st e env m d = (st', r) -> r <> RFuel ->
  eval_internal f' st e env m d = (st', r).
Proof. intros Hle Hok H Hr. induction Hle as [|k Hle IH]; [exact H|]. apply (fuel_succ k); assumption. Qed.

Corollary fuel_irrelevant_native f f' st name args env d st' r : (f <= f')%nat -> cur_ok st -> call_native f st name args env d = (st', r) -> r <> RFuel ->
  call_native f' st name args env d = (st', r).
Proof. intros Hle Hok H Hr. induction Hle as [|k Hle IH]; [exact H|]. apply (fuel_succ k); assumption. Qed.

(* two runs of the same evaluation with any two amounts of fuel agree unless one of them ran out *)
Corollary results_agree f1 f2 st e env m d st1 r1 st2 r2 : cur_ok st ->
  eval_internal f1 st e env m d = (st1, r1) -> eval_internal f2 st e env m d = (st2, r2) -> r1 <> RFuel -> r2 <> RFuel ->
  st1 = st2 /\ r1 = r2.
Proof.
  intros Hok H1 H2 Hr1 Hr2. destruct (Nat.le_ge_cases f1 f2) as [Hle|Hle].
  - pose proof (fuel_irrelevant f1 f2 st e env m d st1 r1 Hle Hok H1 Hr1) as H. rewrite H in H2. injection H2 as <- <-. auto.
  - pose proof (fuel_irrelevant f2 f1 st e env m d st2 r2 Hle Hok H2 Hr2) as H. rewrite H in H1. injection H1 as <- <-. auto.
Qed.

