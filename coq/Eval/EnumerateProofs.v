(* C16: enumerate = (zip things (range (length things))): every element paired with its index. *)
From PL Require Import Eval.PreludeState Eval.EvalRules Eval.SemProofs Eval.PreludeProofs Eval.CatchProofs Eval.LengthProofs Eval.RangeProofs Eval.FoldProofs Eval.ZipProofs.
From Coq Require Import String Lia ZArith.
Local Open Scope string_scope.
Local Open Scope list_scope.
Local Open Scope N_scope.

Definition length_val : val := match prelude_global (s "length") with Some v => v | None => VNil end.
Definition length_parts := match getv length_val with VFun _ _ ps b e em => (ps, b, e, em) | _ => ([], VNil, VNil, []) end.
Definition lg_body : val := let '(_, b, _, _) := length_parts in b.
Definition lg_env (things : val) : val :=
  let '(ps, _, e, _) := length_parts in
  match pair_params (s "#<function>") ps false [things] e 0 1 with inl env => env | inr _ => VNil end.
Definition lg_zero : val := match forms_of lg_body with _ :: _ :: x :: _ => x | _ => VNil end.

(* length's body with explicit fuel and its exact value *)
Definition length_value (xs : list val) : val := ml_result xs lg_zero 0.

Lemma length_value_num xs : getv (length_value xs) = VNum (Z.of_nat (List.length xs)).
Proof. unfold length_value. rewrite (ml_result_num xs lg_zero 0 eq_refl). f_equal. Qed.

Lemma length_runs xs g st d : has_prelude st -> d + 3 <= MAXD -> in_i64 (Z.of_nat (List.length xs)) = true ->
  exists st', eval_loop (2 * List.length xs + 11 + g) st lg_body (lg_env (vec_to_list xs)) pm d = (st', ROk (length_value xs)) /\ has_prelude st'.
Proof.
  intros Hg Hd Hi.
  destruct (loop_closure 2 (2 * List.length xs + 8 + g) st lg_body (lg_env (vec_to_list xs)) d (match forms_of lg_body with x :: _ => x | _ => VNil end)
              (match forms_of lg_body with _ :: l => l | _ => [] end) [vec_to_list xs; lg_zero] mlength_val false false
              (let '(ps, _, _, _) := mlength_parts in ps) ml_body (let '(_, _, e, _) := mlength_parts in e) pm
              (ml_env (vec_to_list xs) lg_zero) Hg eq_refl eq_refl) as (st1 & Hg1 & Hcall).
  - apply (ev_global _ (s "-length")); [lia|reflexivity|reflexivity|reflexivity|reflexivity].
  - reflexivity.
  - constructor; [arg_local|]. constructor; [eapply ev_number; [lia|reflexivity|reflexivity]|constructor].
  - reflexivity.
  - destruct (mlength_runs_exact xs lg_zero 0%Z (2 + g)%nat st1 d Hg1 Hd eq_refl ltac:(lia) Hi) as (st2 & Hrun & Hg2).
    exists st2. split; [|exact Hg2].
    replace (2 * List.length xs + 11 + g)%nat with (S (2 + (2 * List.length xs + 8 + g))) by lia.
    etransitivity; [exact Hcall|]. replace (2 + (2 * List.length xs + 8 + g))%nat with (2 * List.length xs + 8 + (2 + g))%nat by lia. exact Hrun.
Qed.

Definition range_val : val := match prelude_global (s "range") with Some v => v | None => VNil end.
Definition range_parts := match getv range_val with VFun _ _ ps b e em => (ps, b, e, em) | _ => ([], VNil, VNil, []) end.
Definition rg_body : val := let '(_, b, _, _) := range_parts in b.
Definition rg_env (n : val) : val :=
  let '(ps, _, e, _) := range_parts in
  match pair_params (s "#<function>") ps false [n] e 0 1 with inl env => env | inr _ => VNil end.

(* range's body with explicit fuel, for a non-negative argument *)
Lemma range_runs mv k g st d : getv mv = VNum (Z.of_nat k) -> in_i64 (Z.of_nat k) = true -> has_prelude st -> d + 3 <= MAXD ->
  exists st', eval_loop (2 * k + 15 + g) st rg_body (rg_env mv) pm d = (st', ROk (upto k nil_value)) /\ has_prelude st'.
Proof.
  intros Hmv Hi Hg Hd.
  assert (Hi' : in_i64 (Z.of_nat k - 1) = true).
  { revert Hi. unfold in_i64, i64_min, i64_max. intros H. apply andb_true_iff in H as [H1 H2]. apply Z.leb_le in H1, H2.
    apply andb_true_iff; split; apply Z.leb_le; lia. }
  set (B := rg_body). set (E := rg_env mv).
  set (sub := match forms_of B with _ :: x :: _ => x | _ => VNil end).
  destruct (loop_closure 4 (2 * k + 10 + g) st B E d (match forms_of B with x :: _ => x | _ => VNil end)
              (match forms_of B with _ :: l => l | _ => [] end) [VNum (Z.of_nat k - 1)%Z; nil_value] mrange_val false false
              (let '(ps, _, _, _) := mrange_parts in ps) mr_body (let '(_, _, e, _) := mrange_parts in e) pm
              (mr_env (VNum (Z.of_nat k - 1)%Z) nil_value) Hg eq_refl eq_refl) as (st1 & Hg1 & Hcall).
  - apply (evals_to_mono 2 4); [lia|]. apply (ev_global _ (s "-range")); [lia|reflexivity|reflexivity|reflexivity|reflexivity].
  - reflexivity.
  - constructor.
    + intros st0 g0 Hg0.
      destruct (ev_native_call 2 sub (match forms_of sub with y :: _ => y | [] => VNil end)
                  (match forms_of sub with _ :: l => l | [] => [] end) [mv; match forms_of sub with _ :: _ :: y :: _ => y | _ => VNil end]
                  (s "substract") sub_native E (d + 1) ltac:(lia) ltac:(lia) eq_refl eq_refl) with (st0 := st0) (g := g0) as (st2 & Hg2 & He); try exact Hg0.
      * apply (ev_global _ (s "substract")); [lia|reflexivity|reflexivity|reflexivity|reflexivity].
      * reflexivity.
      * reflexivity.
      * repeat constructor; [arg_local|eapply ev_number; [lia|reflexivity|reflexivity]].
      * exists st2. split; [|exact Hg2]. etransitivity; [exact He|]. change (2 + g0)%nat with (S (1 + g0)). cbn. rewrite Hmv. cbn. rewrite Hi'. reflexivity.
    + constructor; [|constructor]. apply (evals_to_mono 2 4); [lia|]. arg_global.
  - reflexivity.
  - destruct (mrange_runs k nil_value (4 + g)%nat st1 d Hg1 Hd Hi') as (st2 & Hrun & Hg2).
    exists st2. split; [|exact Hg2].
    replace (2 * k + 15 + g)%nat with (S (4 + (2 * k + 10 + g))) by lia. etransitivity; [exact Hcall|].
    replace (4 + (2 * k + 10 + g))%nat with (2 * k + 10 + (4 + g))%nat by lia. exact Hrun.
Qed.

Definition enum_val : val := match prelude_global (s "enumerate") with Some v => v | None => VNil end.
Definition enum_parts := match getv enum_val with VFun _ _ ps b e em => (ps, b, e, em) | _ => ([], VNil, VNil, []) end.
Definition en_body : val := let '(_, b, _, _) := enum_parts in b.
Definition en_env (things : val) : val :=
  let '(ps, _, e, _) := enum_parts in
  match pair_params (s "#<function>") ps false [things] e 0 1 with inl env => env | inr _ => VNil end.
Definition en_range : val := match forms_of en_body with _ :: _ :: x :: _ => x | _ => VNil end.   (* (range (length things)) *)
Definition en_length : val := match forms_of en_range with _ :: x :: _ => x | _ => VNil end.      (* (length things) *)

Example enumerate_is_a_closure : exists ps b e, getv enum_val = VFun false false ps b e pm.
Proof. vm_compute. eexists; eexists; eexists; reflexivity. Qed.

Definition indices (k : nat) : list val := map (fun i => VNum (Z.of_nat i)) (seq 0 k).

Lemma upto_onto k : forall tl, upto k tl = onto (indices k) tl.
Proof.
  unfold indices. induction k as [|j IH]; intros tl; [reflexivity|].
  cbn [upto]. rewrite IH. rewrite seq_S, map_app. cbn [map]. rewrite onto_app. reflexivity.
Qed.

(* the operand (length things) of the operand (range ...) *)
Lemma ev_en_length xs d : in_i64 (Z.of_nat (List.length xs)) = true -> d + 6 <= MAXD ->
  evals_to (2 * List.length xs + 17) en_length (en_env (vec_to_list xs)) (d + 1 + 1) (length_value xs).
Proof.
  intros Hi Hd st1 g1 Hg1. set (n := List.length xs). set (L := vec_to_list xs).
  replace (2 * n + 17 + g1)%nat with (S (S (4 + (2 * n + 11 + g1)))) by lia.
  rewrite R_entry, (dok (d + 1 + 1) 1 ltac:(lia)).
  destruct (loop_closure 4 (2 * n + 11 + g1) st1 en_length (en_env L) (d + 1 + 1) (match forms_of en_length with z :: _ => z | _ => VNil end)
              (match forms_of en_length with _ :: l => l | _ => [] end) [L] length_val false false
              (let '(ps, _, _, _) := length_parts in ps) lg_body (let '(_, _, e, _) := length_parts in e) pm
              (lg_env L) Hg1 eq_refl eq_refl) as (st2 & Hg2 & Hcall).
  - apply (evals_to_mono 2 4); [lia|]. apply (ev_global _ (s "length")); [lia|reflexivity|reflexivity|reflexivity|reflexivity].
  - reflexivity.
  - constructor; [apply (evals_to_mono 2 4); [lia|]; arg_local|constructor].
  - reflexivity.
  - destruct (length_runs xs (4 + g1)%nat st2 (d + 1 + 1) Hg2 ltac:(lia) Hi) as (st3 & Hrun & Hg3).
    exists st3. split; [|exact Hg3]. rewrite Hcall.
    replace (4 + (2 * n + 11 + g1))%nat with (2 * List.length xs + 11 + (4 + g1))%nat by (unfold n; lia). exact Hrun.
Qed.

(* the operand (range (length things)) *)
Lemma ev_en_range xs d : in_i64 (Z.of_nat (List.length xs)) = true -> d + 6 <= MAXD ->
  evals_to (4 * List.length xs + 40) en_range (en_env (vec_to_list xs)) (d + 1) (upto (List.length xs) nil_value).
Proof.
  intros Hi Hd st1 g1 Hg1. set (n := List.length xs). set (L := vec_to_list xs).
  set (KK := (2 * n + 17)%nat).
  replace (4 * n + 40 + g1)%nat with (S (S (KK + (2 * n + 21 + g1)))) by (unfold KK; lia).
  rewrite R_entry, (dok (d + 1) 1 ltac:(lia)).
  destruct (loop_closure KK (2 * n + 21 + g1) st1 en_range (en_env L) (d + 1) (match forms_of en_range with z :: _ => z | _ => VNil end)
              [en_length] [length_value xs] range_val false false
              (let '(ps, _, _, _) := range_parts in ps) rg_body (let '(_, _, e, _) := range_parts in e) pm
              (rg_env (length_value xs)) Hg1 eq_refl eq_refl) as (st2 & Hg2 & Hcall).
  - apply (evals_to_mono 2 KK); [unfold KK; lia|]. apply (ev_global _ (s "range")); [lia|reflexivity|reflexivity|reflexivity|reflexivity].
  - reflexivity.
  - constructor; [apply ev_en_length; assumption|constructor].
  - reflexivity.
  - destruct (range_runs (length_value xs) n (KK + 6 + g1)%nat st2 (d + 1) (length_value_num xs) Hi Hg2 ltac:(lia)) as (st3 & Hrun & Hg3).
    exists st3. split; [|exact Hg3]. rewrite Hcall.
    replace (KK + (2 * n + 21 + g1))%nat with (2 * n + 15 + (KK + 6 + g1))%nat by (unfold KK; lia). exact Hrun.
Qed.

(* enumerate: every element with its index, for every list *)
Theorem enumerate_runs xs st d : in_i64 (Z.of_nat (List.length xs)) = true -> has_prelude st -> d + 6 <= MAXD ->
  exists fuel st' r, eval_loop fuel st en_body (en_env (vec_to_list xs)) pm d = (st', ROk r) /\ has_prelude st' /\
                     strip r = strip (vec_to_list (map pair_of (combine xs (indices (List.length xs))))).
Proof.
  intros Hi Hg Hd. set (n := List.length xs). set (L := vec_to_list xs).
  set (KK := (4 * n + 40)%nat).
  assert (Hnil : is_nil nil_value = true) by reflexivity.
  set (FZ := (3 * n + 2 * List.length (combine xs (indices n)) + 36)%nat).
  destruct (loop_closure KK FZ st en_body (en_env L) d (match forms_of en_body with z :: _ => z | _ => VNil end)
              (match forms_of en_body with _ :: l => l | _ => [] end) [L; upto n nil_value] zip_val false false
              (let '(ps, _, _, _) := zip_parts in ps) zp_body (let '(_, _, e, _) := zip_parts in e) pm
              (zp_env L (upto n nil_value)) Hg eq_refl eq_refl) as (st1 & Hg1 & Hcall).
  - apply (evals_to_mono 2 KK); [unfold KK; lia|]. apply (ev_global _ (s "zip")); [lia|reflexivity|reflexivity|reflexivity|reflexivity].
  - reflexivity.
  - constructor; [apply (evals_to_mono 2 KK); [unfold KK; lia|]; arg_local|]. constructor; [apply ev_en_range; assumption|constructor].
  - reflexivity.
  - pose proof (zip_runs_fuel VNil nil_value xs (indices n) KK st1 d eq_refl Hnil Hg1 ltac:(lia)) as (st2 & r & Hrun & Hg2 & Hr).
    rewrite onto_nil in Hrun. rewrite <- upto_onto in Hrun.
    exists (S (KK + FZ)), st2, r. split; [|split; [exact Hg2|exact Hr]].
    rewrite Hcall. replace (KK + FZ)%nat with (3 * List.length xs + 2 * List.length (combine xs (indices n)) + 36 + KK)%nat by (unfold FZ, n; lia). exact Hrun.
Qed.

Example enumerate_instance : forall st d, has_prelude st -> d + 6 <= MAXD ->
  exists fuel st' r, eval_loop fuel st en_body (en_env (vec_to_list [vsym "a"; vsym "b"])) pm d = (st', ROk r) /\ has_prelude st' /\
                     strip r = vec_to_list [VCons (vsym "a") (VNum 0); VCons (vsym "b") (VNum 1)].
Proof. intros st d Hg Hd. exact (enumerate_runs [vsym "a"; vsym "b"] st d eq_refl Hg Hd). Qed.
