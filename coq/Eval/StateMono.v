(* The interpreter state only grows in three respects, whatever is evaluated: the counter of generated
   symbols never goes back (so a symbol made by gensym is never made again), standard output is only
   appended to (nothing written is ever taken back), and the count of debugger polls never decreases. *)
From PL Require Import Eval.Eval Eval.EvalRules Eval.ExpandProofs Eval.SemProofs Eval.NativesTotal.
From Coq Require Import String Lia.
Local Open Scope string_scope.
Local Open Scope list_scope.
Local Open Scope N_scope.

Definition grows (st st' : state) : Prop :=
  gensyms st <= gensyms st' /\ polls st <= polls st' /\ exists t, out st' = out st ++ t.

Lemma grows_refl st : grows st st. Proof. repeat split; try lia. exists []. rewrite app_nil_r. reflexivity. Qed.
Lemma grows_trans a b c : grows a b -> grows b c -> grows a c.
Proof. intros (G1 & P1 & t1 & O1) (G2 & P2 & t2 & O2). repeat split; try lia. exists (t1 ++ t2). rewrite O2, O1, app_assoc. reflexivity. Qed.
Lemma grows_same st st' : gensyms st' = gensyms st -> polls st' = polls st -> out st' = out st -> grows st st'.
Proof. intros G P O. unfold grows. rewrite G, P, O. repeat split; try lia. exists []. rewrite app_nil_r. reflexivity. Qed.

Lemma grows_define st name v : grows st (define_global st name v). Proof. apply grows_same; reflexivity. Qed.
Lemma grows_undefine st name : grows st (undefine_global st name). Proof. apply grows_same; reflexivity. Qed.
Lemma grows_export st name : grows st (add_export st name). Proof. apply grows_same; reflexivity. Qed.
Lemma grows_define_module st name : grows st (define_module st name). Proof. apply grows_same; reflexivity. Qed.
Lemma grows_gensym st : grows st (bump_gensym st).
Proof. unfold grows. cbn. repeat split; try lia. exists []. rewrite app_nil_r. reflexivity. Qed.
Lemma grows_out st t : grows st (set_out st (out st ++ t)).
Proof. unfold grows. cbn. repeat split; try lia. exists t. reflexivity. Qed.

Lemma grows_export_walk name : forall l st st' r, export_walk name st l = (st', r) -> grows st st'.
Proof.
  induction l as [|x l IH]; intros st st' r H; cbn [export_walk] in H.
  - injection H as <- _. apply grows_refl.
  - destruct (getv x); try (injection H as <- _; apply grows_refl).
    eapply grows_trans; [apply grows_export|eapply IH; exact H].
Qed.

Lemma grows_polled st st' : gensyms st' = gensyms st -> polls st' = polls st + 1 -> out st' = out st -> grows st st'.
Proof. intros G P O. unfold grows. rewrite G, P, O. repeat split; try lia. exists []. rewrite app_nil_r. reflexivity. Qed.

Lemma grows_poll st st' r : poll st = (st', r) -> grows st st'.
Proof.
  unfold poll. destruct (attached st).
  - destruct (chan st ++ _) as [|c rest]; [intros H; injection H as <- _; apply grows_polled; reflexivity|].
    destruct (text_eqb c (s "INTERRUPT")); [intros H; injection H as <- _; apply grows_polled; reflexivity|].
    destruct (text_eqb c (s "ABORT")); intros H; injection H as <- _; apply grows_polled; reflexivity.
  - intros H; injection H as <- _; apply grows_polled; reflexivity.
Qed.

Global Hint Resolve grows_refl grows_define grows_undefine grows_export grows_define_module grows_gensym grows_out : grows.

(* every primitive *)
Definition native_grows (info : native_info) : Prop :=
  forall st args d st' r, simple_native st (n_name info) args d = Some (st', r) -> grows st st'.

Ltac crunchk H :=
  repeat match type of H with
         | context [match ?x with _ => _ end] => destruct x eqn:?
         | context [if ?x then _ else _] => destruct x eqn:?
         end.

Ltac grows_leaf H :=
  first [ discriminate H
        | injection H as <- _; first [ solve [auto with grows] | apply grows_same; reflexivity ] ].

Lemma all_natives_grow : Forall native_grows native_table.
Proof.
  unfold native_table.
  repeat (apply Forall_cons; [intros st args d st' r H; cbn [n_name] in H; cbn in H; timeout 120 (crunchk H); try grows_leaf H|]); [..|apply Forall_nil].
  injection H as H. eapply grows_export_walk; exact H.
Qed.

Lemma simple_native_grows st name args d st' r : simple_native st name args d = Some (st', r) -> grows st st'.
Proof.
  intros H. destruct (find_native name native_table) as [info|] eqn:Hf.
  - destruct (find_native_In name native_table info Hf) as [Hin <-].
    pose proof all_natives_grow as Hall. rewrite Forall_forall in Hall. exact (Hall info Hin st args d st' r H).
  - (* a name outside the table has no model *)
    exfalso. revert H. unfold simple_native.
    assert (Hn : forall lit, In lit (map n_name native_table) -> text_eqb name lit = false).
    { intros lit Hin. destruct (text_eqb_spec name lit) as [->|]; [|reflexivity].
      exfalso. apply in_map_iff in Hin as (i & Hi & Hin). clear -Hf Hi Hin.
      induction native_table as [|x l IH]; [contradiction|]. cbn [find_native] in Hf.
      destruct (text_eqb_spec lit (n_name x)); [discriminate|]. destruct Hin as [->|Hin]; [congruence|auto]. }
    cbv zeta. repeat (rewrite Hn by (vm_compute; tauto)). discriminate.
Qed.


Ltac kt := eauto 10 using grows_trans, grows_refl.
Ltac leaf H := injection H; intros; subst; kt.

Section Step.
Variable f : nat.
Hypothesis IHe : forall st e env m d st' r, eval_internal f st e env m d = (st', r) -> grows st st'.
Hypothesis IHl : forall st e env m d st' r, eval_loop f st e env m d = (st', r) -> grows st st'.
Hypothesis IHx : forall st e env m d ch st' r ch', expand_internal f st e env m d ch = (st', r, ch') -> grows st st'.
Hypothesis IHc : forall st e env m d st' r, expand_completely f st e env m d = (st', r) -> grows st st'.
Hypothesis IHn : forall st name args env d st' r, call_native f st name args env d = (st', r) -> grows st st'.
Hypothesis IHld : forall st cursor source line col d st' r, load_loop f st cursor source line col d = (st', r) -> grows st st'.

Lemma eval_args_grows env m d : forall xs st acc st' r, eval_args f env m d st xs acc = (st', r) -> grows st st'.
Proof.
  induction xs as [|x xs IH]; intros st acc st' r H; cbn in H; [leaf H|].
  destruct (eval_internal f st x env m (d + 1)) as [st1 r1] eqn:E. pose proof (IHe _ _ _ _ _ _ _ E) as K.
  destruct r1; try (leaf H). pose proof (IH _ _ _ _ H). kt.
Qed.

Lemma expand_args_grows env m d : forall xs st acc ch st' r ch', expand_args f env m d st xs acc ch = (st', r, ch') -> grows st st'.
Proof.
  induction xs as [|x xs IH]; intros st acc ch st' r ch' H; cbn in H; [leaf H|].
  destruct (expand_internal f st x env m (d + 1) ch) as [[st1 r1] ch1] eqn:E. pose proof (IHx _ _ _ _ _ _ _ _ _ E) as K.
  destruct r1; try (leaf H). pose proof (IH _ _ _ _ _ _ H). kt.
Qed.

Lemma grows_loop st e env m d st' r : eval_loop (S f) st e env m d = (st', r) -> grows st st'.
Proof.
  intros H. cbn [eval_loop] in H.
  destruct (poll st) as [st0 [pr|]] eqn:Ep; pose proof (grows_poll _ _ _ Ep) as K0; [leaf H|].
  destruct (list_to_vec e) as [[|first rest]|] eqn:El; [leaf H| |].
  - destruct (is_sym first (s "lambda")); [leaf H|].
    destruct (is_sym first (s "quote")).
    { destruct (validate (s "quote") [TAny] rest); [leaf H|]. destruct rest as [|x [|? ?]]; leaf H. }
    destruct (is_sym first (s "if")).
    { destruct (validate (s "if") [TAny; TAny; TAny] rest); [leaf H|]. destruct rest as [|c [|t [|o [|? ?]]]]; try (leaf H).
      destruct (eval_internal f st0 c env m (d + 1)) as [st1 r1] eqn:E. pose proof (IHe _ _ _ _ _ _ _ E) as K1.
      destruct r1; try (leaf H). destruct (is_nil v); pose proof (IHl _ _ _ _ _ _ _ H); kt. }
    destruct (is_sym first (s "trap")).
    { destruct (validate (s "trap") [TAny; TAny] rest); [leaf H|]. destruct rest as [|nb [|tb [|? ?]]]; leaf H. }
    destruct (eval_internal f st0 first env m (d + 1)) as [st1 r1] eqn:E. pose proof (IHe _ _ _ _ _ _ _ E) as K1.
    destruct r1; try (leaf H).
    change (fix go (st : state) (xs acc : list val) {struct xs} : state * (list val + res) :=
              match xs with
              | [] => (st, inl (rev acc))
              | x :: xs' => match eval_internal f st x env m (d + 1) with
                            | (st', ROk v) => go st' xs' (v :: acc)
                            | (st', r) => (st', inr r)
                            end
              end) with (eval_args f env m d) in H.
    destruct (getv v); try (leaf H).
    + destruct (eval_args f env m d st1 rest []) as [st2 [args|r2]] eqn:Ea; pose proof (eval_args_grows _ _ _ _ _ _ _ _ Ea) as K2; [|leaf H].
      destruct (pair_params _ _ _ _ _ _ _); [pose proof (IHl _ _ _ _ _ _ _ H); kt|leaf H].
    + destruct (eval_args f env m d st1 rest []) as [st2 [args|r2]] eqn:Ea; pose proof (eval_args_grows _ _ _ _ _ _ _ _ Ea) as K2; [|leaf H].
      destruct (text_eqb name (s "eval")).
      * destruct (validate (s "eval") [TAny] args); [leaf H|]. destruct args as [|x [|? ?]]; try (leaf H).
        destruct (expand_completely f st2 x env m (d + 1)) as [st3 r3] eqn:Ex. pose proof (IHc _ _ _ _ _ _ _ Ex) as K3.
        destruct r3; try (leaf H). pose proof (IHl _ _ _ _ _ _ _ H); kt.
      * pose proof (IHn _ _ _ _ _ _ _ H); kt.
  - destruct (getv e) as [| | |k|a b| | |nb tb|] eqn:Eg; try (leaf H).
    + destruct (env_lookup env k); [leaf H|]. destruct k as [n|u]; [|leaf H]. destruct (get_global _ _ _); leaf H.
    + destruct (eval_internal f st0 a env m (d + 1)) as [st1 r1] eqn:E1. pose proof (IHe _ _ _ _ _ _ _ E1) as K1.
      destruct r1; try (leaf H).
      destruct (eval_internal f st1 b env m (d + 1)) as [st2 r2] eqn:E2. pose proof (IHe _ _ _ _ _ _ _ E2) as K2.
      destruct r2; leaf H.
    + destruct (eval_internal f st0 nb env m (d + 1)) as [st1 r1] eqn:E1. pose proof (IHe _ _ _ _ _ _ _ E1) as K1.
      destruct r1; try (leaf H). pose proof (IHe _ _ _ _ _ _ _ H); kt.
Qed.

Lemma grows_expand st e env m d ch st' r ch' : expand_internal (S f) st e env m d ch = (st', r, ch') -> grows st st'.
Proof.
  intros H. cbn [expand_internal] in H.
  destruct (MAXD <? d); [leaf H|].
  destruct (list_to_vec e) as [[|first rest]|] eqn:El; [leaf H| |].
  - destruct (is_sym first (s "macro")); [leaf H|].
    destruct (is_sym first (s "quote")); [leaf H|].
    destruct (expand_internal f st first env m (d + 1) ch) as [[st1 r1] ch1] eqn:E. pose proof (IHx _ _ _ _ _ _ _ _ _ E) as K1.
    destruct r1; try (leaf H).
    change (fix go (st : state) (xs acc : list val) (ch : bool) {struct xs} : state * (list val + res) * bool :=
              match xs with
              | [] => (st, inl (rev acc), ch)
              | x :: xs' => match expand_internal f st x env m (d + 1) ch with
                            | (st', ROk v, ch') => go st' xs' (v :: acc) ch'
                            | (st', r, ch') => (st', inr r, ch')
                            end
              end) with (expand_args f env m d) in H.
    destruct (expand_args f env m d st1 rest [] ch1) as [[st2 [args|r2]] ch2] eqn:Ea; pose proof (expand_args_grows _ _ _ _ _ _ _ _ _ _ Ea) as K2; [|leaf H].
    destruct (getv v) as [| | | | |mac restp params body cenv cmod|name| |]; try (leaf H).
    + destruct mac; [|leaf H]. destruct (pair_params _ _ _ _ _ _ _) as [newenv|]; [|leaf H].
      destruct (eval_internal f st2 body newenv cmod (d + 1)) as [st3 r3] eqn:Ee. pose proof (IHe _ _ _ _ _ _ _ Ee). leaf H.
    + destruct (find_native name native_table) as [info|]; [|leaf H]. destruct (n_macro info); [|leaf H].
      destruct (call_native f st2 name args env (d + 1)) as [st3 r3] eqn:Ec. pose proof (IHn _ _ _ _ _ _ _ Ec). leaf H.
  - destruct (getv e) as [| | |k|a b| | | |] eqn:Eg; try (leaf H).
    + destruct (env_lookup env k) as [v|].
      * destruct (getv v) as [| | | | |mac ? ? ? ? ?|name| |]; try (leaf H).
        -- destruct mac; leaf H.
        -- destruct (find_native name native_table) as [info|]; [|leaf H]. destruct (n_macro info); leaf H.
      * destruct k as [n|u]; [|leaf H]. destruct (get_global _ _ _) as [v| |]; try (leaf H).
        destruct (getv v) as [| | | | |mac ? ? ? ? ?|name| |]; try (leaf H).
        -- destruct mac; leaf H.
        -- destruct (find_native name native_table) as [info|]; [|leaf H]. destruct (n_macro info); leaf H.
    + destruct (expand_internal f st a env m (d + 1) ch) as [[st1 r1] ch1] eqn:E1. pose proof (IHx _ _ _ _ _ _ _ _ _ E1) as K1.
      destruct r1; try (leaf H).
      destruct (expand_internal f st1 b env m (d + 1) ch1) as [[st2 r2] ch2] eqn:E2. pose proof (IHx _ _ _ _ _ _ _ _ _ E2) as K2.
      destruct r2; leaf H.
Qed.

Lemma grows_completely st e env m d st' r : expand_completely (S f) st e env m d = (st', r) -> grows st st'.
Proof.
  intros H. cbn [expand_completely] in H.
  destruct (expand_internal f st e env m (d + 1) false) as [[st1 r1] ch1] eqn:E. pose proof (IHx _ _ _ _ _ _ _ _ _ E) as K1.
  destruct r1; try (leaf H). destruct ch1; [pose proof (IHc _ _ _ _ _ _ _ H); kt|leaf H].
Qed.

Lemma grows_internal st e env m d st' r : eval_internal (S f) st e env m d = (st', r) -> grows st st'.
Proof. intros H. rewrite R_entry in H. destruct (MAXD <? d); [leaf H|]. eapply IHl; exact H. Qed.

Lemma grows_set_cur st name m : find_module name (mods st) = Some m -> grows st (set_cur st name).
Proof. intros _. apply grows_same; reflexivity. Qed.

Lemma grows_native st name args env d st' r : call_native (S f) st name args env d = (st', r) -> grows st st'.
Proof.
  intros H. cbn [call_native] in H.
  destruct (find_native name native_table) as [info|]; [|leaf H].
  destruct (n_depth_check info && (MAXD <? d)); [leaf H|].
  destruct (match n_sig info with Some sig => validate name sig args | None => None end); [leaf H|].
  destruct (text_eqb name (s "eval")).
  { destruct args as [|x [|? ?]]; try (leaf H).
    destruct (expand_completely f st x env (cur st) (d + 1)) as [st1 r1] eqn:Ex. pose proof (IHc _ _ _ _ _ _ _ Ex) as K1.
    destruct r1; try (leaf H). pose proof (IHe _ _ _ _ _ _ _ H); kt. }
  destruct (text_eqb name (s "macroexpand")).
  { destruct args as [|x [|? ?]]; try (leaf H). eapply IHc; exact H. }
  destruct (text_eqb name (s "call-native-function")).
  { destruct args as [|fn [|arguments [|environment [|? ?]]]]; try (leaf H).
    destruct (getv fn); try (leaf H); destruct (list_to_vec arguments); try (leaf H). eapply IHn; exact H. }
  destruct (text_eqb name (s "load-all")).
  { destruct args as [|input [|source [|? ?]]]; try (leaf H).
    set (st0 := match list_to_string source with Some nm => define_module st nm | None => st end) in *.
    assert (K0 : grows st st0) by (subst st0; destruct (list_to_string source); [apply grows_define_module|apply grows_refl]).
    destruct (load_loop f st0 input source 1 1 d) as [st1 r1] eqn:El. pose proof (IHld _ _ _ _ _ _ _ _ El) as K1.
    unfold set_current_module in H. destruct (find_module (cur st) (mods st1)) as [mm|] eqn:Ef; [|leaf H].
    pose proof (grows_set_cur st1 (cur st) mm Ef). leaf H. }
  destruct (simple_native st name args d) as [[st1 r1]|] eqn:Es; [|leaf H].
  pose proof (simple_native_grows _ _ _ _ _ _ Es). leaf H.
Qed.

Lemma grows_load st cursor source line col d st' r : load_loop (S f) st cursor source line col d = (st', r) -> grows st st'.
Proof.
  intros H. cbn [load_loop] in H.
  destruct (is_nil cursor); [leaf H|].
  destruct (call_native f st (s "read") [cursor; source; VNum line; VNum col] VNil (d + 1)) as [st1 r1] eqn:Er. pose proof (IHn _ _ _ _ _ _ _ Er) as K1.
  destruct r1 as [output| | | |]; try (leaf H).
  destruct (property "status" output) as [status|]; [|leaf H]. destruct (property "result" output) as [result|]; [|leaf H].
  destruct (property "rest" output) as [rest|]; [|leaf H]. destruct (property "error" output) as [rerror|]; [|leaf H].
  destruct (property "line" output) as [l|]; [|leaf H]. destruct (property "column" output) as [c|]; [|leaf H].
  assert (Hcont : forall st2 st3 r3, match getv l, getv c with
              | VNum lz, VNum cz => load_loop f st2 rest source lz cz d
              | _, _ => if is_nil rest then load_loop f st2 rest source 1 1 d
                        else (st2, RSig (make_error "wrong-argument-type" (s "read")
                                          [("argument-value", l); ("expected", vsym "number-type"); ("actual", vsym (tlabel_name (extended_get_type l)))]))
              end = (st3, r3) -> grows st2 st3).
  { intros st2 st3 r3 Hc. destruct (getv l); destruct (getv c); try (destruct (is_nil rest); [eapply IHld; exact Hc|injection Hc as <- _; apply grows_refl]). eapply IHld; exact Hc. }
  destruct (is_sym status (s "ok")).
  { destruct (call_native f st1 (s "eval") [result] VNil (d + 1)) as [st2 r2] eqn:Ee. pose proof (IHn _ _ _ _ _ _ _ Ee) as K2.
    destruct r2; try (leaf H). pose proof (Hcont _ _ _ H). kt. }
  destruct (is_sym status (s "incomplete")); [leaf H|].
  destruct (is_sym status (s "error")); [leaf H|].
  destruct (is_sym status (s "invalid")); [leaf H|].
  pose proof (Hcont _ _ _ H). kt.
Qed.
End Step.

(* every expression, environment, module, depth, state and amount of fuel *)
Theorem state_grows : forall fuel,
  (forall st e env m d st' r, eval_internal fuel st e env m d = (st', r) -> grows st st') /\
  (forall st e env m d st' r, eval_loop fuel st e env m d = (st', r) -> grows st st') /\
  (forall st e env m d ch st' r ch', expand_internal fuel st e env m d ch = (st', r, ch') -> grows st st') /\
  (forall st e env m d st' r, expand_completely fuel st e env m d = (st', r) -> grows st st') /\
  (forall st name args env d st' r, call_native fuel st name args env d = (st', r) -> grows st st') /\
  (forall st cursor source line col d st' r, load_loop fuel st cursor source line col d = (st', r) -> grows st st').
Proof.
  induction fuel as [|f (IHe & IHl & IHx & IHc & IHn & IHld)].
  - split; [|split; [|split; [|split; [|split]]]]; intros; match goal with H : _ = _ |- _ => cbn in H; injection H; intros; subst; apply grows_refl end.
  - split; [|split; [|split; [|split; [|split]]]].
    + intros st e env m d st' r. apply (grows_internal f IHl).
    + intros st e env m d st' r. apply (grows_loop f IHe IHl IHc IHn).
    + intros st e env m d ch st' r ch'. apply (grows_expand f IHe IHx IHn).
    + intros st e env m d st' r. apply (grows_completely f IHx IHc).
    + intros st name args env d st' r. apply (grows_native f IHe IHc IHn IHld).
    + intros st cursor source line col d st' r. apply (grows_load f IHn IHld).
Qed.


(* the same, one function at a time *)
Lemma grows_e f st e env m d st' r : eval_internal f st e env m d = (st', r) -> grows st st'.
Proof. apply (state_grows f). Qed.
Lemma grows_l f st e env m d st' r : eval_loop f st e env m d = (st', r) -> grows st st'.
Proof. apply (state_grows f). Qed.
Lemma grows_x f st e env m d ch st' r ch' : expand_internal f st e env m d ch = (st', r, ch') -> grows st st'.
Proof. apply (state_grows f). Qed.
Lemma grows_c f st e env m d st' r : expand_completely f st e env m d = (st', r) -> grows st st'.
Proof. apply (state_grows f). Qed.
Lemma grows_n f st name args env d st' r : call_native f st name args env d = (st', r) -> grows st st'.
Proof. apply (state_grows f). Qed.
Lemma grows_ld f st cursor source line col d st' r : load_loop f st cursor source line col d = (st', r) -> grows st st'.
Proof. apply (state_grows f). Qed.
Lemma grows_args f env m d xs st acc st' r : eval_args f env m d st xs acc = (st', r) -> grows st st'.
Proof. apply (eval_args_grows f (grows_e f)). Qed.
Lemma grows_xargs f env m d xs st acc ch st' r ch' : expand_args f env m d st xs acc ch = (st', r, ch') -> grows st st'.
Proof. apply (expand_args_grows f (grows_x f)). Qed.


(* gensym: a generated symbol is never generated again, whatever is evaluated in between *)
Corollary gensym_never_repeats fuel s1 s1' g1 name args env d0 d1 d2 s2 r s2' g2 :
  simple_native s1 (s "gensym") [] d0 = Some (s1', ROk g1) ->
  call_native fuel s1' name args env d1 = (s2, r) ->
  simple_native s2 (s "gensym") [] d2 = Some (s2', ROk g2) ->
  g1 <> g2.
Proof.
  intros H1 H H2. cbn in H1, H2. injection H1 as <- <-. injection H2 as _ <-.
  destruct (grows_n fuel _ _ _ _ _ _ _ H) as (G & _). cbn in G. intros E. injection E as E. lia.
Qed.

(* output is only ever appended to *)
Corollary output_append_only fuel st e env m d st' r : eval_internal fuel st e env m d = (st', r) -> exists t, out st' = out st ++ t.
Proof. intros H. exact (proj2 (proj2 (grows_e fuel _ _ _ _ _ _ _ H))). Qed.
