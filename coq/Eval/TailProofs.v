(* C07: a tail-recursive loop runs for EVERY number of iterations at the depth it was
   started at.  The loop is   (define 'walk (lambda (l) (if l (walk (cdr l)) 'done)) "")
   i.e. a walk down a list through `if` and a closure call in tail position; the theorem
   is for every list (any length, any elements). *)
From PL Require Import Eval.EvalRules Eval.SemProofs Eval.Run.
From Coq Require Import String.
Local Open Scope string_scope.
Local Open Scope list_scope.
Local Open Scope N_scope.

Definition walk_body : val :=
  vec_to_list [vsym "if"; vsym "l";
               vec_to_list [vsym "walk"; vec_to_list [vsym "cdr"; vsym "l"]];
               vec_to_list [vsym "quote"; vsym "done"]].
Definition walk_fun : val := VFun false false [vsym "l"] walk_body VNil (s "default").
Definition st_walk : state := define_global init_state (s "walk") walk_fun.
Definition dflt : text := s "default".

Definition good (st : state) : Prop := attached st = false /\ mods st = mods st_walk.

Lemma poll_good st : good st -> exists st', poll st = (st', None) /\ good st'.
Proof. intros [Ha Hm]. unfold poll. rewrite Ha. eexists. split; [reflexivity|]. split; [reflexivity|exact Hm]. Qed.

Lemma depth_ok d : d <= MAXD -> (MAXD <? d) = false.
Proof. intros H. apply N.ltb_ge. exact H. Qed.

(* a local variable *)
Lemma ev_local f st k v env d : good st -> d <= MAXD -> env_lookup env k = LFound v ->
  exists st', eval_internal (S (S f)) st (VSym k) env dflt d = (st', ROk v) /\ good st'.
Proof.
  intros Hg Hd Hl. destruct (poll_good st Hg) as (st' & Hp & Hg').
  exists st'. split; [|exact Hg']. rewrite R_entry, (depth_ok d Hd).
  eapply R_var_local; [exact Hp|reflexivity|reflexivity|exact Hl].
Qed.

(* a global *)
Lemma ev_global f st n v env d : good st -> d <= MAXD -> env_lookup env (Named n) = LMissing ->
  get_global (mods st_walk) n dflt = GOk v ->
  exists st', eval_internal (S (S f)) st (VSym (Named n)) env dflt d = (st', ROk v) /\ good st'.
Proof.
  intros Hg Hd Hl Hglob. destruct (poll_good st Hg) as (st' & Hp & Hg').
  exists st'. split; [|exact Hg']. rewrite R_entry, (depth_ok d Hd).
  rewrite (R_var_global f st st' (VSym (Named n)) env dflt d Hp n eq_refl eq_refl Hl).
  destruct Hg' as [_ Hm]. rewrite Hm, Hglob. reflexivity.
Qed.

Definition env_of (l : val) : val := bind (vsym "l") l VNil.

(* (cdr l) with l bound to a non-empty list *)
Lemma ev_cdr f st x r d : good st -> d + 1 <= MAXD ->
  exists st', eval_internal (S (S (S (S f)))) st (vec_to_list [vsym "cdr"; vsym "l"]) (env_of (VCons x r)) dflt d = (st', ROk r) /\ good st'.
Proof.
  intros Hg Hd. destruct (poll_good st Hg) as (st0 & Hp & Hg0).
  rewrite R_entry, (depth_ok d ltac:(lia)).
  destruct (ev_global (S f) st0 (s "cdr") (native_value (match find_native (s "cdr") native_table with Some i => i | None => Build_native_info [] false [] [] None false end))
              (env_of (VCons x r)) (d + 1) Hg0 Hd eq_refl eq_refl) as (st1 & Hop & Hg1).
  destruct (ev_local f st1 (Named (s "l")) (VCons x r) (env_of (VCons x r)) (d + 1) Hg1 Hd eq_refl) as (st2 & Harg & Hg2).
  exists st2. split; [|exact Hg2].
  rewrite (R_app_native (S (S f)) st st0 (vec_to_list [vsym "cdr"; vsym "l"]) (env_of (VCons x r)) dflt d Hp
             (vsym "cdr") [vsym "l"] eq_refl eq_refl st1 _ (s "cdr") st2 [VCons x r] Hop eq_refl eq_refl).
  - reflexivity.
  - unfold eval_args. change (vsym "l") with (VSym (Named (s "l"))). rewrite Harg. reflexivity.
Qed.

Definition done : val := vsym "done".

(* the loop: for every list, at the depth it was entered, with fuel linear in the length *)
Lemma walk_runs : forall xs f st d, good st -> d + 2 <= MAXD ->
  exists st', eval_loop (7 * List.length xs + 5 + f) st walk_body (env_of (vec_to_list xs)) dflt d = (st', ROk done) /\ good st'.
Proof.
  induction xs as [|x xs IH]; intros f st d Hg Hd.
  - (* l = () : the condition is nil, the else branch is the quoted symbol *)
    destruct (poll_good st Hg) as (st0 & Hp & Hg0).
    destruct (ev_local (S (S f)) st0 (Named (s "l")) VNil (env_of VNil) (d + 1) Hg0 ltac:(lia) eq_refl) as (st1 & Hc & Hg1).
    destruct (poll_good st1 Hg1) as (st2 & Hp2 & Hg2).
    exists st2. split; [|exact Hg2].
    change (7 * List.length (@nil val) + 5 + f)%nat with (S (S (S (S (S f))))).
    change (vec_to_list []) with VNil.
    rewrite (R_if (S (S (S (S f)))) st st0 walk_body (env_of VNil) dflt d Hp (vsym "if") (vsym "l") _ _ st1 VNil eq_refl eq_refl eq_refl eq_refl Hc).
    cbn [is_nil getv].
    eapply R_quote; [exact Hp2|reflexivity|reflexivity|reflexivity].
  - (* l = (x . xs) : the then branch calls walk on (cdr l) in tail position *)
    destruct (poll_good st Hg) as (st0 & Hp & Hg0).
    set (h := (7 * List.length xs + 6 + f)%nat).
    replace (7 * List.length (x :: xs) + 5 + f)%nat with (S (S (S (S (S (S h)))))) by (unfold h; cbn [List.length]; lia).
    change (vec_to_list (x :: xs)) with (VCons x (vec_to_list xs)).
    set (L := VCons x (vec_to_list xs)).
    destruct (ev_local (S (S (S h))) st0 (Named (s "l")) L (env_of L) (d + 1) Hg0 ltac:(lia) eq_refl) as (st1 & Hc & Hg1).
    rewrite (R_if (S (S (S (S (S h))))) st st0 walk_body (env_of L) dflt d Hp (vsym "if") (vsym "l") _ _ st1 L eq_refl eq_refl eq_refl eq_refl Hc).
    cbn [is_nil getv L].
    destruct (poll_good st1 Hg1) as (st2 & Hp2 & Hg2).
    destruct (ev_global (S (S h)) st2 (s "walk") walk_fun (env_of L) (d + 1) Hg2 ltac:(lia) eq_refl eq_refl) as (st3 & Hop & Hg3).
    destruct (ev_cdr h st3 x (vec_to_list xs) (d + 1) Hg3 ltac:(lia)) as (st4 & Harg & Hg4).
    destruct (IH (5 + f)%nat st4 d Hg4 Hd) as (st5 & Hrec & Hg5).
    exists st5. split; [|exact Hg5].
    rewrite (R_app_closure (S (S (S (S h)))) st1 st2 (vec_to_list [vsym "walk"; vec_to_list [vsym "cdr"; vsym "l"]]) (env_of L) dflt d Hp2
               (vsym "walk") [vec_to_list [vsym "cdr"; vsym "l"]] eq_refl eq_refl st3 walk_fun false false [vsym "l"] walk_body VNil dflt st4
               [vec_to_list xs] (env_of (vec_to_list xs)) Hop eq_refl).
    + replace (S (S (S (S h)))) with (7 * List.length xs + 5 + (5 + f))%nat by (unfold h; lia). exact Hrec.
    + rewrite (eval_args_cons_ok _ _ _ _ _ _ _ _ _ _ Harg). reflexivity.
    + reflexivity.
Qed.

(* the property's statement: a call (walk <list>) evaluated at depth d runs to completion
   for every list, from every state without a debugger in which walk is defined *)
Definition loop_any_length_statement : Prop :=
  forall (xs : list val) (d : N) (st : state), good st -> d + 2 <= MAXD ->
  exists fuel st', eval_loop fuel st walk_body (env_of (vec_to_list xs)) dflt d = (st', ROk done) /\ good st'.

Lemma loop_any_length_proof : loop_any_length_statement.
Proof. intros xs d st Hg Hd. destruct (walk_runs xs 0 st d Hg Hd) as (st' & H & Hg'). eexists. exists st'. split; eassumption. Qed.

Example good_satisfiable : good st_walk.
Proof. split; reflexivity. Qed.

(* the same program text run by the model from the reader's output, on a list of 300 elements
   (a test of the statement's instance, not the theorem) *)
