(* C16: length, as loaded from the generated prelude text, returns the number of elements of EVERY
   proper list (any length, any elements) - and runs at the depth it was called at. *)
From PL Require Import Eval.PreludeState Eval.EvalRules Eval.SemProofs Eval.PreludeProofs Eval.CatchProofs.
From Coq Require Import String Lia ZArith.
Local Open Scope string_scope.
Local Open Scope list_scope.
Local Open Scope N_scope.

(* add on two numbers whose sum is representable *)
Lemma add_call f st a b env d : in_i64 (a + b)%Z = true ->
  call_native (S f) st (s "add") [VNum a; VNum b] env d = (st, ROk (VNum (a + b)%Z)).
Proof. intros H. cbn. rewrite H. reflexivity. Qed.

Lemma cdr_call f st x r env d : call_native (S f) st (s "cdr") [VCons x r] env d = (st, ROk r).
Proof. reflexivity. Qed.

(* a literal number evaluates to itself *)
Lemma ev_number e z env d : d <= MAXD -> list_to_vec e = None -> getv e = VNum z -> evals_to 2 e env d e.
Proof.
  intros Hd Hl Hg st0 g Hg0. destruct (poll_has st0 Hg0) as (st' & Hp & Hg').
  exists st'. split; [|exact Hg']. change (2 + g)%nat with (S (S g)). rewrite R_entry, (dok d 0 ltac:(lia)).
  eapply R_self; [exact Hp|exact Hl|]. rewrite Hg. exact I.
Qed.

(* -length is private to the prelude: looked up from inside the prelude module, as `length` does *)
Definition mlength_val : val := match get_global (mods prelude_state) (s "-length") pm with GOk v => v | _ => VNil end.
Definition mlength_fun : val := getv mlength_val.
Definition mlength_parts := match mlength_fun with VFun _ _ ps b e em => (ps, b, e, em) | _ => ([], VNil, VNil, []) end.
Definition ml_body : val := let '(_, b, _, _) := mlength_parts in b.
Definition ml_env (things n : val) : val :=
  let '(ps, _, e, _) := mlength_parts in
  match pair_params (s "#<function>") ps false [things; n] e 0 2 with inl env => env | inr _ => VNil end.

Example mlength_is_a_closure : exists ps b e, mlength_fun = VFun false false ps b e pm.
Proof. vm_compute. eexists; eexists; eexists; reflexivity. Qed.

Definition tcall : val := match forms_of ml_body with _ :: _ :: x :: _ => x | _ => VNil end.     (* (-length (cdr things) (add n 1)) *)
Definition cdr_form : val := match forms_of tcall with _ :: x :: _ => x | _ => VNil end.
Definition add_form : val := match forms_of tcall with _ :: _ :: x :: _ => x | _ => VNil end.
Definition cdr_native : val := match get_global (mods prelude_state) (s "cdr") pm with GOk v => v | _ => VNil end.
Definition add_native : val := match get_global (mods prelude_state) (s "add") pm with GOk v => v | _ => VNil end.

Lemma in_i64_step n k : (0 <= n)%Z -> in_i64 (n + Z.of_nat (S k)) = true -> in_i64 (n + 1) = true /\ in_i64 (n + 1 + Z.of_nat k) = true.
Proof.
  unfold in_i64, i64_min, i64_max. intros Hn H. rewrite Nat2Z.inj_succ in H.
  apply andb_true_iff in H as [H1 H2]. apply Z.leb_le in H1, H2.
  split; apply andb_true_iff; split; apply Z.leb_le; lia.
Qed.

(* the operands of the recursive call *)
Lemma ev_cdr_things x r nv d : d + 2 <= MAXD -> evals_to 4 cdr_form (ml_env (VCons x r) nv) (d + 1) r.
Proof.
  intros Hd st0 g Hg.
  destruct (ev_native_call 2 cdr_form (match forms_of cdr_form with y :: _ => y | [] => VNil end)
              (match forms_of cdr_form with _ :: l => l | [] => [] end) [VCons x r] (s "cdr") cdr_native (ml_env (VCons x r) nv) (d + 1)
              ltac:(lia) ltac:(lia) eq_refl eq_refl) with (st0 := st0) (g := g) as (st1 & Hg1 & He); try exact Hg.
  - apply (ev_global _ (s "cdr")); [lia|reflexivity|reflexivity|reflexivity|reflexivity].
  - reflexivity.
  - reflexivity.
  - repeat constructor. arg_local.
  - exists st1. split; [|exact Hg1]. rewrite He. change (2 + g)%nat with (S (1 + g)). apply cdr_call.
Qed.

Lemma ev_add_n things nv n d : d + 2 <= MAXD -> getv nv = VNum n -> in_i64 (n + 1)%Z = true -> evals_to 4 add_form (ml_env things nv) (d + 1) (VNum (n + 1)%Z).
Proof.
  intros Hd Hnv Hi st0 g Hg.
  destruct (ev_native_call 2 add_form (match forms_of add_form with y :: _ => y | [] => VNil end)
              (match forms_of add_form with _ :: l => l | [] => [] end) [nv; match forms_of add_form with _ :: _ :: y :: _ => y | _ => VNil end]
              (s "add") add_native (ml_env things nv) (d + 1)
              ltac:(lia) ltac:(lia) eq_refl eq_refl) with (st0 := st0) (g := g) as (st1 & Hg1 & He); try exact Hg.
  - apply (ev_global _ (s "add")); [lia|reflexivity|reflexivity|reflexivity|reflexivity].
  - reflexivity.
  - reflexivity.
  - repeat constructor; [arg_local|eapply ev_number; [lia|reflexivity|reflexivity]].
  - exists st1. split; [|exact Hg1]. rewrite He. change (2 + g)%nat with (S (1 + g)).
    (* the literal 1 carries the reader's metadata: add looks through it *)
    cbn. rewrite Hnv. cbn. rewrite Hi. reflexivity.
Qed.


(* loop-level steps: a conditional whose test evaluates, a closure call in tail position, a variable *)
Lemma loop_if k g st e env d h c t o cv : has_prelude st -> list_to_vec e = Some [h; c; t; o] ->
  is_sym h (s "lambda") = false -> is_sym h (s "quote") = false -> is_sym h (s "if") = true ->
  evals_to k c env (d + 1) cv ->
  exists st1, has_prelude st1 /\ eval_loop (S (k + g)) st e env pm d = eval_loop (k + g) st1 (if is_nil cv then o else t) env pm d.
Proof.
  intros Hg Hl H1 H2 H3 Hc. destruct (poll_has st Hg) as (st0 & Hp & Hg0).
  destruct (Hc st0 g Hg0) as (st1 & Hce & Hg1). exists st1. split; [exact Hg1|].
  exact (R_if (k + g) st st0 e env pm d Hp h c t o st1 cv Hl H1 H2 H3 Hce).
Qed.

Lemma loop_closure k g st e env d head args vals op mac restp params body cenv cmod newenv :
  has_prelude st -> list_to_vec e = Some (head :: args) -> special_form head = false ->
  evals_to k head env (d + 1) op -> getv op = VFun mac restp params body cenv cmod ->
  Forall2 (fun a v => evals_to k a env (d + 1) v) args vals ->
  pair_params (call_source e) params restp vals cenv 0 (List.length vals) = inl newenv ->
  exists st2, has_prelude st2 /\ eval_loop (S (k + g)) st e env pm d = eval_loop (k + g) st2 body newenv cmod d.
Proof.
  intros Hg Hl Hs Hop Hgo HF Hp. destruct (poll_has st Hg) as (st0 & Hpoll & Hg0).
  destruct (Hop st0 g Hg0) as (st1 & Ho & Hg1).
  destruct (eval_args_all k env d args vals st1 g [] Hg1 HF) as (st2 & Ha & Hg2). cbn [rev app] in Ha.
  exists st2. split; [exact Hg2|].
  exact (R_app_closure (k + g) st st0 e env pm d Hpoll head args Hl Hs st1 op mac restp params body cenv cmod st2 vals newenv Ho Hgo Ha Hp).
Qed.

Lemma loop_local g st e k v env d : has_prelude st -> list_to_vec e = None -> getv e = VSym k -> env_lookup env k = LFound v ->
  exists st', eval_loop (S g) st e env pm d = (st', ROk v) /\ has_prelude st'.
Proof.
  intros Hg Hl Hgv He. destruct (poll_has st Hg) as (st' & Hp & Hg'). exists st'. split; [|exact Hg'].
  eapply R_var_local; eassumption.
Qed.

Definition cond_form : val := match forms_of ml_body with _ :: x :: _ => x | _ => VNil end.      (* things *)
Definition else_form : val := match forms_of ml_body with _ :: _ :: _ :: x :: _ => x | _ => VNil end.  (* n *)
Definition if_head : val := match forms_of ml_body with x :: _ => x | _ => VNil end.
Definition call_head : val := match forms_of tcall with x :: _ => x | _ => VNil end.            (* -length *)

(* the loop: every list, any accumulator whose final value is representable; the recursive call is a
   tail call - it runs at the SAME depth d - and the fuel is linear in the length *)
(* the value the loop returns: the accumulator itself for the empty list, a plain number otherwise *)
Definition ml_result (xs : list val) (nv : val) (n : Z) : val :=
  match xs with [] => nv | _ :: _ => VNum (n + Z.of_nat (List.length xs)) end.

Lemma ml_result_num xs nv n : getv nv = VNum n -> getv (ml_result xs nv n) = VNum (n + Z.of_nat (List.length xs)).
Proof. intros H. destruct xs; cbn [ml_result]; [rewrite H; cbn; f_equal; lia|reflexivity]. Qed.

Lemma mlength_runs_exact : forall xs nv n g st d, has_prelude st -> d + 3 <= MAXD -> getv nv = VNum n -> (0 <= n)%Z ->
  in_i64 (n + Z.of_nat (List.length xs)) = true ->
  exists st', eval_loop (2 * List.length xs + 8 + g) st ml_body (ml_env (vec_to_list xs) nv) pm d = (st', ROk (ml_result xs nv n)) /\ has_prelude st'.
Proof.
  induction xs as [|x xs IH]; intros nv n g st d Hg Hd Hnv Hn Hi.
  - change (vec_to_list []) with VNil.
    destruct (loop_if 2 (5 + g) st ml_body (ml_env VNil nv) d if_head cond_form tcall else_form VNil Hg eq_refl eq_refl eq_refl eq_refl)
      as (st1 & Hg1 & Hif); [arg_local|].
    destruct (loop_local (6 + g) st1 else_form (Named (s "n")) nv (ml_env VNil nv) d Hg1 eq_refl eq_refl eq_refl) as (st2 & He & Hg2).
    exists st2. split; [|exact Hg2].
    change (2 * List.length (@nil val) + 8 + g)%nat with (S (2 + (5 + g))). rewrite Hif. cbn [is_nil getv]. exact He.
  - change (vec_to_list (x :: xs)) with (VCons x (vec_to_list xs)). set (L := VCons x (vec_to_list xs)).
    destruct (in_i64_step n (List.length xs) Hn Hi) as [Hi1 Hi2].
    destruct (loop_if 2 (2 * List.length xs + 7 + g) st ml_body (ml_env L nv) d if_head cond_form tcall else_form L Hg eq_refl eq_refl eq_refl eq_refl)
      as (st1 & Hg1 & Hif); [arg_local|].
    destruct (loop_closure 4 (2 * List.length xs + 4 + g) st1 tcall (ml_env L nv) d call_head [cdr_form; add_form]
                [vec_to_list xs; VNum (n + 1)%Z] mlength_val false false
                (let '(ps, _, _, _) := mlength_parts in ps) ml_body (let '(_, _, e, _) := mlength_parts in e) pm
                (ml_env (vec_to_list xs) (VNum (n + 1)%Z)) Hg1 eq_refl eq_refl) as (st2 & Hg2 & Hcall).
    + apply (evals_to_mono 2 4); [lia|]. apply (ev_global call_head (s "-length")); [lia|reflexivity|reflexivity|reflexivity|reflexivity].
    + reflexivity.
    + constructor; [apply ev_cdr_things; lia|]. constructor; [apply (ev_add_n L nv n); [lia|exact Hnv|exact Hi1]|constructor].
    + reflexivity.
    + destruct (IH (VNum (n + 1)%Z) (n + 1)%Z g st2 d Hg2 Hd eq_refl ltac:(lia) Hi2) as (st3 & Hrec & Hg3).
      exists st3. split; [|exact Hg3].
      replace (2 * List.length (x :: xs) + 8 + g)%nat with (S (2 + (2 * List.length xs + 7 + g))) by (cbn [List.length]; lia).
      rewrite Hif. cbn [is_nil getv L].
      replace (2 + (2 * List.length xs + 7 + g))%nat with (S (4 + (2 * List.length xs + 4 + g))) by lia.
      rewrite Hcall.
      replace (4 + (2 * List.length xs + 4 + g))%nat with (2 * List.length xs + 8 + g)%nat by lia.
      rewrite Hrec. f_equal. f_equal. cbn [ml_result]. destruct xs as [|y ys]; cbn [ml_result List.length]; f_equal; lia.
Qed.

Lemma mlength_runs : forall xs nv n g st d, has_prelude st -> d + 3 <= MAXD -> getv nv = VNum n -> (0 <= n)%Z ->
  in_i64 (n + Z.of_nat (List.length xs)) = true ->
  exists st' r, eval_loop (2 * List.length xs + 8 + g) st ml_body (ml_env (vec_to_list xs) nv) pm d = (st', ROk r) /\
                getv r = VNum (n + Z.of_nat (List.length xs)) /\ has_prelude st'.
Proof.
  intros xs nv n g st d Hg Hd Hnv Hn Hi. destruct (mlength_runs_exact xs nv n g st d Hg Hd Hnv Hn Hi) as (st' & H & Hg').
  exists st', (ml_result xs nv n). split; [exact H|]. split; [apply ml_result_num; exact Hnv|exact Hg'].
Qed.


(* length itself: (-length things 0), a tail call *)
Definition length_statement (xs : list val) : Prop :=
  exists restp params body cenv cmod,
    option_map getv (prelude_global (s "length")) = Some (VFun false restp params body cenv cmod) /\
    exists newenv, pair_params (s "#<function>") params restp [vec_to_list xs] cenv 0 1 = inl newenv /\
    forall st d, has_prelude st -> d + 3 <= MAXD ->
    exists fuel st' r, eval_loop fuel st body newenv cmod d = (st', ROk r) /\ has_prelude st' /\
                       getv r = VNum (Z.of_nat (List.length xs)).

Theorem length_spec xs : in_i64 (Z.of_nat (List.length xs)) = true -> length_statement xs.
Proof.
  intros Hi. eexists; eexists; eexists; eexists; eexists; split; [vm_compute; reflexivity|].
  eexists; split; [reflexivity|].
  intros st d Hg Hd.
  match goal with |- exists fuel st' r, eval_loop fuel st ?body ?env ?m d = _ /\ _ /\ _ => set (B := body); set (E := env) end.
  set (zero := match forms_of B with _ :: _ :: x :: _ => x | _ => VNil end).
  destruct (loop_closure 2 (2 * List.length xs + 6) st B E d (match forms_of B with x :: _ => x | _ => VNil end)
              (match forms_of B with _ :: l => l | _ => [] end) [vec_to_list xs; zero] mlength_val false false
              (let '(ps, _, _, _) := mlength_parts in ps) ml_body (let '(_, _, e, _) := mlength_parts in e) pm
              (ml_env (vec_to_list xs) zero) Hg eq_refl eq_refl) as (st1 & Hg1 & Hcall).
  - apply (ev_global _ (s "-length")); [lia|reflexivity|reflexivity|reflexivity|reflexivity].
  - reflexivity.
  - constructor; [arg_local|]. constructor; [eapply ev_number; [lia|reflexivity|reflexivity]|constructor].
  - reflexivity.
  - destruct (mlength_runs xs zero 0%Z 0%nat st1 d Hg1 Hd eq_refl ltac:(lia) Hi) as (st2 & r & Hrun & Hr & Hg2).
    exists (S (2 + (2 * List.length xs + 6))), st2, r. split; [|split; [exact Hg2|]].
    + etransitivity; [exact Hcall|]. replace (2 + (2 * List.length xs + 6))%nat with (2 * List.length xs + 8 + 0)%nat by lia. exact Hrun.
    + rewrite Hr. reflexivity.
Qed.

Example length_statement_instance : length_statement [VNum 7; vsym "a"; VNil].
Proof. apply length_spec. reflexivity. Qed.
