(* C16: the variadic subtraction of the generated prelude, for EVERY list of numbers: no argument
   0, one argument its negation, otherwise the first minus the sum of the others - provided the
   intermediate results the function computes (the running sums of the others, then the difference)
   stay within the 64-bit range. *)
From PL Require Import Eval.PreludeState Eval.EvalRules Eval.SemProofs Eval.PreludeProofs Eval.CatchProofs Eval.LengthProofs Eval.FoldProofs Eval.MacroProofs2 Eval.SumProofs.
From Coq Require Import String Lia ZArith.
Local Open Scope string_scope.
Local Open Scope list_scope.
Local Open Scope N_scope.

Lemma sub_call_meta f st x y a b env d : getv x = VNum a -> getv y = VNum b -> in_i64 (a - b)%Z = true ->
  call_native (S f) st (s "substract") [x; y] env d = (st, ROk (VNum (a - b)%Z)).
Proof. intros Hx Hy H. cbn. rewrite Hx, Hy. cbn. rewrite H. reflexivity. Qed.

(* a self-evaluating atom in tail position *)
Lemma loop_self g st e env d : has_prelude st -> list_to_vec e = None ->
  match getv e with VCons _ _ | VTrap _ _ | VSym _ => False | _ => True end ->
  exists st', eval_loop (S g) st e env pm d = (st', ROk e) /\ has_prelude st'.
Proof.
  intros Hg Hl He. destruct (poll_has st Hg) as (st' & Hp & Hg'). exists st'. split; [|exact Hg'].
  eapply R_self; eassumption.
Qed.

Definition mi_val : val := match prelude_global (s "-") with Some v => v | None => VNil end.
Definition mi_parts := match getv mi_val with VFun _ _ ps b e em => (ps, b, e, em) | _ => ([], VNil, VNil, []) end.
Definition mi_body : val := let '(_, b, _, _) := mi_parts in b.
Definition mi_env (numbers : val) : val :=
  let '(ps, _, e, _) := mi_parts in
  match pair_params (s "#<function>") ps false [numbers] e 0 1 with inl env => env | inr _ => VNil end.
Definition nth_form (n : nat) (e : val) : val := nth n (forms_of e) VNil.
Definition mi_then : val := nth_form 2 mi_body.
Definition mi_else : val := nth_form 3 mi_body.
Definition mi_lambda : val := nth_form 0 mi_then.
Definition mi_car : val := nth_form 1 mi_then.
Definition mi_cdr : val := nth_form 2 mi_then.
Definition mi_closure (numbers : val) : val :=
  match make_function_internal (match forms_of mi_lambda with _ :: r => r | [] => [] end) (mi_env numbers) pm "lambda" false with ROk v => v | _ => VNil end.
Definition mi_params (numbers : val) : list val := match mi_closure numbers with VFun _ _ ps _ _ _ => ps | _ => [] end.
Definition mi_inner (numbers : val) : val := match mi_closure numbers with VFun _ _ _ b _ _ => b | _ => VNil end.
Definition mi_inner_env (numbers first rest : val) : val :=
  match pair_params (s "#<function>") (mi_params numbers) false [first; rest] (mi_env numbers) 0 2 with inl e => e | inr _ => VNil end.
Definition mi_sub (numbers : val) : val := nth_form 2 (mi_inner numbers).      (* (substract first (foldl add 0 rest)) *)
Definition mi_neg (numbers : val) : val := nth_form 3 (mi_inner numbers).      (* (multiply -1 first) *)
Definition mi_fold (numbers : val) : val := nth_form 2 (mi_sub numbers).       (* (foldl add 0 rest) *)
Definition mi_zero (numbers : val) : val := nth_form 2 (mi_fold numbers).
Definition mi_lit (numbers : val) : val := nth_form 1 (mi_neg numbers).

Example minus_is_a_rest_closure : exists ps b e, getv mi_val = VFun false true ps b e pm /\ List.length ps = 1%nat.
Proof. vm_compute. eexists; eexists; eexists; split; reflexivity. Qed.

Lemma minus_call_env src vals i n : (let '(ps, _, e, _) := mi_parts in pair_params src ps true vals e i n) = inl (mi_env (vec_to_list vals)).
Proof.
  assert (H : exists p e, mi_parts = ([p], mi_body, e, pm)) by (vm_compute; eexists; eexists; reflexivity).
  destruct H as (p & e & H). unfold mi_env. rewrite H. rewrite pair_rest. reflexivity.
Qed.

Definition minus_ok (zs : list Z) : bool :=
  match zs with
  | [] => true
  | [z] => in_i64 (-1 * z)%Z
  | z :: rest => in_range_from Z.add 0%Z rest && in_i64 (z - fold_left Z.add rest 0)%Z
  end.
Definition minus_spec (zs : list Z) : Z :=
  (match zs with [] => 0 | [z] => - z | z :: rest => z - fold_left Z.add rest 0 end)%Z.

Definition sub_native_v : val := match get_global (mods prelude_state) (s "substract") pm with GOk v => v | _ => VNil end.
Definition car_native_v : val := match get_global (mods prelude_state) (s "car") pm with GOk v => v | _ => VNil end.

(* the operand (foldl add 0 rest) of substract: a closure call that is not in tail position *)
Lemma ev_sum_form numbers first vals zs d : Forall2 (fun v z => getv v = VNum z) vals zs -> in_range_from Z.add 0%Z zs = true -> d + 5 <= MAXD ->
  exists R, getv R = VNum (fold_left Z.add zs 0%Z) /\
    evals_to (2 * List.length vals + 20) (mi_fold numbers) (mi_inner_env numbers first (vec_to_list vals)) (d + 1) R.
Proof.
  intros HF Hr Hd. rewrite <- onto_nil.
  assert (Hadd : forall f st x y a b env d, getv x = VNum a -> getv y = VNum b -> in_i64 (a + b)%Z = true ->
                 call_native (S f) st (s "add") [x; y] env d = (st, ROk (VNum (a + b)%Z))) by (intros; apply add_call_meta; assumption).
  destruct (noks Z.add vals zs (mi_zero numbers) 0%Z HF eq_refl Hr) as [Hok Hres].
  exists (fold_left (nstep Z.add) vals (mi_zero numbers)). split; [exact Hres|].
  intros st0 g0 Hg.
  set (E := mi_inner_env numbers first (onto vals VNil)).
  replace (2 * List.length vals + 20 + g0)%nat with (S (S (2 + (2 * List.length vals + 16 + g0)))) by lia.
  rewrite R_entry, (dok (d + 1) 1 ltac:(lia)).
  destruct (loop_closure 2 (2 * List.length vals + 16 + g0) st0 (mi_fold numbers) E (d + 1) (nth_form 0 (mi_fold numbers))
              (match forms_of (mi_fold numbers) with _ :: l => l | _ => [] end) [add_native_v; mi_zero numbers; onto vals VNil] foldl_val false false
              (let '(ps, _, _, _) := foldl_parts in ps) fl_body (let '(_, _, e, _) := foldl_parts in e) pm
              (fl_env add_native_v (mi_zero numbers) (onto vals VNil)) Hg eq_refl eq_refl) as (st1 & Hg1 & Hcall).
  - apply (ev_global _ (s "foldl")); [lia|reflexivity|reflexivity|reflexivity|reflexivity].
  - reflexivity.
  - constructor; [arg_global|]. constructor; [apply (ev_number _ 0%Z); [lia|reflexivity|reflexivity]|]. constructor; [arg_local|constructor].
  - reflexivity.
  - destruct (foldl_runs_guarded add_native_v (nstep Z.add) (nok Z.add) 6 ltac:(lia)
                (num_step (s "add") add_native_v Z.add eq_refl eq_refl Hadd) VNil eq_refl vals (mi_zero numbers) (8 + g0)%nat st1 (d + 1) Hok Hg1 ltac:(lia))
      as (st2 & Hrun & Hg2).
    exists st2. split; [|exact Hg2]. rewrite Hcall.
    replace (2 + (2 * List.length vals + 16 + g0))%nat with (2 * List.length vals + 6 + 4 + (8 + g0))%nat by lia. exact Hrun.
Qed.

Theorem minus_runs vals zs st d : Forall2 (fun v z => getv v = VNum z) vals zs -> minus_ok zs = true ->
  has_prelude st -> d + 5 <= MAXD ->
  exists fuel st' r, eval_loop fuel st mi_body (mi_env (vec_to_list vals)) pm d = (st', ROk r) /\ has_prelude st' /\
                     getv r = VNum (minus_spec zs).
Proof.
  intros HF Hok Hg Hd.
  set (numbers := vec_to_list vals). set (E := mi_env numbers).
  assert (Hfirst : forall g1, exists st1, has_prelude st1 /\
            eval_loop (S (2 + g1)) st mi_body E pm d = eval_loop (2 + g1) st1 (if is_nil numbers then mi_else else mi_then) E pm d).
  { intros g1. apply (loop_if 2 g1 st mi_body E d (nth_form 0 mi_body) (nth_form 1 mi_body) mi_then mi_else numbers Hg eq_refl eq_refl eq_refl eq_refl). arg_local. }
  destruct HF as [|v z vals' zs' Hv HF'].
  - (* no argument: the literal 0 *)
    destruct (Hfirst 0%nat) as (st1 & Hg1 & Hif).
    destruct (loop_self 1 st1 mi_else E d Hg1 eq_refl I) as (st2 & He & Hg2).
    exists 3%nat, st2, mi_else. split; [|split; [exact Hg2|reflexivity]].
    change 3%nat with (S (2 + 0)). rewrite Hif. exact He.
  - (* at least one: ((lambda (first rest) ...) (car numbers) (cdr numbers)) *)
    set (rest := vec_to_list vals').
    assert (Hcar : evals_to 4 mi_car E (d + 1) v).
    { intros st0 g Hg0.
      destruct (ev_native_call 2 mi_car (nth_form 0 mi_car) (match forms_of mi_car with _ :: l => l | [] => [] end) [numbers] (s "car") car_native_v E (d + 1)
                  ltac:(lia) ltac:(lia) eq_refl eq_refl) with (st0 := st0) (g := g) as (st2 & Hg2 & He); try exact Hg0.
      - apply (ev_global _ (s "car")); [lia|reflexivity|reflexivity|reflexivity|reflexivity].
      - reflexivity.
      - reflexivity.
      - repeat constructor. arg_local.
      - exists st2. split; [|exact Hg2]. etransitivity; [exact He|]. reflexivity. }
    assert (Hcdr : evals_to 4 mi_cdr E (d + 1) rest).
    { intros st0 g Hg0.
      destruct (ev_native_call 2 mi_cdr (nth_form 0 mi_cdr) (match forms_of mi_cdr with _ :: l => l | [] => [] end) [numbers] (s "cdr") cdr_native E (d + 1)
                  ltac:(lia) ltac:(lia) eq_refl eq_refl) with (st0 := st0) (g := g) as (st2 & Hg2 & He); try exact Hg0.
      - apply (ev_global _ (s "cdr")); [lia|reflexivity|reflexivity|reflexivity|reflexivity].
      - reflexivity.
      - reflexivity.
      - repeat constructor. arg_local.
      - exists st2. split; [|exact Hg2]. etransitivity; [exact He|]. reflexivity. }
    set (E2 := mi_inner_env numbers v rest).
    assert (Hsecond : forall st1 g2, has_prelude st1 -> exists st2, has_prelude st2 /\
              eval_loop (S (4 + g2)) st1 mi_then E pm d = eval_loop (4 + g2) st2 (mi_inner numbers) E2 pm d).
    { intros st1 g2 Hg1.
      apply (loop_closure 4 g2 st1 mi_then E d mi_lambda [mi_car; mi_cdr] [v; rest] (mi_closure numbers) false false
                (mi_params numbers) (mi_inner numbers) E pm E2 Hg1 eq_refl eq_refl).
      - apply (evals_to_mono 2 4); [lia|]. eapply ev_lambda; [lia|reflexivity|reflexivity|reflexivity].
      - reflexivity.
      - constructor; [exact Hcar|]. constructor; [exact Hcdr|constructor].
      - reflexivity. }
    assert (Hthird : forall st2 g3, has_prelude st2 -> exists st3, has_prelude st3 /\
              eval_loop (S (2 + g3)) st2 (mi_inner numbers) E2 pm d = eval_loop (2 + g3) st3 (if is_nil rest then mi_neg numbers else mi_sub numbers) E2 pm d).
    { intros st2 g3 Hg2.
      apply (loop_if 2 g3 st2 (mi_inner numbers) E2 d (nth_form 0 (mi_inner numbers)) (nth_form 1 (mi_inner numbers))
                  (mi_sub numbers) (mi_neg numbers) rest Hg2 eq_refl eq_refl eq_refl eq_refl). arg_local. }
    destruct HF' as [|w z2 vals2 zs2 Hw HF2].
    + (* exactly one: (multiply -1 first) *)
      cbn [minus_ok] in Hok.
      destruct (Hfirst 13%nat) as (st1 & Hg1 & Hif).
      destruct (Hsecond st1 10%nat Hg1) as (st2 & Hg2 & Hcall).
      destruct (Hthird st2 11%nat Hg2) as (st3 & Hg3 & Hif2).
      destruct (loop_native_call 2 10 st3 (mi_neg numbers) E2 d (nth_form 0 (mi_neg numbers))
                  (match forms_of (mi_neg numbers) with _ :: l => l | _ => [] end) [mi_lit numbers; v] (s "multiply") mul_native_v Hg3 ltac:(lia) eq_refl eq_refl)
        as (st4 & Hg4 & Hnat).
      * apply (ev_global _ (s "multiply")); [lia|reflexivity|reflexivity|reflexivity|reflexivity].
      * reflexivity.
      * reflexivity.
      * constructor; [apply (ev_number _ (-1)%Z); [lia|reflexivity|reflexivity]|]. constructor; [arg_local|constructor].
      * exists (S (2 + 13)), st4, (VNum (-1 * z)%Z). split; [|split; [exact Hg4|cbn [minus_spec getv]; f_equal; try lia]].
        rewrite Hif. cbn [is_nil getv numbers vec_to_list].
        change (2 + 13)%nat with (S (4 + 10)). rewrite Hcall.
        change (4 + 10)%nat with (S (2 + 11)). rewrite Hif2.
        cbn [is_nil getv rest vec_to_list].
        change (2 + 11)%nat with (S (2 + 10)). rewrite Hnat.
        change (2 + 10)%nat with (S 11).
        apply mul_call_meta; [reflexivity|exact Hv|exact Hok].
    + (* more: (substract first (foldl add 0 rest)) *)
      assert (HFr : Forall2 (fun v z => getv v = VNum z) (w :: vals2) (z2 :: zs2)) by (constructor; assumption).
      change (minus_ok (z :: z2 :: zs2)) with (in_range_from Z.add 0%Z (z2 :: zs2) && in_i64 (z - fold_left Z.add (z2 :: zs2) 0)%Z) in Hok.
      apply andb_prop in Hok as [Hrange Hdiff].
      destruct (ev_sum_form numbers v (w :: vals2) (z2 :: zs2) d HFr Hrange Hd) as (R & HR & HevR).
      set (KK := (2 * List.length (w :: vals2) + 20)%nat) in *.
      destruct (Hfirst (KK + 11)%nat) as (st1 & Hg1 & Hif).
      destruct (Hsecond st1 (KK + 8)%nat Hg1) as (st2 & Hg2 & Hcall).
      destruct (Hthird st2 (KK + 9)%nat Hg2) as (st3 & Hg3 & Hif2).
      destruct (loop_native_call KK 10 st3 (mi_sub numbers) E2 d (nth_form 0 (mi_sub numbers))
                  (match forms_of (mi_sub numbers) with _ :: l => l | _ => [] end) [v; R] (s "substract") sub_native_v Hg3 ltac:(lia) eq_refl eq_refl)
        as (st4 & Hg4 & Hnat).
      * apply (evals_to_mono 2 KK); [unfold KK; lia|]. apply (ev_global _ (s "substract")); [lia|reflexivity|reflexivity|reflexivity|reflexivity].
      * reflexivity.
      * reflexivity.
      * constructor; [apply (evals_to_mono 2 KK); [unfold KK; lia|]; arg_local|]. constructor; [exact HevR|constructor].
      * exists (S (2 + (KK + 11))), st4, (VNum (z - fold_left Z.add (z2 :: zs2) 0)%Z).
        split; [|split; [exact Hg4|reflexivity]].
        rewrite Hif. cbn [is_nil getv numbers vec_to_list].
        replace (2 + (KK + 11))%nat with (S (4 + (KK + 8))) by lia. rewrite Hcall.
        replace (4 + (KK + 8))%nat with (S (2 + (KK + 9))) by lia. rewrite Hif2.
        cbn [is_nil getv rest vec_to_list].
        replace (2 + (KK + 9))%nat with (S (KK + 10)) by lia. rewrite Hnat.
        replace (KK + 10)%nat with (S (KK + 9)) by lia.
        apply sub_call_meta; [exact Hv|exact HR|exact Hdiff].
Qed.
