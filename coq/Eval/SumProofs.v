(* C16: + and *, as loaded from the generated prelude text: for EVERY list of numbers (any length)
   whose running results stay within the 64-bit range, the call of + on them is the sum and the call of the
   multiplication function the product; with no argument 0 and 1.  foldl is used with a step that can fail (the primitive
   signals on overflow), so the fold lemma is restated under a guard on the pairs that occur. *)
From PL Require Import Eval.PreludeState Eval.EvalRules Eval.SemProofs Eval.PreludeProofs Eval.CatchProofs Eval.LengthProofs Eval.FoldProofs Eval.MacroProofs2.
From Coq Require Import String Lia ZArith.
Local Open Scope string_scope.
Local Open Scope list_scope.
Local Open Scope N_scope.

(* ---- foldl with a guarded step ---- *)
Section GuardedFold.
Variables (fv : val) (step : val -> val -> val) (ok : val -> val -> Prop) (K : nat).
Hypothesis HK : (4 <= K)%nat.
Hypothesis Hstep : forall acc x r d, ok acc x -> d + 3 <= MAXD -> evals_to K fl_step (fl_env fv acc (VCons x r)) (d + 1) (step acc x).

Fixpoint oks (xs : list val) (acc : val) : Prop :=
  match xs with [] => True | x :: r => ok acc x /\ oks r (step acc x) end.

Lemma foldl_runs_guarded tl : is_nil tl = true -> forall xs acc g st d, oks xs acc -> has_prelude st -> d + 3 <= MAXD ->
  exists st', eval_loop (2 * List.length xs + K + 4 + g) st fl_body (fl_env fv acc (onto xs tl)) pm d
              = (st', ROk (fold_left step xs acc)) /\ has_prelude st'.
Proof.
  intros Htl. induction xs as [|x xs IH]; intros acc g st d Hok Hg Hd.
  - cbn [onto].
    destruct (loop_if 2 (K + 1 + g) st fl_body (fl_env fv acc tl) d fl_if_head fl_cond fl_call fl_else tl Hg eq_refl eq_refl eq_refl eq_refl)
      as (st1 & Hg1 & Hif); [arg_local|].
    destruct (loop_local (K + 2 + g) st1 fl_else (Named (s "init")) acc (fl_env fv acc tl) d Hg1 eq_refl eq_refl eq_refl) as (st2 & He & Hg2).
    exists st2. split; [|exact Hg2].
    replace (2 * List.length (@nil val) + K + 4 + g)%nat with (S (2 + (K + 1 + g))) by (cbn [List.length]; lia). rewrite Hif. rewrite Htl.
    replace (2 + (K + 1 + g))%nat with (S (K + 2 + g)) by lia. exact He.
  - cbn [onto]. set (L := VCons x (onto xs tl)). destruct Hok as [Hokx Hoks].
    destruct (loop_if 2 (2 * List.length xs + K + 3 + g) st fl_body (fl_env fv acc L) d fl_if_head fl_cond fl_call fl_else L Hg eq_refl eq_refl eq_refl eq_refl)
      as (st1 & Hg1 & Hif); [arg_local|].
    destruct (loop_closure K (2 * List.length xs + 4 + g) st1 fl_call (fl_env fv acc L) d (match forms_of fl_call with y :: _ => y | _ => VNil end)
                [fl_f; fl_step; fl_cdr] [fv; step acc x; onto xs tl] foldl_val false false
                (let '(ps, _, _, _) := foldl_parts in ps) fl_body (let '(_, _, e, _) := foldl_parts in e) pm
                (fl_env fv (step acc x) (onto xs tl)) Hg1 eq_refl eq_refl) as (st2 & Hg2 & Hcall).
    + apply (evals_to_mono 2 K); [lia|]. apply (ev_global _ (s "foldl")); [lia|reflexivity|reflexivity|reflexivity|reflexivity].
    + reflexivity.
    + constructor; [apply (evals_to_mono 2 K); [lia|]; arg_local|].
      constructor; [apply Hstep; [exact Hokx|lia]|]. constructor; [apply (evals_to_mono 4 K); [lia|]; apply ev_fl_cdr; lia|constructor].
    + reflexivity.
    + destruct (IH (step acc x) g st2 d Hoks Hg2 Hd) as (st3 & Hrec & Hg3).
      exists st3. split; [|exact Hg3].
      replace (2 * List.length (x :: xs) + K + 4 + g)%nat with (S (2 + (2 * List.length xs + K + 3 + g))) by (cbn [List.length]; lia).
      rewrite Hif. cbn [is_nil getv L].
      replace (2 + (2 * List.length xs + K + 3 + g))%nat with (S (K + (2 * List.length xs + 4 + g))) by lia.
      rewrite Hcall.
      replace (K + (2 * List.length xs + 4 + g))%nat with (2 * List.length xs + K + 4 + g)%nat by lia.
      exact Hrec.
Qed.
End GuardedFold.

(* ---- the two primitives on numbers (under whatever metadata) ---- *)
Definition num_of (v : val) : Z := match getv v with VNum z => z | _ => 0%Z end.

Lemma add_call_meta f st x y a b env d : getv x = VNum a -> getv y = VNum b -> in_i64 (a + b)%Z = true ->
  call_native (S f) st (s "add") [x; y] env d = (st, ROk (VNum (a + b)%Z)).
Proof.
  intros Hx Hy H. pose proof (add_call f st a b env d H) as P.
  cbn in P |- *. rewrite Hx, Hy. exact P.
Qed.

Lemma mul_call_meta f st x y a b env d : getv x = VNum a -> getv y = VNum b -> in_i64 (a * b)%Z = true ->
  call_native (S f) st (s "multiply") [x; y] env d = (st, ROk (VNum (a * b)%Z)).
Proof.
  intros Hx Hy H. cbn. rewrite Hx, Hy. cbn. rewrite H. reflexivity.
Qed.

(* ---- a fold with a binary primitive on numbers ---- *)
Section NumFold.
Variables (name : text) (fv : val) (op : Z -> Z -> Z).
Hypothesis Hfv : getv fv = VNative name.
Hypothesis Hne : text_eqb name (s "eval") = false.
Hypothesis Hcall : forall f st x y a b env d, getv x = VNum a -> getv y = VNum b -> in_i64 (op a b) = true ->
  call_native (S f) st name [x; y] env d = (st, ROk (VNum (op a b))).

Definition nstep (acc x : val) : val := VNum (op (num_of acc) (num_of x)).
Definition nok (acc x : val) : Prop := exists a b, getv acc = VNum a /\ getv x = VNum b /\ in_i64 (op a b) = true.

Lemma num_step acc x r d : nok acc x -> d + 3 <= MAXD ->
  evals_to 6 fl_step (fl_env fv acc (VCons x r)) (d + 1) (nstep acc x).
Proof.
  intros (a & b & Ha & Hb & Hin) Hd st0 g0 Hg.
  set (E := fl_env fv acc (VCons x r)).
  set (car_form := match forms_of fl_step with _ :: _ :: y :: _ => y | _ => VNil end).
  assert (Hcar : evals_to 4 car_form E (d + 1 + 1) x).
  { intros st1 g1 Hg1.
    destruct (ev_native_call 2 car_form (match forms_of car_form with y :: _ => y | [] => VNil end)
                (match forms_of car_form with _ :: l => l | [] => [] end) [VCons x r] (s "car")
                (match get_global (mods prelude_state) (s "car") pm with GOk v => v | _ => VNil end) E (d + 1 + 1)
                ltac:(lia) ltac:(lia) eq_refl eq_refl) with (st0 := st1) (g := g1) as (st2 & Hg2 & He); try exact Hg1.
    - apply (ev_global _ (s "car")); [lia|reflexivity|reflexivity|reflexivity|reflexivity].
    - reflexivity.
    - reflexivity.
    - repeat constructor. arg_local.
    - exists st2. split; [|exact Hg2]. etransitivity; [exact He|]. reflexivity. }
  destruct (ev_native_call 4 fl_step (match forms_of fl_step with y :: _ => y | [] => VNil end)
              (match forms_of fl_step with _ :: l => l | [] => [] end) [acc; x] name fv E (d + 1)
              ltac:(lia) ltac:(lia) eq_refl eq_refl) with (st0 := st0) (g := g0) as (st1 & Hg1 & He); try exact Hg.
  - apply (evals_to_mono 2 4); [lia|]. arg_local.
  - exact Hfv.
  - exact Hne.
  - constructor; [apply (evals_to_mono 2 4); [lia|]; arg_local|]. constructor; [exact Hcar|constructor].
  - exists st1. split; [|exact Hg1]. etransitivity; [exact He|].
    change (4 + g0)%nat with (S (3 + g0)). rewrite (Hcall _ _ acc x a b _ _ Ha Hb Hin).
    unfold nstep, num_of. rewrite Ha, Hb. reflexivity.
Qed.

(* the running results stay in range *)
Fixpoint in_range_from (a : Z) (zs : list Z) : bool :=
  match zs with [] => true | z :: r => in_i64 (op a z) && in_range_from (op a z) r end.

Lemma noks : forall vals zs acc a, Forall2 (fun v z => getv v = VNum z) vals zs -> getv acc = VNum a ->
  in_range_from a zs = true ->
  oks nstep nok vals acc /\ getv (fold_left nstep vals acc) = VNum (fold_left op zs a).
Proof.
  induction vals as [|v vals IH]; intros zs acc a HF Ha Hr; inversion HF as [|? z ? zs' Hv HF']; subst.
  - split; [exact I|exact Ha].
  - cbn [in_range_from] in Hr. apply andb_prop in Hr as [Hin Hr].
    assert (Hs : nstep acc v = VNum (op a z)) by (unfold nstep, num_of; rewrite Ha, Hv; reflexivity).
    destruct (IH zs' (nstep acc v) (op a z) HF' ltac:(rewrite Hs; reflexivity) Hr) as [Ho Hg].
    split; [split; [exists a, z; auto|exact Ho]|]. exact Hg.
Qed.
End NumFold.

(* ---- + ---- *)
Definition plus_val : val := match prelude_global (s "+") with Some v => v | None => VNil end.
Definition plus_parts := match getv plus_val with VFun _ _ ps b e em => (ps, b, e, em) | _ => ([], VNil, VNil, []) end.
Definition pl_body : val := let '(_, b, _, _) := plus_parts in b.
Definition pl_env (numbers : val) : val :=
  let '(ps, _, e, _) := plus_parts in
  match pair_params (s "#<function>") ps false [numbers] e 0 1 with inl env => env | inr _ => VNil end.
Definition pl_zero : val := match forms_of pl_body with _ :: _ :: x :: _ => x | _ => VNil end.

Example plus_is_a_rest_closure : exists ps b e, getv plus_val = VFun false true ps b e pm /\ List.length ps = 1%nat.
Proof. vm_compute. eexists; eexists; eexists; split; reflexivity. Qed.

(* the environment of a call (+ v1 .. vk): the rest parameter holds the list of the argument values *)
Lemma plus_call_env src vals i n : (let '(ps, _, e, _) := plus_parts in pair_params src ps true vals e i n) = inl (pl_env (vec_to_list vals)).
Proof.
  assert (H : exists p e, plus_parts = ([p], pl_body, e, pm)) by (vm_compute; eexists; eexists; reflexivity).
  destruct H as (p & e & H). unfold pl_env. rewrite H. rewrite pair_rest. reflexivity.
Qed.

Definition add_native_v : val := match get_global (mods prelude_state) (s "add") pm with GOk v => v | _ => VNil end.

Theorem plus_runs vals zs st d : Forall2 (fun v z => getv v = VNum z) vals zs -> in_range_from Z.add 0 zs = true ->
  has_prelude st -> d + 4 <= MAXD ->
  exists fuel st' r, eval_loop fuel st pl_body (pl_env (vec_to_list vals)) pm d = (st', ROk r) /\ has_prelude st' /\
                     getv r = VNum (fold_left Z.add zs 0%Z).
Proof.
  intros HF Hr Hg Hd. rewrite <- onto_nil.
  assert (Hadd : forall f st x y a b env d, getv x = VNum a -> getv y = VNum b -> in_i64 (a + b)%Z = true ->
                 call_native (S f) st (s "add") [x; y] env d = (st, ROk (VNum (a + b)%Z))) by (intros; apply add_call_meta; assumption).
  destruct (noks Z.add vals zs pl_zero 0%Z HF eq_refl Hr) as [Hok Hres].
  set (E := pl_env (onto vals VNil)).
  destruct (loop_closure 2 (2 * List.length vals + 6 + 4) st pl_body E d (match forms_of pl_body with y :: _ => y | _ => VNil end)
              (match forms_of pl_body with _ :: l => l | _ => [] end) [add_native_v; pl_zero; onto vals VNil] foldl_val false false
              (let '(ps, _, _, _) := foldl_parts in ps) fl_body (let '(_, _, e, _) := foldl_parts in e) pm
              (fl_env add_native_v pl_zero (onto vals VNil)) Hg eq_refl eq_refl) as (st1 & Hg1 & Hcall).
  - apply (ev_global _ (s "foldl")); [lia|reflexivity|reflexivity|reflexivity|reflexivity].
  - reflexivity.
  - constructor; [arg_global|]. constructor; [apply (ev_number _ 0%Z); [lia|reflexivity|reflexivity]|]. constructor; [arg_local|constructor].
  - reflexivity.
  - destruct (foldl_runs_guarded add_native_v (nstep Z.add) (nok Z.add) 6 ltac:(lia)
                (num_step (s "add") add_native_v Z.add eq_refl eq_refl Hadd) VNil eq_refl vals pl_zero 2%nat st1 d Hok Hg1 ltac:(lia))
      as (st2 & Hrun & Hg2).
    eexists. exists st2. eexists. split; [|split; [exact Hg2|exact Hres]].
    rewrite Hcall.
    replace (2 + (2 * List.length vals + 6 + 4))%nat with (2 * List.length vals + 6 + 4 + 2)%nat by lia. exact Hrun.
Qed.

(* ---- the product ---- *)
Definition times_val : val := match prelude_global (s "*") with Some v => v | None => VNil end.
Definition times_parts := match getv times_val with VFun _ _ ps b e em => (ps, b, e, em) | _ => ([], VNil, VNil, []) end.
Definition tm_body : val := let '(_, b, _, _) := times_parts in b.
Definition tm_env (numbers : val) : val :=
  let '(ps, _, e, _) := times_parts in
  match pair_params (s "#<function>") ps false [numbers] e 0 1 with inl env => env | inr _ => VNil end.
Definition tm_one : val := match forms_of tm_body with _ :: _ :: x :: _ => x | _ => VNil end.

Example times_is_a_rest_closure : exists ps b e, getv times_val = VFun false true ps b e pm /\ List.length ps = 1%nat.
Proof. vm_compute. eexists; eexists; eexists; split; reflexivity. Qed.

Lemma times_call_env src vals i n : (let '(ps, _, e, _) := times_parts in pair_params src ps true vals e i n) = inl (tm_env (vec_to_list vals)).
Proof.
  assert (H : exists p e, times_parts = ([p], tm_body, e, pm)) by (vm_compute; eexists; eexists; reflexivity).
  destruct H as (p & e & H). unfold tm_env. rewrite H. rewrite pair_rest. reflexivity.
Qed.

Definition mul_native_v : val := match get_global (mods prelude_state) (s "multiply") pm with GOk v => v | _ => VNil end.

Theorem times_runs vals zs st d : Forall2 (fun v z => getv v = VNum z) vals zs -> in_range_from Z.mul 1 zs = true ->
  has_prelude st -> d + 4 <= MAXD ->
  exists fuel st' r, eval_loop fuel st tm_body (tm_env (vec_to_list vals)) pm d = (st', ROk r) /\ has_prelude st' /\
                     getv r = VNum (fold_left Z.mul zs 1%Z).
Proof.
  intros HF Hr Hg Hd. rewrite <- onto_nil.
  assert (Hmul : forall f st x y a b env d, getv x = VNum a -> getv y = VNum b -> in_i64 (a * b)%Z = true ->
                 call_native (S f) st (s "multiply") [x; y] env d = (st, ROk (VNum (a * b)%Z))) by (intros; apply mul_call_meta; assumption).
  destruct (noks Z.mul vals zs tm_one 1%Z HF eq_refl Hr) as [Hok Hres].
  set (E := tm_env (onto vals VNil)).
  destruct (loop_closure 2 (2 * List.length vals + 6 + 4) st tm_body E d (match forms_of tm_body with y :: _ => y | _ => VNil end)
              (match forms_of tm_body with _ :: l => l | _ => [] end) [mul_native_v; tm_one; onto vals VNil] foldl_val false false
              (let '(ps, _, _, _) := foldl_parts in ps) fl_body (let '(_, _, e, _) := foldl_parts in e) pm
              (fl_env mul_native_v tm_one (onto vals VNil)) Hg eq_refl eq_refl) as (st1 & Hg1 & Hcall).
  - apply (ev_global _ (s "foldl")); [lia|reflexivity|reflexivity|reflexivity|reflexivity].
  - reflexivity.
  - constructor; [arg_global|]. constructor; [apply (ev_number _ 1%Z); [lia|reflexivity|reflexivity]|]. constructor; [arg_local|constructor].
  - reflexivity.
  - destruct (foldl_runs_guarded mul_native_v (nstep Z.mul) (nok Z.mul) 6 ltac:(lia)
                (num_step (s "multiply") mul_native_v Z.mul eq_refl eq_refl Hmul) VNil eq_refl vals tm_one 2%nat st1 d Hok Hg1 ltac:(lia))
      as (st2 & Hrun & Hg2).
    eexists. exists st2. eexists. split; [|split; [exact Hg2|exact Hres]].
    rewrite Hcall.
    replace (2 + (2 * List.length vals + 6 + 4))%nat with (2 * List.length vals + 6 + 4 + 2)%nat by lia. exact Hrun.
Qed.

(* non-vacuity: the premises hold for concrete argument lists; the sum / product of no numbers *)
Example plus_premises : in_range_from Z.add 0 [9223372036854775807; -5; 3]%Z = true /\ in_range_from Z.add 0 [9223372036854775807; 1]%Z = false.
Proof. vm_compute. split; reflexivity. Qed.
Example times_premises : in_range_from Z.mul 1 [4294967296; 2147483647; -1]%Z = true /\ in_range_from Z.mul 1 [4294967296; 4294967296]%Z = false.
Proof. vm_compute. split; reflexivity. Qed.
