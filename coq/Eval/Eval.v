(* The evaluator and macro expander: transcription of src/native/eval/mod.rs
   (lookup, pair_params_and_args, eval_internal with its loop/continue structure,
   macroexpand_internal, macroexpand_completely, eval, macroexpand, call_native_function,
   load_all) as ONE mutual fixpoint on fuel.  [d] is the recursion_depth the Rust function
   receives; tail positions (`continue`) re-enter at the SAME depth. *)
From PL Require Export Eval.Natives.
From Coq Require Import String.
Local Open Scope string_scope.
Local Open Scope list_scope.
Local Open Scope N_scope.

(* lookup: walk the association list; an entry that is not a (symbol . value) pair binds nothing
   and the list ends at the first non-cons (environments can be made by hand) *)
Inductive lres := LFound (v : val) | LMissing.

Fixpoint env_lookup (env : val) (k : sym) : lres :=
  match env with
  | VCons kv rest | VMeta _ (VCons kv rest) =>
    match getv kv with
    | VCons key v => match getv key with
                     | VSym k' => if sym_eqb k' k then LFound v else env_lookup rest k
                     | _ => env_lookup rest k
                     end
    | _ => env_lookup rest k
    end
  | _ => LMissing
  end.

(* pair_params_and_args *)
Fixpoint pair_params (source : text) (params : list val) (rest : bool) (args : list val) (env : val) (i nargs : nat) : val + val :=
  match params with
  | [] => match args with
          | [] => inl env
          | _ => inr (make_error "wrong-number-of-arguments" source [("expected", vnat i); ("actual", vnat nargs)])
          end
  | [p] => if rest then inl (VCons (VCons p (vec_to_list args)) env)
           else match args with
                | a :: args' => pair_params source [] rest args' (VCons (VCons p a) env) (S i) nargs
                | [] => inr (make_error "wrong-number-of-arguments" source [("expected", vnat (S i)); ("actual", vnat nargs)])
                end
  | p :: ps => match args with
               | a :: args' => pair_params source ps rest args' (VCons (VCons p a) env) (S i) nargs
               | [] => inr (make_error "wrong-number-of-arguments" source [("expected", vnat (S i)); ("actual", vnat nargs)])
               end
  end.

Definition call_source (e : val) : text :=
  match get_meta e with Some m => m_name m | None => s "#<function>" end.

(* the poll of the debugger channel at the head of the evaluator loop *)
Definition poll (st : state) : state * option res :=
  let n := polls st + 1 in
  let arrived := map snd (filter (fun p => fst p =? n) (inject st)) in
  let ch := chan st ++ arrived in
  if attached st then
    match ch with
    | c :: r =>
      let st' := State (mods st) (cur st) (gensyms st) (out st) (stdin st) true r (inject st) n in
      if text_eqb c (s "INTERRUPT") then (st', Some (RSig (make_error "interrupted" (s "eval") [])))
      else if text_eqb c (s "ABORT") then (st', Some RAbort)
      else (st', None)
    | [] => (State (mods st) (cur st) (gensyms st) (out st) (stdin st) true [] (inject st) n, None)
    end
  else (State (mods st) (cur st) (gensyms st) (out st) (stdin st) false ch (inject st) n, None).

Definition ambiguous_error (source : string) (e : val) (ms : list text) : val :=
  make_error "ambiguous-name" (s source) [("symbol", e); ("conflicting-modules", vec_to_list (map tsym ms))].

Definition MAXD : N := MAX_RECURSION_DEPTH.
Definition overflow (source : string) : res := RSig (make_error "stackoverflow" (s source) []).

Fixpoint eval_internal (fuel : nat) (st : state) (e env : val) (envmod : text) (d : N) {struct fuel} : state * res :=
  match fuel with
  | O => (st, RFuel)
  | S f => if MAXD <? d then (st, overflow "eval") else eval_loop f st e env envmod d
  end

(* one iteration of the `loop` of eval_internal (entered again by every `continue`) *)
with eval_loop (fuel : nat) (st : state) (e env : val) (envmod : text) (d : N) {struct fuel} : state * res :=
  match fuel with
  | O => (st, RFuel)
  | S f =>
  let '(st, interrupted) := poll st in
  match interrupted with
  | Some r => (st, r)
  | None =>
  match list_to_vec e with
  | Some [] => (st, ROk VNil)
  | Some (first :: rest) =>
    if is_sym first (s "lambda") then (st, make_function_internal rest env envmod "lambda" false)
    else if is_sym first (s "quote") then
      match validate (s "quote") [TAny] rest with
      | Some er => (st, RSig er)
      | None => match rest with [x] => (st, ROk x) | _ => (st, RPanic "model: shape") end
      end
    else if is_sym first (s "if") then
      match validate (s "if") [TAny; TAny; TAny] rest with
      | Some er => (st, RSig er)
      | None =>
        match rest with
        | [c; t; o] => match eval_internal f st c env envmod (d + 1) with
                       | (st1, ROk cv) => if is_nil cv then eval_loop f st1 o env envmod d else eval_loop f st1 t env envmod d
                       | other => other
                       end
        | _ => (st, RPanic "model: shape")
        end
      end
    else if is_sym first (s "trap") then
      match validate (s "trap") [TAny; TAny] rest with
      | Some er => (st, RSig er)
      | None => match rest with [nb; tb] => (st, ROk (VTrap nb tb)) | _ => (st, RPanic "model: shape") end
      end
    else
      match eval_internal f st first env envmod (d + 1) with
      | (st1, ROk op) =>
        let eval_args :=
            fix go (st : state) (xs acc : list val) : state * (list val + res) :=
              match xs with
              | [] => (st, inl (rev acc))
              | x :: xs' => match eval_internal f st x env envmod (d + 1) with
                            | (st', ROk v) => go st' xs' (v :: acc)
                            | (st', r) => (st', inr r)
                            end
              end in
        match getv op with
        | VFun _ restp params body cenv cmod =>
          match eval_args st1 rest [] with
          | (st2, inl args) =>
            match pair_params (call_source e) params restp args cenv 0 (List.length args) with
            | inl newenv => eval_loop f st2 body newenv cmod d
            | inr sg => (st2, RSig sg)
            end
          | (st2, inr r) => (st2, r)
          end
        | VNative name =>
          match eval_args st1 rest [] with
          | (st2, inl args) =>
            if text_eqb name (s "eval") then
              match validate (s "eval") [TAny] args with
              | Some er => (st2, RSig er)
              | None => match args with
                        | [x] => match expand_completely f st2 x env envmod (d + 1) with
                                 | (st3, ROk x') => eval_loop f st3 x' env envmod d
                                 | other => other
                                 end
                        | _ => (st2, RPanic "model: shape")
                        end
              end
            else call_native f st2 name args env (d + 1)
          | (st2, inr r) => (st2, r)
          end
        | _ => (st1, RSig (make_error "eval-bad-operator" (s "eval") [("symbol", first)]))
        end
      | other => other
      end
  | None =>
    match getv e with
    | VCons a b =>
      match eval_internal f st a env envmod (d + 1) with
      | (st1, ROk av) => match eval_internal f st1 b env envmod (d + 1) with
                         | (st2, ROk bv) => (st2, ROk (VCons av bv))
                         | other => other
                         end
      | other => other
      end
    | VTrap nb tb =>
      match eval_internal f st nb env envmod (d + 1) with
      | (st1, RSig sg) => eval_internal f st1 tb (VCons (VCons (vsym "*trapped-signal*") sg) env) envmod (d + 1)
      | other => other
      end
    | VSym k =>
      match env_lookup env k with
      | LFound v => (st, ROk v)
      | LMissing =>
        match k with
        | Unique _ => (st, RSig (make_error "unbound-symbol" (s "eval") [("symbol", e)]))
        | Named n =>
          match get_global (mods st) n envmod with
          | GOk v => (st, ROk v)
          | GAmbiguous ms => (st, RSig (ambiguous_error "eval" e ms))
          | GNotFound => (st, RSig (make_error "unbound-symbol" (s "eval") [("symbol", e)]))
          end
        end
      end
    | _ => (st, ROk e)
    end
  end
  end
  end

(* macroexpand_internal; the boolean is the `changed` flag *)
with expand_internal (fuel : nat) (st : state) (e env : val) (envmod : text) (d : N) (ch : bool) {struct fuel} : state * res * bool :=
  match fuel with
  | O => (st, RFuel, ch)
  | S f =>
  if MAXD <? d then (st, overflow "macroexpand", ch) else
  match list_to_vec e with
  | Some [] => (st, ROk VNil, ch)
  | Some (first :: rest) =>
    if is_sym first (s "macro") then (st, make_function_internal rest env envmod "macro" true, ch)
    else if is_sym first (s "quote") then (st, ROk e, ch)
    else
      match expand_internal f st first env envmod (d + 1) ch with
      | (st1, ROk op, ch1) =>
        let expand_args :=
            fix go (st : state) (xs acc : list val) (ch : bool) : state * (list val + res) * bool :=
              match xs with
              | [] => (st, inl (rev acc), ch)
              | x :: xs' => match expand_internal f st x env envmod (d + 1) ch with
                            | (st', ROk v, ch') => go st' xs' (v :: acc) ch'
                            | (st', r, ch') => (st', inr r, ch')
                            end
              end in
        match expand_args st1 rest [] ch1 with
        | (st2, inl args, ch2) =>
          match getv op with
          | VFun true restp params body cenv cmod =>
            match pair_params (call_source e) params restp args cenv 0 (List.length args) with
            | inl newenv => let '(st3, r) := eval_internal f st2 body newenv cmod (d + 1) in (st3, r, true)
            | inr sg => (st2, RSig sg, true)
            end
          | VNative name =>
            match find_native name native_table with
            | Some info => if n_macro info
                           then let '(st3, r) := call_native f st2 name args env (d + 1) in (st3, r, true)
                           else (st2, ROk (vec_to_list (op :: args)), ch2)
            | None => (st2, ROk (vec_to_list (op :: args)), ch2)
            end
          | _ => (st2, ROk (vec_to_list (op :: args)), ch2)   (* the expanded operator is kept *)
          end
        | (st2, inr r, ch2) => (st2, r, ch2)
        end
      | other => other
      end
  | None =>
    match getv e with
    | VCons a b =>
      match expand_internal f st a env envmod (d + 1) ch with
      | (st1, ROk av, ch1) => match expand_internal f st1 b env envmod (d + 1) ch1 with
                              | (st2, ROk bv, ch2) => (st2, ROk (VCons av bv), ch2)
                              | other => other
                              end
      | other => other
      end
    | VSym k =>
      match env_lookup env k with
      | LFound v => match getv v with
                    | VFun true _ _ _ _ _ => (st, ROk v, true)
                    | VNative name => match find_native name native_table with
                                      | Some info => if n_macro info then (st, ROk v, true) else (st, ROk e, ch)
                                      | None => (st, ROk e, ch)
                                      end
                    | _ => (st, ROk e, ch)
                    end
      | LMissing =>
        match k with
        | Unique _ => (st, ROk e, ch)
        | Named n =>
          (* NB: the lookup uses the CURRENT module, not [envmod] (as in the code) *)
          match get_global (mods st) n (cur st) with
          | GOk v => match getv v with
                     | VFun true _ _ _ _ _ => (st, ROk v, true)
                     | VNative name => match find_native name native_table with
                                       | Some info => if n_macro info then (st, ROk v, true) else (st, ROk e, ch)
                                       | None => (st, ROk e, ch)
                                       end
                     | _ => (st, ROk e, ch)
                     end
          | GAmbiguous ms => (st, RSig (ambiguous_error "macroexpand" e ms), ch)
          | GNotFound => (st, ROk e, ch)
          end
        end
      end
    | _ => (st, ROk e, ch)
    end
  end
  end

(* macroexpand_completely: passes until one reports no change (no depth or poll inside) *)
with expand_completely (fuel : nat) (st : state) (e env : val) (envmod : text) (d : N) {struct fuel} : state * res :=
  match fuel with
  | O => (st, RFuel)
  | S f =>
    match expand_internal f st e env envmod (d + 1) false with
    | (st1, ROk e', true) => expand_completely f st1 e' env envmod d
    | (st1, r, _) => (st1, r)
    end
  end

(* NativeFunction::call : depth check (where the native has one), validate_args!, body *)
with call_native (fuel : nat) (st : state) (name : text) (args : list val) (env : val) (d : N) {struct fuel} : state * res :=
  match fuel with
  | O => (st, RFuel)
  | S f =>
    match find_native name native_table with
    | None => (st, RPanic "model: unknown native")
    | Some info =>
      if n_depth_check info && (MAXD <? d) then (st, RSig (make_error "stackoverflow" name [])) else
      match match n_sig info with Some sig => validate name sig args | None => None end with
      | Some er => (st, RSig er)
      | None =>
        if text_eqb name (s "eval") then
          match args with
          | [x] => let envmod := cur st in
                   match expand_completely f st x env envmod (d + 1) with
                   | (st1, ROk x') => eval_internal f st1 x' env envmod (d + 1)
                   | other => other
                   end
          | _ => (st, RPanic "model: shape")
          end
        else if text_eqb name (s "macroexpand") then
          match args with
          | [x] => expand_completely f st x env (cur st) (d + 1)
          | _ => (st, RPanic "model: shape")
          end
        else if text_eqb name (s "call-native-function") then
          match args with
          | [fn; arguments; environment] =>
            match getv fn, list_to_vec arguments with
            | VNative n, Some l => call_native f st n l environment (d + 1)
            | VFun _ _ _ _ _ _, Some _ =>
              (st, RSig (make_error "wrong-argument" name [("expected", vsym "native-function"); ("actual", vsym "normal-function")]))
            | _, _ => (st, RPanic "model: shape")
            end
          | _ => (st, RPanic "model: shape")
          end
        else if text_eqb name (s "load-all") then
          match args with
          | [input; source] =>
            let old := cur st in
            let st0 := match list_to_string source with Some nm => define_module st nm | None => st end in
            let '(st1, r) := load_loop f st0 input source 1 1 d in
            (* the module that was current before the load is current again, on every exit path *)
            match set_current_module st1 old with
            | Some st2 => (st2, r)
            | None => (st1, RPanic "load_all: set_current_module(old).unwrap()")
            end
          | _ => (st, RPanic "model: shape")
          end
        else match simple_native st name args d with
             | Some r => r
             | None => (st, RPanic "model: native without a model")
             end
      end
    end
  end

(* the `while !cursor.is_nil()` loop of load_all *)
with load_loop (fuel : nat) (st : state) (cursor source : val) (line col : Z) (d : N) {struct fuel} : state * res :=
  match fuel with
  | O => (st, RFuel)
  | S f =>
    if is_nil cursor then (st, ROk sym_ok)
    else
      match call_native f st (s "read") [cursor; source; VNum line; VNum col] VNil (d + 1) with
      | (st1, ROk output) =>
        match property "status" output, property "result" output, property "rest" output, property "error" output,
              property "line" output, property "column" output with
        | Some status, Some result, Some rest, Some rerror, Some l, Some c =>
          let continue_with (st : state) :=
              match getv l, getv c with
              | VNum lz, VNum cz => load_loop f st rest source lz cz d
              | _, _ => if is_nil rest then load_loop f st rest source 1 1 d
                        else (st, RSig (make_error "wrong-argument-type" (s "read")
                                          [("argument-value", l); ("expected", vsym "number-type"); ("actual", vsym (tlabel_name (extended_get_type l)))]))
              end in
          if is_sym status (s "ok") then
            match call_native f st1 (s "eval") [result] VNil (d + 1) with
            | (st2, ROk _) => continue_with st2
            | other => other
            end
          else if is_sym status (s "incomplete") then (st1, RSig (make_error "input-incomplete" (s "load-all") []))
          else if is_sym status (s "error") then (st1, RSig (make_error "read-error" (s "load-all") [("details", rerror)]))
          else if is_sym status (s "invalid") then (st1, RSig (make_error "input-invalid-string" (s "load-all") []))
          else continue_with st1
        | _, _, _, _, _, _ => (st1, RPanic "load_all: property(...).unwrap()")
        end
      | other => other
      end
  end.

(* the native `eval` as the embedder calls it (eval_external: depth 0, empty environment) *)
Definition eval_top (fuel : nat) (st : state) (e : val) : state * res :=
  call_native fuel st (s "eval") [e] VNil 0.
