(* sorting module names: the sorted list is a function of the multiset of names *)
From PL Require Import Eval.State.
From Coq Require Import Permutation Sorted.
Local Open Scope N_scope.

Lemma text_leb_total a b : text_leb a b = true \/ text_leb b a = true.
Proof.
  revert b. induction a as [|x a IH]; intros [|y b]; cbn; auto.
  destruct (N.ltb_spec x y), (N.ltb_spec y x); auto; try lia.
Qed.

Lemma text_leb_antisym a b : text_leb a b = true -> text_leb b a = true -> a = b.
Proof.
  revert b. induction a as [|x a IH]; intros [|y b]; cbn; auto; try discriminate.
  destruct (N.ltb_spec x y), (N.ltb_spec y x); try discriminate; try lia.
  intros H1 H2. assert (x = y) by lia. subst. f_equal. apply IH; assumption.
Qed.

Lemma text_leb_trans a b c : text_leb a b = true -> text_leb b c = true -> text_leb a c = true.
Proof.
  revert b c. induction a as [|x a IH]; intros [|y b] [|z c]; cbn; auto; try discriminate.
  destruct (N.ltb_spec x y), (N.ltb_spec y z), (N.ltb_spec x z); try reflexivity; try discriminate; try lia;
  destruct (N.ltb_spec y x), (N.ltb_spec z y), (N.ltb_spec z x); try discriminate; try lia; try reflexivity; intros; eauto.
Qed.

Definition sorted (l : list text) : Prop := StronglySorted (fun a b => text_leb a b = true) l.

Lemma insert_perm x l : Permutation (insert_text x l) (x :: l).
Proof.
  induction l as [|y r IH]; cbn; [reflexivity|]. destruct (text_leb x y); [reflexivity|].
  apply Permutation_trans with (y :: x :: r); [constructor; exact IH|apply perm_swap].
Qed.

Lemma sort_perm l : Permutation (sort_texts l) l.
Proof. induction l as [|x r IH]; cbn; [constructor|]. eapply Permutation_trans; [apply insert_perm|constructor; exact IH]. Qed.

Lemma insert_sorted x l : sorted l -> sorted (insert_text x l).
Proof.
  induction l as [|y r IH]; intros Hs; cbn.
  - constructor; constructor.
  - inversion Hs as [|? ? Hr Hall]; subst. destruct (text_leb x y) eqn:E.
    + constructor; [exact Hs|]. constructor; [exact E|]. rewrite Forall_forall in *. intros z Hz. eapply text_leb_trans; [exact E|auto].
    + constructor; [apply IH; exact Hr|].
      assert (Hyx : text_leb y x = true) by (destruct (text_leb_total x y); congruence).
      rewrite Forall_forall in *. intros z Hz. apply (Permutation_in _ (insert_perm x r)) in Hz. destruct Hz as [<-|Hz]; auto.
Qed.

Lemma sort_sorted l : sorted (sort_texts l).
Proof. induction l as [|x r IH]; cbn; [constructor|apply insert_sorted; exact IH]. Qed.

Lemma sorted_perm_eq l : forall l', sorted l -> sorted l' -> Permutation l l' -> l = l'.
Proof.
  induction l as [|x r IH]; intros l' Hs Hs' Hp.
  - apply Permutation_nil in Hp. congruence.
  - destruct l' as [|y r']; [apply Permutation_sym, Permutation_nil in Hp; discriminate|].
    inversion Hs as [|? ? Hr Hall]; subst. inversion Hs' as [|? ? Hr' Hall']; subst.
    assert (x = y).
    { rewrite Forall_forall in Hall, Hall'.
      assert (Hx : In x (y :: r')) by (apply (Permutation_in _ Hp); left; reflexivity).
      assert (Hy : In y (x :: r)) by (apply (Permutation_in _ (Permutation_sym Hp)); left; reflexivity).
      destruct Hx as [->|Hx]; [reflexivity|]. destruct Hy as [->|Hy]; [reflexivity|].
      apply text_leb_antisym; auto. }
    subst y. f_equal. apply IH; auto. eapply Permutation_cons_inv. exact Hp.
Qed.

Theorem sort_texts_perm l l' : Permutation l l' -> sort_texts l = sort_texts l'.
Proof.
  intros Hp. apply sorted_perm_eq; [apply sort_sorted|apply sort_sorted|].
  eapply Permutation_trans; [apply sort_perm|]. eapply Permutation_trans; [exact Hp|apply Permutation_sym, sort_perm].
Qed.
