From PL Require Import Eval.State Eval.SortProofs.
From Coq Require Import Permutation.
Local Open Scope N_scope.

Lemma mem_text_In k l : mem_text k l = true <-> In k l.
Proof.
  induction l as [|x l IH]; cbn; [split; [discriminate|tauto]|].
  rewrite orb_true_iff, IH, text_eqb_eq. split; intros [H|H]; auto.
Qed.

(* Module::get : a definition is visible exactly when the module exports it, or declares no
   exports at all, or is the module the asking code belongs to *)
Lemma visible_iff m name asking v :
  module_get m name asking = Some v <->
  assoc name (mod_defs m) = Some v /\
  (mod_exports m = None \/ (exists e, mod_exports m = Some e /\ In name e) \/ asking = mod_name m).
Proof.
  unfold module_get, exported. destruct (mod_exports m) as [e|] eqn:E.
  - destruct (mem_text name e) eqn:Em; cbn.
    + split; [intros H; split; [exact H|right; left; exists e; split; [reflexivity|apply mem_text_In; exact Em]]|tauto].
    + destruct (text_eqb_spec asking (mod_name m)) as [->|Hn].
      * split; [intros H; split; [exact H|right; right; reflexivity]|tauto].
      * split; [discriminate|]. intros [_ [H|[[e' [He Hin]]|H]]]; try discriminate; try congruence.
        injection He as <-. apply mem_text_In in Hin. congruence.
  - cbn. split; [intros H; split; [exact H|left; reflexivity]|tauto].
Qed.

Lemma visible_in_spec ms name asking mn v :
  In (mn, v) (visible_in ms name asking) <->
  exists m, In m ms /\ mod_name m = mn /\ module_get m name asking = Some v.
Proof.
  induction ms as [|m ms IH]; cbn.
  - split; [tauto|intros [m [[] _]]].
  - destruct (module_get m name asking) as [v'|] eqn:E.
    + cbn. rewrite IH. split.
      * intros [H|[m' [Hin [Hn Hg]]]]; [injection H as <- <-; exists m; auto|exists m'; auto].
      * intros [m' [[<-|Hin] [Hn Hg]]]; [left; congruence|right; exists m'; auto].
    + rewrite IH. split.
      * intros [m' [Hin [Hn Hg]]]. exists m'; auto.
      * intros [m' [[<-|Hin] [Hn Hg]]]; [congruence|exists m'; auto].
Qed.

(* get_global: a value iff the name is visible from exactly one module; ambiguity (listing
   the modules) iff from at least two; not found iff from none *)
Lemma get_global_spec ms name asking :
  match get_global ms name asking with
  | GOk v => exists mn, visible_in ms name asking = [(mn, v)]
  | GAmbiguous l => (2 <= List.length (visible_in ms name asking))%nat /\ l = sort_texts (map fst (visible_in ms name asking))
  | GNotFound => visible_in ms name asking = []
  end.
Proof.
  unfold get_global. destruct (visible_in ms name asking) as [|[mn v] [|p r]]; cbn [List.length].
  - reflexivity.
  - exists mn. reflexivity.
  - split; [lia|reflexivity].
Qed.

Lemma visible_in_perm ms ms' name asking :
  Permutation ms ms' -> Permutation (visible_in ms name asking) (visible_in ms' name asking).
Proof.
  induction 1 as [|m l l' Hp IH|a b l|l1 l2 l3 H1 IH1 H2 IH2]; cbn.
  - constructor.
  - destruct (module_get m name asking); [constructor|]; exact IH.
  - destruct (module_get a name asking), (module_get b name asking); try apply Permutation_refl. constructor.
  - eapply Permutation_trans; eassumption.
Qed.

(* the outcome does not depend on the order of the module table (hash order / load order) at all *)
Lemma get_global_perm ms ms' name asking : Permutation ms ms' -> get_global ms name asking = get_global ms' name asking.
Proof.
  intros Hp. pose proof (visible_in_perm ms ms' name asking Hp) as Hv.
  unfold get_global.
  destruct (visible_in ms name asking) as [|[mn v] [|p r]] eqn:E1.
  - apply Permutation_nil in Hv. rewrite Hv. reflexivity.
  - apply Permutation_length_1_inv in Hv. rewrite Hv. reflexivity.
  - pose proof (Permutation_length Hv) as Hl.
    destruct (visible_in ms' name asking) as [|[mn' v'] [|p' r']] eqn:E2; cbn in Hl; try lia.
    f_equal. apply sort_texts_perm. apply (Permutation_map fst) in Hv. exact Hv.
Qed.

Lemma whereis_perm ms ms' name : Permutation ms ms' -> modules_defining ms name = modules_defining ms' name.
Proof.
  intros Hp. unfold modules_defining. apply sort_texts_perm. apply Permutation_map.
  induction Hp as [|m l l' Hp IH|a b l|l1 l2 l3 H1 IH1 H2 IH2]; cbn.
  - constructor.
  - destruct (assoc name (mod_defs m)); [constructor|]; exact IH.
  - destruct (assoc name (mod_defs a)), (assoc name (mod_defs b)); try apply Permutation_refl. constructor.
  - eapply Permutation_trans; eassumption.
Qed.

Lemma find_module_In name ms m : find_module name ms = Some m -> In m ms /\ mod_name m = name.
Proof.
  induction ms as [|x ms IH]; cbn; [discriminate|].
  destruct (text_eqb_spec name (mod_name x)) as [->|Hn].
  - intros H; injection H as <-. auto.
  - intros H. destruct (IH H). auto.
Qed.

(* from-module reaches only exported names *)
Lemma from_module_exported_only ms name mn v :
  get_global_from_module ms name mn = FOk v ->
  exists m, In m ms /\ mod_name m = mn /\ exported m name = true /\ assoc name (mod_defs m) = Some v.
Proof.
  unfold get_global_from_module. destruct (find_module mn ms) as [m|] eqn:E; [|discriminate].
  destruct (exported m name) eqn:Ex; [|discriminate].
  destruct (assoc name (mod_defs m)) as [v'|] eqn:Ea; [|discriminate].
  intros H; injection H as <-. destruct (find_module_In _ _ _ E). exists m; auto.
Qed.

(* a private name (module with an export list that omits it) is invisible from every other
   module, whatever the table looks like *)
Lemma private_invisible_elsewhere m name asking e :
  mod_exports m = Some e -> ~ In name e -> asking <> mod_name m -> module_get m name asking = None.
Proof.
  intros He Hn Ha. destruct (module_get m name asking) as [v|] eqn:E; [|reflexivity].
  apply visible_iff in E as [_ [H|[[e' [He' Hin]]|H]]]; congruence.
Qed.

(* ... and visible from its own module (with-current-module's bypass uses exactly this) *)
Lemma private_visible_at_home m name v : assoc name (mod_defs m) = Some v -> module_get m name (mod_name m) = Some v.
Proof. intros H. apply visible_iff. split; [exact H|right; right; reflexivity]. Qed.
