(* No module ever disappears: whatever is evaluated, expanded, loaded or called, every module of
   the state before is a module of the state after.  Consequence: load-all can always make the
   module that was current before the load current again (the unwrap in load_all never fails). *)
From PL Require Import Eval.Eval Eval.EvalRules Eval.ExpandProofs Eval.SemProofs Eval.NativesTotal.
From Coq Require Import String Lia.
Local Open Scope string_scope.
Local Open Scope list_scope.
Local Open Scope N_scope.

Definition cur_ok (st : state) : Prop := find_module (cur st) (mods st) <> None.

(* no module disappears, and the current module stays an existing one *)
Definition keeps (st st' : state) : Prop :=
  (forall n, find_module n (mods st) <> None -> find_module n (mods st') <> None) /\ (cur_ok st -> cur_ok st').

Lemma keeps_refl st : keeps st st. Proof. split; auto. Qed.
Lemma keeps_trans a b c : keeps a b -> keeps b c -> keeps a c.
Proof. intros [H1 C1] [H2 C2]. split; [intros n H; apply H2, H1, H|auto]. Qed.
Lemma keeps_same_mods st st' : mods st' = mods st -> cur st' = cur st -> keeps st st'.
Proof. intros E C. unfold keeps, cur_ok. rewrite E, C. auto. Qed.

Lemma keeps_update st m : keeps st (set_mods st (update_module m (mods st))).
Proof.
  assert (H : forall n, find_module n (mods st) <> None -> find_module n (update_module m (mods st)) <> None).
  { intros n H. destruct (text_eqb_spec n (mod_name m)) as [->|Hn].
    - rewrite find_update_same. discriminate.
    - rewrite (find_update_other m (mods st) n Hn). exact H. }
  split; [exact H|]. unfold cur_ok. cbn [mods cur set_mods]. apply H.
Qed.

Lemma keeps_define st name v : keeps st (define_global st name v). Proof. apply keeps_update. Qed.
Lemma keeps_undefine st name : keeps st (undefine_global st name). Proof. apply keeps_update. Qed.
Lemma keeps_export st name : keeps st (add_export st name). Proof. apply keeps_update. Qed.
Lemma keeps_define_module st name : keeps st (define_module st name).
Proof.
  unfold define_module. destruct (keeps_update st (Module name [] None)) as [H _]. split.
  - intros n Hn. cbn [mods set_cur set_mods]. apply H, Hn.
  - intros _. unfold cur_ok. cbn [mods cur set_cur set_mods].
    change name with (mod_name (Module name [] None)) at 1. rewrite find_update_same. discriminate.
Qed.

Lemma keeps_export_walk name : forall l st st' r, export_walk name st l = (st', r) -> keeps st st'.
Proof.
  induction l as [|x l IH]; intros st st' r H; cbn [export_walk] in H.
  - injection H as <- _. apply keeps_refl.
  - destruct (getv x); try (injection H as <- _; apply keeps_refl).
    eapply keeps_trans; [apply keeps_export|eapply IH; exact H].
Qed.

Lemma keeps_poll st st' r : poll st = (st', r) -> keeps st st'.
Proof.
  unfold poll. destruct (attached st).
  - destruct (chan st ++ _) as [|c rest]; [intros H; injection H as <- _; apply keeps_same_mods; reflexivity|].
    destruct (text_eqb c (s "INTERRUPT")); [intros H; injection H as <- _; apply keeps_same_mods; reflexivity|].
    destruct (text_eqb c (s "ABORT")); intros H; injection H as <- _; apply keeps_same_mods; reflexivity.
  - intros H; injection H as <- _; apply keeps_same_mods; reflexivity.
Qed.

Global Hint Resolve keeps_refl keeps_define keeps_undefine keeps_export keeps_define_module : keeps.

(* every primitive *)
Definition native_keeps (info : native_info) : Prop :=
  forall st args d st' r, simple_native st (n_name info) args d = Some (st', r) -> keeps st st'.

Ltac crunchk H :=
  repeat match type of H with
         | context [match ?x with _ => _ end] => destruct x eqn:?
         | context [if ?x then _ else _] => destruct x eqn:?
         end.

Ltac keeps_leaf H :=
  first [ discriminate H
        | injection H as <- _; first [ solve [auto with keeps] | apply keeps_same_mods; reflexivity ] ].

Lemma all_natives_keep : Forall native_keeps native_table.
Proof.
  unfold native_table.
  repeat (apply Forall_cons; [intros st args d st' r H; cbn [n_name] in H; cbn in H; timeout 120 (crunchk H); try keeps_leaf H|]); [..|apply Forall_nil].
  injection H as H. eapply keeps_export_walk; exact H.
Qed.

Lemma simple_native_keeps st name args d st' r : simple_native st name args d = Some (st', r) -> keeps st st'.
Proof.
  intros H. destruct (find_native name native_table) as [info|] eqn:Hf.
  - destruct (find_native_In name native_table info Hf) as [Hin <-].
    pose proof all_natives_keep as Hall. rewrite Forall_forall in Hall. exact (Hall info Hin st args d st' r H).
  - (* a name outside the table has no model *)
    exfalso. revert H. unfold simple_native.
    assert (Hn : forall lit, In lit (map n_name native_table) -> text_eqb name lit = false).
    { intros lit Hin. destruct (text_eqb_spec name lit) as [->|]; [|reflexivity].
      exfalso. apply in_map_iff in Hin as (i & Hi & Hin). clear -Hf Hi Hin.
      induction native_table as [|x l IH]; [contradiction|]. cbn [find_native] in Hf.
      destruct (text_eqb_spec lit (n_name x)); [discriminate|]. destruct Hin as [->|Hin]; [congruence|auto]. }
    cbv zeta. repeat (rewrite Hn by (vm_compute; tauto)). discriminate.
Qed.


Ltac kt := eauto 10 using keeps_trans, keeps_refl.
Ltac leaf H := injection H; intros; subst; kt.

Section Step.
Variable f : nat.
Hypothesis IHe : forall st e env m d st' r, eval_internal f st e env m d = (st', r) -> keeps st st'.
Hypothesis IHl : forall st e env m d st' r, eval_loop f st e env m d = (st', r) -> keeps st st'.
Hypothesis IHx : forall st e env m d ch st' r ch', expand_internal f st e env m d ch = (st', r, ch') -> keeps st st'.
Hypothesis IHc : forall st e env m d st' r, expand_completely f st e env m d = (st', r) -> keeps st st'.
Hypothesis IHn : forall st name args env d st' r, call_native f st name args env d = (st', r) -> keeps st st'.
Hypothesis IHld : forall st cursor source line col d st' r, load_loop f st cursor source line col d = (st', r) -> keeps st st'.

Lemma eval_args_keeps env m d : forall xs st acc st' r, eval_args f env m d st xs acc = (st', r) -> keeps st st'.
Proof.
  induction xs as [|x xs IH]; intros st acc st' r H; cbn in H; [leaf H|].
  destruct (eval_internal f st x env m (d + 1)) as [st1 r1] eqn:E. pose proof (IHe _ _ _ _ _ _ _ E) as K.
  destruct r1; try (leaf H). pose proof (IH _ _ _ _ H). kt.
Qed.

Lemma expand_args_keeps env m d : forall xs st acc ch st' r ch', expand_args f env m d st xs acc ch = (st', r, ch') -> keeps st st'.
Proof.
  induction xs as [|x xs IH]; intros st acc ch st' r ch' H; cbn in H; [leaf H|].
  destruct (expand_internal f st x env m (d + 1) ch) as [[st1 r1] ch1] eqn:E. pose proof (IHx _ _ _ _ _ _ _ _ _ E) as K.
  destruct r1; try (leaf H). pose proof (IH _ _ _ _ _ _ H). kt.
Qed.

Lemma keeps_loop st e env m d st' r : eval_loop (S f) st e env m d = (st', r) -> keeps st st'.
Proof.
  intros H. cbn [eval_loop] in H.
  destruct (poll st) as [st0 [pr|]] eqn:Ep; pose proof (keeps_poll _ _ _ Ep) as K0; [leaf H|].
  destruct (list_to_vec e) as [[|first rest]|] eqn:El; [leaf H| |].
  - destruct (is_sym first (s "lambda")); [leaf H|].
    destruct (is_sym first (s "quote")).
    { destruct (validate (s "quote") [TAny] rest); [leaf H|]. destruct rest as [|x [|? ?]]; leaf H. }
    destruct (is_sym first (s "if")).
    { destruct (validate (s "if") [TAny; TAny; TAny] rest); [leaf H|]. destruct rest as [|c [|t [|o [|? ?]]]]; try (leaf H).
      destruct (eval_internal f st0 c env m (d + 1)) as [st1 r1] eqn:E. pose proof (IHe _ _ _ _ _ _ _ E) as K1.
      destruct r1; try (leaf H). destruct (is_nil v); pose proof (IHl _ _ _ _ _ _ _ H); kt. }
    destruct (is_sym first (s "trap")).
    { destruct (validate (s "trap") [TAny; TAny] rest); [leaf H|]. destruct rest as [|nb [|tb [|? ?]]]; leaf H. }
    destruct (eval_internal f st0 first env m (d + 1)) as [st1 r1] eqn:E. pose proof (IHe _ _ _ _ _ _ _ E) as K1.
    destruct r1; try (leaf H).
    change (fix go (st : state) (xs acc : list val) {struct xs} : state * (list val + res) :=
              match xs with
              | [] => (st, inl (rev acc))
              | x :: xs' => match eval_internal f st x env m (d + 1) with
                            | (st', ROk v) => go st' xs' (v :: acc)
                            | (st', r) => (st', inr r)
                            end
              end) with (eval_args f env m d) in H.
    destruct (getv v); try (leaf H).
    + destruct (eval_args f env m d st1 rest []) as [st2 [args|r2]] eqn:Ea; pose proof (eval_args_keeps _ _ _ _ _ _ _ _ Ea) as K2; [|leaf H].
      destruct (pair_params _ _ _ _ _ _ _); [pose proof (IHl _ _ _ _ _ _ _ H); kt|leaf H].
    + destruct (eval_args f env m d st1 rest []) as [st2 [args|r2]] eqn:Ea; pose proof (eval_args_keeps _ _ _ _ _ _ _ _ Ea) as K2; [|leaf H].
      destruct (text_eqb name (s "eval")).
      * destruct (validate (s "eval") [TAny] args); [leaf H|]. destruct args as [|x [|? ?]]; try (leaf H).
        destruct (expand_completely f st2 x env m (d + 1)) as [st3 r3] eqn:Ex. pose proof (IHc _ _ _ _ _ _ _ Ex) as K3.
        destruct r3; try (leaf H). pose proof (IHl _ _ _ _ _ _ _ H); kt.
      * pose proof (IHn _ _ _ _ _ _ _ H); kt.
  - destruct (getv e) as [| | |k|a b| | |nb tb|] eqn:Eg; try (leaf H).
    + destruct (env_lookup env k); [leaf H|]. destruct k as [n|u]; [|leaf H]. destruct (get_global _ _ _); leaf H.
    + destruct (eval_internal f st0 a env m (d + 1)) as [st1 r1] eqn:E1. pose proof (IHe _ _ _ _ _ _ _ E1) as K1.
      destruct r1; try (leaf H).
      destruct (eval_internal f st1 b env m (d + 1)) as [st2 r2] eqn:E2. pose proof (IHe _ _ _ _ _ _ _ E2) as K2.
      destruct r2; leaf H.
    + destruct (eval_internal f st0 nb env m (d + 1)) as [st1 r1] eqn:E1. pose proof (IHe _ _ _ _ _ _ _ E1) as K1.
      destruct r1; try (leaf H). pose proof (IHe _ _ _ _ _ _ _ H); kt.
Qed.

Lemma keeps_expand st e env m d ch st' r ch' : expand_internal (S f) st e env m d ch = (st', r, ch') -> keeps st st'.
Proof.
  intros H. cbn [expand_internal] in H.
  destruct (MAXD <? d); [leaf H|].
  destruct (list_to_vec e) as [[|first rest]|] eqn:El; [leaf H| |].
  - destruct (is_sym first (s "macro")); [leaf H|].
    destruct (is_sym first (s "quote")); [leaf H|].
    destruct (expand_internal f st first env m (d + 1) ch) as [[st1 r1] ch1] eqn:E. pose proof (IHx _ _ _ _ _ _ _ _ _ E) as K1.
    destruct r1; try (leaf H).
    change (fix go (st : state) (xs acc : list val) (ch : bool) {struct xs} : state * (list val + res) * bool :=
              match xs with
              | [] => (st, inl (rev acc), ch)
              | x :: xs' => match expand_internal f st x env m (d + 1) ch with
                            | (st', ROk v, ch') => go st' xs' (v :: acc) ch'
                            | (st', r, ch') => (st', inr r, ch')
                            end
              end) with (expand_args f env m d) in H.
    destruct (expand_args f env m d st1 rest [] ch1) as [[st2 [args|r2]] ch2] eqn:Ea; pose proof (expand_args_keeps _ _ _ _ _ _ _ _ _ _ Ea) as K2; [|leaf H].
    destruct (getv v) as [| | | | |mac restp params body cenv cmod|name| |]; try (leaf H).
    + destruct mac; [|leaf H]. destruct (pair_params _ _ _ _ _ _ _) as [newenv|]; [|leaf H].
      destruct (eval_internal f st2 body newenv cmod (d + 1)) as [st3 r3] eqn:Ee. pose proof (IHe _ _ _ _ _ _ _ Ee). leaf H.
    + destruct (find_native name native_table) as [info|]; [|leaf H]. destruct (n_macro info); [|leaf H].
      destruct (call_native f st2 name args env (d + 1)) as [st3 r3] eqn:Ec. pose proof (IHn _ _ _ _ _ _ _ Ec). leaf H.
  - destruct (getv e) as [| | |k|a b| | | |] eqn:Eg; try (leaf H).
    + destruct (env_lookup env k) as [v|].
      * destruct (getv v) as [| | | | |mac ? ? ? ? ?|name| |]; try (leaf H).
        -- destruct mac; leaf H.
        -- destruct (find_native name native_table) as [info|]; [|leaf H]. destruct (n_macro info); leaf H.
      * destruct k as [n|u]; [|leaf H]. destruct (get_global _ _ _) as [v| |]; try (leaf H).
        destruct (getv v) as [| | | | |mac ? ? ? ? ?|name| |]; try (leaf H).
        -- destruct mac; leaf H.
        -- destruct (find_native name native_table) as [info|]; [|leaf H]. destruct (n_macro info); leaf H.
    + destruct (expand_internal f st a env m (d + 1) ch) as [[st1 r1] ch1] eqn:E1. pose proof (IHx _ _ _ _ _ _ _ _ _ E1) as K1.
      destruct r1; try (leaf H).
      destruct (expand_internal f st1 b env m (d + 1) ch1) as [[st2 r2] ch2] eqn:E2. pose proof (IHx _ _ _ _ _ _ _ _ _ E2) as K2.
      destruct r2; leaf H.
Qed.

Lemma keeps_completely st e env m d st' r : expand_completely (S f) st e env m d = (st', r) -> keeps st st'.
Proof.
  intros H. cbn [expand_completely] in H.
  destruct (expand_internal f st e env m (d + 1) false) as [[st1 r1] ch1] eqn:E. pose proof (IHx _ _ _ _ _ _ _ _ _ E) as K1.
  destruct r1; try (leaf H). destruct ch1; [pose proof (IHc _ _ _ _ _ _ _ H); kt|leaf H].
Qed.

Lemma keeps_internal st e env m d st' r : eval_internal (S f) st e env m d = (st', r) -> keeps st st'.
Proof. intros H. rewrite R_entry in H. destruct (MAXD <? d); [leaf H|]. eapply IHl; exact H. Qed.

Lemma keeps_set_cur st name m : find_module name (mods st) = Some m -> keeps st (set_cur st name).
Proof. intros Hm. split; [intros n H; exact H|]. intros _. unfold cur_ok. cbn [mods cur set_cur]. rewrite Hm. discriminate. Qed.

Lemma keeps_native st name args env d st' r : call_native (S f) st name args env d = (st', r) -> keeps st st'.
Proof.
  intros H. cbn [call_native] in H.
  destruct (find_native name native_table) as [info|]; [|leaf H].
  destruct (n_depth_check info && (MAXD <? d)); [leaf H|].
  destruct (match n_sig info with Some sig => validate name sig args | None => None end); [leaf H|].
  destruct (text_eqb name (s "eval")).
  { destruct args as [|x [|? ?]]; try (leaf H).
    destruct (expand_completely f st x env (cur st) (d + 1)) as [st1 r1] eqn:Ex. pose proof (IHc _ _ _ _ _ _ _ Ex) as K1.
    destruct r1; try (leaf H). pose proof (IHe _ _ _ _ _ _ _ H); kt. }
  destruct (text_eqb name (s "macroexpand")).
  { destruct args as [|x [|? ?]]; try (leaf H). eapply IHc; exact H. }
  destruct (text_eqb name (s "call-native-function")).
  { destruct args as [|fn [|arguments [|environment [|? ?]]]]; try (leaf H).
    destruct (getv fn); try (leaf H); destruct (list_to_vec arguments); try (leaf H). eapply IHn; exact H. }
  destruct (text_eqb name (s "load-all")).
  { destruct args as [|input [|source [|? ?]]]; try (leaf H).
    set (st0 := match list_to_string source with Some nm => define_module st nm | None => st end) in *.
    assert (K0 : keeps st st0) by (subst st0; destruct (list_to_string source); [apply keeps_define_module|apply keeps_refl]).
    destruct (load_loop f st0 input source 1 1 d) as [st1 r1] eqn:El. pose proof (IHld _ _ _ _ _ _ _ _ El) as K1.
    unfold set_current_module in H. destruct (find_module (cur st) (mods st1)) as [mm|] eqn:Ef; [|leaf H].
    pose proof (keeps_set_cur st1 (cur st) mm Ef). leaf H. }
  destruct (simple_native st name args d) as [[st1 r1]|] eqn:Es; [|leaf H].
  pose proof (simple_native_keeps _ _ _ _ _ _ Es). leaf H.
Qed.

Lemma keeps_load st cursor source line col d st' r : load_loop (S f) st cursor source line col d = (st', r) -> keeps st st'.
Proof.
  intros H. cbn [load_loop] in H.
  destruct (is_nil cursor); [leaf H|].
  destruct (call_native f st (s "read") [cursor; source; VNum line; VNum col] VNil (d + 1)) as [st1 r1] eqn:Er. pose proof (IHn _ _ _ _ _ _ _ Er) as K1.
  destruct r1 as [output| | | |]; try (leaf H).
  destruct (property "status" output) as [status|]; [|leaf H]. destruct (property "result" output) as [result|]; [|leaf H].
  destruct (property "rest" output) as [rest|]; [|leaf H]. destruct (property "error" output) as [rerror|]; [|leaf H].
  destruct (property "line" output) as [l|]; [|leaf H]. destruct (property "column" output) as [c|]; [|leaf H].
  assert (Hcont : forall st2 st3 r3, match getv l, getv c with
              | VNum lz, VNum cz => load_loop f st2 rest source lz cz d
              | _, _ => if is_nil rest then load_loop f st2 rest source 1 1 d
                        else (st2, RSig (make_error "wrong-argument-type" (s "read")
                                          [("argument-value", l); ("expected", vsym "number-type"); ("actual", vsym (tlabel_name (extended_get_type l)))]))
              end = (st3, r3) -> keeps st2 st3).
  { intros st2 st3 r3 Hc. destruct (getv l); destruct (getv c); try (destruct (is_nil rest); [eapply IHld; exact Hc|injection Hc as <- _; apply keeps_refl]). eapply IHld; exact Hc. }
  destruct (is_sym status (s "ok")).
  { destruct (call_native f st1 (s "eval") [result] VNil (d + 1)) as [st2 r2] eqn:Ee. pose proof (IHn _ _ _ _ _ _ _ Ee) as K2.
    destruct r2; try (leaf H). pose proof (Hcont _ _ _ H). kt. }
  destruct (is_sym status (s "incomplete")); [leaf H|].
  destruct (is_sym status (s "error")); [leaf H|].
  destruct (is_sym status (s "invalid")); [leaf H|].
  pose proof (Hcont _ _ _ H). kt.
Qed.
End Step.

(* every expression, environment, module, depth, state and amount of fuel *)
Theorem modules_persist : forall fuel,
  (forall st e env m d st' r, eval_internal fuel st e env m d = (st', r) -> keeps st st') /\
  (forall st e env m d st' r, eval_loop fuel st e env m d = (st', r) -> keeps st st') /\
  (forall st e env m d ch st' r ch', expand_internal fuel st e env m d ch = (st', r, ch') -> keeps st st') /\
  (forall st e env m d st' r, expand_completely fuel st e env m d = (st', r) -> keeps st st') /\
  (forall st name args env d st' r, call_native fuel st name args env d = (st', r) -> keeps st st') /\
  (forall st cursor source line col d st' r, load_loop fuel st cursor source line col d = (st', r) -> keeps st st').
Proof.
  induction fuel as [|f (IHe & IHl & IHx & IHc & IHn & IHld)].
  - split; [|split; [|split; [|split; [|split]]]]; intros; match goal with H : _ = _ |- _ => cbn in H; injection H; intros; subst; apply keeps_refl end.
  - split; [|split; [|split; [|split; [|split]]]].
    + intros st e env m d st' r. apply (keeps_internal f IHl).
    + intros st e env m d st' r. apply (keeps_loop f IHe IHl IHc IHn).
    + intros st e env m d ch st' r ch'. apply (keeps_expand f IHe IHx IHn).
    + intros st e env m d st' r. apply (keeps_completely f IHx IHc).
    + intros st name args env d st' r. apply (keeps_native f IHe IHc IHn IHld).
    + intros st cursor source line col d st' r. apply (keeps_load f IHn IHld).
Qed.


(* the same, one function at a time *)
Lemma persist_e f st e env m d st' r : eval_internal f st e env m d = (st', r) -> keeps st st'.
Proof. apply (modules_persist f). Qed.
Lemma persist_l f st e env m d st' r : eval_loop f st e env m d = (st', r) -> keeps st st'.
Proof. apply (modules_persist f). Qed.
Lemma persist_x f st e env m d ch st' r ch' : expand_internal f st e env m d ch = (st', r, ch') -> keeps st st'.
Proof. apply (modules_persist f). Qed.
Lemma persist_c f st e env m d st' r : expand_completely f st e env m d = (st', r) -> keeps st st'.
Proof. apply (modules_persist f). Qed.
Lemma persist_n f st name args env d st' r : call_native f st name args env d = (st', r) -> keeps st st'.
Proof. apply (modules_persist f). Qed.
Lemma persist_ld f st cursor source line col d st' r : load_loop f st cursor source line col d = (st', r) -> keeps st st'.
Proof. apply (modules_persist f). Qed.
Lemma persist_args f env m d xs st acc st' r : eval_args f env m d st xs acc = (st', r) -> keeps st st'.
Proof. apply (eval_args_keeps f (persist_e f)). Qed.
Lemma persist_xargs f env m d xs st acc ch st' r ch' : expand_args f env m d st xs acc ch = (st', r, ch') -> keeps st st'.
Proof. apply (expand_args_keeps f (persist_x f)). Qed.

