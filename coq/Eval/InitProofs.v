(* C16: init, as loaded from the generated prelude text: all elements except the last, for EVERY list
   (any length: it is written with reverse, so it costs no recursion depth per element). *)
From PL Require Import Eval.PreludeState Eval.EvalRules Eval.SemProofs Eval.PreludeProofs Eval.CatchProofs Eval.LengthProofs Eval.FoldProofs Eval.ZipProofs.
From Coq Require Import String Lia ZArith.
Local Open Scope string_scope.
Local Open Scope list_scope.
Local Open Scope N_scope.

Definition init_val : val := match prelude_global (s "init") with Some v => v | None => VNil end.
Definition init_parts := match getv init_val with VFun _ _ ps b e em => (ps, b, e, em) | _ => ([], VNil, VNil, []) end.
Definition in_body : val := let '(_, b, _, _) := init_parts in b.
Definition in_env (things : val) : val :=
  let '(ps, _, e, _) := init_parts in
  match pair_params (s "#<function>") ps false [things] e 0 1 with inl env => env | inr _ => VNil end.
Definition in_if : val := match forms_of in_body with x :: _ => x | _ => VNil end.
Definition in_c : val := match forms_of in_body with _ :: x :: _ => x | _ => VNil end.
Definition in_call : val := match forms_of in_body with _ :: _ :: x :: _ => x | _ => VNil end.   (* (reverse (cdr (reverse things))) *)
Definition in_else : val := match forms_of in_body with _ :: _ :: _ :: x :: _ => x | _ => VNil end. (* nil *)
Definition in_cdr : val := match forms_of in_call with _ :: x :: _ => x | _ => VNil end.         (* (cdr (reverse things)) *)
Definition in_rev : val := match forms_of in_cdr with _ :: x :: _ => x | _ => VNil end.          (* (reverse things) *)

Example init_is_a_closure : exists ps b e, getv init_val = VFun false false ps b e pm.
Proof. vm_compute. eexists; eexists; eexists; reflexivity. Qed.

(* (reverse things) as an operand: a closure call that is not in tail position *)
Lemma ev_in_rev tl xs d : is_nil tl = true -> d + 5 <= MAXD ->
  evals_to (2 * List.length xs + 19) in_rev (in_env (onto xs tl)) (d + 1 + 1) (fold_left (fun a x => VCons x a) xs nil_value).
Proof.
  intros Htl Hd st0 g0 Hg.
  replace (2 * List.length xs + 19 + g0)%nat with (S (S (4 + (2 * List.length xs + 13 + g0)))) by lia.
  rewrite R_entry, (dok (d + 1 + 1) 1 ltac:(lia)).
  destruct (loop_closure 4 (2 * List.length xs + 13 + g0) st0 in_rev (in_env (onto xs tl)) (d + 1 + 1) (match forms_of in_rev with z :: _ => z | _ => VNil end)
              (match forms_of in_rev with _ :: l => l | _ => [] end) [onto xs tl] reverse_val false false
              (let '(ps, _, _, _) := reverse_parts in ps) rv_body (let '(_, _, e, _) := reverse_parts in e) pm
              (rv_env (onto xs tl)) Hg eq_refl eq_refl) as (st1 & Hg1 & Hcall).
  - apply (evals_to_mono 2 4); [lia|]. apply (ev_global _ (s "reverse")); [lia|reflexivity|reflexivity|reflexivity|reflexivity].
  - reflexivity.
  - constructor; [apply (evals_to_mono 2 4); [lia|]; arg_local|constructor].
  - reflexivity.
  - destruct (reverse_runs xs tl (4 + g0)%nat st1 (d + 1 + 1) Htl Hg1 ltac:(lia)) as (st2 & r & Hrun & Hg2 & Hr).
    exists st2. split; [|exact Hg2]. rewrite Hcall. subst r.
    replace (4 + (2 * List.length xs + 13 + g0))%nat with (2 * List.length xs + 13 + (4 + g0))%nat by lia. exact Hrun.
Qed.

Lemma rev_tl_rev {A} (L : list A) : rev (tl (rev L)) = removelast L.
Proof.
  destruct (rev L) as [|a l'] eqn:E.
  - assert (L = []) by (apply (f_equal (@rev A)) in E; rewrite rev_involutive in E; exact E). subst. reflexivity.
  - assert (HL : L = rev l' ++ [a]) by (apply (f_equal (@rev A)) in E; rewrite rev_involutive in E; exact E).
    cbn [tl]. rewrite HL. rewrite removelast_last. reflexivity.
Qed.

(* init of a non-empty list *)
Theorem init_runs tl xs x st d : is_nil tl = true -> has_prelude st -> d + 5 <= MAXD ->
  exists fuel st' r, eval_loop fuel st in_body (in_env (onto (x :: xs) tl)) pm d = (st', ROk r) /\ has_prelude st' /\
                     strip r = strip (vec_to_list (removelast (x :: xs))).
Proof.
  intros Htl Hg Hd. set (L := x :: xs). set (LV := onto L tl).
  set (M := fold_left (fun a z => VCons z a) L nil_value).
  assert (HM : M = onto (rev L) nil_value) by apply fold_cons_onto.
  destruct (rev L) as [|y l] eqn:Erev.
  { exfalso. apply (f_equal (@List.length val)) in Erev. rewrite rev_length in Erev. discriminate. }
  set (KK := (2 * List.length L + 23)%nat).
  (* the test: things is not nil *)
  destruct (loop_if 2 (KK + 2 * List.length l + 12) st in_body (in_env LV) d in_if in_c in_call in_else LV Hg eq_refl eq_refl eq_refl eq_refl)
    as (st1 & Hg1 & Hif); [arg_local|].
  (* the operand (cdr (reverse things)) *)
  assert (Hcdr : evals_to KK in_cdr (in_env LV) (d + 1) (onto l nil_value)).
  { intros st0 g0 Hg0.
    destruct (ev_native_call (2 * List.length L + 19) in_cdr (match forms_of in_cdr with z :: _ => z | [] => VNil end)
                (match forms_of in_cdr with _ :: r => r | [] => [] end) [M] (s "cdr") cdr_native (in_env LV) (d + 1)
                ltac:(lia) ltac:(lia) eq_refl eq_refl) with (st0 := st0) (g := (2 + g0)%nat) as (st2 & Hg2 & He); try exact Hg0.
    - apply (evals_to_mono 2 (2 * List.length L + 19)); [lia|]. apply (ev_global _ (s "cdr")); [lia|reflexivity|reflexivity|reflexivity|reflexivity].
    - reflexivity.
    - reflexivity.
    - constructor; [apply ev_in_rev; [exact Htl|exact Hd]|constructor].
    - exists st2. split; [|exact Hg2].
      replace (KK + g0)%nat with (S (S (2 * List.length L + 19)) + (2 + g0))%nat by (unfold KK; lia).
      etransitivity; [exact He|]. rewrite HM. cbn [onto].
      destruct (2 * List.length L + 19 + (2 + g0))%nat eqn:E; [lia|]. reflexivity. }
  (* the tail call (reverse ...) *)
  destruct (loop_closure KK (2 * List.length l + 13) st1 in_call (in_env LV) d (match forms_of in_call with z :: _ => z | _ => VNil end)
              [in_cdr] [onto l nil_value] reverse_val false false
              (let '(ps, _, _, _) := reverse_parts in ps) rv_body (let '(_, _, e, _) := reverse_parts in e) pm
              (rv_env (onto l nil_value)) Hg1 eq_refl eq_refl) as (st2 & Hg2 & Hcall).
  - apply (evals_to_mono 2 KK); [unfold KK; lia|]. apply (ev_global _ (s "reverse")); [lia|reflexivity|reflexivity|reflexivity|reflexivity].
  - reflexivity.
  - constructor; [exact Hcdr|constructor].
  - reflexivity.
  - assert (Hnil : is_nil nil_value = true) by reflexivity.
    destruct (reverse_runs l nil_value KK st2 d Hnil Hg2 ltac:(lia)) as (st3 & r & Hrun & Hg3 & Hr).
    exists (S (2 + (KK + 2 * List.length l + 12))), st3, r. split; [|split; [exact Hg3|]].
    + rewrite Hif. assert (Hnn : is_nil LV = false) by reflexivity. rewrite Hnn.
      replace (2 + (KK + 2 * List.length l + 12))%nat with (S (KK + (2 * List.length l + 13)))%nat by lia. rewrite Hcall.
      replace (KK + (2 * List.length l + 13))%nat with (2 * List.length l + 13 + KK)%nat by lia. exact Hrun.
    + rewrite Hr, strip_fold_cons. f_equal. f_equal.
      replace l with (List.tl (rev L)) by (rewrite Erev; reflexivity). apply rev_tl_rev.
Qed.

Definition init_statement (xs : list val) (x tl : val) : Prop :=
  exists restp params body cenv cmod,
    option_map getv (prelude_global (s "init")) = Some (VFun false restp params body cenv cmod) /\
    exists newenv, pair_params (s "#<function>") params restp [onto (x :: xs) tl] cenv 0 1 = inl newenv /\
    forall st d, has_prelude st -> d + 5 <= MAXD ->
    exists fuel st' r, eval_loop fuel st body newenv cmod d = (st', ROk r) /\ has_prelude st' /\
                       strip r = strip (vec_to_list (removelast (x :: xs))).

Theorem init_spec xs x tl : is_nil tl = true -> init_statement xs x tl.
Proof.
  intros Htl. eexists; eexists; eexists; eexists; eexists; split; [vm_compute; reflexivity|].
  eexists; split; [reflexivity|].
  intros st d Hg Hd. exact (init_runs tl xs x st d Htl Hg Hd).
Qed.
