(* C16: the macro case for EVERY number of clauses: (case (c1 v1) .. (cn vn)) expands to
   (if c1 v1 (if c2 v2 .. (if cn vn nil))) - each condition and each value form exactly once, in order.
   case folds its clauses from the right with a function that takes each clause apart (car, car of cdr),
   which fails on a clause that is not a list of two: foldl and foldr are restated with a guard on the
   elements and with the depth the step needs as a parameter. *)
From PL Require Import Eval.PreludeState Eval.EvalRules Eval.SemProofs Eval.PreludeProofs Eval.CatchProofs Eval.LengthProofs Eval.FoldProofs Eval.ZipProofs Eval.FoldrProofs Eval.MacroProofs2 Eval.SumProofs Eval.MinusProofs Eval.ConcatProofs Eval.UnzipProofs.
From Coq Require Import String Lia ZArith.
Local Open Scope string_scope.
Local Open Scope list_scope.
Local Open Scope N_scope.

(* ---- foldl with a guard on the elements and [sl] levels of depth for the step ---- *)
Section GuardedFoldSlack.
Variables (fv : val) (step : val -> val -> val) (okx : val -> Prop) (K : nat) (sl : N).
Hypothesis HK : (4 <= K)%nat.
Hypothesis Hsl : 3 <= sl.
Hypothesis Hstep : forall acc x r d, okx x -> d + sl <= MAXD -> evals_to K fl_step (fl_env fv acc (VCons x r)) (d + 1) (step acc x).

Lemma foldl_runs_slack tl : is_nil tl = true -> forall xs acc g st d, Forall okx xs -> has_prelude st -> d + sl <= MAXD ->
  exists st', eval_loop (2 * List.length xs + K + 4 + g) st fl_body (fl_env fv acc (onto xs tl)) pm d
              = (st', ROk (fold_left step xs acc)) /\ has_prelude st'.
Proof.
  intros Htl. induction xs as [|x xs IH]; intros acc g st d Hok Hg Hd.
  - cbn [onto].
    destruct (loop_if 2 (K + 1 + g) st fl_body (fl_env fv acc tl) d fl_if_head fl_cond fl_call fl_else tl Hg eq_refl eq_refl eq_refl eq_refl)
      as (st1 & Hg1 & Hif); [arg_local|].
    destruct (loop_local (K + 2 + g) st1 fl_else (Named (s "init")) acc (fl_env fv acc tl) d Hg1 eq_refl eq_refl eq_refl) as (st2 & He & Hg2).
    exists st2. split; [|exact Hg2].
    replace (2 * List.length (@nil val) + K + 4 + g)%nat with (S (2 + (K + 1 + g))) by (cbn [List.length]; lia). rewrite Hif. rewrite Htl.
    replace (2 + (K + 1 + g))%nat with (S (K + 2 + g)) by lia. exact He.
  - cbn [onto]. set (L := VCons x (onto xs tl)). inversion Hok as [|? ? Hokx Hoks]; subst.
    destruct (loop_if 2 (2 * List.length xs + K + 3 + g) st fl_body (fl_env fv acc L) d fl_if_head fl_cond fl_call fl_else L Hg eq_refl eq_refl eq_refl eq_refl)
      as (st1 & Hg1 & Hif); [arg_local|].
    destruct (loop_closure K (2 * List.length xs + 4 + g) st1 fl_call (fl_env fv acc L) d (match forms_of fl_call with y :: _ => y | _ => VNil end)
                [fl_f; fl_step; fl_cdr] [fv; step acc x; onto xs tl] foldl_val false false
                (let '(ps, _, _, _) := foldl_parts in ps) fl_body (let '(_, _, e, _) := foldl_parts in e) pm
                (fl_env fv (step acc x) (onto xs tl)) Hg1 eq_refl eq_refl) as (st2 & Hg2 & Hcall).
    + apply (evals_to_mono 2 K); [lia|]. apply (ev_global _ (s "foldl")); [lia|reflexivity|reflexivity|reflexivity|reflexivity].
    + reflexivity.
    + constructor; [apply (evals_to_mono 2 K); [lia|]; arg_local|].
      constructor; [apply Hstep; [exact Hokx|lia]|]. constructor; [apply (evals_to_mono 4 K); [lia|]; apply ev_fl_cdr; lia|constructor].
    + reflexivity.
    + destruct (IH (step acc x) g st2 d Hoks Hg2 Hd) as (st3 & Hrec & Hg3).
      exists st3. split; [|exact Hg3].
      replace (2 * List.length (x :: xs) + K + 4 + g)%nat with (S (2 + (2 * List.length xs + K + 3 + g))) by (cbn [List.length]; lia).
      rewrite Hif. cbn [is_nil getv L].
      replace (2 + (2 * List.length xs + K + 3 + g))%nat with (S (K + (2 * List.length xs + 4 + g))) by lia.
      rewrite Hcall.
      replace (K + (2 * List.length xs + 4 + g))%nat with (2 * List.length xs + K + 4 + g)%nat by lia.
      exact Hrec.
Qed.
End GuardedFoldSlack.

Lemma ev_fr_rev_g (fv0 iv0 tv0 : val) tl xs d : tv0 = onto xs tl -> is_nil tl = true -> d + 5 <= MAXD ->
  evals_to (2 * List.length xs + 19) fr_rev (fr_env fv0 iv0 tv0) (d + 1) (fold_left (fun a x => VCons x a) xs nil_value).
Proof.
  intros Htv Htl Hd st0 g0 Hg. subst tv0.
  replace (2 * List.length xs + 19 + g0)%nat with (S (S (4 + (2 * List.length xs + 13 + g0)))) by lia.
  rewrite R_entry, (dok (d + 1) 1 ltac:(lia)).
  destruct (loop_closure 4 (2 * List.length xs + 13 + g0) st0 fr_rev (fr_env fv0 iv0 (onto xs tl)) (d + 1) (match forms_of fr_rev with z :: _ => z | _ => VNil end)
              (match forms_of fr_rev with _ :: l => l | _ => [] end) [onto xs tl] reverse_val false false
              (let '(ps, _, _, _) := reverse_parts in ps) rv_body (let '(_, _, e, _) := reverse_parts in e) pm
              (rv_env (onto xs tl)) Hg eq_refl eq_refl) as (st1 & Hg1 & Hcall).
  - apply (evals_to_mono 2 4); [lia|]. apply (ev_global _ (s "reverse")); [lia|reflexivity|reflexivity|reflexivity|reflexivity].
  - reflexivity.
  - constructor; [apply (evals_to_mono 2 4); [lia|]; arg_local|constructor].
  - reflexivity.
  - destruct (reverse_runs xs tl (4 + g0)%nat st1 (d + 1) Htl Hg1 ltac:(lia)) as (st2 & r & Hrun & Hg2 & Hr).
    exists st2. split; [|exact Hg2]. rewrite Hcall. subst r.
    replace (4 + (2 * List.length xs + 13 + g0))%nat with (2 * List.length xs + 13 + (4 + g0))%nat by lia. exact Hrun.
Qed.

(* ---- foldr with a guard on the elements ---- *)
Section GuardedFoldr.
Variables (fv iv tv : val) (g : val -> val -> val) (okx : val -> Prop) (K : nat) (sl : N).
Hypothesis HK : (2 <= K)%nat.
Hypothesis Hsl : 3 <= sl.
Hypothesis Happ : forall acc x d, okx x -> d + sl <= MAXD -> forall st0 g0, has_prelude st0 ->
  exists st1, eval_loop (K + g0) st0 (fr_app fv iv tv) (fr_app_env fv iv tv acc x) pm (d + 1) = (st1, ROk (g x acc)) /\ has_prelude st1.

Lemma foldr_step_g acc x r d : okx x -> d + sl <= MAXD ->
  evals_to (K + 6) fl_step (fl_env (fr_closure fv iv tv) acc (VCons x r)) (d + 1) (g x acc).
Proof.
  intros Hx Hd st0 g0 Hg.
  set (E := fl_env (fr_closure fv iv tv) acc (VCons x r)).
  set (car_form := match forms_of fl_step with _ :: _ :: y :: _ => y | _ => VNil end).
  assert (Hcar : evals_to 4 car_form E (d + 1 + 1) x).
  { intros st1 g1 Hg1.
    destruct (ev_native_call 2 car_form (match forms_of car_form with y :: _ => y | [] => VNil end)
                (match forms_of car_form with _ :: l => l | [] => [] end) [VCons x r] (s "car") car_native_v E (d + 1 + 1)
                ltac:(lia) ltac:(lia) eq_refl eq_refl) with (st0 := st1) (g := g1) as (st2 & Hg2 & He); try exact Hg1.
    - apply (ev_global _ (s "car")); [lia|reflexivity|reflexivity|reflexivity|reflexivity].
    - reflexivity.
    - reflexivity.
    - repeat constructor. arg_local.
    - exists st2. split; [|exact Hg2]. etransitivity; [exact He|]. reflexivity. }
  replace (K + 6 + g0)%nat with (S (S (4 + (K + g0)))) by lia. rewrite R_entry, (dok (d + 1) 1 ltac:(lia)).
  destruct (loop_closure 4 (K + g0) st0 fl_step E (d + 1) (match forms_of fl_step with y :: _ => y | _ => VNil end)
              (match forms_of fl_step with _ :: l => l | _ => [] end) [acc; x] (fr_closure fv iv tv) false false
              (match fr_closure fv iv tv with VFun _ _ ps _ _ _ => ps | _ => [] end) (fr_app fv iv tv) (fr_env fv iv tv) pm
              (fr_app_env fv iv tv acc x) Hg eq_refl eq_refl) as (st1 & Hg1 & Hcall).
  - apply (evals_to_mono 2 4); [lia|]. arg_local.
  - reflexivity.
  - constructor; [apply (evals_to_mono 2 4); [lia|]; arg_local|]. constructor; [exact Hcar|constructor].
  - reflexivity.
  - destruct (Happ acc x d Hx Hd st1 (4 + g0)%nat Hg1) as (st2 & Hrun & Hg2).
    exists st2. split; [|exact Hg2]. rewrite Hcall. replace (4 + (K + g0))%nat with (K + (4 + g0))%nat by lia. exact Hrun.
Qed.

Definition fr_fuel (n : nat) : nat := S ((2 * n + K + 19) + (2 * n + 10)).

Theorem foldr_runs_g tl xs st d : tv = onto xs tl -> is_nil tl = true -> Forall okx xs -> has_prelude st -> d + sl + 2 <= MAXD ->
  exists st', eval_loop (fr_fuel (List.length xs)) st fr_body (fr_env fv iv tv) pm d = (st', ROk (fold_right g iv xs)) /\ has_prelude st'.
Proof.
  intros Htv Htl Hok Hg Hd.
  set (M := fold_left (fun a x => VCons x a) xs nil_value).
  set (KK := (2 * List.length xs + K + 19)%nat).
  destruct (loop_closure KK (2 * List.length xs + 10) st fr_body (fr_env fv iv tv) d (match forms_of fr_body with z :: _ => z | _ => VNil end)
              [fr_lambda; fr_init; fr_rev] [fr_closure fv iv tv; iv; M] foldl_val false false
              (let '(ps, _, _, _) := foldl_parts in ps) fl_body (let '(_, _, e, _) := foldl_parts in e) pm
              (fl_env (fr_closure fv iv tv) iv M) Hg eq_refl eq_refl) as (st1 & Hg1 & Hcall).
  - apply (evals_to_mono 2 KK); [unfold KK; lia|]. apply (ev_global _ (s "foldl")); [lia|reflexivity|reflexivity|reflexivity|reflexivity].
  - reflexivity.
  - constructor; [apply (evals_to_mono 2 KK); [unfold KK; lia|]; eapply ev_lambda; [lia|reflexivity|reflexivity|reflexivity]|].
    constructor; [apply (evals_to_mono 2 KK); [unfold KK; lia|]; arg_local|].
    constructor; [apply (evals_to_mono (2 * List.length xs + 19) KK); [unfold KK; lia|]; apply (ev_fr_rev_g fv iv tv tl); [assumption|assumption|lia]|constructor].
  - reflexivity.
  - unfold M in *. rewrite fold_cons_onto in *.
    assert (Hnil : is_nil nil_value = true) by reflexivity.
    assert (Hokr : Forall okx (rev xs)) by (apply Forall_rev; exact Hok).
    destruct (foldl_runs_slack (fr_closure fv iv tv) (fun acc x => g x acc) okx (K + 6) sl ltac:(lia) Hsl foldr_step_g nil_value Hnil (rev xs) iv
                (KK - K)%nat st1 d Hokr Hg1 ltac:(lia)) as (st2 & Hrun & Hg2).
    exists st2. split; [|exact Hg2].
    unfold fr_fuel. fold KK. rewrite Hcall.
    replace (KK + (2 * List.length xs + 10))%nat with (2 * List.length (rev xs) + (K + 6) + 4 + (KK - K))%nat by (rewrite rev_length; unfold KK; lia).
    rewrite Hrun. f_equal. f_equal. rewrite <- fold_left_rev_right. rewrite rev_involutive. reflexivity.
Qed.
End GuardedFoldr.

(* ---- case ---- *)
Definition cs_val : val := match prelude_global (s "case") with Some v => v | None => VNil end.
Definition cs_parts := match getv cs_val with VFun _ _ ps b e em => (ps, b, e, em) | _ => ([], VNil, VNil, []) end.
Definition cs_body : val := let '(_, b, _, _) := cs_parts in b.        (* (foldr (lambda (c acc) ...) nil cases) *)
Definition cs_env (cases : val) : val :=
  let '(ps, _, e, _) := cs_parts in
  match pair_params (s "#<function>") ps false [cases] e 0 1 with inl env => env | inr _ => VNil end.
Definition cs_lam : val := nth_form 1 cs_body.
Definition cs_CL (cases : val) : val := closure_of cs_lam (cs_env cases).
Definition cs_inner : val := nth_form 2 cs_lam.                         (* ((lambda (condition value) (list 'if ...)) (car c) (car (cdr c))) *)
Definition cs_lam2 : val := nth_form 0 cs_inner.
Definition cs_listf : val := nth_form 2 cs_lam2.                        (* (list 'if condition value acc) *)
Definition cs_if : val := nth_form 1 (nth_form 1 cs_listf).             (* the symbol if, as written in the prelude *)

Example case_is_a_rest_macro : exists ps b e, getv cs_val = VFun true true ps b e pm /\ List.length ps = 1%nat.
Proof. vm_compute. eexists; eexists; eexists; split; reflexivity. Qed.

Lemma case_call_env src vals i n : (let '(ps, _, e, _) := cs_parts in pair_params src ps true vals e i n) = inl (cs_env (vec_to_list vals)).
Proof.
  assert (H : exists p e, cs_parts = ([p], cs_body, e, pm)) by (vm_compute; eexists; eexists; reflexivity).
  destruct H as (p & e & H). unfold cs_env. rewrite H. rewrite pair_rest. reflexivity.
Qed.

(* a clause is a list that starts with a condition form and a value form *)
Definition clause (x : val) : Prop := exists c v r, x = VCons c (VCons v r).
Definition cond_of (x : val) : val := match x with VCons c _ => c | _ => VNil end.
Definition value_of (x : val) : val := match x with VCons _ (VCons v _) => v | _ => VNil end.
Definition case_step (x acc : val) : val := vec_to_list [cs_if; cond_of x; value_of x; acc].

Lemma case_app cases iv tv acc x d : clause x -> d + 4 <= MAXD -> forall st0 g0, has_prelude st0 ->
  exists st1, eval_loop (8 + g0) st0 (fr_app (cs_CL cases) iv tv) (fr_app_env (cs_CL cases) iv tv acc x) pm (d + 1) = (st1, ROk (case_step x acc)) /\ has_prelude st1.
Proof.
  intros (c & v & r & ->) Hd st0 g0 Hg.
  set (x := VCons c (VCons v r)).
  set (CL := cs_CL cases). set (Ea := fr_app_env CL iv tv acc x).
  set (E1 := match pair_params (s "#<function>") (fparams CL) false [x; acc] (cs_env cases) 0 2 with inl e => e | inr _ => VNil end).
  destruct (loop_closure 2 (5 + g0) st0 (fr_app CL iv tv) Ea (d + 1) (nth_form 0 (fr_app CL iv tv))
              (match forms_of (fr_app CL iv tv) with _ :: l => l | _ => [] end) [x; acc] CL false false
              (fparams CL) cs_inner (cs_env cases) pm E1 Hg eq_refl eq_refl) as (st1 & Hg1 & Hcall1).
  - arg_local.
  - reflexivity.
  - constructor; [arg_local|]. constructor; [arg_local|constructor].
  - reflexivity.
  - set (C2 := closure_of cs_lam2 E1).
    set (E2 := match pair_params (s "#<function>") (fparams C2) false [c; v] E1 0 2 with inl e => e | inr _ => VNil end).
    destruct (loop_closure 6 g0 st1 cs_inner E1 (d + 1) cs_lam2 [nth_form 1 cs_inner; nth_form 2 cs_inner] [c; v] C2 false false
                (fparams C2) cs_listf E1 pm E2 Hg1 eq_refl eq_refl) as (st2 & Hg2 & Hcall2).
    + apply (evals_to_mono 2 6); [lia|]. eapply ev_lambda; [lia|reflexivity|reflexivity|reflexivity].
    + reflexivity.
    + constructor; [apply (evals_to_mono 4 6); [lia|]; prim 2%nat (nth_form 1 cs_inner) "car" car_native_v [x] ltac:(repeat constructor; arg_local)|].
      constructor; [prim 4%nat (nth_form 2 cs_inner) "car" car_native_v [VCons v r]
                      ltac:(constructor; [prim 2%nat (nth_form 1 (nth_form 2 cs_inner)) "cdr" cdr_native [x] ltac:(repeat constructor; arg_local)|constructor])|constructor].
    + reflexivity.
    + destruct (loop_native_call 2 (3 + g0) st2 cs_listf E2 (d + 1) (nth_form 0 cs_listf) (match forms_of cs_listf with _ :: l => l | _ => [] end)
                  [cs_if; c; v; acc] (s "list") list_native Hg2 ltac:(lia) eq_refl eq_refl) as (st3 & Hg3 & Hnat).
      * apply (ev_global _ (s "list")); [lia|reflexivity|reflexivity|reflexivity|reflexivity].
      * reflexivity.
      * reflexivity.
      * constructor; [arg_quote|]. constructor; [arg_local|]. constructor; [arg_local|]. constructor; [arg_local|constructor].
      * exists st3. split; [|exact Hg3].
        change (8 + g0)%nat with (S (2 + (5 + g0))). rewrite Hcall1.
        change (2 + (5 + g0))%nat with (S (6 + g0)). rewrite Hcall2.
        change (6 + g0)%nat with (S (2 + (3 + g0))). rewrite Hnat. reflexivity.
Qed.

(* the expansion: nested conditionals, the last alternative nil *)
Fixpoint nested_ifs (cls : list val) : val :=
  match cls with [] => nil_value | x :: r => vec_to_list [cs_if; cond_of x; value_of x; nested_ifs r] end.

Theorem case_expansion cls : Forall clause cls -> macro_expands_within 6 (s "case") cls (nested_ifs cls).
Proof.
  intros Hcl. unfold macro_expands_within.
  eexists; eexists; eexists; eexists; eexists; split; [vm_compute; reflexivity|].
  eexists; split; [apply pair_rest|].
  intros st d Hg Hd.
  match goal with |- exists fuel st' r, eval_internal fuel st ?b ?env ?m d = _ /\ _ /\ _ => change b with cs_body; change env with (cs_env (vec_to_list cls)); change m with pm end.
  set (cases := vec_to_list cls). set (E := cs_env cases). set (CL := cs_CL cases).
  set (F := fr_fuel 8 (List.length cls)).
  assert (HF2 : (2 <= F)%nat) by (unfold F, fr_fuel; lia).
  (* the macro body (foldr (lambda ...) nil cases) is a tail call of foldr *)
  destruct (loop_closure 2 (F - 2) st cs_body E d (nth_form 0 cs_body) [cs_lam; nth_form 2 cs_body; nth_form 3 cs_body] [CL; nil_value; cases] foldr_val false false
              (let '(ps, _, _, _) := foldr_parts in ps) fr_body (let '(_, _, e, _) := foldr_parts in e) pm (fr_env CL nil_value cases) Hg eq_refl eq_refl)
    as (st1 & Hg1 & Hcall).
  - apply (ev_global _ (s "foldr")); [lia|reflexivity|reflexivity|reflexivity|reflexivity].
  - reflexivity.
  - constructor; [eapply ev_lambda; [lia|reflexivity|reflexivity|reflexivity]|]. constructor; [arg_global|]. constructor; [arg_local|constructor].
  - reflexivity.
  - destruct (foldr_runs_g CL nil_value cases case_step clause 8 4 ltac:(lia) ltac:(lia) (case_app cases nil_value cases) VNil cls) with (st := st1) (d := d)
      as (st2 & Hrun & Hg2); [symmetry; apply onto_nil|reflexivity|exact Hcl|exact Hg1|lia|].
    exists (S (S (2 + (F - 2)))), st2, (fold_right case_step nil_value cls). split; [|split; [exact Hg2|]].
    + rewrite R_entry, (dok d 1 ltac:(lia)). rewrite Hcall. replace (2 + (F - 2))%nat with F by lia. exact Hrun.
    + clear. induction cls as [|x r IH]; [reflexivity|]. cbn [fold_right nested_ifs case_step vec_to_list strip]. rewrite IH. reflexivity.
Qed.
