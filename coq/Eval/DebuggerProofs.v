(* C20: the stepping evaluator of debugger.lisp (loaded from its generated text) against the
   evaluator, on an enumerated family of programs, decided by kernel computation. *)
From PL Require Import Eval.PreludeState.
From Coq Require Import String.
Local Open Scope string_scope.
Local Open Scope list_scope.
Local Open Scope N_scope.

Definition L (l : list val) : val := vec_to_list l.
Definition sy (x : string) : val := vsym x.
Definition q (v : val) : val := L [sy "quote"; v].

(* leaves and constructors of the enumerated fragment: literals, quote, variables (bound and
   global), if, lambda application (fixed and rest parameters), primitives, trap/eval, a macro *)
Definition leaves : list val := [VNum 1; VNum 2; q (sy "a"); VNil; sy "x"; sy "t"; q (L [VNum 1; VNum 2])].

Definition grow_forms (sub : list val) : list val :=
  flat_map (fun a => [L [sy "car"; L [sy "list"; a]]; L [sy "not"; a]; L [L [sy "lambda"; L [sy "x"]; sy "x"]; a];
                      L [L [sy "lambda"; L [sy "x"; sy "&"; sy "r"]; sy "r"]; a; VNum 7];
                      L [sy "eval"; L [sy "trap"; L [sy "car"; a]; q (sy "trapped")]];
                      L [sy "when"; a; VNum 5]]) sub ++
  flat_map (fun a => flat_map (fun b => [L [sy "add"; a; b]; L [sy "cons"; a; b]; L [sy "if"; a; b; VNum 9]; L [sy "="; a; b];
                                          L [L [sy "lambda"; L [sy "x"; sy "y"]; L [sy "list"; sy "y"; sy "x"]]; a; b]]) sub) sub.

Definition programs1 : list val := leaves ++ grow_forms leaves.
(* depth 2: grow over a sample of depth-1 forms to keep the family at a few thousand programs *)
Definition sample (l : list val) : list val :=
  (fix go (l : list val) (i : nat) : list val := match l with [] => [] | x :: r => if Nat.eqb (Nat.modulo i 7) 0 then x :: go r (S i) else go r (S i) end) l 0%nat.
Definition programs2 : list val := programs1 ++ grow_forms (sample programs1).

(* every program runs inside (lambda (x) ...) applied to 3, so that x is a bound variable *)
Definition close (p : val) : val := L [L [sy "lambda"; L [sy "x"]; p]; VNum 3].

Definition outcome_of (r : res) : option (bool * val) :=
  match r with
  | ROk v => Some (true, strip v)
  | RSig v => Some (false, match property "kind" v with Some k => strip k | None => strip v end)
  | _ => None
  end.

Fixpoint plain_eqb (fuel : nat) (a b : val) : bool :=
  match fuel with
  | O => false
  | S f =>
    match a, b with
    | VNil, VNil => true
    | VNum x, VNum y => (x =? y)%Z
    | VChar x, VChar y => x =? y
    | VSym x, VSym y => sym_eqb x y
    | VCons a1 d1, VCons a2 d2 => plain_eqb f a1 a2 && plain_eqb f d1 d2
    | VFun _ _ _ _ _ _, VFun _ _ _ _ _ _ => true
    | VNative x, VNative y => text_eqb x y
    | VTrap a1 d1, VTrap a2 d2 => plain_eqb f a1 a2 && plain_eqb f d1 d2
    | _, _ => false
    end
  end.

Definition same_outcome (a b : option (bool * val)) : bool :=
  match a, b with
  | Some (x, v), Some (y, w) => Bool.eqb x y && plain_eqb 200 v w
  | _, _ => false
  end.

Definition dbg_fuel : nat := 4000.

(* the stepping evaluator attached to a scripted debugger that answers every [receive] from
   [script] (last answer repeated); detached when the script is empty *)
Definition with_script (script : list text) (st : state) : state :=
  match script with
  | [] => st
  | _ => State (mods st) (cur st) (gensyms st) (out st) (stdin st) true [] (map (fun c => (0, c)) script) 0
  end.

Definition step_in : text := s "STEP-IN".
Definition step_over : text := s "STEP-OVER".

(* value or signal, and the text written to standard output *)
Definition observe (fuel : nat) (st : state) (form : val) : option (bool * val) * text :=
  let '(st', r) := eval_top fuel st form in (outcome_of r, out st').

(* direct evaluation vs the stepping evaluator *)
Definition agrees_with (script : list text) (p : val) : bool :=
  let '(direct, out1) := observe dbg_fuel debugger_state (close p) in
  let '(stepped, out2) := observe dbg_fuel (with_script script debugger_state) (L [sy "debug-eval"; q (close p); VNil; VNil]) in
  same_outcome direct stepped && text_eqb out1 out2.

Definition agrees := agrees_with [].

Definition disagreeing (script : list text) (ps : list val) : list val := filter (fun p => negb (agrees_with script p)) ps.

(* programs that write to standard output and raise/trap signals, beside [programs1] *)
Definition effect_programs : list val :=
  let w (c : string) (v : val) := L [L [sy "lambda"; L [sy "_"; sy "v"]; sy "v"]; L [sy "output-file"; sy "*stdout*"; string_to_proper_list (s c)]; v] in
  [ w "a" (VNum 1);
    L [sy "add"; w "a" (VNum 1); w "b" (VNum 2)];
    L [sy "if"; w "c" VNil; w "t" (VNum 1); w "e" (VNum 2)];
    L [sy "eval"; L [sy "trap"; L [sy "add"; w "a" (VNum 1); L [sy "signal"; q (sy "boom")]]; L [sy "list"; sy "*trapped-signal*"; w "h" (VNum 2)]]];
    L [sy "signal"; w "s" (q (sy "out"))];
    L [sy "or"; VNil; w "o" (VNum 3)];
    L [sy "and"; w "x" (VNum 1); w "y" VNil];
    L [sy "map"; L [sy "lambda"; L [sy "y"]; L [sy "add"; sy "y"; sy "x"]]; q (L [VNum 1; VNum 2; VNum 3])];
    L [sy "foldl"; L [sy "lambda"; L [sy "a"; sy "b"]; L [sy "add"; sy "a"; sy "b"]]; VNum 0; L [sy "list"; sy "x"; sy "x"]];
    L [sy "let"; L [sy "y"; VNum 4; sy "z"; sy "x"]; L [sy "list"; sy "y"; sy "z"]];
    L [sy "block"; w "1" (VNum 1); w "2" (VNum 2); sy "x"];
    L [L [sy "lambda"; L [sy "&"; sy "r"]; sy "r"]];
    L [L [sy "lambda"; L [sy "y"; sy "y"]; sy "y"]; VNum 1; VNum 2];
    L [sy "throw"; q (sy "kind"); q (sy "mine"); q (sy "payload"); sy "x"];
    L [sy "try"; L [sy "car"; sy "x"]; L [sy "catch-all"; L [sy "lambda"; L [sy "e"]; L [sy "."; sy "e"; q (sy "kind")]]]];
    L [L [sy "macro"; L [sy "p"]; L [sy "list"; q (sy "quote"); sy "p"]]; L [sy "when"; sy "a"; sy "b"]] ].

(* the one program of the family outside the claim: a function whose body is the empty list is taken
   for a native function by debug-list (known finding nil-body-function) *)
Definition has_body (p : val) : bool := match p with VNil => false | _ => true end.

Lemma forallb_In {A} (f : A -> bool) l : forallb f l = true -> forall x, In x l -> f x = true.
Proof. intros H x Hx. rewrite forallb_forall in H. auto. Qed.

Theorem effects_agree_detached : forall p, In p effect_programs -> agrees_with [] p = true.
Proof. apply forallb_In. vm_compute. reflexivity. Qed.

Example nil_body_disagrees : agrees_with [] VNil = false.
Proof. vm_compute. reflexivity. Qed.

(* the mechanism the detached case rests on: without a debugger receive returns nil and send only
   validates its property list; neither changes the interpreter state *)
Lemma receive_detached st d : attached st = false -> simple_native st (s "receive") [] d = Some (st, ROk VNil).
Proof. intros H. unfold simple_native. cbn. rewrite H. reflexivity. Qed.

Lemma send_keeps_state st data d : exists r, simple_native st (s "send") [data] d = Some (st, r).
Proof. unfold simple_native. cbn. destruct (list_to_vec data); eexists; reflexivity. Qed.
