(* C16: foldr, as loaded from the generated prelude text, for EVERY list and every function whose
   applications evaluate: the right fold (f x1 (f x2 ... (f xn init))), at constant depth. *)
From PL Require Import Eval.PreludeState Eval.EvalRules Eval.SemProofs Eval.PreludeProofs Eval.CatchProofs Eval.LengthProofs Eval.FoldProofs Eval.ZipProofs.
From Coq Require Import String Lia ZArith.
Local Open Scope string_scope.
Local Open Scope list_scope.
Local Open Scope N_scope.

Definition foldr_val : val := match prelude_global (s "foldr") with Some v => v | None => VNil end.
Definition foldr_parts := match getv foldr_val with VFun _ _ ps b e em => (ps, b, e, em) | _ => ([], VNil, VNil, []) end.
Definition fr_body : val := let '(_, b, _, _) := foldr_parts in b.
Definition fr_env (f init things : val) : val :=
  let '(ps, _, e, _) := foldr_parts in
  match pair_params (s "#<function>") ps false [f; init; things] e 0 3 with inl env => env | inr _ => VNil end.
Definition fr_lambda : val := match forms_of fr_body with _ :: x :: _ => x | _ => VNil end.   (* (lambda (acc x) (f x acc)) *)
Definition fr_init : val := match forms_of fr_body with _ :: _ :: x :: _ => x | _ => VNil end.
Definition fr_rev : val := match forms_of fr_body with _ :: _ :: _ :: x :: _ => x | _ => VNil end.  (* (reverse things) *)
Definition fr_closure (f init things : val) : val :=
  match make_function_internal (match forms_of fr_lambda with _ :: r => r | [] => [] end) (fr_env f init things) pm "lambda" false with ROk v => v | _ => VNil end.
Definition fr_app (f init things : val) : val := match fr_closure f init things with VFun _ _ _ b _ _ => b | _ => VNil end.   (* (f x acc) *)
Definition fr_app_env (f init things acc x : val) : val :=
  match pair_params (s "#<function>") (match fr_closure f init things with VFun _ _ ps _ _ _ => ps | _ => [] end) false [acc; x] (fr_env f init things) 0 2 with inl e => e | inr _ => VNil end.

Example foldr_is_a_closure : exists ps b e, getv foldr_val = VFun false false ps b e pm.
Proof. vm_compute. eexists; eexists; eexists; reflexivity. Qed.

Section Foldr.
Variables (fv iv tv : val) (g : val -> val -> val) (K : nat).
Hypothesis HK : (2 <= K)%nat.
(* what the application (f x acc) in the wrapper's body evaluates to *)
Hypothesis Happ : forall acc x d, d + 3 <= MAXD -> forall st0 g0, has_prelude st0 ->
  exists st1, eval_loop (K + g0) st0 (fr_app fv iv tv) (fr_app_env fv iv tv acc x) pm (d + 1) = (st1, ROk (g x acc)) /\ has_prelude st1.

(* one step of the inner foldl with the wrapper closure *)
Lemma foldr_step acc x r d : d + 3 <= MAXD ->
  evals_to (K + 6) fl_step (fl_env (fr_closure fv iv tv) acc (VCons x r)) (d + 1) (g x acc).
Proof.
  intros Hd st0 g0 Hg.
  set (E := fl_env (fr_closure fv iv tv) acc (VCons x r)).
  set (car_form := match forms_of fl_step with _ :: _ :: y :: _ => y | _ => VNil end).
  assert (Hcar : evals_to 4 car_form E (d + 1 + 1) x).
  { intros st1 g1 Hg1.
    destruct (ev_native_call 2 car_form (match forms_of car_form with y :: _ => y | [] => VNil end)
                (match forms_of car_form with _ :: l => l | [] => [] end) [VCons x r] (s "car") car_native_v E (d + 1 + 1)
                ltac:(lia) ltac:(lia) eq_refl eq_refl) with (st0 := st1) (g := g1) as (st2 & Hg2 & He); try exact Hg1.
    - apply (ev_global _ (s "car")); [lia|reflexivity|reflexivity|reflexivity|reflexivity].
    - reflexivity.
    - reflexivity.
    - repeat constructor. arg_local.
    - exists st2. split; [|exact Hg2]. etransitivity; [exact He|]. reflexivity. }
  replace (K + 6 + g0)%nat with (S (S (4 + (K + g0)))) by lia. rewrite R_entry, (dok (d + 1) 1 ltac:(lia)).
  destruct (loop_closure 4 (K + g0) st0 fl_step E (d + 1) (match forms_of fl_step with y :: _ => y | _ => VNil end)
              (match forms_of fl_step with _ :: l => l | _ => [] end) [acc; x] (fr_closure fv iv tv) false false
              (match fr_closure fv iv tv with VFun _ _ ps _ _ _ => ps | _ => [] end) (fr_app fv iv tv) (fr_env fv iv tv) pm
              (fr_app_env fv iv tv acc x) Hg eq_refl eq_refl) as (st1 & Hg1 & Hcall).
  - apply (evals_to_mono 2 4); [lia|]. arg_local.
  - reflexivity.
  - constructor; [apply (evals_to_mono 2 4); [lia|]; arg_local|]. constructor; [exact Hcar|constructor].
  - reflexivity.
  - destruct (Happ acc x d Hd st1 (4 + g0)%nat Hg1) as (st2 & Hrun & Hg2).
    exists st2. split; [|exact Hg2]. rewrite Hcall. replace (4 + (K + g0))%nat with (K + (4 + g0))%nat by lia. exact Hrun.
Qed.

(* (reverse things) as an operand of the inner call *)
Lemma ev_fr_rev tl xs d : tv = onto xs tl -> is_nil tl = true -> d + 5 <= MAXD ->
  evals_to (2 * List.length xs + 19) fr_rev (fr_env fv iv tv) (d + 1) (fold_left (fun a x => VCons x a) xs nil_value).
Proof.
  intros Htv Htl Hd st0 g0 Hg. subst tv.
  replace (2 * List.length xs + 19 + g0)%nat with (S (S (4 + (2 * List.length xs + 13 + g0)))) by lia.
  rewrite R_entry, (dok (d + 1) 1 ltac:(lia)).
  destruct (loop_closure 4 (2 * List.length xs + 13 + g0) st0 fr_rev (fr_env fv iv (onto xs tl)) (d + 1) (match forms_of fr_rev with z :: _ => z | _ => VNil end)
              (match forms_of fr_rev with _ :: l => l | _ => [] end) [onto xs tl] reverse_val false false
              (let '(ps, _, _, _) := reverse_parts in ps) rv_body (let '(_, _, e, _) := reverse_parts in e) pm
              (rv_env (onto xs tl)) Hg eq_refl eq_refl) as (st1 & Hg1 & Hcall).
  - apply (evals_to_mono 2 4); [lia|]. apply (ev_global _ (s "reverse")); [lia|reflexivity|reflexivity|reflexivity|reflexivity].
  - reflexivity.
  - constructor; [apply (evals_to_mono 2 4); [lia|]; arg_local|constructor].
  - reflexivity.
  - destruct (reverse_runs xs tl (4 + g0)%nat st1 (d + 1) Htl Hg1 ltac:(lia)) as (st2 & r & Hrun & Hg2 & Hr).
    exists st2. split; [|exact Hg2]. rewrite Hcall. subst r.
    replace (4 + (2 * List.length xs + 13 + g0))%nat with (2 * List.length xs + 13 + (4 + g0))%nat by lia. exact Hrun.
Qed.

(* foldr: f x1 (f x2 (... (f xn init))), for every list *)
Theorem foldr_runs tl xs st d : tv = onto xs tl -> is_nil tl = true -> has_prelude st -> d + 5 <= MAXD ->
  exists fuel st', eval_loop fuel st fr_body (fr_env fv iv tv) pm d = (st', ROk (fold_right g iv xs)) /\ has_prelude st'.
Proof.
  intros Htv Htl Hg Hd.
  set (M := fold_left (fun a x => VCons x a) xs nil_value).
  set (KK := (2 * List.length xs + K + 19)%nat).
  destruct (loop_closure KK (2 * List.length xs + 10) st fr_body (fr_env fv iv tv) d (match forms_of fr_body with z :: _ => z | _ => VNil end)
              [fr_lambda; fr_init; fr_rev] [fr_closure fv iv tv; iv; M] foldl_val false false
              (let '(ps, _, _, _) := foldl_parts in ps) fl_body (let '(_, _, e, _) := foldl_parts in e) pm
              (fl_env (fr_closure fv iv tv) iv M) Hg eq_refl eq_refl) as (st1 & Hg1 & Hcall).
  - apply (evals_to_mono 2 KK); [unfold KK; lia|]. apply (ev_global _ (s "foldl")); [lia|reflexivity|reflexivity|reflexivity|reflexivity].
  - reflexivity.
  - constructor; [apply (evals_to_mono 2 KK); [unfold KK; lia|]; eapply ev_lambda; [lia|reflexivity|reflexivity|reflexivity]|].
    constructor; [apply (evals_to_mono 2 KK); [unfold KK; lia|]; arg_local|].
    constructor; [apply (evals_to_mono (2 * List.length xs + 19) KK); [unfold KK; lia|]; apply (ev_fr_rev tl); assumption|constructor].
  - reflexivity.
  - unfold M in *. rewrite fold_cons_onto in *.
    assert (Hnil : is_nil nil_value = true) by reflexivity.
    destruct (foldl_runs (fr_closure fv iv tv) (fun acc x => g x acc) (K + 6) ltac:(lia) foldr_step nil_value Hnil (rev xs) iv
                (KK - K)%nat st1 d Hg1 ltac:(lia)) as (st2 & Hrun & Hg2).
    exists (S (KK + (2 * List.length xs + 10))), st2. split; [|exact Hg2].
    rewrite Hcall.
    replace (KK + (2 * List.length xs + 10))%nat with (2 * List.length (rev xs) + (K + 6) + 4 + (KK - K))%nat by (rewrite rev_length; unfold KK; lia).
    rewrite Hrun. f_equal. f_equal. rewrite <- fold_left_rev_right. rewrite rev_involutive. reflexivity.
Qed.
End Foldr.

(* an instance (non-vacuity): folding the primitive cons from the right copies the list *)
Lemma app_cons_native iv tv acc x d : d + 3 <= MAXD -> forall st0 g0, has_prelude st0 ->
  exists st1, eval_loop (3 + g0) st0 (fr_app cons_native_v iv tv) (fr_app_env cons_native_v iv tv acc x) pm (d + 1) = (st1, ROk (VCons x acc)) /\ has_prelude st1.
Proof.
  intros Hd st0 g0 Hg.
  destruct (loop_native_call 2 g0 st0 (fr_app cons_native_v iv tv) (fr_app_env cons_native_v iv tv acc x) (d + 1)
              (match forms_of (fr_app cons_native_v iv tv) with z :: _ => z | _ => VNil end)
              (match forms_of (fr_app cons_native_v iv tv) with _ :: l => l | _ => [] end) [x; acc] (s "cons") cons_native_v Hg ltac:(lia) eq_refl eq_refl)
    as (st1 & Hg1 & Hnat).
  - arg_local.
  - reflexivity.
  - reflexivity.
  - repeat constructor; [arg_local|arg_local].
  - exists st1. split; [|exact Hg1]. change (3 + g0)%nat with (S (2 + g0)). rewrite Hnat. reflexivity.
Qed.

Example foldr_cons_instance : forall xs st d, has_prelude st -> d + 5 <= MAXD ->
  exists fuel st', eval_loop fuel st fr_body (fr_env cons_native_v VNil (vec_to_list xs)) pm d = (st', ROk (fold_right VCons VNil xs)) /\ has_prelude st'.
Proof.
  intros xs st d Hg Hd.
  exact (foldr_runs cons_native_v VNil (vec_to_list xs) (fun x acc => VCons x acc) 3 ltac:(lia)
           (app_cons_native VNil (vec_to_list xs)) VNil xs st d (eq_sym (onto_nil xs)) eq_refl Hg Hd).
Qed.
