(* C16: foldl, as loaded from the generated prelude text, for EVERY list and every function whose
   applications evaluate: the left fold, at constant depth; and reverse as its instance. *)
From PL Require Import Eval.PreludeState Eval.EvalRules Eval.SemProofs Eval.PreludeProofs Eval.CatchProofs Eval.LengthProofs.
From Coq Require Import String Lia ZArith.
Local Open Scope string_scope.
Local Open Scope list_scope.
Local Open Scope N_scope.

Definition foldl_val : val := match get_global (mods prelude_state) (s "foldl") pm with GOk v => v | _ => VNil end.
Definition foldl_parts := match getv foldl_val with VFun _ _ ps b e em => (ps, b, e, em) | _ => ([], VNil, VNil, []) end.
Definition fl_body : val := let '(_, b, _, _) := foldl_parts in b.
Definition fl_env (f init things : val) : val :=
  let '(ps, _, e, _) := foldl_parts in
  match pair_params (s "#<function>") ps false [f; init; things] e 0 3 with inl env => env | inr _ => VNil end.

Definition fl_if_head : val := match forms_of fl_body with x :: _ => x | _ => VNil end.
Definition fl_cond : val := match forms_of fl_body with _ :: x :: _ => x | _ => VNil end.          (* things *)
Definition fl_call : val := match forms_of fl_body with _ :: _ :: x :: _ => x | _ => VNil end.     (* (foldl f (f init (car things)) (cdr things)) *)
Definition fl_else : val := match forms_of fl_body with _ :: _ :: _ :: x :: _ => x | _ => VNil end. (* init *)
Definition fl_f : val := match forms_of fl_call with _ :: x :: _ => x | _ => VNil end.            (* f *)
Definition fl_step : val := match forms_of fl_call with _ :: _ :: x :: _ => x | _ => VNil end.     (* (f init (car things)) *)
Definition fl_cdr : val := match forms_of fl_call with _ :: _ :: _ :: x :: _ => x | _ => VNil end. (* (cdr things) *)

Example foldl_is_a_closure : exists ps b e, getv foldl_val = VFun false false ps b e pm.
Proof. vm_compute. eexists; eexists; eexists; reflexivity. Qed.

Lemma ev_fl_cdr fv acc x r d : d + 2 <= MAXD -> evals_to 4 fl_cdr (fl_env fv acc (VCons x r)) (d + 1) r.
Proof.
  intros Hd st0 g Hg.
  destruct (ev_native_call 2 fl_cdr (match forms_of fl_cdr with y :: _ => y | [] => VNil end)
              (match forms_of fl_cdr with _ :: l => l | [] => [] end) [VCons x r] (s "cdr") cdr_native (fl_env fv acc (VCons x r)) (d + 1)
              ltac:(lia) ltac:(lia) eq_refl eq_refl) with (st0 := st0) (g := g) as (st1 & Hg1 & He); try exact Hg.
  - apply (ev_global _ (s "cdr")); [lia|reflexivity|reflexivity|reflexivity|reflexivity].
  - reflexivity.
  - reflexivity.
  - repeat constructor. arg_local.
  - exists st1. split; [|exact Hg1]. etransitivity; [exact He|]. reflexivity.
Qed.

(* a list whose end is any value that counts as nil (the value of the global nil carries metadata) *)
Fixpoint onto (l : list val) (tail : val) : val := match l with [] => tail | x :: r => VCons x (onto r tail) end.
Lemma onto_nil l : onto l VNil = vec_to_list l.
Proof. induction l as [|x l IH]; cbn; [reflexivity|rewrite IH; reflexivity]. Qed.

(* the fold: [step acc x] is what the application (f init (car things)) evaluates to, with fuel K *)
Section Fold.
Variables (fv : val) (step : val -> val -> val) (K : nat).
Hypothesis HK : (4 <= K)%nat.
Hypothesis Hstep : forall acc x r d, d + 3 <= MAXD -> evals_to K fl_step (fl_env fv acc (VCons x r)) (d + 1) (step acc x).

Lemma foldl_runs tl : is_nil tl = true -> forall xs acc g st d, has_prelude st -> d + 3 <= MAXD ->
  exists st', eval_loop (2 * List.length xs + K + 4 + g) st fl_body (fl_env fv acc (onto xs tl)) pm d
              = (st', ROk (fold_left step xs acc)) /\ has_prelude st'.
Proof.
  intros Htl. induction xs as [|x xs IH]; intros acc g st d Hg Hd.
  - cbn [onto].
    destruct (loop_if 2 (K + 1 + g) st fl_body (fl_env fv acc tl) d fl_if_head fl_cond fl_call fl_else tl Hg eq_refl eq_refl eq_refl eq_refl)
      as (st1 & Hg1 & Hif); [arg_local|].
    destruct (loop_local (K + 2 + g) st1 fl_else (Named (s "init")) acc (fl_env fv acc tl) d Hg1 eq_refl eq_refl eq_refl) as (st2 & He & Hg2).
    exists st2. split; [|exact Hg2].
    replace (2 * List.length (@nil val) + K + 4 + g)%nat with (S (2 + (K + 1 + g))) by (cbn [List.length]; lia). rewrite Hif. rewrite Htl.
    replace (2 + (K + 1 + g))%nat with (S (K + 2 + g)) by lia. exact He.
  - cbn [onto]. set (L := VCons x (onto xs tl)).
    destruct (loop_if 2 (2 * List.length xs + K + 3 + g) st fl_body (fl_env fv acc L) d fl_if_head fl_cond fl_call fl_else L Hg eq_refl eq_refl eq_refl eq_refl)
      as (st1 & Hg1 & Hif); [arg_local|].
    destruct (loop_closure K (2 * List.length xs + 4 + g) st1 fl_call (fl_env fv acc L) d (match forms_of fl_call with y :: _ => y | _ => VNil end)
                [fl_f; fl_step; fl_cdr] [fv; step acc x; onto xs tl] foldl_val false false
                (let '(ps, _, _, _) := foldl_parts in ps) fl_body (let '(_, _, e, _) := foldl_parts in e) pm
                (fl_env fv (step acc x) (onto xs tl)) Hg1 eq_refl eq_refl) as (st2 & Hg2 & Hcall).
    + apply (evals_to_mono 2 K); [lia|]. apply (ev_global _ (s "foldl")); [lia|reflexivity|reflexivity|reflexivity|reflexivity].
    + reflexivity.
    + constructor; [apply (evals_to_mono 2 K); [lia|]; arg_local|].
      constructor; [apply Hstep; lia|]. constructor; [apply (evals_to_mono 4 K); [lia|]; apply ev_fl_cdr; lia|constructor].
    + reflexivity.
    + destruct (IH (step acc x) g st2 d Hg2 Hd) as (st3 & Hrec & Hg3).
      exists st3. split; [|exact Hg3].
      replace (2 * List.length (x :: xs) + K + 4 + g)%nat with (S (2 + (2 * List.length xs + K + 3 + g))) by (cbn [List.length]; lia).
      rewrite Hif. cbn [is_nil getv L].
      replace (2 + (2 * List.length xs + K + 3 + g))%nat with (S (K + (2 * List.length xs + 4 + g))) by lia.
      rewrite Hcall.
      replace (K + (2 * List.length xs + 4 + g))%nat with (2 * List.length xs + K + 4 + g)%nat by lia.
      exact Hrec.
Qed.
End Fold.

(* ---- reverse = (foldl (lambda (xs x) (cons x xs)) nil things) ---- *)

Lemma ev_lambda e q rest env d v : d <= MAXD -> list_to_vec e = Some (q :: rest) -> is_sym q (s "lambda") = true ->
  make_function_internal rest env pm "lambda" false = ROk v -> evals_to 2 e env d v.
Proof.
  intros Hd Hl Hq Hm st0 g Hg. destruct (poll_has st0 Hg) as (st' & Hp & Hg').
  exists st'. split; [|exact Hg']. change (2 + g)%nat with (S (S g)). rewrite R_entry, (dok d 0 ltac:(lia)).
  rewrite (R_lambda g st0 st' e env pm d Hp q rest Hl Hq). rewrite Hm. reflexivity.
Qed.

(* a native call at loop level (the body of a closure that is one primitive call) *)
Lemma loop_native_call k g st e env d head args vals name op : has_prelude st -> d + 1 <= MAXD ->
  list_to_vec e = Some (head :: args) -> special_form head = false ->
  evals_to k head env (d + 1) op -> getv op = VNative name -> text_eqb name (s "eval") = false ->
  Forall2 (fun a v => evals_to k a env (d + 1) v) args vals ->
  exists st1, has_prelude st1 /\ eval_loop (S (k + g)) st e env pm d = call_native (k + g) st1 name vals env (d + 1).
Proof.
  intros Hg Hd Hl Hs Hop Hgo Hne HF. destruct (poll_has st Hg) as (st0 & Hp & Hg0).
  destruct (Hop st0 g Hg0) as (st1 & Ho & Hg1).
  destruct (eval_args_all k env d args vals st1 g [] Hg1 HF) as (st2 & Ha & Hg2). cbn [rev app] in Ha.
  exists st2. split; [exact Hg2|].
  exact (R_app_native (k + g) st st0 e env pm d Hp head args Hl Hs st1 op name st2 vals Ho Hgo Hne Ha).
Qed.

Definition cons_native_v : val := match get_global (mods prelude_state) (s "cons") pm with GOk v => v | _ => VNil end.
Definition reverse_val : val := match prelude_global (s "reverse") with Some v => v | None => VNil end.
Definition reverse_parts := match getv reverse_val with VFun _ _ ps b e em => (ps, b, e, em) | _ => ([], VNil, VNil, []) end.
Definition rv_body : val := let '(_, b, _, _) := reverse_parts in b.
Definition rv_env (things : val) : val :=
  let '(ps, _, e, _) := reverse_parts in
  match pair_params (s "#<function>") ps false [things] e 0 1 with inl env => env | inr _ => VNil end.
Definition rv_lambda : val := match forms_of rv_body with _ :: x :: _ => x | _ => VNil end.     (* (lambda (xs x) (cons x xs)) *)
Definition rv_nil : val := match forms_of rv_body with _ :: _ :: x :: _ => x | _ => VNil end.
Definition rv_things : val := match forms_of rv_body with _ :: _ :: _ :: x :: _ => x | _ => VNil end.
(* the closure the lambda form evaluates to inside reverse called on [things] *)
Definition rv_closure (things : val) : val :=
  match make_function_internal (match forms_of rv_lambda with _ :: r => r | [] => [] end) (rv_env things) pm "lambda" false with ROk v => v | _ => VNil end.
Definition rv_cons_body (things : val) : val := match rv_closure things with VFun _ _ _ b _ _ => b | _ => VNil end.

Example reverse_closure_shape things : exists ps b, rv_closure things = VFun false false ps b (rv_env things) pm.
Proof. eexists; eexists; reflexivity. Qed.

(* one step of the fold: (f init (car things)) with f the closure is (cons x acc) *)
Lemma reverse_step things acc x r d : d + 3 <= MAXD ->
  evals_to 8 fl_step (fl_env (rv_closure things) acc (VCons x r)) (d + 1) (VCons x acc).
Proof.
  intros Hd st0 g Hg.
  set (E := fl_env (rv_closure things) acc (VCons x r)).
  set (car_form := match forms_of fl_step with _ :: _ :: y :: _ => y | _ => VNil end).
  assert (Hcar : evals_to 4 car_form E (d + 1 + 1) x).
  { intros st1 g1 Hg1.
    destruct (ev_native_call 2 car_form (match forms_of car_form with y :: _ => y | [] => VNil end)
                (match forms_of car_form with _ :: l => l | [] => [] end) [VCons x r] (s "car")
                (match get_global (mods prelude_state) (s "car") pm with GOk v => v | _ => VNil end) E (d + 1 + 1)
                ltac:(lia) ltac:(lia) eq_refl eq_refl) with (st0 := st1) (g := g1) as (st2 & Hg2 & He); try exact Hg1.
    - apply (ev_global _ (s "car")); [lia|reflexivity|reflexivity|reflexivity|reflexivity].
    - reflexivity.
    - reflexivity.
    - repeat constructor. arg_local.
    - exists st2. split; [|exact Hg2]. etransitivity; [exact He|]. reflexivity. }
  change (8 + g)%nat with (S (S (6 + g))). rewrite R_entry, (dok (d + 1) 1 ltac:(lia)).
  destruct (loop_closure 6 g st0 fl_step E (d + 1) (match forms_of fl_step with y :: _ => y | _ => VNil end)
              (match forms_of fl_step with _ :: l => l | _ => [] end) [acc; x] (rv_closure things) false false
              (match rv_closure things with VFun _ _ ps _ _ _ => ps | _ => [] end) (rv_cons_body things) (rv_env things) pm
              (match pair_params (s "#<function>") (match rv_closure things with VFun _ _ ps _ _ _ => ps | _ => [] end) false [acc; x] (rv_env things) 0 2 with inl e => e | inr _ => VNil end)
              Hg eq_refl eq_refl) as (st1 & Hg1 & Hcall).
  - apply (evals_to_mono 2 6); [lia|]. arg_local.
  - reflexivity.
  - constructor; [apply (evals_to_mono 2 6); [lia|]; arg_local|]. constructor; [apply (evals_to_mono 4 6); [lia|]; exact Hcar|constructor].
  - reflexivity.
  - set (E2 := match pair_params _ _ _ _ _ _ _ with inl e => e | inr _ => VNil end) in *.
    destruct (loop_native_call 2 (3 + g) st1 (rv_cons_body things) E2 (d + 1) (match forms_of (rv_cons_body things) with y :: _ => y | _ => VNil end)
                (match forms_of (rv_cons_body things) with _ :: l => l | _ => [] end) [x; acc] (s "cons") cons_native_v Hg1 ltac:(lia) eq_refl eq_refl)
      as (st2 & Hg2 & Hnat).
    + apply (ev_global _ (s "cons")); [lia|reflexivity|reflexivity|reflexivity|reflexivity].
    + reflexivity.
    + reflexivity.
    + repeat constructor; [arg_local|arg_local].
    + exists st2. split; [|exact Hg2]. rewrite Hcall. change (6 + g)%nat with (S (2 + (3 + g))). rewrite Hnat. reflexivity.
Qed.

Lemma fold_cons_onto : forall xs acc, fold_left (fun a x => VCons x a) xs acc = onto (rev xs) acc.
Proof.
  induction xs as [|x xs IH]; intros acc; cbn [fold_left rev]; [reflexivity|].
  rewrite IH. clear IH. induction (rev xs) as [|y l IHl]; cbn; [reflexivity|rewrite IHl; reflexivity].
Qed.

Definition reverse_statement (xs : list val) (tl : val) : Prop :=
  exists restp params body cenv cmod,
    option_map getv (prelude_global (s "reverse")) = Some (VFun false restp params body cenv cmod) /\
    exists newenv, pair_params (s "#<function>") params restp [onto xs tl] cenv 0 1 = inl newenv /\
    forall st d, has_prelude st -> d + 3 <= MAXD ->
    exists fuel st' r, eval_loop fuel st body newenv cmod d = (st', ROk r) /\ has_prelude st' /\
                       strip r = strip (vec_to_list (rev xs)).

(* reverse's body with fuel linear in the length, at the depth it was called at *)
Lemma reverse_runs xs tl g st d : is_nil tl = true -> has_prelude st -> d + 3 <= MAXD ->
  exists st' r, eval_loop (2 * List.length xs + 13 + g) st rv_body (rv_env (onto xs tl)) pm d = (st', ROk r) /\ has_prelude st' /\
                r = fold_left (fun a x => VCons x a) xs nil_value.
Proof.
  intros Htl Hg Hd. set (L := onto xs tl).
  destruct (loop_closure 8 (2 * List.length xs + 4 + g) st rv_body (rv_env L) d (match forms_of rv_body with x :: _ => x | _ => VNil end)
              (match forms_of rv_body with _ :: l => l | _ => [] end) [rv_closure L; nil_value; L] foldl_val false false
              (let '(ps, _, _, _) := foldl_parts in ps) fl_body (let '(_, _, e, _) := foldl_parts in e) pm
              (fl_env (rv_closure L) nil_value L) Hg eq_refl eq_refl) as (st1 & Hg1 & Hcall).
  - apply (evals_to_mono 2 8); [lia|]. apply (ev_global _ (s "foldl")); [lia|reflexivity|reflexivity|reflexivity|reflexivity].
  - reflexivity.
  - constructor; [apply (evals_to_mono 2 8); [lia|]; eapply ev_lambda; [lia|reflexivity|reflexivity|reflexivity]|].
    constructor; [apply (evals_to_mono 2 8); [lia|]; arg_global|]. constructor; [apply (evals_to_mono 2 8); [lia|]; arg_local|constructor].
  - reflexivity.
  - destruct (foldl_runs (rv_closure L) (fun a x => VCons x a) 8 ltac:(lia) (reverse_step L) tl Htl xs nil_value g st1 d Hg1 Hd) as (st2 & Hrun & Hg2).
    exists st2. eexists. split; [|split; [exact Hg2|reflexivity]].
    replace (2 * List.length xs + 13 + g)%nat with (S (8 + (2 * List.length xs + 4 + g))) by lia.
    etransitivity; [exact Hcall|]. replace (8 + (2 * List.length xs + 4 + g))%nat with (2 * List.length xs + 8 + 4 + g)%nat by lia. exact Hrun.
Qed.

Lemma strip_fold_cons l : strip (fold_left (fun a x => VCons x a) l nil_value) = strip (vec_to_list (rev l)).
Proof.
  rewrite fold_cons_onto. generalize (rev l). intros l'. induction l' as [|y l' IH]; cbn; [reflexivity|]. cbn in IH. rewrite IH. reflexivity.
Qed.

(* reverse, for EVERY list, at the depth it was called at *)
Theorem reverse_spec xs tl : is_nil tl = true -> reverse_statement xs tl.
Proof.
  intros Htl. eexists; eexists; eexists; eexists; eexists; split; [vm_compute; reflexivity|].
  eexists; split; [reflexivity|].
  intros st d Hg Hd.
  destruct (reverse_runs xs tl 0%nat st d Htl Hg Hd) as (st' & r & Hrun & Hg' & Hr).
  exists (2 * List.length xs + 13 + 0)%nat, st', r. split; [exact Hrun|]. split; [exact Hg'|]. rewrite Hr. apply strip_fold_cons.
Qed.

Example reverse_instance : reverse_statement [VNum 1; vsym "b"; VNum 3] VNil.
Proof. apply reverse_spec. reflexivity. Qed.
