(* C16: apply and throw, for all operand forms. *)
From PL Require Import Eval.PreludeState Eval.EvalRules Eval.SemProofs Eval.PreludeProofs Eval.CatchProofs.
From Coq Require Import String Lia.
Local Open Scope string_scope.
Local Open Scope list_scope.
Local Open Scope N_scope.

(* (apply f args) -> ((unrest f) args): the function with its rest parameter turned into an ordinary one,
   applied to the list itself *)
Theorem apply_expansion F A : macro_expands_within 4 (s "apply") [F; A]
  (vec_to_list [vec_to_list [vsym "unrest"; F]; A]).
Proof.
  open_macro_within.
  match goal with |- exists fuel st' r, eval_internal fuel st ?body ?env ?m d = _ /\ _ /\ _ =>
    assert (H : exists r, evals_to 6 body env d r /\ strip r = strip (vec_to_list [vec_to_list [vsym "unrest"; F]; A])) end.
  { eexists. split.
    - list_call 4%nat. constructor; [|constructor; [apply (evals_to_mono 2 4); [lia|]; arg_local|constructor]].
      list_call 2%nat. repeat constructor; [arg_quote|arg_local].
    - reflexivity. }
  destruct H as (r & H & Hs). destruct (H st 0%nat Hg) as (st' & He & Hg').
  eexists; exists st', r. split; [exact He|]. split; [exact Hg'|exact Hs].
Qed.

Lemma pair_rest src p args env i n : pair_params src [p] true args env i n = inl (VCons (VCons p (vec_to_list args)) env).
Proof. destruct args; reflexivity. Qed.

(* (throw k1 v1 ...) -> (signal (list k1 v1 ...)): the signal is the property list of the EVALUATED
   key/value forms, for every number of them *)
Theorem throw_expansion body : macro_expands_within 4 (s "throw") body
  (vec_to_list [vsym "signal"; VCons (vsym "list") (vec_to_list body)]).
Proof.
  unfold macro_expands_within.
  eexists; eexists; eexists; eexists; eexists; split; [vm_compute; reflexivity|].
  eexists; split; [apply pair_rest|].
  intros st d Hg Hd.
  match goal with |- exists fuel st' r, eval_internal fuel st ?b ?env ?m d = _ /\ _ /\ _ =>
    assert (H : exists r, evals_to 6 b env d r /\ strip r = strip (vec_to_list [vsym "signal"; VCons (vsym "list") (vec_to_list body)])) end.
  { eexists. split.
    - list_call 4%nat. constructor; [apply (evals_to_mono 2 4); [lia|]; arg_quote|constructor; [|constructor]].
      match goal with |- evals_to 4 ?e ?env ?dd _ =>
        intros st0 g0 Hg0;
        destruct (ev_native_call 2 e (match forms_of e with y :: _ => y | [] => VNil end) (match forms_of e with _ :: l => l | [] => [] end)
                    [match forms_of (match forms_of e with _ :: q :: _ => q | _ => VNil end) with _ :: x :: _ => x | _ => VNil end; vec_to_list body] (s "cons")
                    (match get_global (mods prelude_state) (s "cons") pm with GOk v => v | _ => VNil end) env dd ltac:(lia) ltac:(lia) eq_refl eq_refl)
          with (st0 := st0) (g := g0) as (st1 & Hg1 & He); try exact Hg0 end.
      + apply (ev_global _ (s "cons")); [lia|reflexivity|reflexivity|reflexivity|reflexivity].
      + reflexivity.
      + reflexivity.
      + constructor; [arg_quote|constructor; [arg_local|constructor]].
      + exists st1. split; [|exact Hg1]. etransitivity; [exact He|]. reflexivity.
    - reflexivity. }
  destruct H as (r & H & Hs). destruct (H st 0%nat Hg) as (st' & He & Hg').
  eexists; exists st', r. split; [exact He|]. split; [exact Hg'|exact Hs].
Qed.
