(* C16: the comparison functions <=, >= and /= of the generated prelude, for EVERY pair of
   numbers (whatever metadata the operands carry): the result is true exactly when the
   documented relation holds.  (<= and >= are written with the macro or, whose expansion binds
   a generated symbol: the first test is evaluated once.) *)
From PL Require Import Eval.PreludeState Eval.EvalRules Eval.SemProofs Eval.PreludeProofs Eval.CatchProofs Eval.LengthProofs Eval.FoldProofs.
From Coq Require Import String Lia ZArith.
Local Open Scope string_scope.
Local Open Scope list_scope.
Local Open Scope N_scope.

Lemma lt_call_meta f st x y a b env d : getv x = VNum a -> getv y = VNum b ->
  call_native (S f) st (s "<") [x; y] env d = (st, ROk (bool_val (a <? b)%Z)).
Proof. intros Hx Hy. cbn. rewrite Hx, Hy. reflexivity. Qed.

Lemma gt_call_meta f st x y a b env d : getv x = VNum a -> getv y = VNum b ->
  call_native (S f) st (s ">") [x; y] env d = (st, ROk (bool_val (a >? b)%Z)).
Proof. intros Hx Hy. cbn. rewrite Hx, Hy. reflexivity. Qed.

Lemma eq_call_meta f st x y a b env d : getv x = VNum a -> getv y = VNum b ->
  call_native (S f) st (s "=") [x; y] env d = (st, ROk (bool_val (a =? b)%Z)).
Proof. intros Hx Hy. cbn. rewrite Hx, Hy. reflexivity. Qed.

Definition lt_native_v : val := match get_global (mods prelude_state) (s "<") pm with GOk v => v | _ => VNil end.
Definition gt_native_v : val := match get_global (mods prelude_state) (s ">") pm with GOk v => v | _ => VNil end.

(* a global variable in tail position *)
Lemma loop_global g st e n v env d : has_prelude st -> list_to_vec e = None -> getv e = VSym (Named n) ->
  env_lookup env (Named n) = LMissing -> get_global (mods prelude_state) n pm = GOk v ->
  exists st', eval_loop (S g) st e env pm d = (st', ROk v) /\ has_prelude st'.
Proof.
  intros Hg Hl Hgv He Hglob. destruct (poll_has st Hg) as (st' & Hp & Hg'). exists st'. split; [|exact Hg'].
  rewrite (R_var_global g st st' e env pm d Hp n Hl Hgv He). destruct Hg' as [_ Hm]. rewrite Hm, Hglob. reflexivity.
Qed.

(* ---- (or (REL x y) (= x y)) ---- *)
Section OrEq.
Variable fname : string.
Definition c_val : val := match prelude_global (s fname) with Some v => v | None => VNil end.
Definition c_parts := match getv c_val with VFun _ _ ps b e em => (ps, b, e, em) | _ => ([], VNil, VNil, []) end.
Definition c_body : val := let '(_, b, _, _) := c_parts in b.
Definition c_env (x y : val) : val :=
  let '(ps, _, e, _) := c_parts in
  match pair_params (s "#<function>") ps false [x; y] e 0 2 with inl env => env | inr _ => VNil end.
Definition c_lambda : val := match forms_of c_body with x :: _ => x | _ => VNil end.
Definition c_first : val := match forms_of c_body with _ :: x :: _ => x | _ => VNil end.      (* (REL x y) *)
Definition c_closure (x y : val) : val :=
  match make_function_internal (match forms_of c_lambda with _ :: r => r | [] => [] end) (c_env x y) pm "lambda" false with ROk v => v | _ => VNil end.
Definition c_params (x y : val) : list val := match c_closure x y with VFun _ _ ps _ _ _ => ps | _ => [] end.
Definition c_if (x y : val) : val := match c_closure x y with VFun _ _ _ b _ _ => b | _ => VNil end.
Definition c_inner_env (x y c : val) : val :=
  match pair_params (s "#<function>") (c_params x y) false [c] (c_env x y) 0 1 with inl e => e | inr _ => VNil end.
End OrEq.

Definition or_eq_statement (fname : string) (relb : Z -> Z -> bool) : Prop :=
  forall x y a b st d, getv x = VNum a -> getv y = VNum b -> has_prelude st -> d + 3 <= MAXD ->
  exists fuel st' r, eval_loop fuel st (c_body fname) (c_env fname x y) pm d = (st', ROk r) /\ has_prelude st' /\
                     r = bool_val (relb a b || (a =? b)%Z).

(* <= *)
Theorem le_runs : or_eq_statement "<=" Z.ltb.
Proof.
  intros x y a b st d Hx Hy Hg Hd.
  set (E := c_env "<=" x y).
  set (c := bool_val (a <? b)%Z).
  assert (Hfirst : evals_to 4 (c_first "<=") E (d + 1) c).
  { intros st0 g Hg0.
    destruct (ev_native_call 2 (c_first "<=") (match forms_of (c_first "<=") with y :: _ => y | [] => VNil end)
                (match forms_of (c_first "<=") with _ :: l => l | [] => [] end) [x; y]
                (s "<") lt_native_v E (d + 1) ltac:(lia) ltac:(lia) eq_refl eq_refl) with (st0 := st0) (g := g) as (st1 & Hg1 & He); try exact Hg0.
    - apply (ev_global _ (s "<")); [lia|reflexivity|reflexivity|reflexivity|reflexivity].
    - reflexivity.
    - reflexivity.
    - repeat constructor; arg_local.
    - exists st1. split; [|exact Hg1]. rewrite He. change (2 + g)%nat with (S (1 + g)). apply lt_call_meta; assumption. }
  destruct (loop_closure 4 3 st (c_body "<=") E d (c_lambda "<=") [c_first "<="] [c] (c_closure "<=" x y) false false
              (c_params "<=" x y) (c_if "<=" x y) E pm (c_inner_env "<=" x y c) Hg eq_refl eq_refl) as (st1 & Hg1 & Hcall).
  - apply (evals_to_mono 2 4); [lia|]. eapply ev_lambda; [lia|reflexivity|reflexivity|reflexivity].
  - reflexivity.
  - constructor; [exact Hfirst|constructor].
  - reflexivity.
  - set (E2 := c_inner_env "<=" x y c) in *.
    destruct (loop_if 2 4 st1 (c_if "<=" x y) E2 d (match forms_of (c_if "<=" x y) with h :: _ => h | _ => VNil end)
                (match forms_of (c_if "<=" x y) with _ :: h :: _ => h | _ => VNil end)
                (match forms_of (c_if "<=" x y) with _ :: _ :: h :: _ => h | _ => VNil end)
                (match forms_of (c_if "<=" x y) with _ :: _ :: _ :: h :: _ => h | _ => VNil end) c Hg1 eq_refl eq_refl eq_refl eq_refl)
      as (st2 & Hg2 & Hif); [arg_local|].
    unfold c in *. destruct (a <? b)%Z eqn:Elt.
    + (* the first test holds: its value is the result *)
      destruct (loop_local 5 st2 (match forms_of (c_if "<=" x y) with _ :: _ :: h :: _ => h | _ => VNil end) (Unique 1) (bool_val true) E2 d Hg2 eq_refl eq_refl eq_refl)
        as (st3 & He & Hg3).
      exists 8%nat, st3, (bool_val true). split; [|split; [exact Hg3|reflexivity]].
      change 8%nat with (S (4 + 3)). rewrite Hcall. change (4 + 3)%nat with (S (2 + 4)). rewrite Hif. exact He.
    + destruct (loop_native_call 2 3 st2 (match forms_of (c_if "<=" x y) with _ :: _ :: _ :: h :: _ => h | _ => VNil end) E2 d
                  (match forms_of (match forms_of (c_if "<=" x y) with _ :: _ :: _ :: h :: _ => h | _ => VNil end) with h :: _ => h | _ => VNil end)
                  (match forms_of (match forms_of (c_if "<=" x y) with _ :: _ :: _ :: h :: _ => h | _ => VNil end) with _ :: l => l | _ => [] end)
                  [x; y] (s "=") (match get_global (mods prelude_state) (s "=") pm with GOk v => v | _ => VNil end) Hg2 ltac:(lia) eq_refl eq_refl)
        as (st3 & Hg3 & Hnat).
      * apply (ev_global _ (s "=")); [lia|reflexivity|reflexivity|reflexivity|reflexivity].
      * reflexivity.
      * reflexivity.
      * repeat constructor; arg_local.
      * exists 8%nat, st3, (bool_val (a =? b)%Z). split; [|split; [exact Hg3|reflexivity]].
        change 8%nat with (S (4 + 3)). rewrite Hcall. change (4 + 3)%nat with (S (2 + 4)). rewrite Hif.
        change (2 + 4)%nat with (S (2 + 3)). cbn [is_nil getv bool_val]. rewrite Hnat. change (2 + 3)%nat with (S 4). apply eq_call_meta; assumption.
Qed.

(* >= *)
Theorem ge_runs : or_eq_statement ">=" Z.gtb.
Proof.
  intros x y a b st d Hx Hy Hg Hd.
  set (E := c_env ">=" x y).
  set (c := bool_val (a >? b)%Z).
  assert (Hfirst : evals_to 4 (c_first ">=") E (d + 1) c).
  { intros st0 g Hg0.
    destruct (ev_native_call 2 (c_first ">=") (match forms_of (c_first ">=") with y :: _ => y | [] => VNil end)
                (match forms_of (c_first ">=") with _ :: l => l | [] => [] end) [x; y]
                (s ">") gt_native_v E (d + 1) ltac:(lia) ltac:(lia) eq_refl eq_refl) with (st0 := st0) (g := g) as (st1 & Hg1 & He); try exact Hg0.
    - apply (ev_global _ (s ">")); [lia|reflexivity|reflexivity|reflexivity|reflexivity].
    - reflexivity.
    - reflexivity.
    - repeat constructor; arg_local.
    - exists st1. split; [|exact Hg1]. rewrite He. change (2 + g)%nat with (S (1 + g)). apply gt_call_meta; assumption. }
  destruct (loop_closure 4 3 st (c_body ">=") E d (c_lambda ">=") [c_first ">="] [c] (c_closure ">=" x y) false false
              (c_params ">=" x y) (c_if ">=" x y) E pm (c_inner_env ">=" x y c) Hg eq_refl eq_refl) as (st1 & Hg1 & Hcall).
  - apply (evals_to_mono 2 4); [lia|]. eapply ev_lambda; [lia|reflexivity|reflexivity|reflexivity].
  - reflexivity.
  - constructor; [exact Hfirst|constructor].
  - reflexivity.
  - set (E2 := c_inner_env ">=" x y c) in *.
    destruct (loop_if 2 4 st1 (c_if ">=" x y) E2 d (match forms_of (c_if ">=" x y) with h :: _ => h | _ => VNil end)
                (match forms_of (c_if ">=" x y) with _ :: h :: _ => h | _ => VNil end)
                (match forms_of (c_if ">=" x y) with _ :: _ :: h :: _ => h | _ => VNil end)
                (match forms_of (c_if ">=" x y) with _ :: _ :: _ :: h :: _ => h | _ => VNil end) c Hg1 eq_refl eq_refl eq_refl eq_refl)
      as (st2 & Hg2 & Hif); [arg_local|].
    unfold c in *. destruct (a >? b)%Z eqn:Elt.
    + (* the first test holds: its value is the result *)
      destruct (loop_local 5 st2 (match forms_of (c_if ">=" x y) with _ :: _ :: h :: _ => h | _ => VNil end) (Unique 2) (bool_val true) E2 d Hg2 eq_refl eq_refl eq_refl)
        as (st3 & He & Hg3).
      exists 8%nat, st3, (bool_val true). split; [|split; [exact Hg3|reflexivity]].
      change 8%nat with (S (4 + 3)). rewrite Hcall. change (4 + 3)%nat with (S (2 + 4)). rewrite Hif. exact He.
    + destruct (loop_native_call 2 3 st2 (match forms_of (c_if ">=" x y) with _ :: _ :: _ :: h :: _ => h | _ => VNil end) E2 d
                  (match forms_of (match forms_of (c_if ">=" x y) with _ :: _ :: _ :: h :: _ => h | _ => VNil end) with h :: _ => h | _ => VNil end)
                  (match forms_of (match forms_of (c_if ">=" x y) with _ :: _ :: _ :: h :: _ => h | _ => VNil end) with _ :: l => l | _ => [] end)
                  [x; y] (s "=") (match get_global (mods prelude_state) (s "=") pm with GOk v => v | _ => VNil end) Hg2 ltac:(lia) eq_refl eq_refl)
        as (st3 & Hg3 & Hnat).
      * apply (ev_global _ (s "=")); [lia|reflexivity|reflexivity|reflexivity|reflexivity].
      * reflexivity.
      * reflexivity.
      * repeat constructor; arg_local.
      * exists 8%nat, st3, (bool_val (a =? b)%Z). split; [|split; [exact Hg3|reflexivity]].
        change 8%nat with (S (4 + 3)). rewrite Hcall. change (4 + 3)%nat with (S (2 + 4)). rewrite Hif.
        change (2 + 4)%nat with (S (2 + 3)). cbn [is_nil getv bool_val]. rewrite Hnat. change (2 + 3)%nat with (S 4). apply eq_call_meta; assumption.
Qed.

(* /= : (not (= x y)) *)
Definition ne_val : val := match prelude_global (s "/=") with Some v => v | None => VNil end.
Definition ne_parts := match getv ne_val with VFun _ _ ps b e em => (ps, b, e, em) | _ => ([], VNil, VNil, []) end.
Definition ne_body : val := let '(_, b, _, _) := ne_parts in b.
Definition ne_env (x y : val) : val :=
  let '(ps, _, e, _) := ne_parts in
  match pair_params (s "#<function>") ps false [x; y] e 0 2 with inl env => env | inr _ => VNil end.

Theorem ne_runs : forall x y a b st d, getv x = VNum a -> getv y = VNum b -> has_prelude st -> d + 3 <= MAXD ->
  exists fuel st' r, eval_loop fuel st ne_body (ne_env x y) pm d = (st', ROk r) /\ has_prelude st' /\
                     is_nil r = (a =? b)%Z.
Proof.
  intros x y a b st d Hx Hy Hg Hd.
  set (E := ne_env x y).
  set (eq_form := match forms_of ne_body with _ :: h :: _ => h | _ => VNil end).
  assert (Hfirst : evals_to 4 eq_form E (d + 1) (bool_val (a =? b)%Z)).
  { intros st0 g Hg0.
    destruct (ev_native_call 2 eq_form (match forms_of eq_form with y :: _ => y | [] => VNil end)
                (match forms_of eq_form with _ :: l => l | [] => [] end) [x; y]
                (s "=") (match get_global (mods prelude_state) (s "=") pm with GOk v => v | _ => VNil end) E (d + 1) ltac:(lia) ltac:(lia) eq_refl eq_refl) with (st0 := st0) (g := g) as (st1 & Hg1 & He); try exact Hg0.
    - apply (ev_global _ (s "=")); [lia|reflexivity|reflexivity|reflexivity|reflexivity].
    - reflexivity.
    - reflexivity.
    - repeat constructor; arg_local.
    - exists st1. split; [|exact Hg1]. rewrite He. change (2 + g)%nat with (S (1 + g)). apply eq_call_meta; assumption. }
  destruct (loop_if 4 2 st ne_body E d (match forms_of ne_body with h :: _ => h | _ => VNil end) eq_form
              (match forms_of ne_body with _ :: _ :: h :: _ => h | _ => VNil end)
              (match forms_of ne_body with _ :: _ :: _ :: h :: _ => h | _ => VNil end) (bool_val (a =? b)%Z) Hg eq_refl eq_refl eq_refl eq_refl)
    as (st1 & Hg1 & Hif); [exact Hfirst|].
  destruct (a =? b)%Z eqn:Eeq; cbn [is_nil getv bool_val] in Hif.
  - (* the macro not put the VALUE of nil, the empty list, into the form *)
    destruct (poll_has st1 Hg1) as (st2 & Hp & Hg2).
    exists 7%nat, st2, VNil. split; [|split; [exact Hg2|reflexivity]].
    change 7%nat with (S (4 + 2)). rewrite Hif. change (4 + 2)%nat with (S 5).
    apply (R_nil 5 st1 st2 _ E pm d Hp). reflexivity.
  - destruct (loop_global 5 st1 (match forms_of ne_body with _ :: _ :: _ :: h :: _ => h | _ => VNil end) (s "t") t_value E d Hg1 eq_refl eq_refl eq_refl eq_refl)
      as (st2 & He & Hg2).
    exists 7%nat, st2, t_value. split; [|split; [exact Hg2|reflexivity]].
    change 7%nat with (S (4 + 2)). rewrite Hif. exact He.
Qed.

(* the relation computed, in the usual notation *)
Lemma le_is_le a b : ((a <? b) || (a =? b))%Z = (a <=? b)%Z.
Proof. destruct (Z.ltb_spec a b), (Z.eqb_spec a b), (Z.leb_spec a b); try reflexivity; lia. Qed.
Lemma ge_is_ge a b : ((a >? b) || (a =? b))%Z = (a >=? b)%Z.
Proof. rewrite Z.gtb_ltb, Z.geb_leb. destruct (Z.ltb_spec b a), (Z.eqb_spec a b), (Z.leb_spec b a); try reflexivity; lia. Qed.

Theorem le_spec : forall x y a b st d, getv x = VNum a -> getv y = VNum b -> has_prelude st -> d + 3 <= MAXD ->
  exists fuel st' r, eval_loop fuel st (c_body "<=") (c_env "<=" x y) pm d = (st', ROk r) /\ has_prelude st' /\
                     r = bool_val (a <=? b)%Z.
Proof. intros x y a b st d Hx Hy Hg Hd. destruct (le_runs x y a b st d Hx Hy Hg Hd) as (f & st' & r & H1 & H2 & H3).
       exists f, st', r. rewrite <- le_is_le. auto. Qed.

Theorem ge_spec : forall x y a b st d, getv x = VNum a -> getv y = VNum b -> has_prelude st -> d + 3 <= MAXD ->
  exists fuel st' r, eval_loop fuel st (c_body ">=") (c_env ">=" x y) pm d = (st', ROk r) /\ has_prelude st' /\
                     r = bool_val (a >=? b)%Z.
Proof. intros x y a b st d Hx Hy Hg Hd. destruct (ge_runs x y a b st d Hx Hy Hg Hd) as (f & st' & r & H1 & H2 & H3).
       exists f, st', r. rewrite <- ge_is_ge. auto. Qed.

Example comparison_functions_are_closures :
  (exists ps b e, getv (c_val "<=") = VFun false false ps b e pm) /\ (exists ps b e, getv (c_val ">=") = VFun false false ps b e pm) /\
  (exists ps b e, getv ne_val = VFun false false ps b e pm).
Proof. vm_compute. repeat split; eexists; eexists; eexists; reflexivity. Qed.
