(* C20, detached: on the whole enumerated family (depth 1, 294 programs) the stepping evaluator
   yields the value or signal and the output of the evaluator.  Kernel computation over the
   debugger text generated from src/debugger.lisp. *)
From PL Require Import Eval.PreludeState Eval.DebuggerProofs.
Local Open Scope list_scope.

Lemma orb_negb_true (a b : bool) : a = true -> negb a || b = true -> b = true.
Proof. intros ->. simpl. auto. Qed.

Definition detached_ok (p : val) : bool := negb (has_body p) || agrees_with [] p.

Lemma detached_all : forallb detached_ok programs1 = true.
Proof. vm_cast_no_check (eq_refl true). Qed.

Theorem enumerated_agree_detached : forall p, In p programs1 -> has_body p = true -> agrees_with [] p = true.
Proof.
  intros p Hin Hb.
  exact (orb_negb_true (has_body p) (agrees_with [] p) Hb (forallb_In detached_ok programs1 detached_all p Hin)).
Qed.
