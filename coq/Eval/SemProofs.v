(* Semantic lemmas over the evaluator model used by C05 / C07 / C08 / C15 / C19. *)
From PL Require Import Eval.EvalRules.
From Coq Require Import String.
Local Open Scope string_scope.
Local Open Scope list_scope.
Local Open Scope N_scope.

(* ---------- environments: innermost binding wins (lexical shadowing) ---------- *)
Definition bind (p v env : val) : val := VCons (VCons p v) env.

Lemma lookup_bind_same k v env : env_lookup (bind (VSym k) v env) k = LFound v.
Proof. cbn. assert (sym_eqb k k = true) as -> by (apply sym_eqb_eq; reflexivity). reflexivity. Qed.

Lemma lookup_bind_other k k' v env : sym_eqb k' k = false ->
  env_lookup (bind (VSym k') v env) k = env_lookup env k.
Proof. intros H. cbn. rewrite H. reflexivity. Qed.

(* parameters may carry reader metadata: the wrapper is looked through *)
Lemma lookup_bind_same_meta md k v env : env_lookup (bind (VMeta md (VSym k)) v env) k = LFound v.
Proof. cbn. assert (sym_eqb k k = true) as -> by (apply sym_eqb_eq; reflexivity). reflexivity. Qed.

(* ---------- pair_params_and_args: exact arity ---------- *)
Fixpoint bind_all (params args : list val) (env : val) : val :=
  match params, args with
  | p :: ps, a :: as_ => bind_all ps as_ (bind p a env)
  | _, _ => env
  end.

Lemma pair_params_exact src : forall params args env i n,
  List.length params = List.length args ->
  pair_params src params false args env i n = inl (bind_all params args env).
Proof.
  induction params as [|p ps IH]; intros [|a args] env i n Hl; cbn in Hl; try lia; [reflexivity|].
  cbn [pair_params bind_all]. destruct ps as [|p2 ps].
  - destruct args; [reflexivity|cbn in Hl; lia].
  - apply IH. cbn in *. lia.
Qed.

Lemma pair_params_too_few src : forall params args env i n,
  (List.length args < List.length params)%nat ->
  pair_params src params false args env i n =
  inr (make_error "wrong-number-of-arguments" src [("expected", vnat (S (i + List.length args))); ("actual", vnat n)]).
Proof.
  induction params as [|p ps IH]; intros args env i n Hl; cbn in Hl; [lia|].
  destruct args as [|a args].
  - cbn. destruct ps; rewrite Nat.add_0_r; reflexivity.
  - cbn [pair_params]. destruct ps as [|p2 ps].
    + cbn in Hl. lia.
    + rewrite IH by (cbn in *; lia).
      replace (S (i + List.length (a :: args))) with (S (S i + List.length args)) by (cbn [List.length]; lia). reflexivity.
Qed.

Lemma pair_params_too_many src : forall params args env i n,
  (List.length params < List.length args)%nat ->
  pair_params src params false args env i n =
  inr (make_error "wrong-number-of-arguments" src [("expected", vnat (i + List.length params)); ("actual", vnat n)]).
Proof.
  induction params as [|p ps IH]; intros args env i n Hl.
  - destruct args; [cbn in Hl; lia|]. cbn. rewrite Nat.add_0_r. reflexivity.
  - destruct args as [|a args]; [cbn in Hl; lia|]. cbn [pair_params]. destruct ps as [|p2 ps].
    + destruct args; [cbn in Hl; lia|]. cbn [pair_params List.length].
      replace (i + 1)%nat with (S i) by lia. reflexivity.
    + rewrite IH by (cbn in *; lia).
      replace (i + List.length (p :: p2 :: ps))%nat with (S i + List.length (p2 :: ps))%nat by (cbn [List.length]; lia). reflexivity.
Qed.

(* with a rest parameter: the fixed parameters positionally, the rest parameter bound to the
   list of the remaining arguments (possibly empty) *)
Lemma pair_params_rest src : forall ps r args env i n,
  (List.length ps <= List.length args)%nat ->
  pair_params src (ps ++ [r]) true args env i n =
  inl (bind r (vec_to_list (skipn (List.length ps) args)) (bind_all ps (firstn (List.length ps) args) env)).
Proof.
  induction ps as [|p ps IH]; intros r args env i n Hl.
  - cbn. destruct args; reflexivity.
  - destruct args as [|a args]; [cbn in Hl; lia|].
    cbn [app pair_params]. destruct (ps ++ [r]) as [|x xs] eqn:E; [destruct ps; discriminate|].
    rewrite <- E. rewrite IH by (cbn in Hl; lia). reflexivity.
Qed.

(* ---------- abort is untrappable: through ANY number of nested traps ---------- *)
Fixpoint trap_nest (n : nat) (e : val) (handlers : list val) : val :=
  match n, handlers with
  | S k, h :: hs => VTrap (trap_nest k e hs) h
  | _, _ => e
  end.

Definition quiet (st : state) : Prop := attached st = false.

Lemma poll_quiet st : quiet st -> exists st', poll st = (st', None) /\ quiet st' /\
  mods st' = mods st /\ cur st' = cur st /\ out st' = out st /\ gensyms st' = gensyms st /\ stdin st' = stdin st.
Proof. unfold quiet, poll. intros H. rewrite H. eexists. repeat split. Qed.

(* a state-insensitive formulation: an expression that aborts from every quiet state *)
Definition aborts_from (k : nat) (e env : val) (m : text) (d : N) : Prop :=
  forall f st, (k <= f)%nat -> quiet st -> exists st', eval_internal f st e env m d = (st', RAbort) /\ quiet st'.

Lemma abort_through_one_trap k e h env m d :
  aborts_from k e env m (d + 1) -> MAXD <? d = false ->
  aborts_from (S (S k)) (VTrap e h) env m d.
Proof.
  intros Ha Hd f st Hf Hq. destruct f as [|[|f]]; try lia.
  rewrite R_entry, Hd.
  destruct (poll_quiet st Hq) as (st' & Hp & Hq' & _).
  destruct (Ha f st' ltac:(lia) Hq') as (st1 & He & Hq1).
  exists st1. split; [|exact Hq1].
  eapply R_trap_other; [exact Hp|reflexivity|reflexivity|exact He|discriminate].
Qed.

Theorem abort_through_traps : forall n k e handlers env m d,
  (List.length handlers = n)%nat -> aborts_from k e env m (d + N.of_nat n) -> d + N.of_nat n <= MAXD + 1 ->
  aborts_from (k + 2 * n) (trap_nest n e handlers) env m d.
Proof.
  induction n as [|n IH]; intros k e handlers env m d Hl Ha Hd.
  - destruct handlers; [|discriminate]. cbn [trap_nest]. cbn [N.of_nat] in Ha. rewrite N.add_0_r in Ha.
    intros f st Hf Hq. apply Ha; [lia|exact Hq].
  - destruct handlers as [|h hs]; [discriminate|]. cbn [trap_nest].
    replace (k + 2 * S n)%nat with (S (S (k + 2 * n))) by lia.
    apply abort_through_one_trap.
    + apply IH; [cbn in Hl; lia| |lia]. replace (d + 1 + N.of_nat n) with (d + N.of_nat (S n)) by lia. exact Ha.
    + apply N.ltb_ge. lia.
Qed.

(* the primitive `abort` aborts; `signal` can never produce an abort *)
Lemma abort_native_aborts st d : simple_native st (s "abort") [] d = Some (st, RAbort).
Proof. reflexivity. Qed.

Lemma signal_never_aborts st x d : exists r, simple_native st (s "signal") [x] d = Some (st, r) /\ r <> RAbort /\
  (is_nil x = false -> r = RSig x).
Proof.
  cbn. destruct (is_nil x) eqn:E; eexists; (split; [reflexivity|]); split; try discriminate; try congruence; auto.
Qed.

(* a signal raised by the HANDLER of a trap is the result of that trap (it goes to the next
   enclosing trap, not back into the same one) *)
Lemma handler_signal_goes_outward f st st' e env m d nb tb st1 sg st2 sg2 :
  poll st = (st', None) -> list_to_vec e = None -> getv e = VTrap nb tb ->
  eval_internal f st' nb env m (d + 1) = (st1, RSig sg) ->
  eval_internal f st1 tb (VCons (VCons (vsym "*trapped-signal*") sg) env) m (d + 1) = (st2, RSig sg2) ->
  eval_loop (S f) st e env m d = (st2, RSig sg2).
Proof. intros Hp Hl Hg Hn Hh. rewrite (R_trap_sig f st st' e env m d Hp nb tb st1 sg Hl Hg Hn). exact Hh. Qed.

(* inside the handler *trapped-signal* is bound to exactly the signal value *)
Lemma trapped_signal_bound sg env : env_lookup (VCons (VCons (vsym "*trapped-signal*") sg) env) (Named (s "*trapped-signal*")) = LFound sg.
Proof. reflexivity. Qed.

(* errors built by argument validation are property lists carrying kind and source *)
Lemma validate_error_shape src sig args e : validate src sig args = Some e ->
  exists kind details, e = make_error kind src details.
Proof.
  unfold validate. destruct (Nat.eqb (List.length args) (List.length sig)).
  - revert args. induction sig as [|t sig IH]; intros [|a args] H; cbn in H; try discriminate.
    destruct (cast_ok t a); [apply IH in H; exact H|]. injection H as <-. eexists. eexists. reflexivity.
  - intros H. injection H as <-. eexists. eexists. reflexivity.
Qed.

Lemma make_error_has_kind_and_source kind src details :
  property "kind" (make_error kind src details) = Some (vsym kind) \/ list_to_vec (plist details) = None.
Proof.
  unfold property, make_error. cbn [list_to_vec].
  destruct (list_to_vec (plist details)) as [l|] eqn:E; [left|right; reflexivity].
  reflexivity.
Qed.

(* ---------- C19: a pending command is honoured at the very next evaluator step ---------- *)
Lemma poll_interrupt st rest_chan : attached st = true -> chan st = s "INTERRUPT" :: rest_chan ->
  exists st', poll st = (st', Some (RSig (make_error "interrupted" (s "eval") []))) /\ mods st' = mods st /\ cur st' = cur st.
Proof. intros Ha Hc. unfold poll. rewrite Ha, Hc. cbn. eexists. repeat split. Qed.

Lemma poll_abort st rest_chan : attached st = true -> chan st = s "ABORT" :: rest_chan ->
  exists st', poll st = (st', Some RAbort) /\ mods st' = mods st /\ cur st' = cur st.
Proof. intros Ha Hc. unfold poll. rewrite Ha, Hc. cbn. eexists. repeat split. Qed.

(* whatever is being evaluated - any expression, environment, module, depth, also a
   non-terminating one: the activation that reaches the poll returns at once *)
Theorem interrupt_at_next_step f st e env m d rest_chan : attached st = true -> chan st = s "INTERRUPT" :: rest_chan ->
  exists st', eval_loop (S f) st e env m d = (st', RSig (make_error "interrupted" (s "eval") [])) /\ mods st' = mods st /\ cur st' = cur st.
Proof.
  intros Ha Hc. destruct (poll_interrupt st rest_chan Ha Hc) as (st' & Hp & Hm & Hcur).
  exists st'. split; [apply R_poll; exact Hp|auto].
Qed.

Theorem abort_at_next_step f st e env m d rest_chan : attached st = true -> chan st = s "ABORT" :: rest_chan ->
  exists st', eval_loop (S f) st e env m d = (st', RAbort) /\ mods st' = mods st /\ cur st' = cur st.
Proof.
  intros Ha Hc. destruct (poll_abort st rest_chan Ha Hc) as (st' & Hp & Hm & Hcur).
  exists st'. split; [apply R_poll; exact Hp|auto].
Qed.

(* a command injected to arrive before poll k is seen by poll k when the channel is empty *)
Lemma poll_injected st c : attached st = true -> chan st = [] -> inject st = [(polls st + 1, c)] ->
  c = s "INTERRUPT" -> exists st', poll st = (st', Some (RSig (make_error "interrupted" (s "eval") []))).
Proof.
  intros Ha Hc Hi ->. unfold poll. rewrite Ha, Hc, Hi. cbn. rewrite N.eqb_refl. cbn. eexists. reflexivity.
Qed.

(* ---------- C15: globals are constants ---------- *)
Lemma assoc_insert_same {A} k (v : A) l : assoc k (insert_key k v l) = Some v.
Proof. unfold insert_key. cbn. rewrite text_eqb_refl. reflexivity. Qed.

Lemma assoc_remove_same {A} k (l : list (text * A)) : assoc k (remove_key k l) = None.
Proof.
  induction l as [|[k' v] l IH]; cbn; [reflexivity|].
  destruct (text_eqb_spec k k') as [->|Hn]; [exact IH|]. cbn.
  destruct (text_eqb_spec k k'); [congruence|exact IH].
Qed.

Lemma assoc_remove_other {A} k k' (l : list (text * A)) : k <> k' -> assoc k (remove_key k' l) = assoc k l.
Proof.
  intros Hn. induction l as [|[k2 v] l IH]; cbn; [reflexivity|].
  destruct (text_eqb_spec k' k2) as [->|Hn2].
  - destruct (text_eqb_spec k k2); [congruence|exact IH].
  - cbn. destruct (text_eqb_spec k k2); [reflexivity|exact IH].
Qed.

Lemma find_update_same m ms : find_module (mod_name m) (update_module m ms) = Some m.
Proof.
  induction ms as [|x ms IH]; cbn.
  - rewrite text_eqb_refl. reflexivity.
  - destruct (text_eqb_spec (mod_name m) (mod_name x)) as [E|E]; cbn.
    + rewrite text_eqb_refl. reflexivity.
    + destruct (text_eqb_spec (mod_name m) (mod_name x)); [congruence|exact IH].
Qed.

Lemma find_update_other m ms name : name <> mod_name m -> find_module name (update_module m ms) = find_module name ms.
Proof.
  intros Hn. induction ms as [|x ms IH]; cbn.
  - destruct (text_eqb_spec name (mod_name m)); [congruence|reflexivity].
  - destruct (text_eqb_spec (mod_name m) (mod_name x)) as [E|E]; cbn.
    + destruct (text_eqb_spec name (mod_name m)); [congruence|].
      destruct (text_eqb_spec name (mod_name x)); [congruence|reflexivity].
    + destruct (text_eqb_spec name (mod_name x)); [reflexivity|exact IH].
Qed.

Definition current_defs (st : state) : list (text * val) := mod_defs (current_module st).

Lemma current_module_name st : mod_name (current_module st) = cur st.
Proof.
  unfold current_module. destruct (find_module (cur st) (mods st)) as [m|] eqn:E; [|reflexivity].
  clear -E. induction (mods st) as [|x l IH]; cbn in E; [discriminate|].
  destruct (text_eqb_spec (cur st) (mod_name x)); [injection E as <-; congruence|auto].
Qed.

(* define never overwrites: an existing name gives a signal and leaves the state alone *)
Lemma define_never_overwrites st n v doc d x dtext :
  getv n = VSym x -> list_to_string doc = Some dtext -> is_global_defined st (sym_name x) = true ->
  simple_native st (s "define") [n; v; doc] d =
  Some (st, RSig (make_error "already-defined" (s "define") [("symbol", n)])).
Proof. intros Hn Hd Hdef. cbn. rewrite Hn, Hd, Hdef. reflexivity. Qed.

Lemma define_new st n v doc d x dtext :
  getv n = VSym x -> list_to_string doc = Some dtext -> is_global_defined st (sym_name x) = false ->
  exists value, simple_native st (s "define") [n; v; doc] d = Some (define_global st (sym_name x) value, ROk sym_ok) /\
                getv value = getv v.
Proof.
  intros Hn Hd Hdef. cbn. rewrite Hn, Hd, Hdef. destruct (get_meta n); eexists; (split; [reflexivity|]); reflexivity.
Qed.

Lemma define_global_defines st name v : assoc name (current_defs (define_global st name v)) = Some v /\ cur (define_global st name v) = cur st.
Proof.
  unfold current_defs, current_module, define_global. cbn.
  pose proof (current_module_name st) as Hn. unfold current_module in Hn.
  set (m := match find_module (cur st) (mods st) with Some m => m | None => Module (cur st) [] None end) in *.
  replace (cur st) with (mod_name (Module (mod_name m) (insert_key name v (mod_defs m)) (mod_exports m))) at 1 by (cbn; exact Hn).
  rewrite find_update_same. cbn. rewrite text_eqb_refl. auto.
Qed.

(* undefine removes exactly that name from the current module *)
Lemma undefine_exact st name : assoc name (current_defs (undefine_global st name)) = None /\
  (forall other, other <> name -> assoc other (current_defs (undefine_global st name)) = assoc other (current_defs st)) /\
  (forall mn, mn <> cur st -> find_module mn (mods (undefine_global st name)) = find_module mn (mods st)) /\
  cur (undefine_global st name) = cur st.
Proof.
  unfold current_defs, undefine_global.
  pose proof (current_module_name st) as Hn.
  set (m := current_module st) in *.
  set (m' := Module (mod_name m) (remove_key name (mod_defs m)) (mod_exports m)).
  assert (Hcm : current_module (set_mods st (update_module m' (mods st))) = m').
  { unfold current_module. cbn [cur mods set_mods].
    replace (cur st) with (mod_name m') by (cbn; exact Hn). rewrite find_update_same. reflexivity. }
  rewrite Hcm. cbn [mod_defs m']. repeat split.
  - apply assoc_remove_same.
  - intros other Ho. apply assoc_remove_other. exact Ho.
  - intros mn Hmn. cbn [mods set_mods]. apply find_update_other. cbn. congruence.
Qed.

Lemma undefine_then_define st name : is_global_defined (undefine_global st name) name = false.
Proof.
  unfold is_global_defined. destruct (undefine_exact st name) as [H _]. unfold current_defs in H. rewrite H. reflexivity.
Qed.

(* load-all: whatever happens while the text is loaded - success, a read error, incomplete
   input, a signal or an abort at any form, nested loads - the module that was current
   before the load is current afterwards *)
Theorem load_restores_current f st input source env d st' r :
  call_native (S f) st (s "load-all") [input; source] env d = (st', r) ->
  (forall site, r <> RPanic site) -> cur st' = cur st.
Proof.
  cbn [call_native].
  change (find_native (s "load-all") native_table) with
    (Some (Build_native_info (s "load-all") false [s "string"; s "source"]
             (n_doc (match find_native (s "load-all") native_table with Some i => i | None => Build_native_info [] false [] [] None false end))
             (Some [TString; TAny]) false)).
  cbn [n_depth_check n_sig andb].
  destruct (validate (s "load-all") [TString; TAny] [input; source]) as [er|]; [intros H; injection H as <- _; reflexivity|].
  cbn.
  destruct (load_loop f _ input source 1 1 d) as [st1 r1].
  unfold set_current_module. destruct (find_module (cur st) (mods st1)).
  - intros H _. injection H as <- _. reflexivity.
  - intros H Hp. injection H as _ <-. exfalso. eapply Hp. reflexivity.
Qed.
