(* Interpreter state at the value level: module tables (src/memory/mod.rs Module / Memory),
   generated-symbol counter, captured standard output, scripted standard input, and the
   debugger command channel ("umbilical"). *)
From PL Require Export Data.Val.
From Coq Require Import String.
Local Open Scope N_scope.

Record module := Module { mod_name : text; mod_defs : list (text * val); mod_exports : option (list text) }.

Record state := State {
  mods : list module;          (* the module table; a hash map in the code: ORDER IS UNSPECIFIED *)
  cur : text;                  (* name of the current module *)
  gensyms : N;                 (* next unique-symbol id *)
  out : text;                  (* everything written to *stdout* so far *)
  stdin : list text;           (* scripted OS reads still to come (one chunk per read) *)
  attached : bool;             (* a debugger is attached *)
  chan : list text;            (* commands already in the channel, oldest first *)
  inject : list (N * text);    (* commands that become pending exactly before poll k *)
  polls : N                    (* polls of the channel so far *)
}.

Definition set_mods (st : state) (m : list module) : state :=
  State m (cur st) (gensyms st) (out st) (stdin st) (attached st) (chan st) (inject st) (polls st).
Definition set_cur (st : state) (c : text) : state :=
  State (mods st) c (gensyms st) (out st) (stdin st) (attached st) (chan st) (inject st) (polls st).
Definition set_out (st : state) (o : text) : state :=
  State (mods st) (cur st) (gensyms st) o (stdin st) (attached st) (chan st) (inject st) (polls st).
Definition set_stdin (st : state) (i : list text) : state :=
  State (mods st) (cur st) (gensyms st) (out st) i (attached st) (chan st) (inject st) (polls st).
Definition bump_gensym (st : state) : state :=
  State (mods st) (cur st) (gensyms st + 1) (out st) (stdin st) (attached st) (chan st) (inject st) (polls st).

(* ---- association lists keyed by text ---- *)
Fixpoint assoc {A} (k : text) (l : list (text * A)) : option A :=
  match l with
  | [] => None
  | (k', v) :: r => if text_eqb k k' then Some v else assoc k r
  end.
Fixpoint remove_key {A} (k : text) (l : list (text * A)) : list (text * A) :=
  match l with
  | [] => []
  | (k', v) :: r => if text_eqb k k' then remove_key k r else (k', v) :: remove_key k r
  end.
Definition insert_key {A} (k : text) (v : A) (l : list (text * A)) : list (text * A) :=
  (k, v) :: remove_key k l.
Fixpoint mem_text (k : text) (l : list text) : bool :=
  match l with [] => false | x :: r => text_eqb k x || mem_text k r end.

(* ---- modules ---- *)
Fixpoint find_module (name : text) (ms : list module) : option module :=
  match ms with
  | [] => None
  | m :: r => if text_eqb name (mod_name m) then Some m else find_module name r
  end.

Fixpoint update_module (m : module) (ms : list module) : list module :=
  match ms with
  | [] => [m]
  | x :: r => if text_eqb (mod_name m) (mod_name x) then m :: r else x :: update_module m r
  end.

Definition exported (m : module) (name : text) : bool :=
  match mod_exports m with None => true | Some e => mem_text name e end.

(* Module::get *)
Definition module_get (m : module) (name asking : text) : option val :=
  if exported m name || text_eqb asking (mod_name m) then assoc name (mod_defs m) else None.

(* module names in the order of Rust's String comparison (lexicographic by code point) *)
Fixpoint text_leb (a b : text) : bool :=
  match a, b with
  | [], _ => true
  | _ :: _, [] => false
  | x :: a', y :: b' => if x <? y then true else if y <? x then false else text_leb a' b'
  end.
Fixpoint insert_text (x : text) (l : list text) : list text :=
  match l with
  | [] => [x]
  | y :: r => if text_leb x y then x :: l else y :: insert_text x r
  end.
Fixpoint sort_texts (l : list text) : list text :=
  match l with [] => [] | x :: r => insert_text x (sort_texts r) end.

Inductive gres := GOk (v : val) | GAmbiguous (ms : list text) | GNotFound.

(* Memory::get_global : every module in which the name is visible to [asking] *)
Fixpoint visible_in (ms : list module) (name asking : text) : list (text * val) :=
  match ms with
  | [] => []
  | m :: r => match module_get m name asking with
              | Some v => (mod_name m, v) :: visible_in r name asking
              | None => visible_in r name asking
              end
  end.

Definition get_global (ms : list module) (name asking : text) : gres :=
  match visible_in ms name asking with
  | [] => GNotFound
  | [(_, v)] => GOk v
  | l => GAmbiguous (sort_texts (map fst l))
  end.

Inductive fmres := FOk (v : val) | FNotFound | FNoModule.
Definition get_global_from_module (ms : list module) (name modname : text) : fmres :=
  match find_module modname ms with
  | Some m => if exported m name then match assoc name (mod_defs m) with Some v => FOk v | None => FNotFound end
              else FNotFound
  | None => FNoModule
  end.

Definition modules_defining (ms : list module) (name : text) : list text :=
  sort_texts (map mod_name (filter (fun m => match assoc name (mod_defs m) with Some _ => true | None => false end) ms)).

Definition current_module (st : state) : module :=
  match find_module (cur st) (mods st) with Some m => m | None => Module (cur st) [] None end.

Definition is_global_defined (st : state) (name : text) : bool :=
  match assoc name (mod_defs (current_module st)) with Some _ => true | None => false end.

Definition define_global (st : state) (name : text) (v : val) : state :=
  let m := current_module st in
  set_mods st (update_module (Module (mod_name m) (insert_key name v (mod_defs m)) (mod_exports m)) (mods st)).

Definition undefine_global (st : state) (name : text) : state :=
  let m := current_module st in
  set_mods st (update_module (Module (mod_name m) (remove_key name (mod_defs m)) (mod_exports m)) (mods st)).

Definition add_export (st : state) (name : text) : state :=
  let m := current_module st in
  let e := match mod_exports m with None => [name] | Some e => if mem_text name e then e else e ++ [name] end in
  set_mods st (update_module (Module (mod_name m) (mod_defs m) (Some e)) (mods st)).

(* Memory::define_module : a fresh empty module replaces any module of that name and becomes current *)
Definition define_module (st : state) (name : text) : state :=
  set_cur (set_mods st (update_module (Module name [] None) (mods st))) name.

Definition set_current_module (st : state) (name : text) : option state :=
  match find_module name (mods st) with Some _ => Some (set_cur st name) | None => None end.
