(* The interpreter states after loading the GENERATED text of prelude.lisp (and repl.lisp,
   debugger.lisp) with the model reader and evaluator - computed once, by the kernel's
   virtual machine, when this file is compiled. *)
From PL Require Export Eval.Run.
From Coq Require Import String.
Local Open Scope string_scope.
Local Open Scope list_scope.
Local Open Scope N_scope.

Definition prelude_load := Eval vm_compute in (load_source big_fuel init_state prelude_src (s "prelude")).
Definition prelude_state : state := fst prelude_load.
Definition prelude_ok : bool := match snd prelude_load with ROk _ => true | _ => false end.

Definition repl_load := Eval vm_compute in (load_source big_fuel prelude_state repl_src (s "repl")).
Definition repl_state : state := fst repl_load.
Definition repl_ok : bool := match snd repl_load with ROk _ => true | _ => false end.

Definition debugger_load := Eval vm_compute in (load_source big_fuel prelude_state debugger_src (s "debugger")).
Definition debugger_state : state := fst debugger_load.
Definition debugger_ok : bool := match snd debugger_load with ROk _ => true | _ => false end.
