(* GENERATED from src/native/numbers/mod.rs by gen/gen.py - do not edit *)
From PL Require Import Data.Arith.
From Coq Require Import String List.
Import ListNotations.
Local Open Scope string_scope.

Definition numbers_impl : list (string * arith_impl) :=
  [
   ("add", AOp None Checked OpAdd "arithmetic-overflow");
   ("substract", AOp None Checked OpSub "arithmetic-overflow");
   ("multiply", AOp None Checked OpMul "arithmetic-overflow");
   ("divide", AOp (Some "divide-by-zero") Checked OpDiv "arithmetic-overflow");
   ("<", ACmp CmpLt);
   (">", ACmp CmpGt)
  ].
