(* GENERATED from src/config.rs by gen/gen.py - do not edit *)
From Coq Require Import NArith.
Local Open Scope N_scope.

Definition INITIAL_FREE_CELLS : N := 256.
Definition MAX_RECURSION_DEPTH : N := 1024.
Definition GUI_OUTPUT_BUFFER_SIZE : N := 1024.
Definition CALL_STACK_SIZE : N := 8388608.
Definition MAXIMUM_FREE_RATIO_num : N := 3.
Definition MAXIMUM_FREE_RATIO_den : N := 4.
Definition MINIMUM_FREE_RATIO_num : N := 1.
Definition MINIMUM_FREE_RATIO_den : N := 10.
Definition ALLOCATION_RATIO_num : N := 1.
Definition ALLOCATION_RATIO_den : N := 1.
