(* GENERATED static facts about the Rust source by gen/gen.py - do not edit *)
From Coq Require Import String List.
Import ListNotations.
Local Open Scope string_scope.

Definition pointer_fields : list (string * string) := [("ConsCell", "car"); ("ConsCell", "cdr"); ("Symbol", "own_address"); ("NormalFunction", "parameters"); ("NormalFunction", "body"); ("NormalFunction", "environment"); ("Trap", "normal_body"); ("Trap", "trap_body"); ("GcRef", "pointer"); ("Meta", "value")].
Definition mark_pushes : list (string * string) := [("root", "cell"); ("Meta", "value"); ("ConsCell", "car"); ("ConsCell", "cdr"); ("Trap", "normal_body"); ("Trap", "trap_body"); ("NormalFunction", "body"); ("NormalFunction", "environment"); ("NormalFunction", "parameters")].
Definition mark_has_visited_check : bool := true.
Definition memory_fields : list string := ["modules"; "current_module"; "symbols"; "cells"; "first_free"; "stdout"; "stdin"; "umbilical"].
Definition raw_pointer_use_outside_memory : list (string * string) := [].
Definition hash_iteration_sites : list (string * string) := [("src/memory/mod.rs", "get_global"); ("src/memory/mod.rs", "get_module_of_global"); ("src/native/debug/mod.rs", "receive"); ("src/native/eval/mod.rs", "eval_internal"); ("src/native/eval/mod.rs", "macroexpand_internal")].
