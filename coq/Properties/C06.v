(* C06 - totality: every call ends in a value or a Lisp signal, never a crash.  Only statements;
   proofs in Data/ReaderProofs.v, Data/ArithProofs.v, Eval/TotalityProofs.v, Eval/SemProofs.v.
   PARTIAL: the model carries the panic sites transcribed from the Rust code; the theorems show,
   site by site, that no input reaches them (reader, read positions, arithmetic, send, lookup).
   Native-stack exhaustion of uncounted recursion (=, print on deep data) is behaviour of the
   runtime the model cannot exhibit: that part is decided on the binary only. *)
From PL Require Import Data.ReaderProofs Data.ArithProofs Eval.Eval Eval.EvalRules Eval.SemProofs Eval.TotalityProofs Eval.NativesTotal Eval.ModulesPersist Eval.EvalTotal Eval.Run Eval.PreludeState.
From Coq Require Import String.
Local Open Scope string_scope.
Local Open Scope list_scope.
Local Open Scope N_scope.

(* read: no text, start position or source reaches a panic site of the tokenizer or parser *)
Theorem C06_reader_total : forall src inp inv line col, rd_not_panic (read_text src inp inv line col).
Proof. exact read_text_never_panics. Qed.
Print Assumptions C06_reader_total.

(* arithmetic natives, as generated from the source: never a panic, in either build profile *)
Theorem C06_arithmetic_total : forall n x y a, in_i64 x = true -> in_i64 y = true -> impl_of n = Some a ->
  arith_eval a x y <> APanic /\ forall w, arith_eval a x y <> APanicOrWrap w.
Proof. exact arith_never_panics. Qed.
Print Assumptions C06_arithmetic_total.

(* evaluation deeper than the limit is a signal, for every expression (the counted recursion) *)
Theorem C06_depth_is_a_signal : forall f st e env m d, MAXD < d ->
  eval_internal (S f) st e env m d = (st, RSig (make_error "stackoverflow" (s "eval") [])).
Proof. exact depth_guard. Qed.
Print Assumptions C06_depth_is_a_signal.

(* variable lookup is a total function of ANY value used as environment (its result type has no
   failure case); on association lists the first binding of the symbol wins, and parameter binding
   and the trap handler only ever extend an association list by (symbol . value) pairs *)
Theorem C06_lookup_first_binding : forall kv rest key v k' k, getv kv = VCons key v -> getv key = VSym k' ->
  env_lookup (VCons kv rest) k = if sym_eqb k' k then LFound v else env_lookup rest k.
Proof. exact lookup_first_binding. Qed.
Print Assumptions C06_lookup_first_binding.

Theorem C06_handmade_environment_harmless : forall k rest, env_lookup (VNum 5) k = LMissing /\ env_lookup (VSym (Named (s "e"))) k = LMissing /\
  env_lookup (VCons (VNum 1) rest) k = env_lookup rest k /\ env_lookup (VCons (VCons (VNum 1) (VNum 2)) rest) k = env_lookup rest k.
Proof. exact lookup_handmade. Qed.
Print Assumptions C06_handmade_environment_harmless.

Theorem C06_binding_keeps_alist : forall src params rest args env i n env',
  symbols params -> wf_env env -> pair_params src params rest args env i n = inl env' -> wf_env env'.
Proof. exact pair_params_wf. Qed.
Print Assumptions C06_binding_keeps_alist.

Theorem C06_trap_keeps_alist : forall sg env, wf_env env -> wf_env (VCons (VCons (vsym "*trapped-signal*") sg) env).
Proof. exact trap_env_wf. Qed.
Print Assumptions C06_trap_keeps_alist.

(* send: total on every list, of even or odd length, whatever its keys *)
Theorem C06_send_total : forall st data d l, list_to_vec data = Some l ->
  exists r, simple_native st (s "send") [data] d = Some (st, r) /\ forall site, r <> RPanic site.
Proof. exact send_never_panics. Qed.
Print Assumptions C06_send_total.

Theorem C06_send_odd_is_a_signal : forall st d, simple_native st (s "send") [VCons (vsym "a") VNil] d =
  Some (st, RSig (make_error "invalid-plist" (s "send") [("symbol", vsym "data")])).
Proof. exact send_odd_signals. Qed.
Print Assumptions C06_send_odd_is_a_signal.

(* the native read after validation: every text, source and start position (negative, zero, huge) *)
Theorem C06_read_total : forall input source line col site, read_result input source line col <> RPanic site.
Proof. exact read_result_never_panics. Qed.
Print Assumptions C06_read_total.

Example C06_wf_env_inhabited : wf_env (VCons (VCons (vsym "x") (VNum 1)) VNil) /\ symbols [vsym "x"; vsym "y"].
Proof. split; [eapply wf_cons; [reflexivity|reflexivity|constructor]|repeat constructor; eexists; reflexivity]. Qed.

(* ---- the whole table of primitives and the whole evaluator ---- *)

(* every native of the GENERATED table, every argument list that passes its generated
   validate_args! signature: a value, a signal or an abort - never a panic site.  [model_limit]
   names the two places where the model itself gives up (file system access; a native-function
   value whose name is not in the table, which the interpreter cannot construct). *)
Theorem C06_no_primitive_panics : forall st name info sig args d st' site,
  find_native name native_table = Some info -> n_sig info = Some sig -> validate name sig args = None ->
  simple_native st name args d = Some (st', RPanic site) -> model_limit site.
Proof. exact natives_never_panic. Qed.
Print Assumptions C06_no_primitive_panics.

(* the evaluator, the expander, eval, macroexpand, call-native-function and load-all: for EVERY
   expression, environment, module, depth, amount of fuel, and every state whose current module
   exists, no evaluation ends in a panic site *)
Theorem C06_evaluator_never_panics : forall fuel,
  (forall st e env m d st' site, cur_ok st -> eval_internal fuel st e env m d = (st', RPanic site) -> residual site) /\
  (forall st e env m d st' site, cur_ok st -> eval_loop fuel st e env m d = (st', RPanic site) -> residual site) /\
  (forall st e env m d ch st' site ch', cur_ok st -> expand_internal fuel st e env m d ch = (st', RPanic site, ch') -> residual site) /\
  (forall st e env m d st' site, cur_ok st -> expand_completely fuel st e env m d = (st', RPanic site) -> residual site) /\
  (forall st name args env d st' site, cur_ok st -> call_native fuel st name args env d = (st', RPanic site) -> residual site) /\
  (forall st cursor source line col d st' site, cur_ok st -> load_loop fuel st cursor source line col d = (st', RPanic site) -> residual site).
Proof. exact evaluator_never_panics. Qed.
Print Assumptions C06_evaluator_never_panics.

(* no module ever disappears and the current module always exists - which is why load-all's
   set_current_module(old).unwrap() cannot fail *)
Theorem C06_modules_persist : forall fuel st name args env d st' r,
  call_native fuel st name args env d = (st', r) -> keeps st st'.
Proof. exact persist_n. Qed.
Print Assumptions C06_modules_persist.

Example C06_initial_states_have_their_module : cur_ok init_state /\ cur_ok prelude_state.
Proof. split; unfold cur_ok; vm_compute; discriminate. Qed.

(* the residue of the evaluator-wide theorem, spelled out so that it cannot grow silently *)
Theorem C06_residual_is : forall site, residual site <->
  (site = "model: file system access is not modelled" \/ site = "model: native function value without a table entry") \/ site = "model: unknown native".
Proof. intros site. unfold residual, model_limit. tauto. Qed.
Print Assumptions C06_residual_is.
