(* C11 - the reader. Only statements; proofs in Data/ReaderProofs.v, Data/PositionProofs.v. *)
From PL Require Import Data.Reader Data.ReaderProofs Data.PositionProofs.
From Coq Require Import String.
Local Open Scope string_scope.
Local Open Scope list_scope.
Local Open Scope N_scope.

(* for EVERY text, flag, state of the tokenizer satisfying its loop invariant: no Rust panic
   site is reached, and a returned token or error has consumed at least one character *)
Theorem C11_tokenizer_total : forall inp inv st buf bl cur, tinv inp inv st buf ->
  not_panic (tok inp inv st buf bl cur) /\ strictly_shorter (tok inp inv st buf bl cur) inp.
Proof. exact tok_total. Qed.
Print Assumptions C11_tokenizer_total.

(* the reader as the native calls it, for every text / start position / source *)
Theorem C11_read_never_panics : forall src inp inv line col, rd_not_panic (read_text src inp inv line col).
Proof. exact read_text_never_panics. Qed.
Print Assumptions C11_read_never_panics.

(* `nothing` for every blank text (whitespace, commas, comments), whatever its length *)
Theorem C11_blank_is_nothing : forall src t line col, blank_from false t = true -> read_text src t false line col = inr ENothing.
Proof. exact blank_is_nothing. Qed.
Print Assumptions C11_blank_is_nothing.

(* where the unchanged reader departs from the grammar (known findings): witnesses *)
Theorem C11_known_deviations :
  rd_status (read_text SrcStdin (s "'") false 1 1) = "nothing" /\
  rd_status (read_text SrcStdin (s "%") false 1 1) = "nothing" /\
  rd_status (read_text SrcStdin [c_dq] false 1 1) = "nothing" /\
  match read_text SrcStdin (s "''a") false 1 1, read_text SrcStdin (s "'a") false 1 1 with
  | inl (v1, _, _), inl (v2, _, _) => strip v1 = strip v2 | _, _ => False end /\
  match read_text SrcStdin (s "(a ')") false 1 1, read_text SrcStdin (s "'(a)") false 1 1 with
  | inl (v1, _, _), inl (v2, _, _) => strip v1 = strip v2 | _, _ => False end /\
  match read_text SrcStdin (s "% a") false 1 1, read_text SrcStdin (s "a") false 1 1 with
  | inl (v1, _, _), inl (v2, _, _) => strip v1 = strip v2 | _, _ => False end.
Proof.
  split; [exact dangling_quote_reports_nothing|]. split; [exact lone_percent_reports_nothing|]. split; [exact lone_dquote_reports_nothing|].
  split; [exact nested_quote_collapses|]. split; [exact quote_before_close_quotes_the_list|exact percent_before_blank_is_dropped].
Qed.
Print Assumptions C11_known_deviations.

(* positions are exact, for EVERY text, start position and tokenizer state: the rest reported with a token is a
   suffix of the input and the position reported is the start advanced over exactly the characters consumed
   (newline: next line, column 0; any other character: next column) *)
Theorem C11_token_positions_exact : forall inp inv st buf bl cur t, tok inp inv st buf bl cur = Some (inl t) ->
  exists consumed, inp = consumed ++ trest t /\ tcur t = advance cur consumed /\ consumed <> [].
Proof. exact tok_position. Qed.
Print Assumptions C11_token_positions_exact.

(* an error of the tokenizer is located at the offending character; line/column handed on are that location, 1-based column *)
Theorem C11_error_positions_exact : forall inp inv st buf bl cur m l rest a b,
  tok inp inv st buf bl cur = Some (inr (EError m l rest a b)) ->
  exists consumed, inp = consumed ++ rest /\ l = advance cur consumed /\ consumed <> [] /\
                   (let '(Loc x y) := l in a = x /\ b = y + 1).
Proof. exact tok_error_position. Qed.
Print Assumptions C11_error_positions_exact.

(* a successful read consumed a non-empty prefix, returns exactly the remaining suffix, and the final position is exact *)
Theorem C11_read_positions_exact : forall src inp inv line col v rest l, read_text src inp inv line col = inl (v, rest, l) ->
  exists consumed, inp = consumed ++ rest /\ l = advance (Loc line (col - 1)) consumed /\ consumed <> [].
Proof. exact read_text_position. Qed.
Print Assumptions C11_read_positions_exact.
