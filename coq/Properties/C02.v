(* C02 - evaluation depends only on program and input (GC, hash seed, addresses). Only statements. *)
From PL Require Import Eval.State Eval.SortProofs Eval.ModulesProofs.
From PL Require Import Heap.HeapModel Heap.MarkProofs Heap.CollectProofs Heap.HeapInv Heap.StaticProofs Generated.Static_gen.
From Coq Require Import Permutation String.
Local Open Scope N_scope.

(* hash seed: global lookup (value, ambiguity incl. the listed modules, not-found) and whereis
   are functions of the SET of modules - any iteration order of the table gives the same answer *)
Theorem C02_lookup_independent_of_table_order : forall ms ms' name asking,
  Permutation ms ms' -> get_global ms name asking = get_global ms' name asking.
Proof. exact get_global_perm. Qed.
Print Assumptions C02_lookup_independent_of_table_order.

Theorem C02_whereis_independent_of_table_order : forall ms ms' name,
  Permutation ms ms' -> modules_defining ms name = modules_defining ms' name.
Proof. exact whereis_perm. Qed.
Print Assumptions C02_whereis_independent_of_table_order.

(* the places where the source iterates over a hash map are exactly the ones covered above
   (plus `receive`, whose messages from the debugger have a single key) *)
Theorem C02_hash_iterations_known :
  forallb (fun f => mem_pair f [("src/memory/mod.rs", "get_global"); ("src/memory/mod.rs", "get_module_of_global");
                                ("src/native/debug/mod.rs", "receive"); ("src/native/eval/mod.rs", "eval_internal");
                                ("src/native/eval/mod.rs", "macroexpand_internal")]%string) hash_iteration_sites = true.
Proof. exact hash_iterations_known. Qed.
Print Assumptions C02_hash_iterations_known.

(* collections: a collection at ANY point changes nothing that can be reached through a
   handle or a global - the same addresses are reachable and each designates the very same
   cell record (kind, payload, pointers, count), so no later operation can observe it *)
Theorem C02_collection_invisible_through_handles : forall p h h', wf h -> closed h -> free_rc0 h -> collect p h = Some h' ->
  (forall a, HReach h' a <-> HReach h a) /\
  (forall a c, HReach h a -> find_cell a (cells h) = Some c -> find_cell a (cells h') = Some c).
Proof.
  intros p h h' Hw Hc Hf Hcol. split.
  - intros a. eapply collect_reach; eassumption.
  - intros a c Hr Hfc. eapply find_cell_after; eassumption.
Qed.
Print Assumptions C02_collection_invisible_through_handles.

(* addresses: raw pointers never leave src/memory (no address can influence evaluation
   except through the printed form of functions, traps and generated symbols) *)
Theorem C02_raw_pointers_confined : raw_pointer_use_outside_memory = [].
Proof. exact unsafe_confined. Qed.
Print Assumptions C02_raw_pointers_confined.
