(* C07 - tail calls run in constant depth; deep recursion signals.  Only statements. *)
From PL Require Import Eval.EvalRules Eval.SemProofs Eval.TailProofs Eval.PreludeState Eval.PreludeProofs Eval.LengthProofs.
From Coq Require Import ZArith.
From Coq Require Import String.
Local Open Scope string_scope.
Local Open Scope list_scope.
Local Open Scope N_scope.

(* the three tail positions re-enter the evaluator loop at the SAME depth d *)
Theorem C07_tail_if : forall f st st' e env m d q c t o st1 cv,
  poll st = (st', None) -> list_to_vec e = Some [q; c; t; o] ->
  is_sym q (s "lambda") = false -> is_sym q (s "quote") = false -> is_sym q (s "if") = true ->
  eval_internal f st' c env m (d + 1) = (st1, ROk cv) ->
  eval_loop (S f) st e env m d = eval_loop f st1 (if is_nil cv then o else t) env m d.
Proof. intros; eapply R_if; eassumption. Qed.
Print Assumptions C07_tail_if.

Theorem C07_tail_call : forall f st st' e env m d first rest st1 op mac restp params body cenv cmod st2 args newenv,
  poll st = (st', None) -> list_to_vec e = Some (first :: rest) -> special_form first = false ->
  eval_internal f st' first env m (d + 1) = (st1, ROk op) ->
  getv op = VFun mac restp params body cenv cmod ->
  eval_args f env m d st1 rest [] = (st2, inl args) ->
  pair_params (call_source e) params restp args cenv 0 (List.length args) = inl newenv ->
  eval_loop (S f) st e env m d = eval_loop f st2 body newenv cmod d.
Proof. intros; eapply R_app_closure; eassumption. Qed.
Print Assumptions C07_tail_call.

Theorem C07_tail_eval : forall f st st' e env m d first rest st1 op st2 x st3 x',
  poll st = (st', None) -> list_to_vec e = Some (first :: rest) -> special_form first = false ->
  eval_internal f st' first env m (d + 1) = (st1, ROk op) -> getv op = VNative (s "eval") ->
  eval_args f env m d st1 rest [] = (st2, inl [x]) ->
  expand_completely f st2 x env m (d + 1) = (st3, ROk x') ->
  eval_loop (S f) st e env m d = eval_loop f st3 x' env m d.
Proof. intros; eapply R_app_eval; eassumption. Qed.
Print Assumptions C07_tail_eval.

(* beyond the configured limit every entry into the evaluator is a stackoverflow signal *)
Theorem C07_depth_guard : forall f st e env m d, MAXD < d ->
  eval_internal (S f) st e env m d = (st, RSig (make_error "stackoverflow" (s "eval") [])).
Proof. exact depth_guard. Qed.
Print Assumptions C07_depth_guard.

(* a tail-recursive count-down loop through if / lambda application runs for EVERY number of
   iterations n at the depth it was started at (see Eval/TailProofs.v for the program) *)
Theorem C07_loop_any_length : loop_any_length_statement.
Proof. exact loop_any_length_proof. Qed.
Print Assumptions C07_loop_any_length.

(* the same for code of the interpreter's own prelude (generated text): length walks EVERY list in a
   loop that stays at the depth d it was called at (the statement evaluates the body with eval_loop
   at d for any d + 3 <= MAXD, whatever the length) - and so do range, foldl, reverse and map (C16) *)
Theorem C07_prelude_length_constant_depth : forall xs, in_i64 (Z.of_nat (List.length xs)) = true -> length_statement xs.
Proof. exact length_spec. Qed.
Print Assumptions C07_prelude_length_constant_depth.
