(* C01 - GC safety: nothing reachable is ever reclaimed, altered or left dangling.
   Only statements; proofs in Heap/*.v. *)
From PL Require Import Heap.HeapModel Heap.MarkProofs Heap.CollectProofs Heap.MarkTermination Heap.HeapInv Heap.StepInv Heap.HistoryProofs Heap.StaticProofs.
From PL Require Import Generated.Static_gen.
From Coq Require Import String.
Local Open Scope N_scope.

(* the invariant holds in EVERY state reachable by ANY finite history of operations
   (allocations of every kind, interning, clone/drop, accessors, define/undefine, modules,
   collections - explicit ones and those triggered by allocation), for any sizing policy *)
Theorem C01_invariant_in_every_reachable_state : forall p n ops g,
  run_ops p (init_gstate n) ops = Some g -> ginv g.
Proof. exact history_ginv. Qed.
Print Assumptions C01_invariant_in_every_reachable_state.

Theorem C01_every_operation_preserves_invariant : forall p g o g', ginv g -> step p g o = Some g' -> ginv g'.
Proof. exact step_ginv. Qed.
Print Assumptions C01_every_operation_preserves_invariant.

(* one operation: every cell reachable before it is in use afterwards with the same kind,
   payload and pointers (identity of everything it refers to) *)
Theorem C01_reachable_keeps_content : forall p g o g', ginv g -> step p g o = Some g' ->
  forall c, In c (used (gheap g)) -> HReach (gheap g) (box c) ->
  exists c', In c' (used (gheap g')) /\ box c' = box c /\ content c' = content c.
Proof. exact step_keeps. Qed.
Print Assumptions C01_reachable_keeps_content.

(* no reachable value refers to reclaimed / released storage: every reachable address is
   the box of a cell in the used prefix of the vector *)
Theorem C01_no_dangling : forall p n ops g a, run_ops p (init_gstate n) ops = Some g ->
  HReach (gheap g) a -> exists c, In c (used (gheap g)) /\ box c = a /\ find_cell a (cells (gheap g)) = Some c.
Proof. exact history_no_dangling. Qed.
Print Assumptions C01_no_dangling.

(* a collection keeps every reachable cell as the very same record, in the used prefix *)
Theorem C01_collect_preserves_reachable : forall p h h', wf h -> closed h -> free_rc0 h -> collect p h = Some h' ->
  forall a c, HReach h a -> find_cell a (cells h) = Some c -> find_cell a (cells h') = Some c /\ In c (used h').
Proof. intros; eapply collect_preserves_reachable; eassumption. Qed.
Print Assumptions C01_collect_preserves_reachable.

(* the mark phase computes exactly reachability (for any fuel with which it terminates) *)
Theorem C01_mark_exact : forall all fuel rs S, mark fuel all rs [] = Some S -> forall a, In a S <-> Reach all rs a.
Proof. exact mark_exact. Qed.
Print Assumptions C01_mark_exact.

(* tie to the source: every raw-pointer field of the heap structs is pushed by the mark
   phase of `collect`, which pushes nothing else; and teardown order; and confinement of raw
   pointers to src/memory *)
Theorem C01_marked_fields_cover_pointer_fields :
  forallb (fun f => mem_pair f mark_pushes) edge_fields = true /\
  forallb (fun f => mem_pair f model_edges || pair_eqb f ("root", "cell")%string) mark_pushes = true /\
  forallb (fun f => mem_pair f edge_fields) model_edges = true.
Proof. exact marked_fields_cover_pointer_fields. Qed.
Print Assumptions C01_marked_fields_cover_pointer_fields.

Theorem C01_teardown_and_confinement :
  (Nat.ltb (index_of "modules" memory_fields) (index_of "cells" memory_fields) = true /\
   Nat.ltb (index_of "current_module" memory_fields) (index_of "cells" memory_fields) = true) /\
  raw_pointer_use_outside_memory = [].
Proof. split; [exact teardown_order|exact unsafe_confined]. Qed.
Print Assumptions C01_teardown_and_confinement.

(* the mark phase terminates and meets no dangling pointer: in EVERY reachable state a collection
   completes (the fuel the model gives mark - cells + pointer fields + cells - always suffices) *)
Theorem C01_collection_always_completes : forall p n ops g, run_ops p (init_gstate n) ops = Some g ->
  exists h', collect p (gheap g) = Some h'.
Proof.
  intros p n ops g H. destruct (history_ginv p n ops g H) as [[_ Hcl _ _ _] _]. exact (collect_completes p (gheap g) Hcl).
Qed.
Print Assumptions C01_collection_always_completes.

Theorem C01_mark_completes : forall h, closed h -> mark (mark_fuel h) (cells h) (rev (roots h)) [] <> None.
Proof. exact mark_completes. Qed.
Print Assumptions C01_mark_completes.
