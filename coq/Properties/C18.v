(* C18 - standard input is consumed line by line exactly once. Only statements; proofs in IO/StdinProofs.v. *)
From PL Require Import IO.Stdin IO.StdinProofs.
Local Open Scope N_scope.

(* for EVERY byte string and EVERY way the operating system batches it into reads (chunks of
   any sizes: all at once, line by line, byte by byte, ...), successive calls return exactly
   the lines of the string, each once, in order, the last partial line included *)
Theorem C18_lines_exactly_once : forall fuel cs, no_empty cs -> (List.length (concat cs) < fuel)%nat ->
  all_lines fuel cs = lines_of fuel (concat cs).
Proof. exact lines_exactly_once. Qed.
Print Assumptions C18_lines_exactly_once.

Theorem C18_chunking_irrelevant : forall fuel cs cs', no_empty cs -> no_empty cs' -> concat cs = concat cs' ->
  (List.length (concat cs) < fuel)%nat -> all_lines fuel cs = all_lines fuel cs'.
Proof. exact chunking_irrelevant. Qed.
Print Assumptions C18_chunking_irrelevant.

(* one call: returns the first line of everything still pending and leaves exactly the rest *)
Theorem C18_read_line_spec : forall cs acc, no_empty cs ->
  let '(l, rest) := read_line cs acc in
  no_empty rest /\
  match split_nl (concat cs) [] with
  | Some (l0, r0) => l = acc ++ l0 /\ concat rest = r0
  | None => l = acc ++ concat cs /\ rest = []
  end.
Proof. exact read_line_spec. Qed.
Print Assumptions C18_read_line_spec.

Example C18_example : no_empty [[97; 10; 98]; [99; 10; 100]] /\ all_lines 20 [[97; 10; 98]; [99; 10; 100]] = [[97; 10]; [98; 99; 10]; [100]].
Proof. split; [repeat constructor; discriminate|reflexivity]. Qed.
