(* C04 - symbol identity. Only statements; proofs in Heap/SymProofs.v, Heap/StepInv.v. *)
From PL Require Import Heap.HeapModel Heap.MarkProofs Heap.CollectProofs Heap.HeapInv Heap.SymProofs Heap.StepInv Heap.HistoryProofs.
Local Open Scope N_scope.

(* in EVERY reachable state the symbol table is exact: each entry designates the used symbol
   cell of that name and every used named-symbol cell is the entry of its name - after any
   history of interning, dropping, collecting (entries of reclaimed symbols are removed) and
   interning again *)
Theorem C04_table_exact_in_every_reachable_state : forall p n ops g,
  run_ops p (init_gstate n) ops = Some g -> symok (gheap g).
Proof. intros p n ops g H. destruct (history_ginv p n ops g H) as [_ Hs]. exact Hs. Qed.
Print Assumptions C04_table_exact_in_every_reachable_state.

(* hence: two named symbols in use are the same cell iff they have the same name *)
Theorem C04_same_name_same_symbol : forall h c1 c2, wf h -> symok h ->
  In c1 (used h) -> In c2 (used h) -> ckind c1 = KSym -> ckind c2 = KSym ->
  (box c1 = box c2 <-> payload c1 = payload c2).
Proof. exact symbols_same_name_same_cell. Qed.
Print Assumptions C04_same_name_same_symbol.

(* a generated symbol is identified by its cell: equal only to itself *)
Theorem C04_unique_symbol_equal_only_to_itself : forall h c1 c2, wf h -> In c1 (used h) -> In c2 (used h) -> box c1 = box c2 -> c1 = c2.
Proof. exact distinct_cells_distinct_addresses. Qed.
Print Assumptions C04_unique_symbol_equal_only_to_itself.

(* a collection removes exactly the entries of reclaimed symbols *)
Theorem C04_collect_keeps_table_exact : forall p h h', wf h -> symok h -> collect p h = Some h' -> symok h'.
Proof. exact collect_symok. Qed.
Print Assumptions C04_collect_keeps_table_exact.

(* interning a name that is absent registers the new cell under that name *)
Theorem C04_intern_registers : forall p h h' L name a, inv h L -> symok h -> assoc_t name (symtab h) = None ->
  allocate p h KSym name [] = Some (h', a) -> symok (Heap (cells h') (ff h') ((name, a) :: symtab h') (next h')).
Proof. exact intern_symok. Qed.
Print Assumptions C04_intern_registers.
