(* C03 - garbage is reclaimed and the heap stays proportional to live data. Only statements. *)
From PL Require Import Heap.HeapModel Heap.MarkProofs Heap.CollectProofs Heap.HeapInv Heap.StepInv Heap.HistoryProofs.
Local Open Scope N_scope.

(* immediately after a collection EXACTLY the cells reachable from handles/globals are in use *)
Theorem C03_collect_exact : forall p h h', collect p h = Some h' ->
  forall c, In c (used h') <-> In c (used h) /\ HReach h (box c).
Proof. exact collect_used_exact. Qed.
Print Assumptions C03_collect_exact.

(* surplus free space is released: after a collection the free suffix is bounded by the
   configured ratios of the used prefix (for ANY sizing policy, in particular the f32 one) *)
Theorem C03_free_after_collect : forall p h h', collect p h = Some h' ->
  (List.length (cells h') - ff h' <= Nat.max (maxfree p (ff h')) (minfree p (ff h') + 1))%nat.
Proof. exact free_after_collect. Qed.
Print Assumptions C03_free_after_collect.

Theorem C03_collect_never_grows : forall p h h', collect p h = Some h' -> (List.length (cells h') <= List.length (cells h))%nat.
Proof. exact collect_length. Qed.
Print Assumptions C03_collect_never_grows.

(* the vector grows only when a collection has just found every cell reachable, and then
   its size is a function of the number of reachable cells: used+1 + (grow(used+1) - 1) *)
Theorem C03_growth_bounded_by_live : forall p h h' L k pl ks a, inv h L -> (forall x, In x ks -> x = 0 \/ In x L) ->
  allocate p h k pl ks = Some (h', a) ->
  (List.length (cells h') <= List.length (cells h))%nat \/
  exists h1, collect p h = Some h1 /\ ff h1 = List.length (cells h1) /\
             List.length (cells h') = (S (ff h1) + Nat.pred (grow p (S (ff h1))))%nat.
Proof. exact allocate_size. Qed.
Print Assumptions C03_growth_bounded_by_live.

(* handles: in every reachable state every live handle / global designates a used cell whose
   count covers it, and free cells carry no handles *)
Theorem C03_handles_covered : forall p n ops g, run_ops p (init_gstate n) ops = Some g -> inv (gheap g) (live g).
Proof. intros p n ops g H. destruct (history_ginv p n ops g H) as [Hi _]. exact Hi. Qed.
Print Assumptions C03_handles_covered.
