(* C09 - macro expansion.  Only statements; proofs are in Eval/EvalRules.v and Eval/ExpandProofs.v. *)
From PL Require Import Eval.EvalRules Eval.ExpandProofs.
From Coq Require Import String.
Local Open Scope string_scope.
Local Open Scope list_scope.
Local Open Scope N_scope.

(* anything under quote is returned untouched by the expander: no lookup, no macro call, no
   change flag, no state change - for EVERY quoted datum, environment, module and state *)
Theorem C09_quote_shield : forall f st e env m d ch q rest,
  (MAXD <? d) = false -> list_to_vec e = Some (q :: rest) ->
  is_sym q (s "macro") = false -> is_sym q (s "quote") = true ->
  expand_internal (S f) st e env m d ch = (st, ROk e, ch).
Proof. exact X_quote. Qed.
Print Assumptions C09_quote_shield.

(* the pass loop: a pass without change ends the expansion with exactly that pass's result,
   a pass with a change is followed by another pass on its result *)
Theorem C09_fixpoint_reached : forall f st e env m d st1 e',
  expand_internal f st e env m (d + 1) false = (st1, ROk e', false) ->
  expand_completely (S f) st e env m d = (st1, ROk e').
Proof. exact X_completely_fixpoint. Qed.
Print Assumptions C09_fixpoint_reached.

Theorem C09_pass_again : forall f st e env m d st1 e',
  expand_internal f st e env m (d + 1) false = (st1, ROk e', true) ->
  expand_completely (S f) st e env m d = expand_completely f st1 e' env m d.
Proof. exact X_completely_again. Qed.
Print Assumptions C09_pass_again.

(* evaluating a form = evaluating its complete expansion (the native `eval` IS expansion
   followed by evaluation of the result, in the same environment and module) *)
Theorem C09_eval_is_expand_then_eval : forall f st x env d st1 x',
  expand_completely f st x env (cur st) (d + 1) = (st1, ROk x') ->
  call_native (S f) st (s "eval") [x] env d = eval_internal f st1 x' env (cur st) (d + 1).
Proof. exact eval_native_expand_then_eval. Qed.
Print Assumptions C09_eval_is_expand_then_eval.

(* a macro call inside a COMPOUND OPERATOR is expanded in place and the expansion is kept:
   the form the property names reaches its fixpoint in two passes, and evaluates to 1 *)
Theorem C09_operator_position : operator_position_statement.
Proof. exact operator_position_proof. Qed.
Print Assumptions C09_operator_position.

(* a macro receives its operands unevaluated: the body runs in the macro's captured
   environment extended with the parameters bound to the (expanded, unevaluated) operand forms *)
Theorem C09_macro_gets_forms : forall f st e env m d ch first rest st1 op ch1 restp params body cenv cmod st2 args ch2 newenv,
  (MAXD <? d) = false -> list_to_vec e = Some (first :: rest) ->
  is_sym first (s "macro") = false -> is_sym first (s "quote") = false ->
  expand_internal f st first env m (d + 1) ch = (st1, ROk op, ch1) ->
  getv op = VFun true restp params body cenv cmod ->
  expand_args f env m d st1 rest [] ch1 = (st2, inl args, ch2) ->
  pair_params (call_source e) params restp args cenv 0 (List.length args) = inl newenv ->
  expand_internal (S f) st e env m d ch =
  (let '(st3, r) := eval_internal f st2 body newenv cmod (d + 1) in (st3, r, true)).
Proof. exact X_macro_call. Qed.
Print Assumptions C09_macro_gets_forms.
