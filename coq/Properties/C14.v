(* C14 - module encapsulation.  Only statements; proofs in Eval/ModulesProofs.v, Eval/EvalRules.v. *)
From PL Require Import Eval.EvalRules Eval.ModulesProofs.
From Coq Require Import String Permutation.
Local Open Scope string_scope.
Local Open Scope list_scope.
Local Open Scope N_scope.

Theorem C14_visible_iff : forall m name asking v,
  module_get m name asking = Some v <->
  assoc name (mod_defs m) = Some v /\
  (mod_exports m = None \/ (exists e, mod_exports m = Some e /\ In name e) \/ asking = mod_name m).
Proof. exact visible_iff. Qed.
Print Assumptions C14_visible_iff.

Theorem C14_get_global_spec : forall ms name asking,
  match get_global ms name asking with
  | GOk v => exists mn, visible_in ms name asking = [(mn, v)]
  | GAmbiguous l => (2 <= List.length (visible_in ms name asking))%nat /\ l = sort_texts (map fst (visible_in ms name asking))
  | GNotFound => visible_in ms name asking = []
  end.
Proof. exact get_global_spec. Qed.
Print Assumptions C14_get_global_spec.

Theorem C14_visible_in_spec : forall ms name asking mn v,
  In (mn, v) (visible_in ms name asking) <-> exists m, In m ms /\ mod_name m = mn /\ module_get m name asking = Some v.
Proof. exact visible_in_spec. Qed.
Print Assumptions C14_visible_in_spec.

(* every order in which the modules were loaded / every hash order gives the same outcome *)
Theorem C14_order_irrelevant : forall ms ms' name asking, Permutation ms ms' -> get_global ms name asking = get_global ms' name asking.
Proof. exact get_global_perm. Qed.
Print Assumptions C14_order_irrelevant.

Theorem C14_from_module_exported_only : forall ms name mn v, get_global_from_module ms name mn = FOk v ->
  exists m, In m ms /\ mod_name m = mn /\ exported m name = true /\ assoc name (mod_defs m) = Some v.
Proof. exact from_module_exported_only. Qed.
Print Assumptions C14_from_module_exported_only.

Theorem C14_private_invisible_elsewhere : forall m name asking e,
  mod_exports m = Some e -> ~ In name e -> asking <> mod_name m -> module_get m name asking = None.
Proof. exact private_invisible_elsewhere. Qed.
Print Assumptions C14_private_invisible_elsewhere.

Theorem C14_private_visible_at_home : forall m name v, assoc name (mod_defs m) = Some v -> module_get m name (mod_name m) = Some v.
Proof. exact private_visible_at_home. Qed.
Print Assumptions C14_private_visible_at_home.

(* for a function the home module is the module of its DEFINITION: the body of a called
   closure is evaluated with the closure's module [cmod], wherever the caller [m] lives;
   and a free variable of that body is resolved relative to that module *)
Theorem C14_closure_home_module : forall f st st' e env m d first rest st1 op mac restp params body cenv cmod st2 args newenv,
  poll st = (st', None) -> list_to_vec e = Some (first :: rest) -> special_form first = false ->
  eval_internal f st' first env m (d + 1) = (st1, ROk op) ->
  getv op = VFun mac restp params body cenv cmod ->
  eval_args f env m d st1 rest [] = (st2, inl args) ->
  pair_params (call_source e) params restp args cenv 0 (List.length args) = inl newenv ->
  eval_loop (S f) st e env m d = eval_loop f st2 body newenv cmod d.
Proof. intros; eapply R_app_closure; eassumption. Qed.
Print Assumptions C14_closure_home_module.

Theorem C14_free_variable_uses_home_module : forall f st st' e env m d n,
  poll st = (st', None) -> list_to_vec e = None -> getv e = VSym (Named n) -> env_lookup env (Named n) = LMissing ->
  eval_loop (S f) st e env m d =
  match get_global (mods st') n m with
  | GOk v => (st', ROk v)
  | GAmbiguous ms => (st', RSig (ambiguous_error "eval" e ms))
  | GNotFound => (st', RSig (make_error "unbound-symbol" (s "eval") [("symbol", e)]))
  end.
Proof. intros; eapply R_var_global; eassumption. Qed.
Print Assumptions C14_free_variable_uses_home_module.
