(* C19 - INTERRUPT and ABORT stop any evaluation.  Only statements; proofs in Eval/SemProofs.v. *)
From PL Require Import Eval.EvalRules Eval.SemProofs.
From Coq Require Import String.
Local Open Scope string_scope.
Local Open Scope list_scope.
Local Open Scope N_scope.

(* for EVERY expression, environment, module and depth - terminating or not: with a
   debugger attached and INTERRUPT first in the channel, the activation that reaches its
   next step returns the interrupted signal at once, leaving the global tables untouched *)
Theorem C19_interrupt_at_next_step : forall f st e env m d rest_chan,
  attached st = true -> chan st = s "INTERRUPT" :: rest_chan ->
  exists st', eval_loop (S f) st e env m d = (st', RSig (make_error "interrupted" (s "eval") [])) /\
              mods st' = mods st /\ cur st' = cur st.
Proof. exact interrupt_at_next_step. Qed.
Print Assumptions C19_interrupt_at_next_step.

Theorem C19_abort_at_next_step : forall f st e env m d rest_chan,
  attached st = true -> chan st = s "ABORT" :: rest_chan ->
  exists st', eval_loop (S f) st e env m d = (st', RAbort) /\ mods st' = mods st /\ cur st' = cur st.
Proof. exact abort_at_next_step. Qed.
Print Assumptions C19_abort_at_next_step.

(* the abort then passes every enclosing trap (C08), and every other construct by the
   escape rules: nothing converts RAbort into anything else *)
Theorem C19_abort_passes_traps : forall n k e handlers env m d,
  (List.length handlers = n)%nat -> aborts_from k e env m (d + N.of_nat n) -> d + N.of_nat n <= MAXD + 1 ->
  aborts_from (k + 2 * n) (trap_nest n e handlers) env m d.
Proof. exact abort_through_traps. Qed.
Print Assumptions C19_abort_passes_traps.

Theorem C19_injected_command_is_seen : forall st c,
  attached st = true -> chan st = [] -> inject st = [(polls st + 1, c)] -> c = s "INTERRUPT" ->
  exists st', poll st = (st', Some (RSig (make_error "interrupted" (s "eval") []))).
Proof. exact poll_injected. Qed.
Print Assumptions C19_injected_command_is_seen.
