(* C16 - prelude functions and macros compute what their documentation says.
   Only statements; proofs in Eval/PreludeProofs.v. *)
From PL Require Import Eval.EvalRules Eval.PreludeState Eval.PreludeProofs Eval.CatchProofs.
From Coq Require Import String.
Local Open Scope string_scope.
Local Open Scope list_scope.
Local Open Scope N_scope.

(* the generated texts of prelude.lisp, repl.lisp and debugger.lisp load without a signal *)
Theorem C16_prelude_loads : prelude_ok = true /\ repl_ok = true /\ debugger_ok = true.
Proof. exact prelude_loads. Qed.
Print Assumptions C16_prelude_loads.

(* For ALL operand forms X, Y (unevaluated, arbitrary values): what the macro - as loaded
   from the current prelude text - turns the call into.  Each operand occurs exactly once
   in `and`, `when`, `not`; in `or` X is the single operand of a lambda whose parameter is a
   generated symbol, so X is evaluated once and Y only when X is nil. *)
Theorem C16_and_expansion : forall X Y, macro_expands_to (s "and") [X; Y] (vec_to_list [vsym "if"; X; Y; nil_value]).
Proof. exact and_expansion. Qed.
Print Assumptions C16_and_expansion.

Theorem C16_when_expansion : forall X Y, macro_expands_to (s "when") [X; Y] (vec_to_list [vsym "if"; X; Y; nil_value]).
Proof. exact when_expansion. Qed.
Print Assumptions C16_when_expansion.

Theorem C16_not_expansion : forall X, macro_expands_to (s "not") [X] (vec_to_list [vsym "if"; X; nil_value; t_value]).
Proof. exact not_expansion. Qed.
Print Assumptions C16_not_expansion.

Theorem C16_or_expansion : or_expansion_statement.
Proof. exact or_expansion_proof. Qed.
Print Assumptions C16_or_expansion.

(* try / catch: the clauses, for every kind form K and handler form B *)
Theorem C16_catch_all_expansion : forall B, macro_expands_within 3 (s "catch-all") [B] (vec_to_list [vsym "test"; t_value; vsym "body"; B]).
Proof. exact catch_all_expansion. Qed.
Print Assumptions C16_catch_all_expansion.

Theorem C16_catch_expansion : forall K B, macro_expands_within 5 (s "catch") [K; B] (catch_clause K B).
Proof. exact catch_expansion. Qed.
Print Assumptions C16_catch_expansion.

(* get-property-safe, through which every catch clause reads the kind of the trapped signal: for EVERY
   key and EVERY value in the place of the property list it returns what `.` returns, and nil whenever
   `.` signals (not a list, not a property list, odd length, key not a symbol) *)
Theorem C16_get_property_safe_value : forall key pl v, dot_res pl key = ROk v -> gps_statement key pl v.
Proof. exact get_property_safe_value. Qed.
Print Assumptions C16_get_property_safe_value.

Theorem C16_get_property_safe_signal : forall key pl sg, dot_res pl key = RSig sg -> gps_statement key pl nil_value.
Proof. exact get_property_safe_signal. Qed.
Print Assumptions C16_get_property_safe_signal.

Theorem C16_dot_is_the_primitive : forall f st pl key env d, call_native (S f) st (s ".") [pl; key] env d = (st, dot_res pl key).
Proof. exact dot_call. Qed.
Print Assumptions C16_dot_is_the_primitive.
