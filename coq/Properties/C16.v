(* C16 - prelude functions and macros compute what their documentation says.
   Only statements; proofs in Eval/PreludeProofs.v. *)
From PL Require Import Eval.EvalRules Eval.PreludeState Eval.PreludeProofs.
From Coq Require Import String.
Local Open Scope string_scope.
Local Open Scope list_scope.
Local Open Scope N_scope.

(* the generated texts of prelude.lisp, repl.lisp and debugger.lisp load without a signal *)
Theorem C16_prelude_loads : prelude_ok = true /\ repl_ok = true /\ debugger_ok = true.
Proof. exact prelude_loads. Qed.
Print Assumptions C16_prelude_loads.

(* For ALL operand forms X, Y (unevaluated, arbitrary values): what the macro - as loaded
   from the current prelude text - turns the call into.  Each operand occurs exactly once
   in `and`, `when`, `not`; in `or` X is the single operand of a lambda whose parameter is a
   generated symbol, so X is evaluated once and Y only when X is nil. *)
Theorem C16_and_expansion : forall X Y, macro_expands_to (s "and") [X; Y] (vec_to_list [vsym "if"; X; Y; nil_value]).
Proof. exact and_expansion. Qed.
Print Assumptions C16_and_expansion.

Theorem C16_when_expansion : forall X Y, macro_expands_to (s "when") [X; Y] (vec_to_list [vsym "if"; X; Y; nil_value]).
Proof. exact when_expansion. Qed.
Print Assumptions C16_when_expansion.

Theorem C16_not_expansion : forall X, macro_expands_to (s "not") [X] (vec_to_list [vsym "if"; X; nil_value; t_value]).
Proof. exact not_expansion. Qed.
Print Assumptions C16_not_expansion.

Theorem C16_or_expansion : or_expansion_statement.
Proof. exact or_expansion_proof. Qed.
Print Assumptions C16_or_expansion.

(* try / catch: the clauses, for every kind form K and handler form B *)
Theorem C16_catch_all_expansion : forall B, macro_expands_within 3 (s "catch-all") [B] (vec_to_list [vsym "test"; t_value; vsym "body"; B]).
Proof. exact catch_all_expansion. Qed.
Print Assumptions C16_catch_all_expansion.

Theorem C16_catch_expansion : forall K B, macro_expands_within 5 (s "catch") [K; B] (catch_clause K B).
Proof. exact catch_expansion. Qed.
Print Assumptions C16_catch_expansion.
