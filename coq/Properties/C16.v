(* C16 - prelude functions and macros compute what their documentation says.
   Only statements; proofs in Eval/PreludeProofs.v. *)
From PL Require Import Eval.EvalRules Eval.PreludeState Eval.PreludeProofs Eval.CatchProofs Eval.MacroProofs2 Eval.LengthProofs Eval.RangeProofs Eval.FoldProofs Eval.MapProofs Eval.ZipProofs Eval.LastProofs Eval.InitProofs Eval.FoldrProofs Eval.EnumerateProofs Eval.SumProofs Eval.CompareProofs Eval.MinusProofs Eval.DivideProofs Eval.ConcatProofs Eval.UnzipProofs Eval.CaseProofs.
From Coq Require Import ZArith.
From Coq Require Import String.
Local Open Scope string_scope.
Local Open Scope list_scope.
Local Open Scope N_scope.

(* the generated texts of prelude.lisp, repl.lisp and debugger.lisp load without a signal *)
Theorem C16_prelude_loads : prelude_ok = true /\ repl_ok = true /\ debugger_ok = true.
Proof. exact prelude_loads. Qed.
Print Assumptions C16_prelude_loads.

(* For ALL operand forms X, Y (unevaluated, arbitrary values): what the macro - as loaded
   from the current prelude text - turns the call into.  Each operand occurs exactly once
   in `and`, `when`, `not`; in `or` X is the single operand of a lambda whose parameter is a
   generated symbol, so X is evaluated once and Y only when X is nil. *)
Theorem C16_and_expansion : forall X Y, macro_expands_to (s "and") [X; Y] (vec_to_list [vsym "if"; X; Y; nil_value]).
Proof. exact and_expansion. Qed.
Print Assumptions C16_and_expansion.

Theorem C16_when_expansion : forall X Y, macro_expands_to (s "when") [X; Y] (vec_to_list [vsym "if"; X; Y; nil_value]).
Proof. exact when_expansion. Qed.
Print Assumptions C16_when_expansion.

Theorem C16_not_expansion : forall X, macro_expands_to (s "not") [X] (vec_to_list [vsym "if"; X; nil_value; t_value]).
Proof. exact not_expansion. Qed.
Print Assumptions C16_not_expansion.

Theorem C16_or_expansion : or_expansion_statement.
Proof. exact or_expansion_proof. Qed.
Print Assumptions C16_or_expansion.

(* try / catch: the clauses, for every kind form K and handler form B *)
Theorem C16_catch_all_expansion : forall B, macro_expands_within 3 (s "catch-all") [B] (vec_to_list [vsym "test"; t_value; vsym "body"; B]).
Proof. exact catch_all_expansion. Qed.
Print Assumptions C16_catch_all_expansion.

Theorem C16_catch_expansion : forall K B, macro_expands_within 5 (s "catch") [K; B] (catch_clause K B).
Proof. exact catch_expansion. Qed.
Print Assumptions C16_catch_expansion.

(* get-property-safe, through which every catch clause reads the kind of the trapped signal: for EVERY
   key and EVERY value in the place of the property list it returns what `.` returns, and nil whenever
   `.` signals (not a list, not a property list, odd length, key not a symbol) *)
Theorem C16_get_property_safe_value : forall key pl v, dot_res pl key = ROk v -> gps_statement key pl v.
Proof. exact get_property_safe_value. Qed.
Print Assumptions C16_get_property_safe_value.

Theorem C16_get_property_safe_signal : forall key pl sg, dot_res pl key = RSig sg -> gps_statement key pl nil_value.
Proof. exact get_property_safe_signal. Qed.
Print Assumptions C16_get_property_safe_signal.

Theorem C16_dot_is_the_primitive : forall f st pl key env d, call_native (S f) st (s ".") [pl; key] env d = (st, dot_res pl key).
Proof. exact dot_call. Qed.
Print Assumptions C16_dot_is_the_primitive.

(* ---- the list functions, for EVERY list (any length, any elements), on the generated prelude text ---- *)

(* length: the number of elements *)
Theorem C16_length : forall xs, in_i64 (Z.of_nat (List.length xs)) = true -> length_statement xs.
Proof. exact length_spec. Qed.
Print Assumptions C16_length.

(* range: 0 1 ... m-1 for every m >= 0, the empty list for every negative m *)
Theorem C16_range_nonneg : forall mv k, getv mv = VNum (Z.of_nat k) -> in_i64 (Z.of_nat k) = true -> range_statement mv (upto k nil_value).
Proof. exact range_spec_nonneg. Qed.
Print Assumptions C16_range_nonneg.

Theorem C16_range_negative : forall mv m, getv mv = VNum m -> (m < 0)%Z -> in_i64 (m - 1)%Z = true -> range_statement mv nil_value.
Proof. exact range_spec_negative. Qed.
Print Assumptions C16_range_negative.

(* foldl: the left fold, for every function whose applications evaluate (to [step acc x]) *)
Theorem C16_foldl : forall fv step K, (4 <= K)%nat ->
  (forall acc x r d, (d + 3 <= MAXD)%N -> evals_to K fl_step (fl_env fv acc (VCons x r)) (d + 1)%N (step acc x)) ->
  forall tl, is_nil tl = true -> forall xs acc g st d, has_prelude st -> (d + 3 <= MAXD)%N ->
  exists st', eval_loop (2 * List.length xs + K + 4 + g) st fl_body (fl_env fv acc (onto xs tl)) pm d
              = (st', ROk (fold_left step xs acc)) /\ has_prelude st'.
Proof. exact foldl_runs. Qed.
Print Assumptions C16_foldl.

(* reverse *)
Theorem C16_reverse : forall xs tl, is_nil tl = true -> reverse_statement xs tl.
Proof. exact reverse_spec. Qed.
Print Assumptions C16_reverse.

(* map: the results in order, for every function whose applications evaluate (to [g x]) *)
Theorem C16_map : forall fv g K, (2 <= K)%nat ->
  (forall x r acc d, (d + 4 <= MAXD)%N -> evals_to K mm_app (mm_env fv (VCons x r) acc) (d + 1 + 1)%N (g x)) ->
  forall tl xs st d, is_nil tl = true -> has_prelude st -> (d + 5 <= MAXD)%N ->
  exists fuel st' r, eval_loop fuel st mp_body (mp_env fv (onto xs tl)) pm d = (st', ROk r) /\ has_prelude st' /\
                     strip r = strip (vec_to_list (map g xs)).
Proof. exact map_runs. Qed.
Print Assumptions C16_map.

(* the hypotheses about the function are satisfiable: the primitive `list` as f *)
Theorem C16_map_instance : forall xs st d, has_prelude st -> (d + 5 <= MAXD)%N ->
  exists fuel st' r, eval_loop fuel st mp_body (mp_env list_native (vec_to_list xs)) pm d = (st', ROk r) /\ has_prelude st' /\
                     strip r = strip (vec_to_list (map (fun x => vec_to_list [x]) xs)).
Proof. exact map_list_instance. Qed.
Print Assumptions C16_map_instance.

(* zip: the pairs of corresponding elements, as many as the shorter list has, for every two lists *)
Theorem C16_zip : forall tl1 tl2 xs ys st d, is_nil tl1 = true -> is_nil tl2 = true -> has_prelude st -> (d + 5 <= MAXD)%N ->
  exists fuel st' r, eval_loop fuel st zp_body (zp_env (onto xs tl1) (onto ys tl2)) pm d = (st', ROk r) /\ has_prelude st' /\
                     strip r = strip (vec_to_list (map pair_of (combine xs ys))).
Proof. exact zip_runs. Qed.
Print Assumptions C16_zip.

(* last: the last element of every non-empty list *)
Theorem C16_last : forall xs x tl, is_nil tl = true -> last_statement xs x tl.
Proof. exact last_spec. Qed.
Print Assumptions C16_last.

(* init: all elements but the last, for every non-empty list *)
Theorem C16_init : forall xs x tl, is_nil tl = true -> init_statement xs x tl.
Proof. exact init_spec. Qed.
Print Assumptions C16_init.

(* foldr: f x1 (f x2 (... (f xn init))) for every list and every function whose applications evaluate *)
Theorem C16_foldr : forall fv iv tv g K, (2 <= K)%nat ->
  (forall acc x d, (d + 3 <= MAXD)%N -> forall st0 g0, has_prelude st0 ->
     exists st1, eval_loop (K + g0) st0 (fr_app fv iv tv) (fr_app_env fv iv tv acc x) pm (d + 1)%N = (st1, ROk (g x acc)) /\ has_prelude st1) ->
  forall tl xs st d, tv = onto xs tl -> is_nil tl = true -> has_prelude st -> (d + 5 <= MAXD)%N ->
  exists fuel st', eval_loop fuel st fr_body (fr_env fv iv tv) pm d = (st', ROk (fold_right g iv xs)) /\ has_prelude st'.
Proof. exact foldr_runs. Qed.
Print Assumptions C16_foldr.

Theorem C16_foldr_instance : forall xs st d, has_prelude st -> (d + 5 <= MAXD)%N ->
  exists fuel st', eval_loop fuel st fr_body (fr_env cons_native_v VNil (vec_to_list xs)) pm d = (st', ROk (fold_right VCons VNil xs)) /\ has_prelude st'.
Proof. exact foldr_cons_instance. Qed.
Print Assumptions C16_foldr_instance.

(* apply and throw, for all operand forms (throw: for every number of key/value forms) *)
Theorem C16_apply_expansion : forall F A, macro_expands_within 4 (s "apply") [F; A] (vec_to_list [vec_to_list [vsym "unrest"; F]; A]).
Proof. exact apply_expansion. Qed.
Print Assumptions C16_apply_expansion.

Theorem C16_throw_expansion : forall body, macro_expands_within 4 (s "throw") body (vec_to_list [vsym "signal"; VCons (vsym "list") (vec_to_list body)]).
Proof. exact throw_expansion. Qed.
Print Assumptions C16_throw_expansion.

(* enumerate: every element paired with its index, for every list *)
Theorem C16_enumerate : forall xs st d, in_i64 (Z.of_nat (List.length xs)) = true -> has_prelude st -> (d + 6 <= MAXD)%N ->
  exists fuel st' r, eval_loop fuel st en_body (en_env (vec_to_list xs)) pm d = (st', ROk r) /\ has_prelude st' /\
                     strip r = strip (vec_to_list (map pair_of (combine xs (indices (List.length xs))))).
Proof. exact enumerate_runs. Qed.
Print Assumptions C16_enumerate.

(* + and the multiplication function: for EVERY list of numbers (any length, whatever metadata the literals carry)
   whose running results stay within the 64-bit range the result is the sum / the product (0 / 1 for no argument);
   [plus_call_env]: the environment used here is the one a call with these argument values builds *)
Theorem C16_plus : forall vals zs st d, Forall2 (fun v z => getv v = VNum z) vals zs -> in_range_from Z.add 0 zs = true ->
  has_prelude st -> (d + 4 <= MAXD)%N ->
  exists fuel st' r, eval_loop fuel st pl_body (pl_env (vec_to_list vals)) pm d = (st', ROk r) /\ has_prelude st' /\
                     getv r = VNum (fold_left Z.add zs 0%Z).
Proof. exact plus_runs. Qed.
Print Assumptions C16_plus.

Theorem C16_times : forall vals zs st d, Forall2 (fun v z => getv v = VNum z) vals zs -> in_range_from Z.mul 1 zs = true ->
  has_prelude st -> (d + 4 <= MAXD)%N ->
  exists fuel st' r, eval_loop fuel st tm_body (tm_env (vec_to_list vals)) pm d = (st', ROk r) /\ has_prelude st' /\
                     getv r = VNum (fold_left Z.mul zs 1%Z).
Proof. exact times_runs. Qed.
Print Assumptions C16_times.

Theorem C16_plus_call_env : forall src vals i n,
  (let '(ps, _, e, _) := plus_parts in pair_params src ps true vals e i n) = inl (pl_env (vec_to_list vals)).
Proof. exact plus_call_env. Qed.
Print Assumptions C16_plus_call_env.

(* <=, >= and /= for EVERY pair of numbers (whatever metadata the operands carry): true exactly when the documented
   relation holds; the first test of the expanded or is evaluated once *)
Theorem C16_less_or_equal : forall x y a b st d, getv x = VNum a -> getv y = VNum b -> has_prelude st -> (d + 3 <= MAXD)%N ->
  exists fuel st' r, eval_loop fuel st (c_body "<=") (c_env "<=" x y) pm d = (st', ROk r) /\ has_prelude st' /\
                     r = bool_val (a <=? b)%Z.
Proof. exact le_spec. Qed.
Print Assumptions C16_less_or_equal.

Theorem C16_greater_or_equal : forall x y a b st d, getv x = VNum a -> getv y = VNum b -> has_prelude st -> (d + 3 <= MAXD)%N ->
  exists fuel st' r, eval_loop fuel st (c_body ">=") (c_env ">=" x y) pm d = (st', ROk r) /\ has_prelude st' /\
                     r = bool_val (a >=? b)%Z.
Proof. exact ge_spec. Qed.
Print Assumptions C16_greater_or_equal.

Theorem C16_not_equal : forall x y a b st d, getv x = VNum a -> getv y = VNum b -> has_prelude st -> (d + 3 <= MAXD)%N ->
  exists fuel st' r, eval_loop fuel st ne_body (ne_env x y) pm d = (st', ROk r) /\ has_prelude st' /\ is_nil r = (a =? b)%Z.
Proof. exact ne_runs. Qed.
Print Assumptions C16_not_equal.

(* - and / for EVERY list of numbers: no argument 0 / 1, one argument the negation / 1 divided by it, otherwise the first
   minus the sum / divided by the product of the others (truncating division) - under the guards [minus_ok] / [divide_ok]:
   the intermediate results the functions really compute stay in range and no divisor is zero *)
Theorem C16_minus : forall vals zs st d, Forall2 (fun v z => getv v = VNum z) vals zs -> minus_ok zs = true ->
  has_prelude st -> (d + 5 <= MAXD)%N ->
  exists fuel st' r, eval_loop fuel st mi_body (mi_env (vec_to_list vals)) pm d = (st', ROk r) /\ has_prelude st' /\
                     getv r = VNum (minus_spec zs).
Proof. exact minus_runs. Qed.
Print Assumptions C16_minus.

Theorem C16_divide : forall vals zs st d, Forall2 (fun v z => getv v = VNum z) vals zs -> divide_ok zs = true ->
  has_prelude st -> (d + 5 <= MAXD)%N ->
  exists fuel st' r, eval_loop fuel st dv_body (dv_env (vec_to_list vals)) pm d = (st', ROk r) /\ has_prelude st' /\
                     getv r = VNum (divide_spec zs).
Proof. exact divide_runs. Qed.
Print Assumptions C16_divide.

(* what the guards and results are, spelled out *)
Theorem C16_minus_divide_spec :
  (forall z, minus_spec [z] = (- z)%Z) /\ minus_spec [] = 0%Z /\ divide_spec [] = 1%Z /\
  (forall z r rs, minus_spec (z :: r :: rs) = (z - fold_left Z.add (r :: rs) 0)%Z) /\
  (forall z r rs, divide_spec (z :: r :: rs) = Z.quot z (fold_left Z.mul (r :: rs) 1%Z)) /\
  (forall z, divide_spec [z] = Z.quot 1 z) /\
  minus_ok [0; 9223372036854775807; 1]%Z = false /\ divide_ok [1; 0]%Z = false /\ divide_ok [100; 5; 2]%Z = true.
Proof. repeat split. Qed.

(* append (the primitive) on two lists is list concatenation; concat, as loaded from the prelude text, concatenates EVERY
   list of lists - any number of lists of any lengths; it needs one level of recursion depth per LIST (premise) *)
Theorem C16_append : forall f st a b la lb env d, list_to_vec a = Some la -> list_to_vec b = Some lb ->
  call_native (S f) st (s "append") [a; b] env d = (st, ROk (vec_to_list (la ++ lb))).
Proof. exact append_call. Qed.
Print Assumptions C16_append.

Theorem C16_concat : forall vals ls st d, Forall2 (fun v l => list_to_vec v = Some l) vals ls ->
  has_prelude st -> (d + N.of_nat (List.length vals) + 3 <= MAXD)%N ->
  exists fuel st' r, eval_loop fuel st co_body (co_env (vec_to_list vals)) pm d = (st', ROk r) /\ has_prelude st' /\
                     list_to_vec r = Some (List.concat ls).
Proof. exact concat_runs. Qed.
Print Assumptions C16_concat.

(* unzip-list on EVERY list of an even number of elements, and the macro let for EVERY number of bindings:
   (let (a1 e1 .. an en) body) expands to ((lambda (a1 .. an) body) e1 .. en) - each value form occurs exactly once, in
   order, the body once under the lambda; the expansion needs one level of recursion depth per binding *)
Theorem C16_unzip_list : forall tl ps d st, is_nil tl = true -> (d + N.of_nat (List.length ps) + 5 <= MAXD)%N -> has_prelude st ->
  exists fuel st', eval_loop fuel st uz_body (uz_env (flat ps tl)) pm d = (st', ROk (uzres ps)) /\ has_prelude st'.
Proof. exact unzip_runs. Qed.
Print Assumptions C16_unzip_list.

Theorem C16_let_expansion : forall ps B, macro_expands_within (N.of_nat (List.length ps) + 8) (s "let") [flat ps VNil; B]
  (VCons (vec_to_list [vsym "lambda"; vec_to_list (map fst ps); B]) (vec_to_list (map snd ps))).
Proof. exact let_expansion. Qed.
Print Assumptions C16_let_expansion.

(* case for EVERY number of clauses: (case (c1 v1) .. (cn vn)) expands to (if c1 v1 (if c2 v2 .. (if cn vn nil))):
   every condition and value form exactly once, in order, a value form only under its own condition *)
Theorem C16_case_expansion : forall cls, Forall clause cls -> macro_expands_within 6 (s "case") cls (nested_ifs cls).
Proof. exact case_expansion. Qed.
Print Assumptions C16_case_expansion.

Theorem C16_case_shape :
  (forall x r, nested_ifs (x :: r) = vec_to_list [cs_if; cond_of x; value_of x; nested_ifs r]) /\ nested_ifs [] = nil_value /\
  getv cs_if = VSym (Named (s "if")) /\ (forall c v r, clause (VCons c (VCons v r)) /\ cond_of (VCons c (VCons v r)) = c /\ value_of (VCons c (VCons v r)) = v).
Proof. repeat split. eexists; eexists; eexists; reflexivity. Qed.
