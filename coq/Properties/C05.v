(* C05 - core evaluation: call-by-value, left-to-right, lexical scope, exact arity.
   Only statements; proofs in Eval/EvalRules.v and Eval/SemProofs.v. *)
From PL Require Import Eval.EvalRules Eval.SemProofs Eval.ModulesPersist Eval.FuelMono.
From Coq Require Import String.
Local Open Scope string_scope.
Local Open Scope list_scope.
Local Open Scope N_scope.

(* application of a closure, for EVERY call form, environment, module, state and depth:
   operator first; then the operands by [eval_args]; then the body in the closure's CAPTURED
   environment extended with the parameters - the caller's environment [env] does not occur
   on the right-hand side - in the closure's home module, in tail position *)
Theorem C05_closure_application : forall f st st' e env m d first rest st1 op mac restp params body cenv cmod st2 args newenv,
  poll st = (st', None) -> list_to_vec e = Some (first :: rest) -> special_form first = false ->
  eval_internal f st' first env m (d + 1) = (st1, ROk op) ->
  getv op = VFun mac restp params body cenv cmod ->
  eval_args f env m d st1 rest [] = (st2, inl args) ->
  pair_params (call_source e) params restp args cenv 0 (List.length args) = inl newenv ->
  eval_loop (S f) st e env m d = eval_loop f st2 body newenv cmod d.
Proof. intros; eapply R_app_closure; eassumption. Qed.
Print Assumptions C05_closure_application.

(* operands strictly left to right, each once, in the state left by the previous one; the
   first operand that does not yield a value ends the evaluation of the operands *)
Theorem C05_operands_left_to_right : forall f env m d st x xs acc st1 v,
  eval_internal f st x env m (d + 1) = (st1, ROk v) ->
  eval_args f env m d st (x :: xs) acc = eval_args f env m d st1 xs (v :: acc).
Proof. exact eval_args_cons_ok. Qed.
Print Assumptions C05_operands_left_to_right.

Theorem C05_first_error_wins : forall f env m d st x xs acc st1 r,
  eval_internal f st x env m (d + 1) = (st1, r) -> (forall v, r <> ROk v) ->
  eval_args f env m d st (x :: xs) acc = (st1, inr r).
Proof. exact eval_args_cons_escape. Qed.
Print Assumptions C05_first_error_wins.

(* a non-function operator is reported BEFORE any operand is evaluated *)
Theorem C05_bad_operator_before_operands : forall f st st' e env m d first rest st1 op,
  poll st = (st', None) -> list_to_vec e = Some (first :: rest) -> special_form first = false ->
  eval_internal f st' first env m (d + 1) = (st1, ROk op) ->
  match getv op with VFun _ _ _ _ _ _ | VNative _ => False | _ => True end ->
  eval_loop (S f) st e env m d = (st1, RSig (make_error "eval-bad-operator" (s "eval") [("symbol", first)])).
Proof. intros; eapply R_app_bad_operator; eassumption. Qed.
Print Assumptions C05_bad_operator_before_operands.

(* exact arity, for parameter and argument lists of ANY length *)
Theorem C05_arity_exact : forall src params args env i n, List.length params = List.length args ->
  pair_params src params false args env i n = inl (bind_all params args env).
Proof. exact pair_params_exact. Qed.
Print Assumptions C05_arity_exact.

Theorem C05_arity_too_few : forall src params args env i n, (List.length args < List.length params)%nat ->
  pair_params src params false args env i n =
  inr (make_error "wrong-number-of-arguments" src [("expected", vnat (S (i + List.length args))); ("actual", vnat n)]).
Proof. exact pair_params_too_few. Qed.
Print Assumptions C05_arity_too_few.

Theorem C05_arity_too_many : forall src params args env i n, (List.length params < List.length args)%nat ->
  pair_params src params false args env i n =
  inr (make_error "wrong-number-of-arguments" src [("expected", vnat (i + List.length params)); ("actual", vnat n)]).
Proof. exact pair_params_too_many. Qed.
Print Assumptions C05_arity_too_many.

Theorem C05_rest_parameter : forall src ps r args env i n, (List.length ps <= List.length args)%nat ->
  pair_params src (ps ++ [r]) true args env i n =
  inl (bind r (vec_to_list (skipn (List.length ps) args)) (bind_all ps (firstn (List.length ps) args) env)).
Proof. exact pair_params_rest. Qed.
Print Assumptions C05_rest_parameter.

(* lexical scope: the innermost binding shadows outer ones and globals; a variable that is
   bound locally never reaches the global tables *)
Theorem C05_inner_binding_shadows : forall k v env, env_lookup (bind (VSym k) v env) k = LFound v.
Proof. exact lookup_bind_same. Qed.
Print Assumptions C05_inner_binding_shadows.

Theorem C05_other_bindings_untouched : forall k k' v env, sym_eqb k' k = false ->
  env_lookup (bind (VSym k') v env) k = env_lookup env k.
Proof. exact lookup_bind_other. Qed.
Print Assumptions C05_other_bindings_untouched.

Theorem C05_local_before_global : forall f st st' e env m d k v,
  poll st = (st', None) -> list_to_vec e = None -> getv e = VSym k -> env_lookup env k = LFound v ->
  eval_loop (S f) st e env m d = (st', ROk v).
Proof. intros; eapply R_var_local; eassumption. Qed.
Print Assumptions C05_local_before_global.

(* the model's fuel only stands for "enough steps": what an evaluation ends in - value, signal or
   abort - is the same for every sufficient amount of fuel, for EVERY expression, environment, module,
   depth and state (whose current module exists); so the `exists fuel` in the theorems about programs
   is not a choice among several behaviours.  Proved by mutual induction over the six functions. *)
Theorem C05_result_independent_of_fuel : forall f1 f2 st e env m d st1 r1 st2 r2, cur_ok st ->
  eval_internal f1 st e env m d = (st1, r1) -> eval_internal f2 st e env m d = (st2, r2) -> r1 <> RFuel -> r2 <> RFuel ->
  st1 = st2 /\ r1 = r2.
Proof. exact results_agree. Qed.
Print Assumptions C05_result_independent_of_fuel.

Theorem C05_more_fuel_same_result : forall f f' st e env m d st' r, (f <= f')%nat -> cur_ok st ->
  eval_internal f st e env m d = (st', r) -> r <> RFuel -> eval_internal f' st e env m d = (st', r).
Proof. exact fuel_irrelevant. Qed.
Print Assumptions C05_more_fuel_same_result.
