(* C13 - `=` is a structural equivalence on data and ignores source metadata.
   Only statements; proofs are in Data/EqualProofs.v. *)
From PL Require Import Data.Equal Data.EqualProofs.

(* On data (no functions, no traps), for operands of ANY depth, proper or improper, with
   metadata wrappers anywhere on either side: the primitive computes structural equality
   (numbers by value, characters by code point, symbols by identity, conses component-wise,
   nil only with nil) of the operands with all metadata removed. *)
Theorem C13_equal_is_structural : forall fuel a b,
  is_data a = true -> is_data b = true -> (vsize a < fuel)%nat ->
  equal fuel a b = Some (data_eqb (strip a) (strip b)).
Proof. exact equal_spec. Qed.
Print Assumptions C13_equal_is_structural.

Theorem C13_reflexive : forall v, is_data v = true -> data_eqb (strip v) (strip v) = true.
Proof. exact data_eqb_refl. Qed.
Print Assumptions C13_reflexive.

Theorem C13_symmetric : forall a b, data_eqb a b = data_eqb b a.
Proof. exact data_eqb_sym. Qed.
Print Assumptions C13_symmetric.

Theorem C13_transitive : forall a b c, data_eqb a b = true -> data_eqb b c = true -> data_eqb a c = true.
Proof. exact data_eqb_trans. Qed.
Print Assumptions C13_transitive.

(* equal operands are the same datum once metadata is removed (hence print identically: the
   printer is a function of the stripped value, see Data/Printer.v print_strip) *)
Theorem C13_equal_means_same_datum : forall a b, data_eqb a b = true -> a = b.
Proof. exact data_eqb_true_eq. Qed.
Print Assumptions C13_equal_means_same_datum.

Theorem C13_nil_only_with_nil : forall v, is_data v = true -> (data_eqb (strip v) VNil = true <-> is_nil v = true).
Proof. exact data_eqb_nil. Qed.
Print Assumptions C13_nil_only_with_nil.

Example C13_example :
  let a := VMeta (Meta [] LStdin 1 1 []) (VCons (VMeta (Meta [49] LStdin 1 2 []) (VNum 1)) (VCons (VSym (Named [97])) VNil)) in
  let b := VCons (VNum 1) (VCons (VMeta (Meta [97] LStdin 3 3 []) (VSym (Named [97]))) VNil) in
  is_data a = true /\ is_data b = true /\ equal 20 a b = Some true /\ equal 20 a (VCons (VNum 1) (VSym (Named [97]))) = Some false.
Proof. vm_compute. repeat split. Qed.
