(* C15 - globals are constants; define / undefine / load leave module state consistent. *)
From PL Require Import Eval.EvalRules Eval.SemProofs.
From Coq Require Import String.
Local Open Scope string_scope.
Local Open Scope list_scope.
Local Open Scope N_scope.

Theorem C15_define_never_overwrites : forall st n v doc d x dtext,
  getv n = VSym x -> list_to_string doc = Some dtext -> is_global_defined st (sym_name x) = true ->
  simple_native st (s "define") [n; v; doc] d = Some (st, RSig (make_error "already-defined" (s "define") [("symbol", n)])).
Proof. exact define_never_overwrites. Qed.
Print Assumptions C15_define_never_overwrites.

Theorem C15_define_new_name : forall st n v doc d x dtext,
  getv n = VSym x -> list_to_string doc = Some dtext -> is_global_defined st (sym_name x) = false ->
  exists value, simple_native st (s "define") [n; v; doc] d = Some (define_global st (sym_name x) value, ROk sym_ok) /\ getv value = getv v.
Proof. exact define_new. Qed.
Print Assumptions C15_define_new_name.

Theorem C15_define_global_defines : forall st name v,
  assoc name (current_defs (define_global st name v)) = Some v /\ cur (define_global st name v) = cur st.
Proof. exact define_global_defines. Qed.
Print Assumptions C15_define_global_defines.

Theorem C15_undefine_exact : forall st name,
  assoc name (current_defs (undefine_global st name)) = None /\
  (forall other, other <> name -> assoc other (current_defs (undefine_global st name)) = assoc other (current_defs st)) /\
  (forall mn, mn <> cur st -> find_module mn (mods (undefine_global st name)) = find_module mn (mods st)) /\
  cur (undefine_global st name) = cur st.
Proof. exact undefine_exact. Qed.
Print Assumptions C15_undefine_exact.

Theorem C15_define_again_after_undefine : forall st name, is_global_defined (undefine_global st name) name = false.
Proof. exact undefine_then_define. Qed.
Print Assumptions C15_define_again_after_undefine.

(* after load-all - success, read error, incomplete input, a signal or abort at any form,
   nested loads: every outcome - the current module is the one before the load *)
Theorem C15_load_restores_current : forall f st input source env d st' r,
  call_native (S f) st (s "load-all") [input; source] env d = (st', r) ->
  (forall site, r <> RPanic site) -> cur st' = cur st.
Proof. exact load_restores_current. Qed.
Print Assumptions C15_load_restores_current.
