(* C08 - signals reach the innermost trap intact; abort untrappable; errors are plists. *)
From PL Require Import Eval.EvalRules Eval.SemProofs Eval.Run.
From Coq Require Import String.
Local Open Scope string_scope.
Local Open Scope list_scope.
Local Open Scope N_scope.

(* whatever signalled inside the normal body (signal, a primitive, the evaluator itself, at
   any position and nesting: all of that is inside the hypothesis on [nb]) - the handler of
   THIS trap runs, in the trap's environment extended with *trapped-signal* = exactly sg *)
Theorem C08_trap_catches_with_payload : forall f st st' e env m d nb tb st1 sg,
  poll st = (st', None) -> list_to_vec e = None -> getv e = VTrap nb tb ->
  eval_internal f st' nb env m (d + 1) = (st1, RSig sg) ->
  eval_loop (S f) st e env m d = eval_internal f st1 tb (VCons (VCons (vsym "*trapped-signal*") sg) env) m (d + 1).
Proof. intros; eapply R_trap_sig; eassumption. Qed.
Print Assumptions C08_trap_catches_with_payload.

Theorem C08_trapped_signal_is_the_signal : forall sg env,
  env_lookup (VCons (VCons (vsym "*trapped-signal*") sg) env) (Named (s "*trapped-signal*")) = LFound sg.
Proof. exact trapped_signal_bound. Qed.
Print Assumptions C08_trapped_signal_is_the_signal.

Theorem C08_handler_signal_goes_outward : forall f st st' e env m d nb tb st1 sg st2 sg2,
  poll st = (st', None) -> list_to_vec e = None -> getv e = VTrap nb tb ->
  eval_internal f st' nb env m (d + 1) = (st1, RSig sg) ->
  eval_internal f st1 tb (VCons (VCons (vsym "*trapped-signal*") sg) env) m (d + 1) = (st2, RSig sg2) ->
  eval_loop (S f) st e env m d = (st2, RSig sg2).
Proof. exact handler_signal_goes_outward. Qed.
Print Assumptions C08_handler_signal_goes_outward.

(* a value or an ABORT of the normal body is the result of the trap; the handler does not run *)
Theorem C08_trap_passes_everything_else : forall f st st' e env m d nb tb st1 r,
  poll st = (st', None) -> list_to_vec e = None -> getv e = VTrap nb tb ->
  eval_internal f st' nb env m (d + 1) = (st1, r) -> (forall sg, r <> RSig sg) ->
  eval_loop (S f) st e env m d = (st1, r).
Proof. intros; eapply R_trap_other; eassumption. Qed.
Print Assumptions C08_trap_passes_everything_else.

(* abort is never intercepted: through ANY number n of nested traps with arbitrary handlers *)
Theorem C08_abort_through_any_nesting : forall n k e handlers env m d,
  (List.length handlers = n)%nat -> aborts_from k e env m (d + N.of_nat n) -> d + N.of_nat n <= MAXD + 1 ->
  aborts_from (k + 2 * n) (trap_nest n e handlers) env m d.
Proof. exact abort_through_traps. Qed.
Print Assumptions C08_abort_through_any_nesting.

Theorem C08_signal_cannot_forge_abort : forall st x d, exists r,
  simple_native st (s "signal") [x] d = Some (st, r) /\ r <> RAbort /\ (is_nil x = false -> r = RSig x).
Proof. exact signal_never_aborts. Qed.
Print Assumptions C08_signal_cannot_forge_abort.

(* errors of argument validation (every native, every special form) are property lists
   carrying kind and source *)
Theorem C08_validation_errors_are_plists : forall src sig args e, validate src sig args = Some e ->
  exists kind details, e = make_error kind src details.
Proof. exact validate_error_shape. Qed.
Print Assumptions C08_validation_errors_are_plists.

Theorem C08_define_error_is_plist : forall st n v doc d x dtext,
  getv n = VSym x -> list_to_string doc = Some dtext -> is_global_defined st (sym_name x) = true ->
  simple_native st (s "define") [n; v; doc] d = Some (st, RSig (make_error "already-defined" (s "define") [("symbol", n)])).
Proof. exact define_never_overwrites. Qed.
Print Assumptions C08_define_error_is_plist.

(* non-vacuity (a concrete instance, computed): (abort) under three nested traps aborts *)
Example C08_abort_instance :
  snd (eval_internal 30 init_state (trap_nest 3 (vec_to_list [VNative (s "abort")]) [VNum 1; VNum 2; VNum 3]) VNil (s "default") 1) = RAbort.
Proof. vm_compute. reflexivity. Qed.
