(* C17 - the in-process I/O pipe is an exactly-once FIFO with message boundaries.
   Only statements; proofs are in IO/PipeProofs.v. *)
From PL Require Import IO.Pipe IO.PipeProofs.

(* For EVERY sequence of write / flush / read operations (non-empty chunks and buffers):
   the stream of written bytes with one mark per flush equals the stream of bytes read with
   one mark per zero-length read, followed by what is still in the pipe.  So every byte is
   delivered exactly once and in order and every flush is seen exactly once, in place. *)
Theorem C17_fifo_exactly_once : forall ops, Forall op_ok ops ->
  let '(p', xs) := run pipe_init ops in
  flat_map sent_op ops = flat_map recv_out xs ++ pending p'.
Proof. exact fifo_from_empty. Qed.
Print Assumptions C17_fifo_exactly_once.

(* the same from any consistent intermediate state (e.g. reads that arrive before the data) *)
Theorem C17_fifo_any_state : forall ops p, chan_ok p -> Forall op_ok ops ->
  let '(p', xs) := run p ops in
  pending p ++ flat_map sent_op ops = flat_map recv_out xs ++ pending p' /\ chan_ok p'.
Proof. exact run_stream. Qed.
Print Assumptions C17_fifo_any_state.

Theorem C17_timeout_iff_empty : forall p n, chan_ok p -> (0 < n)%nat ->
  (snd (step p (PRead n)) = OTimeout <-> pending p = []).
Proof. exact read_empty_iff_nothing_pending. Qed.
Print Assumptions C17_timeout_iff_empty.

Theorem C17_read_bounded : forall p n,
  match snd (step p (PRead n)) with ORead bs => (length bs <= n)%nat | _ => True end.
Proof. exact read_bounded. Qed.
Print Assumptions C17_read_bounded.
