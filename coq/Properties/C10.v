(* C10 - print/read round trip on data. Only statements; proofs in Data/RoundTrip.v, Data/DecimalProofs.v. *)
From PL Require Import Data.Reader Data.Printer Data.ReaderProofs Data.RoundTrip Data.DecimalProofs.
Local Open Scope N_scope.

Theorem C10_integer_round_trip : forall z, in_i64 z = true -> parse_i64 (show_i64 z) = Some z.
Proof. exact parse_show_i64. Qed.
Print Assumptions C10_integer_round_trip.

(* every readable character, followed by anything that starts with a delimiter (or nothing) *)
Theorem C10_character_round_trip : forall c rest cur, readable_char c = true -> atom_ending rest false = Some true ->
  exists l1 l2, next_token (print_char c ++ rest) false cur = Some (inl {| tv := TChr c; tloc := l1; trest := rest; tcur := l2 |}).
Proof. exact char_round_trip. Qed.
Print Assumptions C10_character_round_trip.

(* every readable symbol name of any length *)
Theorem C10_symbol_round_trip : forall c name rest cur, symbol_start c = true -> forallb symbol_char name = true ->
  atom_ending rest false = Some true ->
  exists l1 l2, next_token ((c :: name) ++ rest) false cur = Some (inl {| tv := TSym (c :: name); tloc := l1; trest := rest; tcur := l2 |}).
Proof. exact symbol_round_trip. Qed.
Print Assumptions C10_symbol_round_trip.

(* EVERY string - any characters (quotes, backslashes, newlines, delimiters), any length -
   followed by ANY rest *)
Theorem C10_string_round_trip : forall t rest cur,
  exists l1 l2, next_token (print_string t ++ rest) false cur = Some (inl {| tv := TStr t; tloc := l1; trest := rest; tcur := l2 |}).
Proof. exact string_round_trip. Qed.
Print Assumptions C10_string_round_trip.

Example C10_readable_examples : readable_char 97 = true /\ readable_char 10 = true /\ readable_char 92 = true /\ readable_char 40 = false /\
  symbol_start 97 = true /\ symbol_start 45 = false.
Proof. vm_compute. repeat split. Qed.
