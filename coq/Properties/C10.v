(* C10 - print/read round trip on data. Only statements; proofs in Data/RoundTrip.v, Data/DecimalProofs.v,
   Data/TokenLemmas.v, Data/DatumRoundTrip.v. *)
From PL Require Import Data.Reader Data.Printer Data.ReaderProofs Data.RoundTrip Data.DecimalProofs Data.TokenLemmas Data.DatumRoundTrip.
Local Open Scope N_scope.

Theorem C10_integer_round_trip : forall z, in_i64 z = true -> parse_i64 (show_i64 z) = Some z.
Proof. exact parse_show_i64. Qed.
Print Assumptions C10_integer_round_trip.

(* every readable character, followed by anything that starts with a delimiter (or nothing) *)
Theorem C10_character_round_trip : forall c rest cur, readable_char c = true -> atom_ending rest false = Some true ->
  exists l1 l2, next_token (print_char c ++ rest) false cur = Some (inl {| tv := TChr c; tloc := l1; trest := rest; tcur := l2 |}).
Proof. exact char_round_trip. Qed.
Print Assumptions C10_character_round_trip.

(* every readable symbol name of any length *)
Theorem C10_symbol_round_trip : forall c name rest cur, symbol_start c = true -> forallb symbol_char name = true ->
  atom_ending rest false = Some true ->
  exists l1 l2, next_token ((c :: name) ++ rest) false cur = Some (inl {| tv := TSym (c :: name); tloc := l1; trest := rest; tcur := l2 |}).
Proof. exact symbol_round_trip. Qed.
Print Assumptions C10_symbol_round_trip.

(* EVERY string - any characters (quotes, backslashes, newlines, delimiters), any length -
   followed by ANY rest *)
Theorem C10_string_round_trip : forall t rest cur,
  exists l1 l2, next_token (print_string t ++ rest) false cur = Some (inl {| tv := TStr t; tloc := l1; trest := rest; tcur := l2 |}).
Proof. exact string_round_trip. Qed.
Print Assumptions C10_string_round_trip.

Example C10_readable_examples : readable_char 97 = true /\ readable_char 10 = true /\ readable_char 92 = true /\ readable_char 40 = false /\
  symbol_start 97 = true /\ symbol_start 45 = false.
Proof. vm_compute. repeat split. Qed.

(* every 64-bit integer as a token, followed by anything that starts with a delimiter (or nothing) *)
Theorem C10_number_token_round_trip : forall z rest cur, in_i64 z = true -> atom_ending rest false = Some true ->
  exists l1 l2, next_token (show_i64 z ++ rest) false cur = Some (inl {| tv := TNum z; tloc := l1; trest := rest; tcur := l2 |}).
Proof. exact number_round_trip. Qed.
Print Assumptions C10_number_token_round_trip.

(* THE PROPERTY, for every datum of any shape, length and depth (below the printer's depth limit): the value
   prints as [show x]; that text reads back as exactly one datum with nothing left over; the value read denotes
   the same abstract datum (a string and the list of its characters denote the same one); it prints again as
   the same text *)
Theorem C10_datum_round_trip : forall x v d fuel src line col,
  denotes v x -> wf x = true -> (ddepth x < fuel)%nat -> d + N.of_nat (ddepth x) <= MAX_RECURSION_DEPTH ->
  print_internal fuel v d = PrOk (show x) /\
  exists v' l, read_text src (show x) false line col = inl (v', [], l) /\ denotes v' x /\
               print_internal fuel v' d = PrOk (show x).
Proof. exact datum_round_trip. Qed.
Print Assumptions C10_datum_round_trip.

(* with more input behind it: exactly the datum's text is consumed *)
Theorem C10_datum_round_trip_rest : forall x rest src cur, wf x = true -> atom_ending rest false = Some true ->
  exists v' l, denotes v' x /\ forall f, rd (ntok x + f) src (show x ++ rest) false cur [] false = inl (v', rest, l).
Proof. exact datum_round_trip_rest. Qed.
Print Assumptions C10_datum_round_trip_rest.

(* the abstraction identifies nothing but what the property identifies: a value denotes at most one datum ... *)
Theorem C10_denotes_is_a_function : forall x v y, denotes v x -> denotes v y -> x = y.
Proof. exact denotes_fun. Qed.
Print Assumptions C10_denotes_is_a_function.

(* ... and every value of the domain (integers, characters, named symbols, nil-terminated lists, nested) denotes one *)
Theorem C10_every_proper_value_denotes : forall v, proper v = true -> exists x, denotes v x.
Proof. exact denotes_total. Qed.
Print Assumptions C10_every_proper_value_denotes.

(* printing never needs the readability premise *)
Theorem C10_print_of_a_datum : forall x v d fuel, denotes v x -> (ddepth x < fuel)%nat ->
  d + N.of_nat (ddepth x) <= MAX_RECURSION_DEPTH -> print_internal fuel v d = PrOk (show x).
Proof. exact print_denotes. Qed.
Print Assumptions C10_print_of_a_datum.

(* the class outside [wf] that is an open finding: a delimiter character has no literal *)
Theorem C10_delimiter_character_refuted :
  readable_char c_open = false /\ show (DChr c_open) = [c_pct; c_open] /\
  (forall v l, read_text SrcStdin (show (DChr c_open)) false 1 1 <> inl (v, [], l)).
Proof. exact delimiter_character_does_not_read_back. Qed.
Print Assumptions C10_delimiter_character_refuted.

Example C10_datum_example : wf sample_datum = true /\ denotes sample_value sample_datum.
Proof. split; [exact sample_is_wf|exact sample_denotes]. Qed.
