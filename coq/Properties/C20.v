(* C20 - the stepping debugger computes what the evaluator computes.  Only statements; proofs in
   Eval/DebuggerProofs.v, Eval/DebuggerDetached.v, Eval/DebuggerAttached.v.
   PARTIAL: the statements below are kernel-computed over an enumerated family of programs (the
   debugger text is the one generated from src/debugger.lisp); the statement for every program of
   the language is checked on the binary and in the model by the differential monitor, not proved. *)
From PL Require Import Eval.PreludeState Eval.DebuggerProofs Eval.DebuggerDetached Eval.DebuggerAttached.
From Coq Require Import String.
Local Open Scope string_scope.
Local Open Scope list_scope.

(* detached: every program of the depth-1 family built from literals, quote, bound and global
   variables, if, closures with fixed / rest parameters, primitives, eval+trap and a prelude macro
   yields the same value or signal and the same output through debug-eval as through eval;
   the one excluded program is the function with an empty body (known finding) *)
Theorem C20_detached_partial : forall p, In p programs1 -> has_body p = true -> agrees_with [] p = true.
Proof. exact enumerated_agree_detached. Qed.
Print Assumptions C20_detached_partial.

(* programs with output, raised and trapped signals, prelude functions running under the debugger *)
Theorem C20_effects_partial : forall p, In p effect_programs -> agrees_with [] p = true.
Proof. exact effects_agree_detached. Qed.
Print Assumptions C20_effects_partial.

(* attached: whatever the scripted debugger answers (always STEP-IN, always STEP-OVER, mixed) *)
Theorem C20_attached_partial : forall script p, In script scripts -> In p attached_family -> agrees_with script p = true.
Proof. exact enumerated_agree_attached. Qed.
Print Assumptions C20_attached_partial.

(* the excluded program really disagrees (so the exclusion is not vacuous caution) *)
Theorem C20_nil_body_refuted : agrees_with [] VNil = false.
Proof. exact nil_body_disagrees. Qed.
Print Assumptions C20_nil_body_refuted.

(* mechanism: detached, receive returns nil and send changes nothing *)
Theorem C20_receive_detached : forall st d, attached st = false -> simple_native st (s "receive") [] d = Some (st, ROk VNil).
Proof. exact receive_detached. Qed.
Print Assumptions C20_receive_detached.

Theorem C20_send_keeps_state : forall st data d, exists r, simple_native st (s "send") [data] d = Some (st, r).
Proof. exact send_keeps_state. Qed.
Print Assumptions C20_send_keeps_state.

Example C20_families_nontrivial : Nat.ltb 250 (List.length programs1) = true /\ Nat.ltb 10 (List.length effect_programs) = true.
Proof. split; vm_compute; reflexivity. Qed.
