(* C12 - Integer arithmetic is exact or signals; it never wraps, truncates or crashes.
   Only statements; proofs are in Data/ArithProofs.v and Data/DecimalProofs.v. *)
From PL Require Import Data.Arith Data.ArithProofs Data.DecimalProofs Generated.Numbers_gen.
From Coq Require Import String.
Local Open Scope Z_scope.

(* the natives add / substract / multiply / divide / < / > AS WRITTEN IN THE SOURCE
   (Generated/Numbers_gen.v) compute the specification on every pair of 64-bit integers *)
Theorem C12_natives_meet_spec : forall n x y, in_i64 x = true -> in_i64 y = true ->
  exists a, impl_of n = Some a /\ arith_eval a x y = arith_spec n x y.
Proof.
  intros n x y Hx Hy. destruct (impl_exists n) as [a Ha]. exists a. split; [exact Ha|].
  exact (impl_meets_spec n x y a Hx Hy Ha).
Qed.
Print Assumptions C12_natives_meet_spec.

(* the specification: exact result when representable, otherwise the right signal; never a
   panic, never a wrapped or saturated value; < and > are the integer order *)
Theorem C12_spec_exact_or_signal : forall n x y,
  match arith_spec n x y with
  | AOk r => in_i64 r = true /\
             match n with NAdd => r = x + y | NSub => r = x - y | NMul => r = x * y
                        | NDiv => y <> 0 /\ r = Z.quot x y | _ => False end
  | ASig k => match n with
              | NAdd => in_i64 (x + y) = false /\ k = "arithmetic-overflow"%string
              | NSub => in_i64 (x - y) = false /\ k = "arithmetic-overflow"%string
              | NMul => in_i64 (x * y) = false /\ k = "arithmetic-overflow"%string
              | NDiv => (y = 0 /\ k = "divide-by-zero"%string) \/
                        (y <> 0 /\ in_i64 (Z.quot x y) = false /\ k = "arithmetic-overflow"%string)
              | _ => False end
  | ABool b => match n with NLess => (b = true <-> x < y) | NGreater => (b = true <-> x > y) | _ => False end
  | APanic | APanicOrWrap _ => False
  end.
Proof. exact spec_exact_or_signal. Qed.
Print Assumptions C12_spec_exact_or_signal.

Theorem C12_division_truncates_toward_zero : forall x y, y <> 0 ->
  let q := Z.quot x y in let r := x - q * y in
  Z.abs r < Z.abs y /\ (0 <= x -> 0 <= r) /\ (x <= 0 -> r <= 0).
Proof. exact quot_truncates. Qed.
Print Assumptions C12_division_truncates_toward_zero.

Theorem C12_only_min_by_minus_one_overflows : forall x y,
  in_i64 x = true -> in_i64 y = true -> y <> 0 -> in_i64 (Z.quot x y) = false -> x = i64_min /\ y = -1.
Proof. exact quot_overflow_only_min. Qed.
Print Assumptions C12_only_min_by_minus_one_overflows.

(* integer literals print and read back to the same value *)
Theorem C12_literal_round_trip : forall z, in_i64 z = true -> parse_i64 (show_i64 z) = Some z.
Proof. exact parse_show_i64. Qed.
Print Assumptions C12_literal_round_trip.

(* non-vacuity: the hypotheses hold at the extremes, and the results there are the expected ones *)
Example C12_example_extremes :
  in_i64 i64_min = true /\ in_i64 i64_max = true /\
  arith_spec NDiv i64_min (-1) = ASig "arithmetic-overflow" /\
  arith_spec NAdd i64_max 1 = ASig "arithmetic-overflow" /\
  arith_spec NDiv (-7) 2 = AOk (-3) /\
  parse_i64 (show_i64 i64_min) = Some i64_min.
Proof. vm_compute. repeat split. Qed.
