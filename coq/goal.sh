#!/bin/bash
# usage: ./goal.sh File.v LINE  -> shows the goal after executing lines 1..LINE
f=$1; n=$2
( head -n $n $f; echo; echo "Show." ) | timeout 120 coqtop -Q /verif/coq PL -quiet 2>&1 | tail -${3:-40}
