From PL Require Import Data.Equal.
Local Open Scope N_scope.

Lemma strip_getv v : is_data v = true -> strip v = strip (getv v).
Proof. destruct v; cbn; auto. Qed.

Lemma is_data_getv v : is_data v = true -> is_data (getv v) = true.
Proof. destruct v as [| | | | | | | |m x]; cbn; auto. destruct x; auto; discriminate. Qed.

Lemma getv_not_meta v : is_data v = true -> forall m x, getv v <> VMeta m x.
Proof. destruct v as [| | | | | | | |m0 x0]; cbn; try congruence. destruct x0; congruence. Qed.

Lemma vsize_getv v : (vsize (getv v) <= vsize v)%nat.
Proof. destruct v; cbn; lia. Qed.

(* list_to_vec and strip *)
Lemma list_to_vec_strip : forall v l, is_data v = true -> list_to_vec v = Some l ->
  strip v = vec_to_list (map strip l) /\ Forall (fun x => is_data x = true /\ (vsize x < vsize v)%nat) l.
Proof.
  fix IH 1. intros v l Hd H. destruct v as [| | | |a d| | | |m x]; cbn in H; try discriminate.
  - injection H as <-. split; [reflexivity|constructor].
  - cbn in Hd. apply andb_prop in Hd as [Ha Hdd].
    destruct (list_to_vec d) as [l'|] eqn:E; [|discriminate]. injection H as <-.
    destruct (IH d l' Hdd E) as [Hs Hf]. split.
    + cbn. rewrite Hs. reflexivity.
    + constructor; [split; [exact Ha|cbn; lia]|].
      eapply Forall_impl; [|exact Hf]. cbn. intros y [Hy Hlt]. split; [exact Hy|lia].
  - destruct x as [| | | |a d| | | |m' x']; try discriminate.
    + injection H as <-. split; [reflexivity|constructor].
    + cbn in Hd. apply andb_prop in Hd as [Ha Hdd].
      destruct (list_to_vec d) as [l'|] eqn:E; [|discriminate]. injection H as <-.
      destruct (IH d l' Hdd E) as [Hs Hf]. split.
      * cbn. rewrite Hs. reflexivity.
      * constructor; [split; [exact Ha|cbn; lia]|].
        eapply Forall_impl; [|exact Hf]. cbn. intros y [Hy Hlt]. split; [exact Hy|lia].
Qed.

Lemma list_to_vec_none_strip : forall v, is_data v = true -> list_to_vec v = None -> list_to_vec (strip v) = None.
Proof.
  fix IH 1. intros v Hd H. destruct v as [| | | |a d| | | |m x]; cbn in *; try discriminate; auto.
  - apply andb_prop in Hd as [Ha Hdd]. destruct (list_to_vec d) eqn:E; [discriminate|].
    rewrite (IH d Hdd E). reflexivity.
  - destruct x as [| | | |a d| | | |m' x']; cbn in *; try discriminate; auto.
    apply andb_prop in Hd as [Ha Hdd]. destruct (list_to_vec d) eqn:E; [discriminate|].
    rewrite (IH d Hdd E). reflexivity.
Qed.

Lemma list_to_vec_vec_to_list l : (forall x, In x l -> True) -> list_to_vec (vec_to_list l) = Some l.
Proof. intros _. induction l as [|x l IH]; cbn; [reflexivity|]. rewrite IH. reflexivity. Qed.

Lemma data_eqb_lists : forall l1 l2,
  data_eqb (vec_to_list l1) (vec_to_list l2) =
  (fix go (a b : list val) : bool :=
     match a, b with
     | [], [] => true
     | x :: r1, y :: r2 => data_eqb x y && go r1 r2
     | _, _ => false
     end) l1 l2.
Proof. induction l1 as [|x l1 IH]; intros [|y l2]; cbn; auto. rewrite IH. reflexivity. Qed.

Lemma data_eqb_true_eq : forall a b, data_eqb a b = true -> a = b.
Proof.
  induction a; intros b H; destruct b; cbn in H; try discriminate; auto.
  - apply Z.eqb_eq in H. congruence.
  - apply N.eqb_eq in H. congruence.
  - apply sym_eqb_eq in H. congruence.
  - apply andb_prop in H as [H1 H2]. f_equal; auto.
Qed.

(* main lemma: with enough fuel, [equal] is structural equality of the stripped operands *)
Lemma equal_spec : forall fuel a b, is_data a = true -> is_data b = true -> (vsize a < fuel)%nat ->
  equal fuel a b = Some (data_eqb (strip a) (strip b)).
Proof.
  induction fuel as [|f IH]; intros a b Ha Hb Hf; [lia|].
  cbn [equal].
  rewrite (strip_getv a Ha), (strip_getv b Hb).
  pose proof (is_data_getv a Ha) as Ha'. pose proof (is_data_getv b Hb) as Hb'.
  pose proof (getv_not_meta a Ha) as Hna. pose proof (getv_not_meta b Hb) as Hnb.
  pose proof (vsize_getv a) as Hsa.
  destruct (getv a) as [|x|x|x|a1 d1| | | |ma xa] eqn:Ea; try discriminate;
  destruct (getv b) as [|y|y|y|a2 d2| | | |mb xb] eqn:Eb; try discriminate; try reflexivity;
  try (exfalso; eapply Hna; reflexivity); try (exfalso; eapply Hnb; reflexivity).
  (* both conses *)
  destruct (list_to_vec a) as [l1|] eqn:L1.
  - destruct (list_to_vec_strip a l1 Ha L1) as [Hs1 Hf1].
    rewrite (strip_getv a Ha), Ea in Hs1.
    destruct (list_to_vec b) as [l2|] eqn:L2.
    + destruct (list_to_vec_strip b l2 Hb L2) as [Hs2 Hf2].
      rewrite (strip_getv b Hb), Eb in Hs2.
      rewrite Hs1, Hs2, data_eqb_lists.
      clear Hs1 Hs2 L1 L2. revert l2 Hf2.
      induction l1 as [|x l1 IHl]; intros [|y l2] Hf2; cbn; try reflexivity.
      inversion Hf1 as [|? ? [Hdx Hsx] Hr1]; subst. inversion Hf2 as [|? ? [Hdy _] Hr2]; subst.
      rewrite (IH x y Hdx Hdy ltac:(lia)).
      destruct (data_eqb (strip x) (strip y)); cbn; [|reflexivity].
      apply IHl; assumption.
    + (* a is a list, b is not *)
      destruct (data_eqb (strip (VCons a1 d1)) (strip (VCons a2 d2))) eqn:E; [|reflexivity].
      exfalso. apply data_eqb_true_eq in E.
      pose proof (list_to_vec_none_strip b Hb L2) as Hn. rewrite (strip_getv b Hb), Eb, <- E, Hs1 in Hn.
      rewrite list_to_vec_vec_to_list in Hn by auto. discriminate.
  - (* a is an improper list *)
    cbn in Ha', Hb'. apply andb_prop in Ha' as [Ha1 Hd1]. apply andb_prop in Hb' as [Ha2 Hd2].
    cbn in Hsa. cbn [strip data_eqb].
    rewrite (IH a1 a2 Ha1 Ha2 ltac:(lia)).
    destruct (data_eqb (strip a1) (strip a2)); cbn; [|reflexivity].
    apply IH; auto; lia.
Qed.

(* equivalence laws of the specification on data *)
Lemma data_eqb_refl : forall v, is_data v = true -> data_eqb (strip v) (strip v) = true.
Proof.
  induction v as [| | | |a IHa d IHd| | | |m x IHx]; intros H; cbn in *; try discriminate; auto.
  - apply Z.eqb_refl.
  - apply N.eqb_refl.
  - apply sym_eqb_eq; reflexivity.
  - apply andb_prop in H as [H1 H2]. rewrite (IHa H1), (IHd H2). reflexivity.
  - destruct x; try discriminate; apply IHx; exact H.
Qed.

Lemma data_eqb_sym : forall a b, data_eqb a b = data_eqb b a.
Proof.
  induction a; intros b; destruct b; cbn; auto.
  - apply Z.eqb_sym.
  - apply N.eqb_sym.
  - destruct s, s0; cbn; auto.
    + destruct (text_eqb_spec name name0), (text_eqb_spec name0 name); congruence.
    + apply N.eqb_sym.
  - rewrite IHa1, IHa2. reflexivity.
Qed.

Lemma data_eqb_trans a b c : data_eqb a b = true -> data_eqb b c = true -> data_eqb a c = true.
Proof. intros H1 H2. apply data_eqb_true_eq in H1. subst. exact H2. Qed.

Lemma data_eqb_nil v : is_data v = true -> (data_eqb (strip v) VNil = true <-> is_nil v = true).
Proof.
  intros H. unfold is_nil. rewrite (strip_getv v H). pose proof (getv_not_meta v H) as Hn.
  destruct (getv v) eqn:E; cbn; split; try discriminate; auto. exfalso; eapply Hn; reflexivity.
Qed.
