(* The printer: transcription of src/native/print/mod.rs.  Addresses inside the printed
   form of functions, traps and generated symbols are printed as 0x0 (the property C02
   allows exactly that variation; the harness canonicalises the implementation's output
   the same way). *)
From PL Require Export Data.Val Data.Decimal Generated.Config_gen.
From Coq Require Import String.
Local Open Scope string_scope.
Local Open Scope list_scope.
Local Open Scope N_scope.

Definition print_char (c : char) : text :=
  c_pct :: (if c =? c_tab then [c_bs; 116] else if c =? c_nl then [c_bs; 110] else if c =? c_cr then [c_bs; 114]
            else if c =? c_space then [c_bs; 115] else if c =? c_bs then [c_bs; c_bs] else [c]).

Definition sym_name (x : sym) : text :=
  match x with Named n => n | Unique _ => s "#<symbol-0x0>" end.

Fixpoint print_atom (v : val) : text :=
  match v with
  | VNil => s "()"
  | VMeta _ x => print_atom x
  | VNum z => show_i64 z
  | VChar c => print_char c
  | VSym x => sym_name x
  | VTrap _ _ => s "#<trap-0x0>"
  | VFun mac _ _ _ _ _ => if mac then s "#<macro-0x0>" else s "#<lambda-0x0>"
  | VNative _ => s "#<lambda-0x0>"
  | VCons a d => s "(cons " ++ print_atom a ++ [c_space] ++ print_atom d ++ [c_close]
  end.

Fixpoint print_string_body (t : text) : text :=
  match t with
  | [] => []
  | c :: r => if (c =? c_dq) || (c =? c_bs) then c_bs :: c :: print_string_body r else c :: print_string_body r
  end.
Definition print_string (t : text) : text := c_dq :: print_string_body t ++ [c_dq].

Fixpoint join_space (l : list text) : text :=
  match l with
  | [] => []
  | [x] => x
  | x :: r => x ++ c_space :: join_space r
  end.
Definition print_list (l : list text) : text := c_open :: join_space l ++ [c_close].

Inductive pres := PrOk (t : text) | PrOverflow | PrFuel.

(* print_internal; [d] is the recursion depth as the Rust function receives it *)
Fixpoint print_internal (fuel : nat) (v : val) (d : N) : pres :=
  match fuel with
  | O => PrFuel
  | S f =>
    if MAX_RECURSION_DEPTH <? d then PrOverflow
    else if is_nil v then PrOk (s "()")
    else match list_to_string v with
         | Some t => PrOk (print_string t)
         | None =>
           match list_to_vec v with
           | Some elems =>
             let go := fix go (l : list val) : option (list text) + pres :=
                         match l with
                         | [] => inl (Some [])
                         | x :: r => match print_internal f x (d + 1) with
                                     | PrOk t => match go r with
                                                 | inl (Some ts) => inl (Some (t :: ts))
                                                 | other => other
                                                 end
                                     | e => inr e
                                     end
                         end in
             match go elems with
             | inl (Some ts) => PrOk (print_list ts)
             | inl None => PrFuel
             | inr e => e
             end
           | None => PrOk (print_atom v)
           end
         end
  end.

(* the native `print` adds one to the depth it was called with *)
Definition print_native (fuel : nat) (v : val) (d : N) : pres := print_internal fuel v (d + 1).
