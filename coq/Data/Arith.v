(* 64-bit integer primitives.  The *shape* of each native in src/native/numbers/mod.rs
   (which Rust operation it applies, under which guard, which signal it raises) is
   extracted by the translator into Generated/Numbers_gen.v as an [arith_impl]; this file
   gives those shapes their meaning. *)
From PL Require Export Data.Decimal.
From Coq Require Import String.
Local Open Scope Z_scope.

Inductive binop := OpAdd | OpSub | OpMul | OpDiv | OpRem.
(* Checked = i64::checked_op (None on overflow / division by zero);
   Wrapping, Saturating = the corresponding i64 methods;
   Raw = the plain operator: + - * panic on overflow in a debug build and wrap in a
   release build, / and % panic on a zero divisor and on MIN / -1 in every build *)
Inductive opmode := Checked | Wrapping | Saturating | Raw.
Inductive cmpop := CmpLt | CmpGt | CmpLe | CmpGe.

Inductive arith_impl :=
| AOp (zero_guard : option string) (m : opmode) (o : binop) (overflow_kind : string)
| ACmp (c : cmpop).

Inductive ares :=
| AOk (z : Z)            (* a number *)
| ABool (b : bool)       (* t / nil *)
| ASig (kind : string)   (* make_error(kind, <name>, []) *)
| APanic                 (* the process panics in every build profile *)
| APanicOrWrap (w : Z).  (* panics in the debug profile, yields w in the release profile *)

Definition wrap64 (z : Z) : Z := (z + 2 ^ 63) mod 2 ^ 64 - 2 ^ 63.
Definition sat64 (z : Z) : Z := if z <? i64_min then i64_min else if i64_max <? z then i64_max else z.

Definition exact (o : binop) (x y : Z) : Z :=
  match o with
  | OpAdd => x + y | OpSub => x - y | OpMul => x * y
  | OpDiv => Z.quot x y | OpRem => Z.rem x y
  end.

Definition is_division (o : binop) : bool := match o with OpDiv | OpRem => true | _ => false end.

Definition arith_eval (a : arith_impl) (x y : Z) : ares :=
  match a with
  | ACmp CmpLt => ABool (x <? y)
  | ACmp CmpGt => ABool (x >? y)
  | ACmp CmpLe => ABool (x <=? y)
  | ACmp CmpGe => ABool (x >=? y)
  | AOp guard m o k =>
    match guard with
    | Some gk => if y =? 0 then ASig gk else
        let r := exact o x y in
        match m with
        | Checked => if in_i64 r then AOk r else ASig k
        | Wrapping => AOk (wrap64 r)
        | Saturating => AOk (sat64 r)
        | Raw => if in_i64 r then AOk r else if is_division o then APanic else APanicOrWrap (wrap64 r)
        end
    | None =>
        if is_division o && (y =? 0) then
          match m with Checked => ASig k | _ => APanic end
        else
        let r := exact o x y in
        match m with
        | Checked => if in_i64 r then AOk r else ASig k
        | Wrapping => AOk (wrap64 r)
        | Saturating => AOk (sat64 r)
        | Raw => if in_i64 r then AOk r else if is_division o then APanic else APanicOrWrap (wrap64 r)
        end
    end
  end.

(* The specification of C12, independent of how the natives are written. *)
Inductive arith_name := NAdd | NSub | NMul | NDiv | NLess | NGreater.

Definition arith_spec (n : arith_name) (x y : Z) : ares :=
  match n with
  | NAdd => if in_i64 (x + y) then AOk (x + y) else ASig "arithmetic-overflow"
  | NSub => if in_i64 (x - y) then AOk (x - y) else ASig "arithmetic-overflow"
  | NMul => if in_i64 (x * y) then AOk (x * y) else ASig "arithmetic-overflow"
  | NDiv => if y =? 0 then ASig "divide-by-zero"
            else if in_i64 (Z.quot x y) then AOk (Z.quot x y) else ASig "arithmetic-overflow"
  | NLess => ABool (x <? y)
  | NGreater => ABool (x >? y)
  end.

Definition arith_rust_name (n : arith_name) : string :=
  match n with
  | NAdd => "add" | NSub => "substract" | NMul => "multiply" | NDiv => "divide"
  | NLess => "<" | NGreater => ">"
  end.

Fixpoint assoc_string {A} (k : string) (l : list (string * A)) : option A :=
  match l with
  | [] => None
  | (k', v) :: r => if String.eqb k k' then Some v else assoc_string k r
  end.

(* comparison of a model outcome with an observed implementation outcome;
   [release] says which build profile the implementation was compiled in *)
Definition ares_match (release : bool) (model observed : ares) : bool :=
  match model, observed with
  | AOk a, AOk b => a =? b
  | ABool a, ABool b => Bool.eqb a b
  | ASig a, ASig b => String.eqb a b
  | APanic, APanic => true
  | APanicOrWrap w, AOk b => release && (w =? b)
  | APanicOrWrap _, APanic => negb release
  | _, _ => false
  end.
