From PL Require Export Data.ArithImpl.
From Coq Require Import String ZifyBool.
Local Open Scope Z_scope.


(* every arithmetic native named by the property exists in the source *)
Lemma impl_exists n : exists a, impl_of n = Some a.
Proof. destruct n; vm_compute; eexists; reflexivity. Qed.

(* the natives, as written in the source, compute the specification on all pairs of i64 *)
Lemma impl_meets_spec n x y a :
  in_i64 x = true -> in_i64 y = true -> impl_of n = Some a -> arith_eval a x y = arith_spec n x y.
Proof.
  intros Hx Hy Ha. destruct n; vm_compute in Ha; injection Ha as <-; cbn [arith_eval arith_spec exact is_division andb];
    try reflexivity.
Qed.

(* what the specification means, in the words of the property *)
Lemma spec_exact_or_signal n x y :
  match arith_spec n x y with
  | AOk r => in_i64 r = true /\
             match n with NAdd => r = x + y | NSub => r = x - y | NMul => r = x * y
                        | NDiv => y <> 0 /\ r = Z.quot x y | _ => False end
  | ASig k => match n with
              | NAdd => in_i64 (x + y) = false /\ k = "arithmetic-overflow"%string
              | NSub => in_i64 (x - y) = false /\ k = "arithmetic-overflow"%string
              | NMul => in_i64 (x * y) = false /\ k = "arithmetic-overflow"%string
              | NDiv => (y = 0 /\ k = "divide-by-zero"%string) \/
                        (y <> 0 /\ in_i64 (Z.quot x y) = false /\ k = "arithmetic-overflow"%string)
              | _ => False end
  | ABool b => match n with NLess => (b = true <-> x < y) | NGreater => (b = true <-> x > y) | _ => False end
  | APanic | APanicOrWrap _ => False
  end.
Proof.
  destruct n; cbn [arith_spec].
  - destruct (in_i64 (x + y)) eqn:E; auto.
  - destruct (in_i64 (x - y)) eqn:E; auto.
  - destruct (in_i64 (x * y)) eqn:E; auto.
  - destruct (Z.eqb_spec y 0) as [->|Hy]; [left; auto|].
    destruct (in_i64 (Z.quot x y)) eqn:E; auto.
  - lia.
  - lia.
Qed.

(* truncation toward zero: the quotient is the unique q with x = q*y + r, |r| < |y|, r having the sign of x *)
Lemma quot_truncates x y : y <> 0 ->
  let q := Z.quot x y in let r := x - q * y in
  Z.abs r < Z.abs y /\ (0 <= x -> 0 <= r) /\ (x <= 0 -> r <= 0).
Proof.
  intros Hy q r. subst q r.
  pose proof (Z.quot_rem' x y) as H. pose proof (Z.rem_bound_abs x y Hy).
  pose proof (Z.rem_sign_nz x y). pose proof (Z.rem_nonneg x y). pose proof (Z.rem_nonpos x y).
  replace (x - Z.quot x y * y) with (Z.rem x y) by lia. lia.
Qed.

(* the only quotient of two i64 that is not an i64 *)
Lemma quot_overflow_only_min x y : in_i64 x = true -> in_i64 y = true -> y <> 0 ->
  in_i64 (Z.quot x y) = false -> x = i64_min /\ y = -1.
Proof.
  unfold in_i64, i64_min, i64_max. intros Hx Hy Hy0 Hq.
  assert (Hb : Z.abs (Z.quot x y) <= Z.abs x).
  { pose proof (Z.quot_rem' x y). pose proof (Z.rem_bound_abs x y Hy0). pose proof (Z.rem_sign_nz x y).
    nia. }
  destruct (Z.eq_dec y (-1)) as [->|Hm1].
  - change (-1) with (Z.opp 1) in Hq. rewrite Z.quot_opp_r, Z.quot_1_r in Hq by lia. lia.
  - destruct (Z.eq_dec y 1) as [->|H1]; [rewrite Z.quot_1_r in Hq; lia|].
    assert (2 <= Z.abs y) by lia.
    assert (Z.abs (Z.quot x y) * 2 <= Z.abs x).
    { pose proof (Z.quot_rem' x y). pose proof (Z.rem_bound_abs x y Hy0). pose proof (Z.rem_sign_nz x y). nia. }
    lia.
Qed.
