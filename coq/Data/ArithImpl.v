(* model file: the arithmetic natives as generated from the source *)
From PL Require Export Data.Arith Generated.Numbers_gen.
Definition impl_of (n : arith_name) : option arith_impl := assoc_string (arith_rust_name n) numbers_impl.
