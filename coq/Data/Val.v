(* Values of the interpreter at the level at which the evaluator, printer, reader and
   primitives see them (src/memory/mod.rs: PrimitiveValue / MetaValue behind GcRef).
   The heap-level representation (cells, raw pointers, collection) is modelled separately
   in Heap/*; the language has no mutation of heap objects, so a value is determined by the
   (immutable) graph below its cell. *)
From PL Require Export Base.Chars.
From Coq Require Import String.
Local Open Scope N_scope.

Inductive lockind := LNative | LPrelude | LStdin | LFile (path : text).

Record meta := Meta { m_name : text; m_kind : lockind; m_line : N; m_col : N; m_doc : text }.

Inductive sym := Named (name : text) | Unique (id : N).

Inductive val :=
| VNil
| VNum (z : Z)
| VChar (c : char)
| VSym (s : sym)
| VCons (a d : val)
| VFun (mac rest : bool) (params : list val) (body env : val) (envmod : text)
| VNative (name : text)
| VTrap (nb tb : val)
| VMeta (md : meta) (v : val).

Definition sym_eqb (a b : sym) : bool :=
  match a, b with
  | Named x, Named y => text_eqb x y
  | Unique x, Unique y => x =? y
  | _, _ => false
  end.

Lemma sym_eqb_eq a b : sym_eqb a b = true <-> a = b.
Proof.
  destruct a, b; cbn; try (split; congruence).
  - rewrite text_eqb_eq. split; congruence.
  - rewrite N.eqb_eq. split; congruence.
Qed.

(* GcRef::get : look through one metadata wrapper (wrappers are never nested:
   allocate_metadata panics on a wrapped argument) *)
Definition getv (v : val) : val := match v with VMeta _ x => x | _ => v end.
Definition get_meta (v : val) : option meta := match v with VMeta m _ => Some m | _ => None end.
Definition is_nil (v : val) : bool := match getv v with VNil => true | _ => false end.

Definition vsym (x : string) : val := VSym (Named (s x)).
Definition is_sym (v : val) (name : text) : bool :=
  match getv v with VSym (Named n) => text_eqb n name | _ => false end.

Fixpoint vec_to_list (l : list val) : val :=
  match l with [] => VNil | x :: r => VCons x (vec_to_list r) end.

(* util::list_to_vec : None unless a nil-terminated chain of conses *)
Fixpoint list_to_vec (v : val) : option (list val) :=
  match v with
  | VNil => Some []
  | VMeta _ VNil => Some []
  | VCons a d => match list_to_vec d with Some l => Some (a :: l) | None => None end
  | VMeta _ (VCons a d) => match list_to_vec d with Some l => Some (a :: l) | None => None end
  | _ => None
  end.

Fixpoint chars_of (l : list val) : option text :=
  match l with
  | [] => Some []
  | x :: r => match getv x with
              | VChar c => match chars_of r with Some t => Some (c :: t) | None => None end
              | _ => None
              end
  end.

(* util::list_to_string : a list of characters, optionally headed by the symbol `list` *)
Definition list_to_string (v : val) : option text :=
  match list_to_vec v with
  | Some l => match l with
              | x :: r => if is_sym x (s "list") then chars_of r else chars_of l
              | [] => Some []
              end
  | None => None
  end.

Definition string_to_list (t : text) : val := vec_to_list (map VChar t).
Definition string_to_proper_list (t : text) : val := vec_to_list (vsym "list" :: map VChar t).

(* remove every metadata wrapper, at any depth *)
Fixpoint strip (v : val) : val :=
  match v with
  | VMeta _ x => strip x
  | VCons a d => VCons (strip a) (strip d)
  | VFun m r ps b e em => VFun m r (map strip ps) (strip b) (strip e) em
  | VTrap a b => VTrap (strip a) (strip b)
  | _ => v
  end.

Fixpoint vsize (v : val) : nat :=
  match v with
  | VCons a d => S (vsize a + vsize d)
  | VMeta _ x => S (vsize x)
  | VFun _ _ ps b e _ => S (fold_right (fun p n => vsize p + n)%nat 0%nat ps + vsize b + vsize e)
  | VTrap a b => S (vsize a + vsize b)
  | _ => 1%nat
  end.

(* TypeLabel of GcRef::get_type, then error_utils::extended_get_type *)
Inductive tlabel := TAny | TNil | TNumber | TCharacter | TCons | TList | TString | TSymbol | TFunction | TTrap.

Definition get_type (v : val) : tlabel :=
  match getv v with
  | VNil => TNil | VNum _ => TNumber | VChar _ => TCharacter | VSym _ => TSymbol
  | VCons _ _ => TCons | VFun _ _ _ _ _ _ | VNative _ => TFunction | VTrap _ _ => TTrap
  | VMeta _ _ => TNil
  end.

(* util::cons_type *)
Fixpoint all_chars (l : list val) : bool :=
  match l with [] => true | x :: r => match get_type x with TCharacter => all_chars r | _ => false end end.

Definition extended_get_type (v : val) : tlabel :=
  match get_type v with
  | TCons => match list_to_vec v with
             | Some l => if all_chars l then TString else TList
             | None => TCons
             end
  | t => t
  end.

Definition tlabel_name (t : tlabel) : string :=
  match t with
  | TAny => "any-type" | TNil => "nil-type" | TNumber => "number-type" | TCharacter => "character-type"
  | TCons => "conscell-type" | TList => "list-type" | TString => "string-type" | TSymbol => "symbol-type"
  | TFunction => "function-type" | TTrap => "trap-type"
  end.
