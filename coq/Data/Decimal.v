(* Decimal text of 64-bit integers: [show_i64] models Rust's [format!("{n}")] for i64,
   [parse_i64] models [str::parse::<i64>] (optional single sign, one or more ASCII
   digits, error on overflow).  Both are compared with the implementation on boundary
   values and random values by the C12 / C10 correspondence. *)
From PL Require Export Base.Chars.
Open Scope N_scope.

Definition i64_min : Z := (- 2 ^ 63)%Z.
Definition i64_max : Z := (2 ^ 63 - 1)%Z.
Definition in_i64 (z : Z) : bool := ((i64_min <=? z) && (z <=? i64_max))%Z.

Fixpoint digits_val (ds : text) (acc : Z) : option Z :=
  match ds with
  | [] => Some acc
  | d :: ds' => if is_digit d then digits_val ds' (acc * 10 + Z.of_N (d - 48))%Z else None
  end.

Definition parse_i64 (t : text) : option Z :=
  let '(neg, ds) := match t with
                    | c :: r => if c =? c_minus then (true, r)
                                else if c =? c_plus then (false, r) else (false, t)
                    | [] => (false, [])
                    end in
  match ds with
  | [] => None
  | _ => match digits_val ds 0%Z with
         | Some v => let v' := if neg then (- v)%Z else v in
                     if in_i64 v' then Some v' else None
         | None => None
         end
  end.

Fixpoint show_N_aux (fuel : nat) (n : N) (acc : text) : text :=
  match fuel with
  | O => acc
  | S f => let acc' := (48 + n mod 10) :: acc in
           if n / 10 =? 0 then acc' else show_N_aux f (n / 10) acc'
  end.

Definition show_N (n : N) : text := show_N_aux (S (N.size_nat n)) n [].

Definition show_i64 (z : Z) : text :=
  if (z <? 0)%Z then c_minus :: show_N (Z.abs_N z) else show_N (Z.to_N z).
