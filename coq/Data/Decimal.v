(* Decimal text of 64-bit integers: [show_i64] models Rust's [format!("{n}")] for i64,
   [parse_i64] models [str::parse::<i64>] (optional single sign, one or more ASCII
   digits, error on overflow).  Both are compared with the implementation on boundary
   values and random values by the C12 / C10 correspondence. *)
From PL Require Export Base.Chars.
Local Open Scope N_scope.

Definition i64_min : Z := (- 2 ^ 63)%Z.
Definition i64_max : Z := (2 ^ 63 - 1)%Z.
Definition in_i64 (z : Z) : bool := ((i64_min <=? z) && (z <=? i64_max))%Z.

Fixpoint digits_val (ds : text) (acc : Z) : option Z :=
  match ds with
  | [] => Some acc
  | d :: ds' => if is_digit d then digits_val ds' (acc * 10 + Z.of_N (d - 48))%Z else None
  end.

(* str::parse::<i64>: errors in the order the library reports them, scanning left to right *)
Inductive perr := PEmpty | PInvalidDigit | PPosOverflow | PNegOverflow.

Fixpoint scan_digits (neg : bool) (ds : text) (acc : Z) : perr + Z :=
  match ds with
  | [] => inr acc
  | d :: r =>
    if is_digit d then
      let v := Z.of_N (d - 48) in
      let acc' := if neg then (acc * 10 - v)%Z else (acc * 10 + v)%Z in
      if in_i64 acc' then scan_digits neg r acc' else inl (if neg then PNegOverflow else PPosOverflow)
    else inl PInvalidDigit
  end.

Definition parse_i64_full (t : text) : perr + Z :=
  match t with
  | [] => inl PEmpty
  | c :: r =>
    if c =? c_minus then match r with [] => inl PInvalidDigit | _ => scan_digits true r 0%Z end
    else if c =? c_plus then match r with [] => inl PInvalidDigit | _ => scan_digits false r 0%Z end
    else scan_digits false t 0%Z
  end.

Definition parse_i64 (t : text) : option Z :=
  match parse_i64_full t with inr z => Some z | inl _ => None end.

Fixpoint show_N_aux (fuel : nat) (n : N) (acc : text) : text :=
  match fuel with
  | O => acc
  | S f => let acc' := (48 + n mod 10) :: acc in
           if n / 10 =? 0 then acc' else show_N_aux f (n / 10) acc'
  end.

Definition show_N (n : N) : text := show_N_aux (S (N.size_nat n)) n [].

Definition show_i64 (z : Z) : text :=
  if (z <? 0)%Z then c_minus :: show_N (Z.abs_N z) else show_N (Z.to_N z).
