(* Token-level round trips: what the printer emits for a character, a symbol, a string
   reads back as that token, for every character / name / string in the stated domain. *)
From PL Require Import Data.Reader Data.Printer Data.ReaderProofs.
From Coq Require Import String ZifyBool.
Local Open Scope string_scope.
Local Open Scope list_scope.
Local Open Scope N_scope.

(* characters that can be written as a literal: everything outside the delimiter class;
   tab, newline, carriage return, space and backslash have escapes *)
Definition plain_char (c : char) : bool := negb (is_delim c) && negb (c =? c_bs).
Definition escaped_char (c : char) : bool := (c =? c_tab) || (c =? c_nl) || (c =? c_cr) || (c =? c_space) || (c =? c_bs).
Definition readable_char (c : char) : bool := plain_char c || escaped_char c.

(* symbol names: the first character is not a sign, a digit or %, no character is a
   delimiter or a backslash *)
Definition symbol_char (c : char) : bool := negb (is_delim c) && negb (c =? c_bs).
Definition symbol_start (c : char) : bool :=
  symbol_char c && negb (c =? c_pct) && negb (c =? c_plus) && negb (c =? c_minus) && negb (is_digit c).

Lemma not_delim_facts c : is_delim c = false ->
  is_ws c = false /\ (c =? c_comma) = false /\ (c =? c_semi) = false /\ (c =? c_quote) = false /\
  (c =? c_open) = false /\ (c =? c_close) = false /\ (c =? c_dq) = false.
Proof.
  unfold is_delim. intros H. repeat (apply orb_false_iff in H as [H ?]). repeat split; assumption.
Qed.

(* one step of the tokenizer on a non-delimiter, non-backslash character in an atom state *)
Lemma tok_push c r inv st buf bl cur : symbol_char c = true ->
  (st = CharacterS \/ st = SymbolS) ->
  tok (c :: r) inv st buf bl cur =
  let cur' := step_loc cur c in
  match atom_ending r inv with
  | None => Some (inr EInvalid)
  | Some false => tok r inv st (c :: buf) bl cur'
  | Some true =>
    match st with
    | CharacterS => match build_character (rev (c :: buf)) with
                    | Some x => Some (inl {| tv := TChr x; tloc := bl; trest := r; tcur := cur' |})
                    | None => let '(Loc a b) := cur' in Some (inr (EError (msg_invalid_char (rev (c :: buf))) cur' r a (b + 1)))
                    end
    | _ => Some (inl {| tv := TSym (rev (c :: buf)); tloc := bl; trest := r; tcur := cur' |})
    end
  end.
Proof.
  intros Hc Hst. unfold symbol_char in Hc. apply andb_prop in Hc as [Hd Hb].
  apply negb_true_iff in Hd, Hb. destruct (not_delim_facts c Hd) as (W & C1 & C2 & C3 & C4 & C5 & C6).
  cbn [tok]. destruct (step_loc cur c) as [a b] eqn:El. cbn zeta.
  destruct Hst as [-> | ->]; cbn [status_eqb andb];
    rewrite W, C1, C2, C3, C4, C5, C6, Hb; cbn [orb];
    destruct (c =? c_pct); destruct ((c =? c_plus) || (c =? c_minus)); destruct (is_digit c);
    destruct (atom_ending r inv) as [[|]|]; reflexivity.
Qed.

Lemma symbol_start_facts c : symbol_start c = true ->
  is_delim c = false /\ (c =? c_bs) = false /\ (c =? c_pct) = false /\ (c =? c_plus) = false /\ (c =? c_minus) = false /\ is_digit c = false.
Proof.
  unfold symbol_start, symbol_char. intros H.
  destruct (is_delim c), (c =? c_bs), (c =? c_pct), (c =? c_plus), (c =? c_minus), (is_digit c); cbn in H; try discriminate; repeat split.
Qed.

(* one-step lemmas for the fixed characters (the rest of the input is a variable, so only one step unfolds) *)
Lemma tok_pct r inv cur : tok (c_pct :: r) inv WhiteSpace [] cur cur = tok r inv CharacterS [] (step_loc cur c_pct) (step_loc cur c_pct).
Proof. cbn [tok]. destruct (step_loc cur c_pct). reflexivity. Qed.

Lemma tok_dq_open r inv cur : tok (c_dq :: r) inv WhiteSpace [] cur cur = tok r inv StringNormal [] (step_loc cur c_dq) (step_loc cur c_dq).
Proof. cbn [tok]. destruct (step_loc cur c_dq). reflexivity. Qed.

Lemma tok_dq_close r inv buf bl cur : tok (c_dq :: r) inv StringNormal buf bl cur =
  Some (inl {| tv := TStr (rev buf); tloc := bl; trest := r; tcur := step_loc cur c_dq |}).
Proof. cbn [tok]. destruct (step_loc cur c_dq). reflexivity. Qed.

Lemma tok_str_plain c r inv buf bl cur : (c =? c_dq) = false -> (c =? c_bs) = false ->
  tok (c :: r) inv StringNormal buf bl cur = tok r inv StringNormal (c :: buf) bl (step_loc cur c).
Proof. intros H1 H2. cbn [tok]. destruct (step_loc cur c). cbn [status_eqb andb]. rewrite H1, H2. reflexivity. Qed.

Lemma tok_str_bs r buf bl cur : tok (c_bs :: r) false StringNormal buf bl cur = tok r false StringEscape buf bl (step_loc cur c_bs).
Proof.
  cbn [tok]. destruct (step_loc cur c_bs). cbn. destruct buf; [reflexivity|]. destruct r as [|x r]; [reflexivity|]. cbn. destruct (is_delim x); reflexivity.
Qed.

Lemma tok_esc_dq r inv buf bl cur : tok (c_dq :: r) inv StringEscape buf bl cur = tok r inv StringNormal (c_dq :: buf) bl (step_loc cur c_dq).
Proof. cbn [tok]. destruct (step_loc cur c_dq). reflexivity. Qed.

Lemma tok_esc_bs r inv buf bl cur : tok (c_bs :: r) inv StringEscape buf bl cur = tok r inv StringNormal (c_bs :: buf) bl (step_loc cur c_bs).
Proof. cbn [tok]. destruct (step_loc cur c_bs). reflexivity. Qed.

Lemma tok_symbol_first c r inv cur : symbol_start c = true ->
  tok (c :: r) inv WhiteSpace [] cur cur =
  match atom_ending r inv with
  | None => Some (inr EInvalid)
  | Some false => tok r inv SymbolS [c] (step_loc cur c) (step_loc cur c)
  | Some true => Some (inl {| tv := TSym [c]; tloc := step_loc cur c; trest := r; tcur := step_loc cur c |})
  end.
Proof.
  intros Hs. destruct (symbol_start_facts c Hs) as (Hd & Hb & Hp & Hpl & Hmi & Hdg).
  destruct (not_delim_facts c Hd) as (W & C1 & C2 & C3 & C4 & C5 & C6).
  cbn [tok]. destruct (step_loc cur c) as [a b]. cbn [status_eqb andb].
  rewrite W, C1, C2, C3, C4, C5, C6, Hb, Hp, Hpl, Hmi, Hdg. cbn [orb].
  destruct (atom_ending r inv) as [[|]|]; reflexivity.
Qed.

(* ---- characters ---- *)
Theorem char_round_trip c rest cur : readable_char c = true -> atom_ending rest false = Some true ->
  exists l1 l2, next_token (print_char c ++ rest) false cur = Some (inl {| tv := TChr c; tloc := l1; trest := rest; tcur := l2 |}).
Proof.
  intros Hr He. unfold readable_char in Hr. unfold next_token, print_char.
  destruct (escaped_char c) eqn:Eesc.
  - (* the five escapes: concrete texts *)
    unfold escaped_char in Eesc.
    destruct (N.eqb_spec c c_tab) as [->|N1]; [cbn; rewrite He; destruct (step_loc _ _); eexists; eexists; reflexivity|].
    destruct (N.eqb_spec c c_nl) as [->|N2]; [cbn; rewrite He; destruct (step_loc _ _); eexists; eexists; reflexivity|].
    destruct (N.eqb_spec c c_cr) as [->|N3]; [cbn; rewrite He; destruct (step_loc _ _); eexists; eexists; reflexivity|].
    destruct (N.eqb_spec c c_space) as [->|N4]; [cbn; rewrite He; destruct (step_loc _ _); eexists; eexists; reflexivity|].
    destruct (N.eqb_spec c c_bs) as [->|N5]; [cbn; rewrite He; destruct (step_loc _ _); eexists; eexists; reflexivity|].
    cbn in Eesc. discriminate.
  - rewrite orb_false_r in Hr. unfold escaped_char in Eesc. repeat (apply orb_false_iff in Eesc as [Eesc ?]).
    rewrite Eesc. repeat match goal with H : (c =? _) = false |- _ => rewrite H end.
    cbn [app]. rewrite tok_pct.
    rewrite (tok_push c rest false CharacterS [] _ _) by (auto; unfold plain_char, symbol_char in *; exact Hr).
    cbn zeta. rewrite He. cbn [rev app build_character]. eexists. eexists. reflexivity.
Qed.

(* ---- symbols ---- *)
Lemma tok_symbol_tail : forall name c rest buf bl cur, symbol_char c = true -> forallb symbol_char name = true ->
  atom_ending rest false = Some true ->
  exists l2, tok ((c :: name) ++ rest) false SymbolS buf bl cur =
             Some (inl {| tv := TSym (rev buf ++ c :: name); tloc := bl; trest := rest; tcur := l2 |}).
Proof.
  induction name as [|d name IH]; intros c rest buf bl cur Hc Hn He.
  - cbn [app]. rewrite (tok_push c rest false SymbolS buf bl cur Hc (or_intror eq_refl)). cbn zeta. rewrite He.
    cbn [rev]. eexists. reflexivity.
  - cbn [forallb] in Hn. apply andb_prop in Hn as [Hd Hn].
    change ((c :: d :: name) ++ rest) with (c :: ((d :: name) ++ rest)).
    rewrite (tok_push c ((d :: name) ++ rest) false SymbolS buf bl cur Hc (or_intror eq_refl)). cbn zeta.
    assert (Hne : atom_ending ((d :: name) ++ rest) false = Some false).
    { cbn. unfold symbol_char in Hd. apply andb_prop in Hd as [Hd _]. apply negb_true_iff in Hd. rewrite Hd. reflexivity. }
    rewrite Hne. destruct (IH d rest (c :: buf) bl (step_loc cur c) Hd Hn He) as (l2 & H).
    exists l2. rewrite H. cbn [rev]. rewrite <- app_assoc. reflexivity.
Qed.

Theorem symbol_round_trip c name rest cur : symbol_start c = true -> forallb symbol_char name = true ->
  atom_ending rest false = Some true ->
  exists l1 l2, next_token ((c :: name) ++ rest) false cur = Some (inl {| tv := TSym (c :: name); tloc := l1; trest := rest; tcur := l2 |}).
Proof.
  intros Hs Hn He. unfold next_token. change ((c :: name) ++ rest) with (c :: (name ++ rest)).
  rewrite (tok_symbol_first c (name ++ rest) false cur Hs).
  destruct name as [|d name].
  - cbn [app]. rewrite He. eexists. eexists. reflexivity.
  - cbn [forallb] in Hn. apply andb_prop in Hn as [Hd1 Hn].
    assert (Hne : atom_ending ((d :: name) ++ rest) false = Some false).
    { cbn. unfold symbol_char in Hd1. apply andb_prop in Hd1 as [Hx _]. apply negb_true_iff in Hx. rewrite Hx. reflexivity. }
    rewrite Hne. destruct (tok_symbol_tail name d rest [c] (step_loc cur c) (step_loc cur c) Hd1 Hn He) as (l2 & H).
    exists (step_loc cur c), l2. exact H.
Qed.

(* ---- strings ---- *)
Lemma tok_string_body : forall t rest buf bl cur,
  exists l2, tok (print_string_body t ++ c_dq :: rest) false StringNormal buf bl cur =
             Some (inl {| tv := TStr (rev buf ++ t); tloc := bl; trest := rest; tcur := l2 |}).
Proof.
  induction t as [|c t IH]; intros rest buf bl cur.
  - cbn [print_string_body app]. rewrite tok_dq_close. rewrite app_nil_r. eexists. reflexivity.
  - cbn [print_string_body]. destruct ((c =? c_dq) || (c =? c_bs)) eqn:E.
    + change ((c_bs :: c :: print_string_body t) ++ c_dq :: rest) with (c_bs :: (c :: (print_string_body t ++ c_dq :: rest))).
      rewrite tok_str_bs.
      apply orb_true_iff in E as [E|E]; apply N.eqb_eq in E; subst c.
      * rewrite tok_esc_dq. destruct (IH rest (c_dq :: buf) bl (step_loc (step_loc cur c_bs) c_dq)) as (l2 & H). exists l2. cbn [rev] in H. rewrite <- app_assoc in H. exact H.
      * rewrite tok_esc_bs. destruct (IH rest (c_bs :: buf) bl (step_loc (step_loc cur c_bs) c_bs)) as (l2 & H). exists l2. cbn [rev] in H. rewrite <- app_assoc in H. exact H.
    + apply orb_false_iff in E as [E1 E2].
      change ((c :: print_string_body t) ++ c_dq :: rest) with (c :: (print_string_body t ++ c_dq :: rest)).
      rewrite (tok_str_plain c _ false buf bl cur E1 E2).
      destruct (IH rest (c :: buf) bl (step_loc cur c)) as (l2 & H). exists l2. cbn [rev] in H. rewrite <- app_assoc in H. exact H.
Qed.

Theorem string_round_trip t rest cur :
  exists l1 l2, next_token (print_string t ++ rest) false cur = Some (inl {| tv := TStr t; tloc := l1; trest := rest; tcur := l2 |}).
Proof.
  unfold next_token, print_string.
  change ((c_dq :: print_string_body t ++ [c_dq]) ++ rest) with (c_dq :: ((print_string_body t ++ [c_dq]) ++ rest)).
  rewrite tok_dq_open. rewrite <- app_assoc. cbn [app].
  destruct (tok_string_body t rest [] (step_loc cur c_dq) (step_loc cur c_dq)) as (l2 & H). exists (step_loc cur c_dq), l2. exact H.
Qed.
