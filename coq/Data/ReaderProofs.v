(* Totality of the tokenizer and parser: the Rust panic site (unreachable!()) is unreachable,
   every token consumes at least one character, so the parser's fuel never runs out. *)
From PL Require Import Data.Reader.
From Coq Require Import String ZifyBool.
Local Open Scope string_scope.
Local Open Scope list_scope.
Local Open Scope N_scope.

Definition atom_status (st : status) : bool :=
  match st with CharacterS | NumberS | SymbolS | SymbolOrNumber => true | _ => false end.
Definition string_status (st : status) : bool :=
  match st with StringNormal | StringEscape => true | _ => false end.

(* the loop invariant of TokenIterator::next: a non-empty buffer belongs to an atom whose next
   character is not a delimiter (otherwise the atom would have ended), or to a string *)
Definition tinv (inp : text) (inv : bool) (st : status) (buf : text) : Prop :=
  buf = [] \/ string_status st = true \/ (atom_status st = true /\ atom_ending inp inv = Some false).

Definition not_panic (r : option (tokres + rerr)) : Prop :=
  match r with Some (inr (EPanic _)) => False | _ => True end.

Definition strictly_shorter (r : option (tokres + rerr)) (inp : text) : Prop :=
  match r with
  | Some (inl t) => (List.length (trest t) < List.length inp)%nat
  | Some (inr (EError _ _ rest _ _)) => (List.length rest < List.length inp)%nat
  | _ => True
  end.

Lemma is_delim_ws ch : is_ws ch = true -> is_delim ch = true.
Proof. intros H. unfold is_delim. rewrite H. repeat rewrite orb_true_r. reflexivity. Qed.

Lemma tok_total : forall inp inv st buf bl cur, tinv inp inv st buf ->
  not_panic (tok inp inv st buf bl cur) /\ strictly_shorter (tok inp inv st buf bl cur) inp.
Proof.
  induction inp as [|ch r IH]; intros inv st buf bl cur Hinv.
  - cbn. destruct inv; [split; exact I|]. destruct buf; split; exact I.
  - cbn [tok]. destruct (step_loc cur ch) as [rl0 rc0] eqn:Eloc.
    (* the generic continuation *)
    assert (Hfin : forall st' buf' bl', (buf' = [] \/ string_status st' = true \/ atom_status st' = true) ->
              let res := match buf' with
                         | [] => tok r inv st' buf' bl' (Loc rl0 rc0)
                         | _ => match atom_ending r inv with
                                | None => Some (inr EInvalid)
                                | Some false => tok r inv st' buf' bl' (Loc rl0 rc0)
                                | Some true =>
                                  match st' with
                                  | CharacterS => match build_character (rev buf') with
                                                  | Some c => Some (inl {| tv := TChr c; tloc := bl'; trest := r; tcur := Loc rl0 rc0 |})
                                                  | None => Some (inr (EError (msg_invalid_char (rev buf')) (Loc rl0 rc0) r rl0 (rc0 + 1)))
                                                  end
                                  | NumberS => match parse_i64_full (rev buf') with
                                               | inr z => Some (inl {| tv := TNum z; tloc := bl'; trest := r; tcur := Loc rl0 rc0 |})
                                               | inl e => Some (inr (EError (msg_invalid_number e) (Loc rl0 rc0) r rl0 (rc0 + 1)))
                                               end
                                  | SymbolS | SymbolOrNumber => Some (inl {| tv := TSym (rev buf'); tloc := bl'; trest := r; tcur := Loc rl0 rc0 |})
                                  | StringNormal | StringEscape => tok r inv st' buf' bl' (Loc rl0 rc0)
                                  | WhiteSpace | Comment => Some (inr (EPanic "read/mod.rs: unreachable!() after atom ending"))
                                  end
                                end
                         end in
              not_panic res /\ (match res with
                                | Some (inl t) => (List.length (trest t) < S (List.length r))%nat
                                | Some (inr (EError _ _ rest _ _)) => (List.length rest < S (List.length r))%nat
                                | _ => True end)).
    { intros st' buf' bl' Hc.
      assert (Hrec : forall st2 buf2 bl2, tinv r inv st2 buf2 ->
                not_panic (tok r inv st2 buf2 bl2 (Loc rl0 rc0)) /\
                match tok r inv st2 buf2 bl2 (Loc rl0 rc0) with
                | Some (inl t) => (List.length (trest t) < S (List.length r))%nat
                | Some (inr (EError _ _ rest _ _)) => (List.length rest < S (List.length r))%nat
                | _ => True end).
      { intros st2 buf2 bl2 Hi. destruct (IH inv st2 buf2 bl2 (Loc rl0 rc0) Hi) as [Hp Hs]. split; [exact Hp|].
        unfold strictly_shorter in Hs. destruct (tok r inv st2 buf2 bl2 (Loc rl0 rc0)) as [[t|[| | |m l rest a b|site]]|]; auto; lia. }
      destruct buf' as [|b0 buf'].
      - apply Hrec. left. reflexivity.
      - destruct (atom_ending r inv) as [[|]|] eqn:Eend.
        + destruct Hc as [Hc|[Hc|Hc]]; [discriminate| |].
          * destruct st'; try discriminate; apply Hrec; right; left; reflexivity.
          * destruct st'; try discriminate; cbn.
            -- destruct (build_character _); cbn; split; auto; lia.
            -- destruct (parse_i64_full _); cbn; split; auto; lia.
            -- split; auto; lia.
            -- split; auto; lia.
        + apply Hrec. destruct Hc as [Hc|[Hc|Hc]]; [discriminate|right; left; exact Hc|right; right; split; assumption].
        + cbn. split; exact I. }
    (* now the big case analysis of the loop body *)
    assert (Hdone : forall (res : option (tokres + rerr)),
              (not_panic res /\ match res with
                                | Some (inl t) => (List.length (trest t) < S (List.length r))%nat
                                | Some (inr (EError _ _ rest _ _)) => (List.length rest < S (List.length r))%nat
                                | _ => True end) ->
              not_panic res /\ strictly_shorter res (ch :: r)).
    { intros res [H1 H2]. split; [exact H1|]. unfold strictly_shorter. cbn [List.length]. exact H2. }
    assert (Htok : forall st2 buf2 bl2, tinv r inv st2 buf2 ->
              not_panic (tok r inv st2 buf2 bl2 (Loc rl0 rc0)) /\ strictly_shorter (tok r inv st2 buf2 bl2 (Loc rl0 rc0)) (ch :: r)).
    { intros st2 buf2 bl2 Hi. destruct (IH inv st2 buf2 bl2 (Loc rl0 rc0) Hi) as [Hp Hs]. split; [exact Hp|].
      unfold strictly_shorter in *. cbn [List.length]. destruct (tok r inv st2 buf2 bl2 (Loc rl0 rc0)) as [[t|[| | |m l rest a b|site]]|]; auto; lia. }
    assert (Hmk : forall v l, not_panic (Some (inl {| tv := v; tloc := l; trest := r; tcur := Loc rl0 rc0 |})) /\
                              strictly_shorter (Some (inl {| tv := v; tloc := l; trest := r; tcur := Loc rl0 rc0 |})) (ch :: r)).
    { intros v l. split; [exact I|cbn; lia]. }
    assert (Herr : forall m, not_panic (Some (inr (EError m (Loc rl0 rc0) r rl0 (rc0 + 1)))) /\
                             strictly_shorter (Some (inr (EError m (Loc rl0 rc0) r rl0 (rc0 + 1)))) (ch :: r)).
    { intros m. split; [exact I|cbn; lia]. }
    (* what the invariant says about a delimiter arriving with a non-empty atom buffer *)
    assert (Hdelim : is_delim ch = true -> buf = [] \/ string_status st = true).
    { intros Hd. destruct Hinv as [H|[H|[Ha He]]]; auto. cbn in He. rewrite Hd in He. discriminate. }
    destruct (status_eqb st Comment) eqn:Ecom.
    { destruct (ch =? c_nl); apply Htok; destruct st; try discriminate; destruct Hinv as [H|[H|[H _]]]; try discriminate; left; exact H. }
    destruct (status_eqb st StringNormal && negb (ch =? c_dq) && negb (ch =? c_bs)) eqn:Estr.
    { apply Htok. right. left. reflexivity. }
    destruct (status_eqb st StringEscape) eqn:Eesc.
    { repeat (match goal with |- context [if ?c then _ else _] => destruct c end); try apply Herr; apply Htok; right; left; reflexivity. }
    destruct (is_ws ch || (ch =? c_comma)) eqn:Ews.
    { apply Hdone. apply (Hfin WhiteSpace buf bl).
      assert (Hd : is_delim ch = true).
      { apply orb_true_iff in Ews as [H|H]; [apply is_delim_ws; exact H|]. unfold is_delim. rewrite H. repeat rewrite orb_true_r. reflexivity. }
      destruct (Hdelim Hd) as [H|H]; [left; exact H|].
      (* a string status would have been handled by the branches above unless ch is a double quote or a backslash *)
      exfalso. destruct st; try discriminate. cbn in Estr.
      apply orb_true_iff in Ews as [Hw|Hw].
      - assert (ch =? c_dq = false) as Hq by (unfold is_ws, c_dq in *; lia). assert (ch =? c_bs = false) as Hb by (unfold is_ws, c_bs in *; lia).
        rewrite Hq, Hb in Estr. discriminate.
      - apply N.eqb_eq in Hw. subst ch. discriminate. }
    destruct (ch =? c_semi) eqn:Esemi.
    { apply Hdone. apply (Hfin Comment buf bl).
      assert (Hd : is_delim ch = true) by (unfold is_delim; rewrite Esemi; reflexivity).
      destruct (Hdelim Hd) as [H|H]; [left; exact H|].
      exfalso. destruct st; try discriminate. cbn in Estr. apply N.eqb_eq in Esemi. subst ch. discriminate. }
    destruct (ch =? c_quote); [apply Hmk|].
    destruct (ch =? c_open); [apply Hmk|].
    destruct (ch =? c_close); [apply Hmk|].
    destruct (ch =? c_dq) eqn:Edq.
    { destruct (status_eqb st StringNormal); [apply Hmk|]. apply Hdone. apply (Hfin StringNormal buf (Loc rl0 rc0)).
      assert (Hd : is_delim ch = true) by (unfold is_delim; rewrite Edq; repeat rewrite orb_true_r; reflexivity).
      destruct (Hdelim Hd) as [H|H]; [left; exact H|right; left; reflexivity]. }
    destruct (ch =? c_bs).
    { destruct (status_eqb st StringNormal); [apply Hdone; apply (Hfin StringEscape buf bl); right; left; reflexivity|].
      destruct (status_eqb st CharacterS); [apply Hdone; apply (Hfin CharacterS (ch :: buf) bl); right; right; reflexivity|apply Herr]. }
    (* from here on ch is not a delimiter: the status after the step is an atom status *)
    destruct (ch =? c_pct).
    { destruct (status_eqb st WhiteSpace) eqn:Ew.
      - apply Hdone. apply (Hfin CharacterS buf (Loc rl0 rc0)).
        destruct st; try discriminate. destruct Hinv as [H|[H|[H _]]]; try discriminate. left. exact H.
      - apply Hdone. apply (Hfin st (ch :: buf) bl). destruct st; try discriminate; auto. }
    destruct ((ch =? c_plus) || (ch =? c_minus)).
    { destruct (status_eqb st WhiteSpace) eqn:Ew; apply Hdone; [apply (Hfin SymbolOrNumber (ch :: buf) (Loc rl0 rc0)); right; right; reflexivity|].
      apply (Hfin st (ch :: buf) bl). destruct st; try discriminate; auto. }
    destruct (is_digit ch).
    { destruct (status_eqb st SymbolOrNumber); [apply Hdone; apply (Hfin NumberS (ch :: buf) bl); right; right; reflexivity|].
      destruct (status_eqb st WhiteSpace) eqn:Ew; apply Hdone; [apply (Hfin NumberS (ch :: buf) (Loc rl0 rc0)); right; right; reflexivity|].
      apply (Hfin st (ch :: buf) bl). destruct st; try discriminate; auto. }
    destruct (status_eqb st WhiteSpace) eqn:Ew; [apply Hdone; apply (Hfin SymbolS (ch :: buf) (Loc rl0 rc0)); right; right; reflexivity|].
    destruct (status_eqb st SymbolOrNumber); [apply Hdone; apply (Hfin SymbolS (ch :: buf) bl); right; right; reflexivity|].
    destruct (status_eqb st NumberS); [apply Herr|].
    apply Hdone. apply (Hfin st (ch :: buf) bl). destruct st; try discriminate; auto.
Qed.

Definition rd_not_panic (r : (val * text * loc) + rerr) : Prop :=
  match r with inr (EPanic _) => False | _ => True end.

Lemma rd_total src : forall fuel inp inv cur stack quoted, (List.length inp < fuel)%nat ->
  rd_not_panic (rd fuel src inp inv cur stack quoted).
Proof.
  induction fuel as [|f IH]; intros inp inv cur stack quoted Hf; [lia|].
  cbn [rd]. unfold next_token.
  destruct (tok_total inp inv WhiteSpace [] cur cur (or_introl eq_refl)) as [Hp Hs].
  destruct (tok inp inv WhiteSpace [] cur cur) as [[t|e]|].
  - cbn in Hs.
    assert (Hr : forall st q, rd_not_panic (rd f src (trest t) inv (tcur t) st q)) by (intros; apply IH; lia).
    destruct (tv t); cbn.
    + apply Hr.
    + destruct stack as [|[vec q] rest]; [destruct (tcur t); exact I|]. destruct rest as [|[lv lq] rest']; [exact I|apply Hr].
    + destruct stack as [|[vec q] rest]; [exact I|apply Hr].
    + destruct stack as [|[vec q] rest]; [exact I|apply Hr].
    + destruct stack as [|[vec q] rest]; [exact I|apply Hr].
    + destruct stack as [|[vec q] rest]; [exact I|apply Hr].
    + apply Hr.
  - destruct e; cbn in *; auto.
  - destruct stack; exact I.
Qed.

(* the reader as the native calls it never reaches a Rust panic site, for every text,
   every start position and every source *)
Theorem read_text_never_panics src inp inv line col : rd_not_panic (read_text src inp inv line col).
Proof. unfold read_text. apply rd_total. lia. Qed.

(* blank input (whitespace, commas, comments to end of line / end of input) is `nothing` *)
Fixpoint blank_from (in_comment : bool) (t : text) : bool :=
  match t with
  | [] => true
  | c :: r => if in_comment then blank_from (negb (c =? c_nl)) r
              else if is_ws c || (c =? c_comma) then blank_from false r
              else if c =? c_semi then blank_from true r else false
  end.

Lemma tok_blank : forall t st bl cur, blank_from (status_eqb st Comment) t = true -> (st = WhiteSpace \/ st = Comment) ->
  tok t false st [] bl cur = None.
Proof.
  induction t as [|c r IH]; intros st bl cur Hb Hst; [reflexivity|].
  cbn [tok]. destruct (step_loc cur c) as [rl0 rc0]. cbn [blank_from] in Hb.
  destruct Hst as [-> | ->]; cbn [status_eqb andb] in *.
  - destruct (is_ws c || (c =? c_comma)) eqn:Ews.
    + apply IH; auto.
    + destruct (c =? c_semi) eqn:Es; [|discriminate]. apply IH; auto.
  - destruct (c =? c_nl); cbn [negb] in Hb; apply IH; auto.
Qed.

Theorem blank_is_nothing src t line col : blank_from false t = true -> read_text src t false line col = inr ENothing.
Proof.
  intros Hb. unfold read_text. cbn [rd]. unfold next_token. rewrite (tok_blank t WhiteSpace _ _ Hb (or_introl eq_refl)). reflexivity.
Qed.

(* ---- what the unchanged reader does where the grammar says otherwise (known findings,
        each a concrete witness computed by the kernel) ---- *)
Definition rd_status (r : (val * text * loc) + rerr) : string :=
  match r with inl _ => "ok" | inr ENothing => "nothing" | inr EIncomplete => "incomplete" | inr EInvalid => "invalid"
             | inr (EError _ _ _ _ _) => "error" | inr (EPanic _) => "panic" end.

Lemma dangling_quote_reports_nothing : rd_status (read_text SrcStdin (s "'") false 1 1) = "nothing".
Proof. reflexivity. Qed.
Lemma lone_percent_reports_nothing : rd_status (read_text SrcStdin (s "%") false 1 1) = "nothing".
Proof. reflexivity. Qed.
Lemma lone_dquote_reports_nothing : rd_status (read_text SrcStdin [c_dq] false 1 1) = "nothing".
Proof. reflexivity. Qed.
Lemma nested_quote_collapses : match read_text SrcStdin (s "''a") false 1 1, read_text SrcStdin (s "'a") false 1 1 with
                               | inl (v1, _, _), inl (v2, _, _) => strip v1 = strip v2 | _, _ => False end.
Proof. reflexivity. Qed.
Lemma quote_before_close_quotes_the_list : match read_text SrcStdin (s "(a ')") false 1 1, read_text SrcStdin (s "'(a)") false 1 1 with
                                           | inl (v1, _, _), inl (v2, _, _) => strip v1 = strip v2 | _, _ => False end.
Proof. reflexivity. Qed.
Lemma percent_before_blank_is_dropped : match read_text SrcStdin (s "% a") false 1 1, read_text SrcStdin (s "a") false 1 1 with
                                        | inl (v1, _, _), inl (v2, _, _) => strip v1 = strip v2 | _, _ => False end.
Proof. reflexivity. Qed.
