(* Positions are exact, for EVERY text: whatever the tokenizer / reader returns, the rest it
   reports is a suffix of the input, and the position it reports is the start position advanced
   over exactly the characters it consumed (a newline starts a new line at column 0, every other
   character advances the column by one). *)
From PL Require Import Data.Reader Data.ReaderProofs.
From Coq Require Import String.
Local Open Scope string_scope.
Local Open Scope list_scope.
Local Open Scope N_scope.

Definition advance (cur : loc) (t : text) : loc := fold_left step_loc t cur.

Lemma advance_app cur a b : advance cur (a ++ b) = advance (advance cur a) b.
Proof. unfold advance. apply fold_left_app. Qed.

Ltac crunch H :=
  repeat match type of H with
         | context [if ?b then _ else _] => destruct b
         | context [match ?x with _ => _ end] => destruct x
         end.

Lemma tok_position : forall inp inv st buf bl cur t, tok inp inv st buf bl cur = Some (inl t) ->
  exists consumed, inp = consumed ++ trest t /\ tcur t = advance cur consumed /\ consumed <> [].
Proof.
  induction inp as [|ch r IH]; intros inv st buf bl cur t H.
  - cbn in H. crunch H; discriminate.
  - cbn [tok] in H. destruct (step_loc cur ch) as [a b] eqn:E. cbn zeta in H.
    crunch H; try discriminate;
      first [ injection H as <-; exists [ch]; cbn [trest tcur app advance fold_left]; rewrite E; repeat split; congruence
            | apply IH in H; destruct H as (consumed' & H1 & H2 & _); exists (ch :: consumed'); cbn [app advance fold_left]; rewrite E;
              repeat split; [rewrite H1 at 1; reflexivity|exact H2|congruence] ].
Qed.

(* an error found by the tokenizer is reported at the position of the offending character: the
   location is the start advanced over the consumed characters, the rest is what follows, and
   the line / column pair handed to the caller is that location with a 1-based column *)
Lemma tok_error_position : forall inp inv st buf bl cur m l rest a b,
  tok inp inv st buf bl cur = Some (inr (EError m l rest a b)) ->
  exists consumed, inp = consumed ++ rest /\ l = advance cur consumed /\ consumed <> [] /\
                   (let '(Loc x y) := l in a = x /\ b = y + 1).
Proof.
  induction inp as [|ch r IH]; intros inv st buf bl cur m l rest a b H.
  - cbn in H. crunch H; discriminate.
  - cbn [tok] in H. destruct (step_loc cur ch) as [a0 b0] eqn:E. cbn zeta in H.
    crunch H; try discriminate;
      first [ injection H as <- <- <- <- <-; exists [ch]; cbn [app advance fold_left]; rewrite E; repeat split; congruence
            | apply IH in H; destruct H as (consumed' & H1 & H2 & _ & H3); exists (ch :: consumed'); cbn [app advance fold_left]; rewrite E;
              repeat split; [rewrite H1 at 1; reflexivity|exact H2|congruence|exact H3] ].
Qed.

(* the reader: the datum's text is a prefix of the input, the rest a suffix, the final position exact *)
Theorem rd_position : forall fuel src inp inv cur stack q v rest l,
  rd fuel src inp inv cur stack q = inl (v, rest, l) ->
  exists consumed, inp = consumed ++ rest /\ l = advance cur consumed /\ consumed <> [].
Proof.
  induction fuel as [|f IH]; intros src inp inv cur stack q v rest l H; [discriminate|].
  cbn [rd] in H. destruct (next_token inp inv cur) as [[t|e]|] eqn:T; [| discriminate | destruct stack; discriminate].
  apply tok_position in T. destruct T as (c1 & T1 & T2 & T3). cbn zeta in H.
  assert (Step : forall stack' q', rd f src (trest t) inv (tcur t) stack' q' = inl (v, rest, l) ->
                 exists consumed, inp = consumed ++ rest /\ l = advance cur consumed /\ consumed <> []).
  { intros stack' q' R. apply IH in R. destruct R as (c2 & R1 & R2 & _).
    exists (c1 ++ c2). rewrite advance_app, <- T2, <- app_assoc, <- R1. repeat split; auto.
    intros Hn. apply app_eq_nil in Hn as [Hn _]. contradiction. }
  assert (Done : forall y, @inl (val * text * loc) rerr (y, trest t, tcur t) = inl (v, rest, l) ->
                 exists consumed, inp = consumed ++ rest /\ l = advance cur consumed /\ consumed <> []).
  { intros y R. injection R as _ <- <-. exists c1. auto. }
  destruct (tv t); destruct stack as [|[vec q0] [|[lv lq] rest']];
    try (eapply Step; exact H); try (eapply Done; exact H); try (destruct (tcur t); discriminate).
Qed.

Theorem read_text_position src inp inv line col v rest l : read_text src inp inv line col = inl (v, rest, l) ->
  exists consumed, inp = consumed ++ rest /\ l = advance (Loc line (col - 1)) consumed /\ consumed <> [].
Proof. apply rd_position. Qed.

Example advance_example : advance (Loc 1 0) (s "ab" ++ [c_nl] ++ s "c") = Loc 2 1.
Proof. reflexivity. Qed.
