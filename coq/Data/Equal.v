(* The primitive `=` : transcription of equal_internal in src/native/misc/mod.rs.
   Recursion is on explicit fuel (the Rust function recurses on the native stack without
   a depth check - recorded under C06); [None] = out of fuel. *)
From PL Require Export Data.Val.
Local Open Scope N_scope.

Fixpoint equal (fuel : nat) (a b : val) : option bool :=
  match fuel with
  | O => None
  | S f =>
    let equal_elems :=
        fix go (l1 l2 : list val) : option bool :=
          match l1, l2 with
          | [], [] => Some true
          | x :: r1, y :: r2 => match equal f x y with
                                | Some true => go r1 r2
                                | other => other
                                end
          | _, _ => Some false
          end in
    match getv a, getv b with
    | VNil, VNil => Some true
    | VNum x, VNum y => Some (x =? y)%Z
    | VChar x, VChar y => Some (x =? y)
    | VSym x, VSym y => Some (sym_eqb x y)
    | VCons a1 d1, VCons a2 d2 =>
      match list_to_vec a with
      | Some l1 => match list_to_vec b with
                   | Some l2 => equal_elems l1 l2
                   | None => Some false
                   end
      | None => match equal f a1 a2 with
                | Some true => equal f d1 d2
                | other => other
                end
      end
    | _, _ => Some false
    end
  end.

(* The specification of C13: structural equality of data, metadata removed. *)
Fixpoint data_eqb (a b : val) : bool :=
  match a, b with
  | VNil, VNil => true
  | VNum x, VNum y => (x =? y)%Z
  | VChar x, VChar y => x =? y
  | VSym x, VSym y => sym_eqb x y
  | VCons a1 d1, VCons a2 d2 => data_eqb a1 a2 && data_eqb d1 d2
  | _, _ => false
  end.

(* data: no function, no trap anywhere *)
Fixpoint is_data (v : val) : bool :=
  match v with
  | VNil | VNum _ | VChar _ | VSym _ => true
  | VCons a d => is_data a && is_data d
  | VMeta _ x => match x with VMeta _ _ => false | _ => is_data x end
  | _ => false
  end.
