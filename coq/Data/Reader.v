(* The reader: transcription of src/native/read/mod.rs (TokenIterator::next, read_internal,
   the native `read`).  The tokenizer works on the text of the input together with a flag
   [inv] saying that the cons chain of the input stops being a string after that text
   (StringIterator yields Some(None) there); the remaining input is returned as the number
   of characters left, and the wrapper maps it back to the sub-chain of the input value. *)
From PL Require Export Data.Val Data.Decimal.
From Coq Require Import String.
Local Open Scope string_scope.
Local Open Scope list_scope.
Local Open Scope N_scope.

Inductive status := WhiteSpace | Comment | CharacterS | NumberS | SymbolS | SymbolOrNumber | StringNormal | StringEscape.
Definition status_eqb (a b : status) : bool :=
  match a, b with
  | WhiteSpace, WhiteSpace | Comment, Comment | CharacterS, CharacterS | NumberS, NumberS
  | SymbolS, SymbolS | SymbolOrNumber, SymbolOrNumber | StringNormal, StringNormal
  | StringEscape, StringEscape => true
  | _, _ => false
  end.

Inductive loc := Loc (line col : N).   (* metadata::Location line/column (usize; modelled unbounded) *)

Inductive tokv := TOpen | TClose | TChr (c : char) | TNum (z : Z) | TSym (name : text) | TStr (t : text) | TQuote.

Inductive rerr :=
| EInvalid | EIncomplete | ENothing
| EError (msg : text) (l : loc) (rest : text) (rl rc : N)
| EPanic (site : string).            (* a Rust panic site (unreachable!()) - proved unreachable *)

Record tokres := { tv : tokv; tloc : loc; trest : text; tcur : loc }.

Definition step_loc (l : loc) (ch : char) : loc :=
  match l with Loc ln cn => if ch =? c_nl then Loc (ln + 1) 0 else Loc ln (cn + 1) end.

Definition is_delim (c : char) : bool :=
  (c =? c_semi) || (c =? c_open) || (c =? c_close) || (c =? c_dq) || (c =? c_quote) || (c =? c_comma) || is_ws c.

(* is_atom_ending on the peeked item: None = the chain is not a string there *)
Definition atom_ending (r : text) (inv : bool) : option bool :=
  match r with
  | [] => if inv then None else Some true
  | c :: _ => Some (is_delim c)
  end.

Definition perr_text (e : perr) : text :=
  s match e with
    | PEmpty => "cannot parse integer from empty string"
    | PInvalidDigit => "invalid digit found in string"
    | PPosOverflow => "number too large to fit in target type"
    | PNegOverflow => "number too small to fit in target type"
    end.

(* build_character; a buffer of more than one code point that is a single grapheme cluster
   (base + combining marks, ...) is NOT modelled: the model rejects it, see DESIGN.md *)
Definition build_character (buf : text) : option char :=
  match buf with
  | [c] => Some c
  | [b; x] => if b =? c_bs then
                if x =? 110 then Some c_nl else if x =? 116 then Some c_tab else if x =? 115 then Some c_space
                else if x =? 114 then Some c_cr else if x =? c_bs then Some c_bs else None
              else None
  | _ => None
  end.

Definition msg_bad_escape (ch : char) : text := [c_quote; ch; c_quote] ++ s " is not a valid escape character in a string literal".
Definition msg_backslash : text := s "unexpected character: '\'".
Definition msg_bad_num_char (ch : char) : text := s "unexpected character in number literal: '" ++ [ch; c_quote].
Definition msg_invalid_char (buf : text) : text :=
  match buf with [] => s "invalid character: '%' (empty literal)" | _ => s "invalid character: '%" ++ buf ++ [c_quote] end.
Definition msg_invalid_number (e : perr) : text := s "invalid number: '" ++ perr_text e ++ [c_quote].
Definition msg_too_many_close : text := s "too many closing parentheses".

(* TokenIterator::next.  [buf] is kept reversed; [bl] = beginning_location; [cur] = self.location *)
Fixpoint tok (inp : text) (inv : bool) (st : status) (buf : text) (bl cur : loc) : option (tokres + rerr) :=
  match inp with
  | [] => if inv then Some (inr EInvalid)
          else match buf with [] => None | _ => Some (inr EIncomplete) end
  | ch :: r =>
    let cur' := step_loc cur ch in
    let '(Loc rl0 rc0) := cur' in
    let mk v l := Some (inl {| tv := v; tloc := l; trest := r; tcur := cur' |}) in
    let err m := Some (inr (EError m cur' r rl0 (rc0 + 1))) in
    let finish st' buf' bl' :=
        match buf' with
        | [] => tok r inv st' buf' bl' cur'
        | _ => match atom_ending r inv with
               | None => Some (inr EInvalid)
               | Some false => tok r inv st' buf' bl' cur'
               | Some true =>
                 match st' with
                 | CharacterS => match build_character (rev buf') with
                                 | Some c => mk (TChr c) bl'
                                 | None => err (msg_invalid_char (rev buf'))
                                 end
                 | NumberS => match parse_i64_full (rev buf') with
                              | inr z => mk (TNum z) bl'
                              | inl e => err (msg_invalid_number e)
                              end
                 | SymbolS | SymbolOrNumber => mk (TSym (rev buf')) bl'
                 | StringNormal | StringEscape => tok r inv st' buf' bl' cur'
                 | WhiteSpace | Comment => Some (inr (EPanic "read/mod.rs: unreachable!() after atom ending"))
                 end
               end
        end in
    if status_eqb st Comment then
      (if ch =? c_nl then tok r inv WhiteSpace buf bl cur' else tok r inv Comment buf bl cur')
    else if status_eqb st StringNormal && negb (ch =? c_dq) && negb (ch =? c_bs) then
      tok r inv StringNormal (ch :: buf) bl cur'
    else if status_eqb st StringEscape then
      (if ch =? c_dq then tok r inv StringNormal (c_dq :: buf) bl cur'
       else if ch =? 110 then tok r inv StringNormal (c_nl :: buf) bl cur'
       else if ch =? 114 then tok r inv StringNormal (c_cr :: buf) bl cur'
       else if ch =? 116 then tok r inv StringNormal (c_tab :: buf) bl cur'
       else if ch =? c_bs then tok r inv StringNormal (c_bs :: buf) bl cur'
       else err (msg_bad_escape ch))
    else if is_ws ch || (ch =? c_comma) then finish WhiteSpace buf bl
    else if ch =? c_semi then finish Comment buf bl
    else if ch =? c_quote then mk TQuote cur'
    else if ch =? c_open then mk TOpen cur'
    else if ch =? c_close then mk TClose cur'
    else if ch =? c_dq then
      (if status_eqb st StringNormal then mk (TStr (rev buf)) bl else finish StringNormal buf cur')
    else if ch =? c_bs then
      (if status_eqb st StringNormal then finish StringEscape buf bl
       else if status_eqb st CharacterS then finish CharacterS (ch :: buf) bl
       else err msg_backslash)
    else if ch =? c_pct then
      (if status_eqb st WhiteSpace then finish CharacterS buf cur' else finish st (ch :: buf) bl)
    else if (ch =? c_plus) || (ch =? c_minus) then
      (if status_eqb st WhiteSpace then finish SymbolOrNumber (ch :: buf) cur' else finish st (ch :: buf) bl)
    else if is_digit ch then
      (if status_eqb st SymbolOrNumber then finish NumberS (ch :: buf) bl
       else if status_eqb st WhiteSpace then finish NumberS (ch :: buf) cur'
       else finish st (ch :: buf) bl)
    else
      (if status_eqb st WhiteSpace then finish SymbolS (ch :: buf) cur'
       else if status_eqb st SymbolOrNumber then finish SymbolS (ch :: buf) bl
       else if status_eqb st NumberS then err (msg_bad_num_char ch)
       else finish st (ch :: buf) bl)
  end.

Definition next_token (inp : text) (inv : bool) (cur : loc) := tok inp inv WhiteSpace [] cur cur.

(* ---- read_internal ---- *)
Inductive srckind := SrcPrelude | SrcStdin | SrcFile (path : text).

Definition mk_meta (src : srckind) (name : text) (l : loc) : meta :=
  let '(Loc ln cn) := l in
  Meta name (match src with SrcPrelude => LPrelude | SrcStdin => LStdin | SrcFile p => LFile p end) ln cn [].

Definition quote_of (v : val) : val := vec_to_list [vsym "quote"; v].

Fixpoint rd (fuel : nat) (src : srckind) (inp : text) (inv : bool) (cur : loc)
         (stack : list (list val * bool)) (quoted : bool) : (val * text * loc) + rerr :=
  match fuel with
  | O => inr (EPanic "model: reader out of fuel")
  | S f =>
    match next_token inp inv cur with
    | None => match stack with [] => inr ENothing | _ => inr EIncomplete end
    | Some (inr e) => inr e
    | Some (inl t) =>
      let r := trest t in let c := tcur t in
      let atom (x : val) :=
          let y := if quoted then quote_of x else x in
          match stack with
          | (vec, q) :: rest => rd f src r inv c ((y :: vec, q) :: rest) false
          | [] => inl (y, r, c)
          end in
      match tv t with
      | TQuote => rd f src r inv c stack true
      | TOpen => rd f src r inv c (([], quoted) :: stack) false
      | TClose =>
        match stack with
        | (vec, q) :: rest =>
          let l := vec_to_list (rev vec) in
          let ql := if q then quote_of l else l in
          let quoted' := if q then false else quoted in
          match rest with
          | (lv, lq) :: rest' => rd f src r inv c ((ql :: lv, lq) :: rest') quoted'
          | [] => inl ((if quoted' then quote_of ql else ql), r, c)
          end
        | [] => let '(Loc a b) := c in inr (EError msg_too_many_close (tloc t) r a (b + 1))
        end
      | TChr ch => atom (VMeta (mk_meta src [ch] (tloc t)) (VChar ch))
      | TNum z => atom (VMeta (mk_meta src (show_i64 z) (tloc t)) (VNum z))
      | TSym n => atom (VMeta (mk_meta src n (tloc t)) (VSym (Named n)))
      | TStr n => atom (VMeta (mk_meta src n (tloc t)) (string_to_proper_list n))
      end
    end
  end.

(* text-level entry: positions as the native receives them (1-based column) *)
Definition read_text (src : srckind) (inp : text) (inv : bool) (line col : N) : (val * text * loc) + rerr :=
  rd (S (List.length inp)) src inp inv (Loc line (col - 1)) [] false.

(* ---- the input value as a text ---- *)
(* StringIterator: the longest prefix of the cons chain whose cars are characters; inv = the
   chain does not end in nil there *)
Fixpoint val_chars (v : val) : text * bool :=
  match v with
  | VNil | VMeta _ VNil => ([], false)
  | VCons a d | VMeta _ (VCons a d) =>
    match getv a with
    | VChar c => let '(t, i) := val_chars d in (c :: t, i)
    | _ => ([], true)
    end
  | _ => ([], true)
  end.

Fixpoint val_drop (n : nat) (v : val) : val :=
  match n with
  | O => v
  | S k => match getv v with VCons _ d => val_drop k d | _ => v end
  end.
