(* Tokenizer lemmas needed to compose the token round trips into a datum round trip:
   number tokens, parentheses, blanks between elements, and the fact that the
   "beginning location" register is dead while the tokenizer is between tokens. *)
From PL Require Import Data.Reader Data.Printer Data.ReaderProofs Data.RoundTrip Data.DecimalProofs.
From Coq Require Import String ZifyBool.
Local Open Scope string_scope.
Local Open Scope list_scope.
Local Open Scope N_scope.

(* ---- between tokens (state WhiteSpace or Comment, empty buffer) the register [bl] is dead ---- *)
Lemma tok_bl_dead inv : forall inp st bl bl' cur, (st = WhiteSpace \/ st = Comment) ->
  tok inp inv st [] bl cur = tok inp inv st [] bl' cur.
Proof.
  induction inp as [|ch r IH]; intros st bl bl' cur Hst; [reflexivity|].
  cbn [tok]. destruct (step_loc cur ch) as [a b].
  destruct Hst as [-> | ->]; cbn [status_eqb andb].
  - destruct (is_ws ch || (ch =? c_comma)); [apply IH; auto|].
    destruct (ch =? c_semi); [apply IH; auto|].
    reflexivity.
  - destruct (ch =? c_nl); apply IH; auto.
Qed.

Lemma next_token_space r inv cur : next_token (c_space :: r) inv cur = next_token r inv (step_loc cur c_space).
Proof.
  unfold next_token. cbn [tok]. destruct (step_loc cur c_space) as [a b] eqn:E. cbn.
  apply tok_bl_dead. auto.
Qed.

Lemma next_token_open r inv cur : next_token (c_open :: r) inv cur =
  Some (inl {| tv := TOpen; tloc := step_loc cur c_open; trest := r; tcur := step_loc cur c_open |}).
Proof. unfold next_token. cbn [tok]. destruct (step_loc cur c_open). reflexivity. Qed.

Lemma next_token_close r inv cur : next_token (c_close :: r) inv cur =
  Some (inl {| tv := TClose; tloc := step_loc cur c_close; trest := r; tcur := step_loc cur c_close |}).
Proof. unfold next_token. cbn [tok]. destruct (step_loc cur c_close). reflexivity. Qed.

(* ---- numbers ---- *)
Lemma digit_facts c : is_digit c = true ->
  is_ws c = false /\ (c =? c_comma) = false /\ (c =? c_semi) = false /\ (c =? c_quote) = false /\
  (c =? c_open) = false /\ (c =? c_close) = false /\ (c =? c_dq) = false /\ (c =? c_bs) = false /\
  (c =? c_pct) = false /\ (c =? c_plus) = false /\ (c =? c_minus) = false /\ is_delim c = false.
Proof.
  unfold is_digit, is_delim, is_ws, c_comma, c_semi, c_quote, c_open, c_close, c_dq, c_bs, c_pct, c_plus, c_minus.
  intros H. repeat split; lia.
Qed.

(* a digit read in state NumberS, or as the first digit after a sign *)
Lemma tok_digit c r inv st buf bl cur : is_digit c = true -> (st = NumberS \/ st = SymbolOrNumber) ->
  tok (c :: r) inv st buf bl cur =
  let cur' := step_loc cur c in
  match atom_ending r inv with
  | None => Some (inr EInvalid)
  | Some false => tok r inv NumberS (c :: buf) bl cur'
  | Some true =>
    match parse_i64_full (rev (c :: buf)) with
    | inr z => Some (inl {| tv := TNum z; tloc := bl; trest := r; tcur := cur' |})
    | inl e => let '(Loc a b) := cur' in Some (inr (EError (msg_invalid_number e) cur' r a (b + 1)))
    end
  end.
Proof.
  intros Hd Hst. destruct (digit_facts c Hd) as (W & C1 & C2 & C3 & C4 & C5 & C6 & C7 & C8 & C9 & C10 & _).
  cbn [tok]. destruct (step_loc cur c) as [a b] eqn:El. cbn zeta.
  destruct Hst as [-> | ->]; cbn [status_eqb andb];
    rewrite W, C1, C2, C3, C4, C5, C6, C7, C8, C9, C10, Hd; cbn [orb];
    destruct (atom_ending r inv) as [[|]|]; reflexivity.
Qed.

Lemma tok_first_digit c r inv cur : is_digit c = true ->
  tok (c :: r) inv WhiteSpace [] cur cur =
  let cur' := step_loc cur c in
  match atom_ending r inv with
  | None => Some (inr EInvalid)
  | Some false => tok r inv NumberS [c] cur' cur'
  | Some true =>
    match parse_i64_full [c] with
    | inr z => Some (inl {| tv := TNum z; tloc := cur'; trest := r; tcur := cur' |})
    | inl e => let '(Loc a b) := cur' in Some (inr (EError (msg_invalid_number e) cur' r a (b + 1)))
    end
  end.
Proof.
  intros Hd. destruct (digit_facts c Hd) as (W & C1 & C2 & C3 & C4 & C5 & C6 & C7 & C8 & C9 & C10 & _).
  cbn [tok]. destruct (step_loc cur c) as [a b] eqn:El. cbn zeta. cbn [status_eqb andb].
  rewrite W, C1, C2, C3, C4, C5, C6, C7, C8, C9, C10, Hd; cbn [orb].
  destruct (atom_ending r inv) as [[|]|]; reflexivity.
Qed.

Lemma tok_first_minus r inv cur :
  tok (c_minus :: r) inv WhiteSpace [] cur cur =
  let cur' := step_loc cur c_minus in
  match atom_ending r inv with
  | None => Some (inr EInvalid)
  | Some false => tok r inv SymbolOrNumber [c_minus] cur' cur'
  | Some true => Some (inl {| tv := TSym [c_minus]; tloc := cur'; trest := r; tcur := cur' |})
  end.
Proof.
  cbn [tok]. destruct (step_loc cur c_minus) as [a b] eqn:El. cbn zeta. cbn.
  destruct (atom_ending r inv) as [[|]|]; reflexivity.
Qed.

Lemma tok_digits : forall ds c rest buf bl cur st z, is_digit c = true -> Forall (fun d => is_digit d = true) ds ->
  (st = NumberS \/ st = SymbolOrNumber) ->
  atom_ending rest false = Some true -> parse_i64_full (rev buf ++ c :: ds) = inr z ->
  exists l2, tok ((c :: ds) ++ rest) false st buf bl cur = Some (inl {| tv := TNum z; tloc := bl; trest := rest; tcur := l2 |}).
Proof.
  induction ds as [|d ds IH]; intros c rest buf bl cur st z Hc Hds Hst He Hp.
  - cbn [app]. rewrite (tok_digit c rest false st buf bl cur Hc Hst). cbn zeta. rewrite He. cbn [rev]. rewrite Hp.
    eexists. reflexivity.
  - inversion Hds as [|? ? Hd Hds']; subst.
    change ((c :: d :: ds) ++ rest) with (c :: ((d :: ds) ++ rest)).
    rewrite (tok_digit c _ false st buf bl cur Hc Hst). cbn zeta.
    assert (Hne : atom_ending ((d :: ds) ++ rest) false = Some false).
    { cbn. destruct (digit_facts d Hd) as (_ & _ & _ & _ & _ & _ & _ & _ & _ & _ & _ & Hx). rewrite Hx. reflexivity. }
    rewrite Hne.
    apply (IH d rest (c :: buf) bl (step_loc cur c) NumberS z Hd Hds' (or_introl eq_refl) He).
    cbn [rev]. rewrite <- app_assoc. exact Hp.
Qed.

Theorem number_round_trip z rest cur : in_i64 z = true -> atom_ending rest false = Some true ->
  exists l1 l2, next_token (show_i64 z ++ rest) false cur = Some (inl {| tv := TNum z; tloc := l1; trest := rest; tcur := l2 |}).
Proof.
  intros Hz He. pose proof (parse_show_i64 z Hz) as Hp. unfold parse_i64 in Hp.
  destruct (parse_i64_full (show_i64 z)) as [e|z'] eqn:Ep; [discriminate|]. injection Hp as ->.
  destruct (show_i64_shape z) as (c & ds & Heq & Hc & Hds). rewrite Heq in *. unfold next_token.
  destruct Hc as [[-> Hne] | Hc].
  - destruct ds as [|d ds]; [congruence|]. inversion Hds as [|? ? Hd Hds']; subst.
    change ((c_minus :: d :: ds) ++ rest) with (c_minus :: ((d :: ds) ++ rest)).
    rewrite tok_first_minus. cbn zeta.
    assert (Hx : atom_ending ((d :: ds) ++ rest) false = Some false).
    { cbn. destruct (digit_facts d Hd) as (_ & _ & _ & _ & _ & _ & _ & _ & _ & _ & _ & Hx). rewrite Hx. reflexivity. }
    rewrite Hx.
    destruct (tok_digits ds d rest [c_minus] (step_loc cur c_minus) (step_loc cur c_minus) SymbolOrNumber z Hd Hds' (or_intror eq_refl) He Ep) as (l2 & H).
    exists (step_loc cur c_minus), l2. exact H.
  - destruct ds as [|d ds].
    + cbn [app]. rewrite (tok_first_digit c rest false cur Hc). cbn zeta. rewrite He, Ep. eexists. eexists. reflexivity.
    + inversion Hds as [|? ? Hd Hds']; subst.
      change ((c :: d :: ds) ++ rest) with (c :: ((d :: ds) ++ rest)).
      rewrite (tok_first_digit c _ false cur Hc). cbn zeta.
      assert (Hx : atom_ending ((d :: ds) ++ rest) false = Some false).
      { cbn. destruct (digit_facts d Hd) as (_ & _ & _ & _ & _ & _ & _ & _ & _ & _ & _ & Hx). rewrite Hx. reflexivity. }
      rewrite Hx.
      destruct (tok_digits ds d rest [c] (step_loc cur c) (step_loc cur c) NumberS z Hd Hds' (or_introl eq_refl) He Ep) as (l2 & H).
      exists (step_loc cur c), l2. exact H.
Qed.
