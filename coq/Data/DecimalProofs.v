From PL Require Import Data.Decimal.
From Coq Require Import ZifyBool ZifyN.
Ltac Zify.zify_post_hook ::= Z.div_mod_to_equations.
Local Open Scope N_scope.

Lemma digit_of_mod n : is_digit (48 + n mod 10) = true.
Proof. unfold is_digit. assert (n mod 10 < 10) by (apply N.mod_lt; lia). lia. Qed.

(* the value of the text produced, continued into [acc] *)
Lemma show_N_aux_digits f : forall n acc,
  n < 10 ^ N.of_nat f ->
  exists ds, show_N_aux f n acc = ds ++ acc /\ Forall (fun d => is_digit d = true) ds /\
             (f <> O -> ds <> []) /\
             (f <> O -> forall a, digits_val ds a = Some (a * 10 ^ Z.of_nat (length ds) + Z.of_N n)%Z).
Proof.
  induction f as [|f IH]; intros n acc Hn.
  - exists []. cbn. repeat split; auto; congruence.
  - cbn [show_N_aux]. destruct (N.eqb_spec (n / 10) 0) as [H0|H0].
    + exists [48 + n mod 10]. repeat split.
      * constructor; [apply digit_of_mod|constructor].
      * congruence.
      * intros _ a. cbn [digits_val length]. rewrite digit_of_mod.
        f_equal. assert (n < 10) by (apply N.div_small_iff in H0; lia).
        rewrite N.mod_small by lia. replace (48 + n - 48) with n by lia.
        change (10 ^ Z.of_nat 1)%Z with 10%Z. lia.
    + assert (Hlt : n / 10 < 10 ^ N.of_nat f).
      { replace (N.of_nat (S f)) with (N.succ (N.of_nat f)) in Hn by lia.
        rewrite N.pow_succ_r' in Hn. apply N.div_lt_upper_bound; lia. }
      destruct (IH (n / 10) ((48 + n mod 10) :: acc) Hlt) as (ds & Heq & Hall & Hne & Hval).
      exists (ds ++ [48 + n mod 10]). repeat split.
      * rewrite Heq, <- app_assoc. reflexivity.
      * apply Forall_app; split; [exact Hall|]. constructor; [apply digit_of_mod|constructor].
      * intros _ Hnil. apply app_eq_nil in Hnil. destruct Hnil; congruence.
      * intros _ a.
        assert (Hf : f <> O).
        { intros ->. cbn in Hlt. assert (n / 10 = 0) by lia. congruence. }
        assert (Hsplit : forall xs ys b, Forall (fun d => is_digit d = true) xs ->
                   digits_val (xs ++ ys) b = match digits_val xs b with Some v => digits_val ys v | None => None end).
        { induction xs as [|x xs IHx]; intros ys b Hx; cbn; [reflexivity|].
          inversion Hx as [|? ? Hd Hrest]; subst. rewrite Hd. apply IHx; assumption. }
        rewrite Hsplit by exact Hall. rewrite (Hval Hf a). cbn [digits_val]. rewrite digit_of_mod.
        f_equal. rewrite app_length. cbn [length].
        replace (Z.of_nat (length ds + 1)) with (Z.succ (Z.of_nat (length ds))) by lia.
        rewrite Z.pow_succ_r by lia.
        replace (48 + n mod 10 - 48) with (n mod 10) by lia.
        pose proof (N.div_mod n 10 ltac:(lia)) as Hdm.
        assert (Z.of_N n = 10 * Z.of_N (n / 10) + Z.of_N (n mod 10))%Z by lia.
        lia.
Qed.

Lemma size_bound n : n < 10 ^ N.of_nat (S (N.size_nat n)).
Proof.
  assert (H : n < 2 ^ N.of_nat (N.size_nat n)).
  { destruct n as [|p]; [cbn; lia|]. cbn [N.size_nat].
    induction p as [p IHp|p IHp|]; cbn [Pos.size_nat].
    - replace (N.of_nat (S (Pos.size_nat p))) with (N.succ (N.of_nat (Pos.size_nat p))) by lia.
      rewrite N.pow_succ_r'. lia.
    - replace (N.of_nat (S (Pos.size_nat p))) with (N.succ (N.of_nat (Pos.size_nat p))) by lia.
      rewrite N.pow_succ_r'. lia.
    - cbn. lia. }
  eapply N.lt_le_trans; [exact H|].
  replace (N.of_nat (S (N.size_nat n))) with (N.succ (N.of_nat (N.size_nat n))) by lia.
  rewrite N.pow_succ_r'.
  assert (2 ^ N.of_nat (N.size_nat n) <= 10 ^ N.of_nat (N.size_nat n)) by (apply N.pow_le_mono_l; lia).
  lia.
Qed.

Lemma show_N_digits n :
  exists d ds, show_N n = d :: ds /\ is_digit d = true /\ Forall (fun d => is_digit d = true) ds /\
               digits_val (d :: ds) 0%Z = Some (Z.of_N n).
Proof.
  unfold show_N.
  destruct (show_N_aux_digits (S (N.size_nat n)) n [] (size_bound n)) as (ds & Heq & Hall & Hne & Hval).
  rewrite app_nil_r in Heq. specialize (Hne ltac:(congruence)). specialize (Hval ltac:(congruence) 0%Z).
  destruct ds as [|d ds]; [congruence|]. inversion Hall as [|? ? Hd Hrest]; subst.
  exists d, ds. split; [exact Heq|]. split; [exact Hd|]. split; [exact Hrest|].
  rewrite Hval. f_equal; lia.
Qed.

Lemma digits_val_ge ds : forall a v, (0 <= a)%Z -> digits_val ds a = Some v -> (a <= v)%Z.
Proof.
  induction ds as [|d ds IH]; intros a v Ha H; cbn in H.
  - injection H as <-. lia.
  - destruct (is_digit d) eqn:Ed; [|discriminate].
    assert (Hd : (0 <= Z.of_N (d - 48))%Z) by lia.
    apply IH in H; lia.
Qed.

Lemma scan_digits_val (neg : bool) (ds : text) : forall a v : Z, (0 <= a)%Z -> digits_val ds a = Some v ->
  in_i64 (if neg then (- v)%Z else v) = true ->
  scan_digits neg ds (if neg then (- a)%Z else a) = inr (if neg then (- v)%Z else v).
Proof.
  induction ds as [|d ds IH]; intros a v Ha H Hr; cbn [digits_val scan_digits] in H |- *.
  - injection H as <-. reflexivity.
  - destruct (is_digit d) eqn:Ed; [|discriminate].
    assert (Hd : (0 <= Z.of_N (d - 48))%Z) by lia.
    set (w := Z.of_N (d - 48)) in *.
    assert (Ha' : (0 <= a * 10 + w)%Z) by lia.
    pose proof (digits_val_ge ds _ _ Ha' H) as Hge.
    destruct neg.
    + assert (Hin : in_i64 (- a * 10 - w)%Z = true) by (unfold in_i64, i64_min, i64_max in *; lia).
      rewrite Hin. replace (- a * 10 - w)%Z with (- (a * 10 + w))%Z by lia.
      apply (IH (a * 10 + w)%Z v Ha' H Hr).
    + assert (Hin : in_i64 (a * 10 + w)%Z = true) by (unfold in_i64, i64_min, i64_max in *; lia).
      rewrite Hin. apply (IH (a * 10 + w)%Z v Ha' H Hr).
Qed.

Theorem parse_show_i64 z : in_i64 z = true -> parse_i64 (show_i64 z) = Some z.
Proof.
  intros Hr. unfold show_i64, parse_i64. destruct (Z.ltb_spec z 0) as [Hneg|Hpos].
  - destruct (show_N_digits (Z.abs_N z)) as (d & ds & Heq & Hd & Hall & Hval).
    unfold parse_i64_full. rewrite N.eqb_refl. rewrite Heq.
    pose proof (scan_digits_val true (d :: ds) 0%Z _ ltac:(lia) Hval) as H.
    replace (- Z.of_N (Z.abs_N z))%Z with z in H by lia. change (- 0)%Z with 0%Z in H.
    rewrite (H Hr). reflexivity.
  - destruct (show_N_digits (Z.to_N z)) as (d & ds & Heq & Hd & Hall & Hval).
    unfold parse_i64_full. rewrite Heq.
    assert (d =? c_minus = false) as -> by (unfold is_digit, c_minus in *; lia).
    assert (d =? c_plus = false) as -> by (unfold is_digit, c_plus in *; lia).
    pose proof (scan_digits_val false (d :: ds) 0%Z _ ltac:(lia) Hval) as H.
    replace (Z.of_N (Z.to_N z)) with z in H by lia.
    rewrite (H Hr). reflexivity.
Qed.

(* the printed text of an integer starts with '-' or a digit and continues with digits:
   it is a number token for the reader (used by C10) *)
Theorem show_i64_shape z :
  exists c ds, show_i64 z = c :: ds /\ (c = c_minus /\ ds <> [] \/ is_digit c = true) /\
               Forall (fun d => is_digit d = true) ds.
Proof.
  unfold show_i64. destruct (Z.ltb_spec z 0).
  - destruct (show_N_digits (Z.abs_N z)) as (d & ds & Heq & Hd & Hall & _).
    exists c_minus, (d :: ds). rewrite Heq. repeat split; auto. left; split; congruence.
  - destruct (show_N_digits (Z.to_N z)) as (d & ds & Heq & Hd & Hall & _).
    exists d, ds. repeat split; auto.
Qed.
