(* The datum-level round trip: for EVERY datum made of integers, characters, symbols,
   strings and nested proper lists (any shape, length and depth), the text the printer
   produces reads back as exactly one datum with the rest of the input untouched, the
   datum read denotes the same abstract datum as the original (a string and the list of
   its characters are the same abstract datum), and printing it again gives the same text.

   [datum] is the abstract syntax; [denotes v x] says that the interpreter value [v]
   (with whatever source metadata) is a representation of [x]; it is a partial function
   from values to data ([denotes_fun]). *)
From PL Require Import Data.Reader Data.Printer Data.ReaderProofs Data.RoundTrip Data.DecimalProofs Data.TokenLemmas Data.EqualProofs.
From Coq Require Import String ZifyBool.
Local Open Scope string_scope.
Local Open Scope list_scope.
Local Open Scope N_scope.

Inductive datum := DNum (z : Z) | DChr (c : char) | DSym (c : char) (name : text) | DStr (t : text) | DList (l : list datum).

Section DatumInd.
  Variable P : datum -> Prop.
  Hypothesis HNum : forall z, P (DNum z).
  Hypothesis HChr : forall c, P (DChr c).
  Hypothesis HSym : forall c n, P (DSym c n).
  Hypothesis HStr : forall t, P (DStr t).
  Hypothesis HList : forall l, Forall P l -> P (DList l).
  Fixpoint datum_ind' (x : datum) : P x :=
    match x with
    | DNum z => HNum z | DChr c => HChr c | DSym c n => HSym c n | DStr t => HStr t
    | DList l => HList l ((fix go (l : list datum) : Forall P l :=
                             match l with [] => Forall_nil P | y :: r => Forall_cons y (datum_ind' y) (go r) end) l)
    end.
End DatumInd.

Fixpoint show (x : datum) : text :=
  match x with
  | DNum z => show_i64 z
  | DChr c => print_char c
  | DSym c n => c :: n
  | DStr t => print_string t
  | DList l => print_list (map show l)
  end.

Fixpoint ntok (x : datum) : nat :=
  match x with DList l => S (S (list_sum (map ntok l))) | _ => 1%nat end.

Fixpoint ddepth (x : datum) : nat :=
  match x with DList l => S (list_max (map ddepth l)) | _ => 0%nat end.

Definition is_list_sym (x : datum) : bool :=
  match x with DSym c n => text_eqb (c :: n) (s "list") | _ => false end.

Fixpoint dchars (xs : list datum) : option text :=
  match xs with
  | [] => Some []
  | DChr c :: r => match dchars r with Some t => Some (c :: t) | None => None end
  | _ => None
  end.

(* the list would be taken for a string by the printer *)
Definition dstring (xs : list datum) : option text :=
  match xs with [] => Some [] | x :: r => if is_list_sym x then dchars r else dchars xs end.

(* well-formed = in the domain of the property and in normal form: integers in range,
   characters that have a literal, readable symbol names, a list of characters (or one
   headed by the symbol list) is written DStr *)
Fixpoint wf (x : datum) : bool :=
  match x with
  | DNum z => in_i64 z
  | DChr c => readable_char c
  | DSym c n => symbol_start c && forallb symbol_char n
  | DStr t => true
  | DList l => match l with [] => true | _ => match dstring l with None => true | Some _ => false end end && forallb wf l
  end.

Inductive denotes : val -> datum -> Prop :=
| den_num v z : getv v = VNum z -> denotes v (DNum z)
| den_chr v c : getv v = VChar c -> denotes v (DChr c)
| den_sym v c n : getv v = VSym (Named (c :: n)) -> denotes v (DSym c n)
| den_nil v : is_nil v = true -> denotes v (DList [])
| den_str v t : is_nil v = false -> list_to_string v = Some t -> denotes v (DStr t)
| den_list v l xs : list_to_vec v = Some l -> list_to_string v = None -> Forall2 denotes l xs -> denotes v (DList xs).

(* ---------- values ---------- *)
Lemma list_to_vec_shape v l : list_to_vec v = Some l ->
  (is_nil v = true /\ l = []) \/ (exists a d l', getv v = VCons a d /\ l = a :: l' /\ list_to_vec d = Some l').
Proof.
  destruct v as [| | | |a d| | | |m w]; cbn; try discriminate.
  - intros H; injection H as <-. left; auto.
  - destruct (list_to_vec d) as [l0|] eqn:E; [|discriminate]. intros H; injection H as <-. right. exists a, d, l0. auto.
  - destruct w as [| | | |a d| | | |m' w']; try discriminate.
    + intros H; injection H as <-. left; auto.
    + destruct (list_to_vec d) as [l0|] eqn:E; [|discriminate]. intros H; injection H as <-. right. exists a, d, l0. auto.
Qed.

Lemma is_nil_list_to_string v : is_nil v = true -> list_to_string v = Some [].
Proof.
  unfold is_nil, list_to_string. destruct v as [| | | |a d| | | |m w]; cbn; try discriminate; auto.
  destruct w; cbn; try discriminate; auto.
Qed.

Definition atomic (v : val) : bool := match getv v with VNum _ | VChar _ | VSym _ => true | _ => false end.

Lemma atomic_facts v : atomic v = true ->
  is_nil v = false /\ list_to_vec v = None /\ list_to_string v = None /\ print_atom v = print_atom (getv v).
Proof.
  unfold atomic, is_nil, list_to_string. destruct v as [| | | |a d| | | |m w]; cbn; try discriminate; auto.
  destruct w; cbn; try discriminate; auto.
Qed.

Lemma chars_of_map t : chars_of (map VChar t) = Some t.
Proof. induction t as [|c t IH]; cbn; [reflexivity|]. rewrite IH. reflexivity. Qed.

Lemma list_to_vec_vtl l : list_to_vec (vec_to_list l) = Some l.
Proof. apply list_to_vec_vec_to_list. auto. Qed.

Lemma string_value_reads_as_string m t : list_to_string (VMeta m (string_to_proper_list t)) = Some t /\
  is_nil (VMeta m (string_to_proper_list t)) = false.
Proof.
  unfold string_to_proper_list, list_to_string. cbn [vec_to_list list_to_vec].
  rewrite list_to_vec_vtl. split; [|reflexivity].
  change (is_sym (vsym "list") (s "list")) with true. cbn iota. apply chars_of_map.
Qed.

(* ---------- denotes and the string test ---------- *)
Lemma denotes_list_sym a x : denotes a x -> is_sym a (s "list") = is_list_sym x.
Proof.
  intros H. unfold is_sym. inversion H as [? ? E|? ? E|? ? ? E|? E|? ? E1 E2|? ? ? E1 E2 E3]; subst; cbn [is_list_sym].
  - rewrite E. reflexivity.
  - rewrite E. reflexivity.
  - rewrite E. reflexivity.
  - unfold is_nil in E. destruct (getv a); try discriminate. reflexivity.
  - unfold list_to_string in E2. destruct (list_to_vec a) as [l|] eqn:L; [|discriminate].
    destruct (list_to_vec_shape a l L) as [[N _] | (p & q & l' & G & _)].
    + congruence.
    + rewrite G. reflexivity.
  - destruct (list_to_vec_shape a l E1) as [[N _] | (p & q & l' & G & _)].
    + rewrite (is_nil_list_to_string a N) in E2. discriminate.
    + rewrite G. reflexivity.
Qed.

Lemma denotes_char a x : denotes a x ->
  match x with DChr c => getv a = VChar c | _ => match getv a with VChar _ => False | _ => True end end.
Proof.
  intros H. inversion H as [? ? E|? ? E|? ? ? E|? E|? ? E1 E2|? ? ? E1 E2 E3]; subst.
  - rewrite E. exact I.
  - exact E.
  - rewrite E. exact I.
  - unfold is_nil in E. destruct (getv a); try discriminate. exact I.
  - unfold list_to_string in E2. destruct (list_to_vec a) as [l|] eqn:L; [|discriminate].
    destruct (list_to_vec_shape a l L) as [[N _] | (p & q & l' & G & _)]; [congruence|]. rewrite G. exact I.
  - destruct (list_to_vec_shape a l E1) as [[N _] | (p & q & l' & G & _)].
    + rewrite (is_nil_list_to_string a N) in E2. discriminate.
    + rewrite G. exact I.
Qed.

Lemma chars_of_denotes l xs : Forall2 denotes l xs -> chars_of l = dchars xs.
Proof.
  induction 1 as [|a x l xs Ha Hl IH]; [reflexivity|].
  cbn [chars_of dchars]. pose proof (denotes_char a x Ha) as Hc.
  destruct x; try (destruct (getv a); try reflexivity; contradiction).
  rewrite Hc, IH. reflexivity.
Qed.

Lemma list_to_string_denotes v l xs : list_to_vec v = Some l -> Forall2 denotes l xs -> list_to_string v = dstring xs.
Proof.
  intros L F. unfold list_to_string, dstring. rewrite L.
  destruct F as [|a x l xs Ha Hl]; [reflexivity|].
  rewrite (denotes_list_sym a x Ha).
  destruct (is_list_sym x).
  - apply chars_of_denotes. exact Hl.
  - apply chars_of_denotes. constructor; assumption.
Qed.

(* ---------- denotes is a partial function ---------- *)
Theorem denotes_fun : forall x v y, denotes v x -> denotes v y -> x = y.
Proof.
  induction x as [z|c|c n|t|xs IH] using datum_ind'; intros v y Hx Hy.
  - inversion Hx as [? ? E| | | | |]; subst.
    assert (A : atomic v = true) by (unfold atomic; rewrite E; reflexivity).
    destruct (atomic_facts v A) as (N & L & S & _).
    inversion Hy; subst; congruence.
  - inversion Hx as [|? ? E| | | |]; subst.
    assert (A : atomic v = true) by (unfold atomic; rewrite E; reflexivity).
    destruct (atomic_facts v A) as (N & L & S & _).
    inversion Hy; subst; congruence.
  - inversion Hx as [| |? ? ? E| | |]; subst.
    assert (A : atomic v = true) by (unfold atomic; rewrite E; reflexivity).
    destruct (atomic_facts v A) as (N & L & S & _).
    inversion Hy; subst; congruence.
  - inversion Hx as [| | | |? ? E1 E2|]; subst.
    inversion Hy as [? ? E|? ? E|? ? ? E|? E|? ? F1 F2|? ? ? F1 F2 F3]; subst; try congruence.
    + assert (A : atomic v = true) by (unfold atomic; rewrite E; reflexivity). destruct (atomic_facts v A) as (_ & _ & S & _). congruence.
    + assert (A : atomic v = true) by (unfold atomic; rewrite E; reflexivity). destruct (atomic_facts v A) as (_ & _ & S & _). congruence.
    + assert (A : atomic v = true) by (unfold atomic; rewrite E; reflexivity). destruct (atomic_facts v A) as (_ & _ & S & _). congruence.
  - inversion Hx as [| | |? E| |? l ? E1 E2 E3]; subst.
    + pose proof (is_nil_list_to_string v E) as S.
      inversion Hy as [? ? F|? ? F|? ? ? F|? F|? ? F1 F2|? ? ? F1 F2 F3]; subst; try congruence;
        try (assert (A : atomic v = true) by (unfold atomic; rewrite F; reflexivity); destruct (atomic_facts v A) as (N & _); congruence).
    + inversion Hy as [? ? F|? ? F|? ? ? F|? F|? ? F1 F2|? l2 ys F1 F2 F3]; subst;
        try (assert (A : atomic v = true) by (unfold atomic; rewrite F; reflexivity); destruct (atomic_facts v A) as (_ & L & _); congruence).
      * rewrite (is_nil_list_to_string v F) in E2. discriminate.
      * congruence.
      * rewrite E1 in F1. injection F1 as <-. f_equal.
        clear - IH E3 F3. revert ys F3. induction E3 as [|a x l xs Ha Hl IHl]; intros ys F3; inversion F3; subst; [reflexivity|].
        inversion IH as [|? ? Hx Hxs]; subst. f_equal; [eapply Hx; eassumption|]. apply IHl; assumption.
Qed.

(* ---------- printing ---------- *)
Section PrintElems.
  Variable pr : val -> pres.
  Fixpoint print_elems (l : list val) : option (list text) + pres :=
    match l with
    | [] => inl (Some [])
    | x :: r => match pr x with
                | PrOk t => match print_elems r with
                            | inl (Some ts) => inl (Some (t :: ts))
                            | other => other
                            end
                | e => inr e
                end
    end.
End PrintElems.

Lemma print_internal_S f v d : print_internal (S f) v d =
  if MAX_RECURSION_DEPTH <? d then PrOverflow
  else if is_nil v then PrOk (s "()")
  else match list_to_string v with
       | Some t => PrOk (print_string t)
       | None => match list_to_vec v with
                 | Some elems => match print_elems (fun x => print_internal f x (d + 1)) elems with
                                 | inl (Some ts) => PrOk (print_list ts)
                                 | inl None => PrFuel
                                 | inr e => e
                                 end
                 | None => PrOk (print_atom v)
                 end
       end.
Proof. reflexivity. Qed.

Lemma list_max_in (l : list nat) x : In x l -> (x <= list_max l)%nat.
Proof.
  induction l as [|y l IH]; simpl; [tauto|]. intros [->|H]; [lia|]. specialize (IH H). lia.
Qed.

Theorem print_denotes : forall x v d fuel, denotes v x -> (ddepth x < fuel)%nat ->
  d + N.of_nat (ddepth x) <= MAX_RECURSION_DEPTH -> print_internal fuel v d = PrOk (show x).
Proof.
  induction x as [z|c|c n|t|xs IH] using datum_ind'; intros v d fuel Hv Hf Hd;
    (destruct fuel as [|f]; [lia|]); rewrite print_internal_S;
    (assert (MAX_RECURSION_DEPTH <? d = false) as -> by (unfold MAX_RECURSION_DEPTH in *; lia)).
  - inversion Hv as [? ? E| | | | |]; subst.
    assert (A : atomic v = true) by (unfold atomic; rewrite E; reflexivity).
    destruct (atomic_facts v A) as (N & L & S & P). rewrite N, S, L, P, E. reflexivity.
  - inversion Hv as [|? ? E| | | |]; subst.
    assert (A : atomic v = true) by (unfold atomic; rewrite E; reflexivity).
    destruct (atomic_facts v A) as (N & L & S & P). rewrite N, S, L, P, E. reflexivity.
  - inversion Hv as [| |? ? ? E| | |]; subst.
    assert (A : atomic v = true) by (unfold atomic; rewrite E; reflexivity).
    destruct (atomic_facts v A) as (N & L & S & P). rewrite N, S, L, P, E. reflexivity.
  - inversion Hv as [| | | |? ? E1 E2|]; subst. rewrite E1, E2. reflexivity.
  - inversion Hv as [| | |? E| |? l ? E1 E2 E3]; subst.
    + rewrite E. reflexivity.
    + assert (N : is_nil v = false).
      { destruct (is_nil v) eqn:N; [|reflexivity]. rewrite (is_nil_list_to_string v N) in E2. discriminate. }
      rewrite N, E2, E1.
      assert (G : print_elems (fun x => print_internal f x (d + 1)) l = inl (Some (map show xs))).
      { cbn [ddepth] in Hf, Hd.
        assert (B : forall x, In x xs -> (ddepth x < f)%nat /\ d + 1 + N.of_nat (ddepth x) <= MAX_RECURSION_DEPTH).
        { intros x Hx. pose proof (list_max_in (map ddepth xs) (ddepth x) (in_map ddepth xs x Hx)). lia. }
        clear - IH E3 B. induction E3 as [|a x l xs Ha Hl IHl]; [reflexivity|].
        inversion IH as [|? ? Hx Hxs]; subst. cbn [print_elems map].
        destruct (B x (or_introl eq_refl)) as [B1 B2].
        rewrite (Hx a (d + 1) f Ha B1 B2).
        rewrite IHl; [reflexivity|assumption|].
        intros y Hy. apply B. right. exact Hy. }
      rewrite G. reflexivity.
Qed.

(* ---------- reading ---------- *)
Definition cont (src : srckind) (f : nat) (stack : list (list val * bool)) (v : val) (rest : text) (cur : loc) : (val * text * loc) + rerr :=
  match stack with
  | (vec, q) :: rs => rd f src rest false cur ((v :: vec, q) :: rs) false
  | [] => inl (v, rest, cur)
  end.

Lemma rd_skip_space fuel src inp cur stack q :
  rd fuel src (c_space :: inp) false cur stack q = rd fuel src inp false (step_loc cur c_space) stack q.
Proof. destruct fuel as [|f]; [reflexivity|]. cbn [rd]. rewrite next_token_space. reflexivity. Qed.

Definition reads_back (x : datum) : Prop :=
  forall src rest cur, atom_ending rest false = Some true ->
  exists v' cur', denotes v' x /\
    forall f stack, rd (ntok x + f) src (show x ++ rest) false cur stack false = cont src f stack v' rest cur'.

Lemma rd_elems : forall xs, Forall reads_back xs ->
  forall src rest cur, exists vs cur', Forall2 denotes vs xs /\
    forall f vec q rs, rd (list_sum (map ntok xs) + f) src (join_space (map show xs) ++ c_close :: rest) false cur ((vec, q) :: rs) false
              = rd f src (c_close :: rest) false cur' ((rev vs ++ vec, q) :: rs) false.
Proof.
  induction xs as [|x xs IH]; intros Hall src rest cur.
  - exists [], cur. split; [constructor|]. intros f vec q rs. reflexivity.
  - inversion Hall as [|? ? Hx Hxs]; subst. destruct xs as [|y ys].
    + destruct (Hx src (c_close :: rest) cur eq_refl) as (v' & cur' & Dv & R).
      exists [v'], cur'. split; [repeat constructor; exact Dv|]. intros f vec q rs.
      change (list_sum (map ntok [x])) with (ntok x + 0)%nat. cbn [map join_space]. rewrite Nat.add_0_r. rewrite R. reflexivity.
    + destruct (Hx src (c_space :: (join_space (map show (y :: ys)) ++ c_close :: rest)) cur eq_refl) as (v' & cur' & Dv & R).
      destruct (IH Hxs src rest (step_loc cur' c_space)) as (vs & cur'' & Dvs & R2).
      exists (v' :: vs), cur''. split; [constructor; assumption|]. intros f vec q rs.
      change (join_space (map show (x :: y :: ys))) with (show x ++ c_space :: join_space (map show (y :: ys))).
      rewrite <- app_assoc. change ((c_space :: join_space (map show (y :: ys))) ++ c_close :: rest) with (c_space :: (join_space (map show (y :: ys)) ++ c_close :: rest)).
      change (list_sum (map ntok (x :: y :: ys))) with (ntok x + list_sum (map ntok (y :: ys)))%nat.
      rewrite <- Nat.add_assoc. rewrite R. cbn [cont]. rewrite rd_skip_space. rewrite R2.
      cbn [rev]. rewrite <- app_assoc. reflexivity.
Qed.

Lemma rd_atom_token src f inp cur stack t : next_token inp false cur = Some (inl t) ->
  forall v, (match tv t with
             | TChr ch => v = VMeta (mk_meta src [ch] (tloc t)) (VChar ch)
             | TNum z => v = VMeta (mk_meta src (show_i64 z) (tloc t)) (VNum z)
             | TSym n => v = VMeta (mk_meta src n (tloc t)) (VSym (Named n))
             | TStr n => v = VMeta (mk_meta src n (tloc t)) (string_to_proper_list n)
             | _ => False
             end) ->
  rd (S f) src inp false cur stack false = cont src f stack v (trest t) (tcur t).
Proof.
  intros H v Hv. cbn [rd]. rewrite H. destruct t as [tvv l1 r l2]. cbn [tv tloc trest tcur] in *.
  destruct tvv; try contradiction; subst v; destruct stack as [|[vec q] rs]; reflexivity.
Qed.

Theorem rd_show : forall x, wf x = true -> reads_back x.
Proof.
  induction x as [z|c|c n|t|xs IH] using datum_ind'; intros Hw src rest cur He; cbn [wf] in Hw.
  - destruct (number_round_trip z rest cur Hw He) as (l1 & l2 & H).
    eexists. exists l2. split; [|intros f stack; cbn [ntok show]; change (1 + f)%nat with (S f);
      rewrite (rd_atom_token src f _ cur stack _ H _ eq_refl); reflexivity].
    apply den_num. reflexivity.
  - destruct (char_round_trip c rest cur Hw He) as (l1 & l2 & H).
    eexists. exists l2. split; [|intros f stack; cbn [ntok show]; change (1 + f)%nat with (S f);
      rewrite (rd_atom_token src f _ cur stack _ H _ eq_refl); reflexivity].
    apply den_chr. reflexivity.
  - apply andb_prop in Hw as [Hs Hn]. destruct (symbol_round_trip c n rest cur Hs Hn He) as (l1 & l2 & H).
    eexists. exists l2. split; [|intros f stack; cbn [ntok show]; change (1 + f)%nat with (S f);
      rewrite (rd_atom_token src f _ cur stack _ H _ eq_refl); reflexivity].
    apply den_sym. reflexivity.
  - destruct (string_round_trip t rest cur) as (l1 & l2 & H).
    eexists. exists l2. split; [|intros f stack; cbn [ntok show]; change (1 + f)%nat with (S f);
      rewrite (rd_atom_token src f _ cur stack _ H _ eq_refl); reflexivity].
    cbn [tloc]. destruct (string_value_reads_as_string (mk_meta src t l1) t) as [S N]. apply den_str; assumption.
  - apply andb_prop in Hw as [Hns Hall].
    assert (Hrb : Forall reads_back xs).
    { rewrite forallb_forall in Hall. rewrite Forall_forall in IH |- *. intros x Hx. apply IH; auto. }
    assert (Hshow : show (DList xs) ++ rest = c_open :: (join_space (map show xs) ++ c_close :: rest)).
    { cbn [show]. unfold print_list. cbn [app]. rewrite <- app_assoc. reflexivity. }
    destruct (rd_elems xs Hrb src rest (step_loc cur c_open)) as (vs & cur' & Dvs & R).
    exists (vec_to_list vs), (step_loc cur' c_close).
    split.
    + destruct xs as [|x0 xs0].
      * inversion Dvs; subst. apply den_nil. reflexivity.
      * eapply den_list; [apply list_to_vec_vtl| |exact Dvs].
        rewrite (list_to_string_denotes _ vs (x0 :: xs0) (list_to_vec_vtl vs) Dvs).
        destruct (dstring (x0 :: xs0)); [discriminate|reflexivity].
    + intros f stack. rewrite Hshow. cbn [ntok]. change (S (S (list_sum (map ntok xs))) + f)%nat with (S (S (list_sum (map ntok xs)) + f)).
      cbn [rd]. rewrite next_token_open. cbn [tv trest tcur].
      replace (S (list_sum (map ntok xs)) + f)%nat with (list_sum (map ntok xs) + S f)%nat by lia.
      rewrite R. cbn [rd]. rewrite next_token_close. cbn [tv trest tcur].
      rewrite app_nil_r, rev_involutive.
      destruct stack as [|[lv lq] rs]; reflexivity.
Qed.


(* ---------- the text is long enough for the reader's fuel ---------- *)
Lemma join_len : forall xs, Forall (fun x => (ntok x <= List.length (show x))%nat) xs ->
  (list_sum (map ntok xs) <= List.length (join_space (map show xs)))%nat.
Proof.
  induction xs as [|x xs IH]; intros H; [cbn; lia|].
  inversion H as [|? ? Hx Hxs]; subst. specialize (IH Hxs). destruct xs as [|y ys].
  - change (list_sum (map ntok [x])) with (ntok x + 0)%nat. cbn [map join_space]. lia.
  - change (join_space (map show (x :: y :: ys))) with (show x ++ c_space :: join_space (map show (y :: ys))).
    change (list_sum (map ntok (x :: y :: ys))) with (ntok x + list_sum (map ntok (y :: ys)))%nat.
    rewrite app_length. cbn [List.length]. lia.
Qed.

Lemma ntok_le_length : forall x, (ntok x <= List.length (show x))%nat.
Proof.
  induction x as [z|c|c n|t|xs IH] using datum_ind'; cbn [ntok show].
  - destruct (show_i64_shape z) as (c & ds & -> & _). cbn [List.length]. lia.
  - unfold print_char. cbn [List.length]. lia.
  - cbn [List.length]. lia.
  - unfold print_string. cbn [List.length]. lia.
  - unfold print_list. cbn [List.length]. rewrite app_length. cbn [List.length]. pose proof (join_len xs IH). lia.
Qed.

(* ---------- the round trip ---------- *)
Theorem datum_round_trip x v d fuel src line col :
  denotes v x -> wf x = true -> (ddepth x < fuel)%nat -> d + N.of_nat (ddepth x) <= MAX_RECURSION_DEPTH ->
  print_internal fuel v d = PrOk (show x) /\
  exists v' l, read_text src (show x) false line col = inl (v', [], l) /\ denotes v' x /\
               print_internal fuel v' d = PrOk (show x).
Proof.
  intros Dv Hw Hf Hd. split; [apply print_denotes; assumption|].
  destruct (rd_show x Hw src [] (Loc line (col - 1)) eq_refl) as (v' & cur' & Dv' & R).
  exists v', cur'. split; [|split; [exact Dv'|apply print_denotes; assumption]].
  unfold read_text. pose proof (ntok_le_length x) as Hn.
  specialize (R (S (List.length (show x)) - ntok x)%nat []). rewrite app_nil_r in R.
  replace (ntok x + (S (List.length (show x)) - ntok x))%nat with (S (List.length (show x))) in R by lia.
  exact R.
Qed.

(* the same with more input behind the datum: exactly one datum is consumed, the rest is left untouched *)
Theorem datum_round_trip_rest x rest src cur : wf x = true -> atom_ending rest false = Some true ->
  exists v' l, denotes v' x /\ forall f, rd (ntok x + f) src (show x ++ rest) false cur [] false = inl (v', rest, l).
Proof.
  intros Hw He. destruct (rd_show x Hw src rest cur He) as (v' & cur' & Dv' & R).
  exists v', cur'. split; [exact Dv'|]. intros f. exact (R f []).
Qed.

(* non-vacuity: a nested datum with every kind of leaf *)
Definition sample_datum : datum :=
  DList [DNum (-9223372036854775808); DChr c_space; DSym 102 (s "oo"); DStr (s "a(b") ; DList []; DList [DList [DChr 97; DNum 7]]; DStr []].
Definition sample_value : val :=
  vec_to_list [VNum (-9223372036854775808); VChar c_space; vsym "foo"; string_to_list (s "a(b"); VNil;
               vec_to_list [vec_to_list [VChar 97; VNum 7]]; string_to_proper_list []].
Example sample_is_wf : wf sample_datum = true. Proof. vm_compute. reflexivity. Qed.
Example sample_denotes : denotes sample_value sample_datum.
Proof.
  eapply den_list; [reflexivity|reflexivity|].
  repeat first [apply Forall2_nil | apply Forall2_cons].
  - apply den_num; reflexivity.
  - apply den_chr; reflexivity.
  - apply den_sym; reflexivity.
  - apply den_str; reflexivity.
  - apply den_nil; reflexivity.
  - eapply den_list; [reflexivity|reflexivity|]. repeat constructor.
    eapply den_list; [reflexivity|reflexivity|]. repeat first [apply Forall2_nil | apply Forall2_cons]; [apply den_chr|apply den_num]; reflexivity.
  - apply den_str; reflexivity.
Qed.

(* the excluded class (open finding char-delimiter-unreadable): a character of the delimiter class
   without an escape is printed as % followed by the character itself, which does not read back *)
Lemma delimiter_character_does_not_read_back :
  readable_char c_open = false /\ show (DChr c_open) = [c_pct; c_open] /\
  (forall v l, read_text SrcStdin (show (DChr c_open)) false 1 1 <> inl (v, [], l)).
Proof.
  split; [reflexivity|]. split; [reflexivity|]. intros v l H. vm_compute in H. discriminate.
Qed.

(* ---------- every value of the property's domain denotes a datum ---------- *)
Definition ends_in_nil (v : val) : bool := match list_to_vec v with Some _ => true | None => false end.

(* integers, characters, named symbols and nested nil-terminated lists, under at most one
   metadata wrapper per node *)
Fixpoint proper (v : val) : bool :=
  match v with
  | VNil | VNum _ | VChar _ => true
  | VSym (Named (_ :: _)) => true
  | VCons a d => proper a && proper d && ends_in_nil d
  | VMeta _ x => match x with VMeta _ _ => false | _ => proper x end
  | _ => false
  end.

Lemma proper_elems : forall v l, proper v = true -> list_to_vec v = Some l ->
  Forall (fun x => proper x = true /\ (vsize x < vsize v)%nat) l.
Proof.
  intros v. remember (vsize v) as n eqn:En. revert v En.
  induction n as [n IH] using lt_wf_ind. intros v En l Hp L.
  assert (Step : forall a d l0, proper a = true -> proper d = true -> (vsize a < n)%nat -> (vsize d < n)%nat ->
                 list_to_vec d = Some l0 -> Forall (fun x => proper x = true /\ (vsize x < n)%nat) (a :: l0)).
  { intros a d l0 Ha Hd La Ld E. constructor; [split; assumption|].
    eapply Forall_impl; [|apply (IH (vsize d) Ld d eq_refl l0 Hd E)]. cbn. intros x [H1 H2]. split; [exact H1|lia]. }
  destruct v as [| | | |a d| | | |m w]; cbn in L; try discriminate.
  - injection L as <-. constructor.
  - destruct (list_to_vec d) as [l0|] eqn:E; [|discriminate]. injection L as <-.
    cbn [proper] in Hp. apply andb_prop in Hp as [Hp _]. apply andb_prop in Hp as [Ha Hd].
    cbn [vsize] in En. apply (Step a d l0 Ha Hd); [lia|lia|exact E].
  - destruct w as [| | | |a d| | | |m' w']; try discriminate.
    + injection L as <-. constructor.
    + destruct (list_to_vec d) as [l0|] eqn:E; [|discriminate]. injection L as <-.
      cbn [proper] in Hp. apply andb_prop in Hp as [Hp _]. apply andb_prop in Hp as [Ha Hd].
      cbn [vsize] in En. apply (Step a d l0 Ha Hd); [lia|lia|exact E].
Qed.

Theorem denotes_total : forall v, proper v = true -> exists x, denotes v x.
Proof.
  intros v. remember (vsize v) as n eqn:En. revert v En.
  induction n as [n IHn] using lt_wf_ind. intros v En Hp.
  destruct (list_to_vec v) as [l|] eqn:L.
  - (* a list: nil, a string, or a list of data *)
    pose proof (proper_elems v l Hp L) as Hall.
    assert (Hxs : exists xs, Forall2 denotes l xs).
    { clear L. induction Hall as [|a l [Ha Hlt] _ IHl]; [exists []; constructor|].
      destruct IHl as (xs & Hxs). destruct (IHn (vsize a) ltac:(lia) a eq_refl Ha) as (x & Hx).
      exists (x :: xs). constructor; assumption. }
    destruct Hxs as (xs & Hxs).
    destruct (is_nil v) eqn:N; [exists (DList []); apply den_nil; exact N|].
    pose proof (list_to_string_denotes v l xs L Hxs) as S.
    destruct (dstring xs) as [t|] eqn:D.
    + exists (DStr t). apply den_str; assumption.
    + exists (DList xs). eapply den_list; eassumption.
  - (* not a list: an atom *)
    destruct v as [| | |[[|c n0]|]|a d| | | |m w]; cbn in Hp, L; try discriminate.
    + exists (DNum z). apply den_num; reflexivity.
    + exists (DChr c). apply den_chr; reflexivity.
    + exists (DSym c n0). apply den_sym; reflexivity.
    + apply andb_prop in Hp as [_ Hd]. unfold ends_in_nil in Hd. destruct (list_to_vec d); discriminate.
    + destruct w as [| | |[[|c n0]|]|a d| | | |m' w']; cbn in Hp, L; try discriminate.
      * exists (DNum z). apply den_num; reflexivity.
      * exists (DChr c). apply den_chr; reflexivity.
      * exists (DSym c n0). apply den_sym; reflexivity.
      * apply andb_prop in Hp as [_ Hd]. unfold ends_in_nil in Hd. destruct (list_to_vec d); discriminate.
Qed.

(* for values: what is printed for a proper value whose leaves are readable reads back as a value
   denoting the same datum, and prints again as the same text *)
Corollary value_round_trip v d fuel src line col : proper v = true ->
  exists x, denotes v x /\
    (wf x = true -> (ddepth x < fuel)%nat -> d + N.of_nat (ddepth x) <= MAX_RECURSION_DEPTH ->
     exists t, print_internal fuel v d = PrOk t /\
       exists v' l, read_text src t false line col = inl (v', [], l) /\ denotes v' x /\ print_internal fuel v' d = PrOk t).
Proof.
  intros Hp. destruct (denotes_total v Hp) as (x & Dx). exists x. split; [exact Dx|]. intros Hw Hf Hd.
  destruct (datum_round_trip x v d fuel src line col Dx Hw Hf Hd) as (P & v' & l & R & Dv' & P').
  exists (show x). split; [exact P|]. exists v', l. auto.
Qed.
