(* Every operation of a heap history preserves the invariant; cells reachable before an
   operation are in use afterwards with the same kind, payload and pointers. *)
From PL Require Import Heap.HeapModel Heap.MarkProofs Heap.SweepProofs Heap.CollectProofs Heap.HeapInv Heap.AllocProofs Heap.SymProofs.
From Coq Require Import Permutation.
Local Open Scope N_scope.

Definition handle_addrs (hs : list (option addr)) : list addr :=
  flat_map (fun o => match o with Some a => [a] | None => [] end) hs.
Definition global_addrs (gl : list (text * text * addr)) : list addr := map snd gl.
Definition live (g : gstate) : list addr := handle_addrs (handles g) ++ global_addrs (globals g).

Definition ginv (g : gstate) : Prop := inv (gheap g) (live g) /\ symok (gheap g).

(* forgetting handles without decrementing is harmless for safety (counts only need to cover) *)
Lemma inv_weaken h L L' : (forall x, (cnt x L' <= cnt x L)%nat) -> inv h L -> inv h L'.
Proof.
  intros Hle [H1 H2 H3 H4 H5]. constructor; auto. intros a Hin Hn.
  assert (HinL : In a L).
  { apply (count_occ_In N.eq_dec). pose proof (proj1 (count_occ_In N.eq_dec L' a) Hin). specialize (Hle a). unfold cnt in Hle. lia. }
  destruct (H5 a HinL Hn) as (c & Hc & Hb & Hl). exists c. repeat split; auto. specialize (Hle a). lia.
Qed.

Lemma cnt_app a L1 L2 : cnt a (L1 ++ L2) = (cnt a L1 + cnt a L2)%nat.
Proof. unfold cnt. apply count_occ_app. Qed.

Lemma handle_addrs_app l1 l2 : handle_addrs (l1 ++ l2) = handle_addrs l1 ++ handle_addrs l2.
Proof. unfold handle_addrs. apply flat_map_app. Qed.

Lemma handle_addr_live g i a : handle_addr g i = Some a -> a = 0 \/ In a (live g).
Proof.
  unfold handle_addr. destruct i as [k|]; [|intros H; injection H as <-; left; reflexivity].
  destruct (nth_error (handles g) k) as [[b|]|] eqn:E; try discriminate. intros H; injection H as <-.
  right. unfold live. apply in_or_app. left. unfold handle_addrs. apply in_flat_map. exists (Some b). split; [eapply nth_error_In; exact E|left; reflexivity].
Qed.

Lemma addrs_of_live g l rs : addrs_of g l = Some rs -> forall x, In x rs -> x = 0 \/ In x (live g).
Proof.
  revert rs. induction l as [|i l IH]; intros rs H x Hx; cbn [addrs_of] in H.
  - injection H as <-. destruct Hx.
  - destruct (handle_addr g (Some i)) as [a|] eqn:E1; [|discriminate]. destruct (addrs_of g l) as [rs'|]; [|discriminate].
    injection H as <-. destruct Hx as [<-|Hx]; [eapply handle_addr_live; exact E1|eapply IH; [reflexivity|exact Hx]].
Qed.

Lemma live_used h L a : inv h L -> a = 0 \/ In a L -> a = 0 \/ In a (boxes (used h)).
Proof.
  intros [_ _ _ _ Hcov] [->|Hin]; [left; reflexivity|]. destruct (N.eq_dec a 0) as [->|Hn]; [left; reflexivity|right].
  destruct (Hcov a Hin Hn) as (c & Hc & Hb & _). rewrite <- Hb. apply in_map. exact Hc.
Qed.

(* taking a new handle to an address that is null or a used cell *)
Lemma push_handle_ginv g h a : inv h (live g) -> symok h -> a = 0 \/ In a (boxes (used h)) -> ginv (push_handle g h a).
Proof.
  intros Hinv Hs Ha. unfold ginv, push_handle, live. cbn [gheap handles globals]. split; [|apply bump_symok; exact Hs].
  apply (inv_perm _ (a :: handle_addrs (handles g) ++ global_addrs (globals g))).
  - rewrite handle_addrs_app. cbn. rewrite <- app_assoc. cbn. apply Permutation_middle.
  - apply inv_incr; assumption.
Qed.

Lemma alloc_op_ginv p g k pl ks g' : ginv g -> (forall x, In x ks -> x = 0 \/ In x (live g)) -> k <> KSym ->
  alloc_op p g k pl ks = Some g' -> ginv g'.
Proof.
  intros [Hinv Hs] Hks Hk Ha. unfold alloc_op in Ha. destruct (allocate p (gheap g) k pl ks) as [[h a]|] eqn:E; [|discriminate]. injection Ha as <-.
  destruct (alloc_spec p (gheap g) h (live g) k pl ks a Hinv Hks E) as (h1 & Hinv1 & Hsub & Hu' & Hinv' & Hanz & Hsy & Hnot).
  apply push_handle_ginv; [exact Hinv'|exact (alloc_symok p (gheap g) h (live g) k pl ks a Hinv Hs Hks E Hk)|].
  right. rewrite Hu'. unfold boxes. rewrite map_app. apply in_or_app. right. left. reflexivity.
Qed.

Lemma kid_ok h L c x : inv h L -> In c (used h) -> In x (kids c) -> x = 0 \/ In x (boxes (used h)).
Proof. intros [_ Hcl _ _ _] Hc Hx. destruct (N.eq_dec x 0) as [->|Hn]; [left; reflexivity|right; eapply Hcl; eassumption]. Qed.

Lemma find_live_used g a c : ginv g -> a = 0 \/ In a (live g) -> find_cell a (cells (gheap g)) = Some c -> In c (used (gheap g)).
Proof.
  intros [Hinv _] Ha Hf. destruct (find_cell_In _ _ _ Hf) as [Hin Hb].
  pose proof Hinv as [(Hnd & Hnz & _) _ _ _ Hcov].
  assert (Hn : a <> 0) by (rewrite <- Hb; rewrite Forall_forall in Hnz; auto).
  destruct Ha as [->|Ha]; [congruence|]. destruct (Hcov a Ha Hn) as (c' & Hc' & Hb' & _).
  pose proof (find_cell_nodup _ c' Hnd (In_used_cells _ c' Hc')) as F. rewrite Hb', Hf in F. congruence.
Qed.

Lemma cnt_filter_le (f : text * text * addr -> bool) gl x : (cnt x (global_addrs (filter f gl)) <= cnt x (global_addrs gl))%nat.
Proof.
  induction gl as [|z gl IH]; [cbn; lia|]. cbn [filter]. destruct (f z); cbn [global_addrs map].
  - destruct (N.eq_dec (snd z) x) as [E|E].
    + rewrite E, !cnt_cons_eq. unfold global_addrs in *. lia.
    + rewrite !cnt_cons_neq by exact E. exact IH.
  - destruct (N.eq_dec (snd z) x) as [E|E].
    + rewrite E, cnt_cons_eq. unfold global_addrs in *. lia.
    + rewrite cnt_cons_neq by exact E. exact IH.
Qed.

(* dropping the handle held by one table entry *)
Lemma decr_entry h H gl e (f : text * text * addr -> bool) : inv h (H ++ global_addrs gl) -> In e gl -> f e = true ->
  inv (decr (snd e) h) (H ++ global_addrs (filter (fun e => negb (f e)) gl)).
Proof.
  intros Hinv Hin Hf.
  assert (Hp : exists R, Permutation (H ++ global_addrs gl) (snd e :: R) /\ forall x, (cnt x (H ++ global_addrs (filter (fun e => negb (f e)) gl)) <= cnt x R)%nat).
  { apply in_split in Hin as (l1 & l2 & ->). exists (H ++ global_addrs (l1 ++ l2)). split.
    - unfold global_addrs. rewrite !map_app. cbn [map]. rewrite app_assoc. apply Permutation_sym. rewrite app_assoc. apply Permutation_middle.
    - intros x. rewrite !cnt_app. apply Nat.add_le_mono_l.
      rewrite filter_app. cbn [filter]. rewrite Hf. cbn [negb]. rewrite <- filter_app. apply cnt_filter_le. }
  destruct Hp as (R & Hp & Hle). apply (inv_weaken _ R); [exact Hle|]. apply inv_decr. eapply inv_perm; eassumption.
Qed.

Lemma find_some_in {A} (f : A -> bool) l x : find f l = Some x -> In x l /\ f x = true.
Proof. apply find_some. Qed.

Lemma drop_handles hs : forall i a, nth_error hs i = Some (Some a) ->
  Permutation (handle_addrs hs) (a :: handle_addrs (firstn i hs ++ None :: skipn (S i) hs)).
Proof.
  induction hs as [|x hs IH]; intros [|i] a H; cbn in H; try discriminate.
  - injection H as ->. cbn. reflexivity.
  - cbn [firstn skipn app]. unfold handle_addrs in *. cbn [flat_map]. specialize (IH i a H).
    destruct x as [b|]; cbn [app].
    + apply Permutation_trans with (b :: a :: flat_map (fun o => match o with Some a0 => [a0] | None => [] end) (firstn i hs ++ None :: skipn (S i) hs)); [constructor; exact IH|apply perm_swap].
    + exact IH.
Qed.

Ltac by_alloc Hg Hs :=
  match type of Hs with alloc_op ?p ?g ?k ?pl ?ks = Some ?g' => apply (alloc_op_ginv p g k pl ks g' Hg); [ | discriminate | exact Hs] end.

Theorem step_ginv p g o g' : ginv g -> step p g o = Some g' -> ginv g'.
Proof.
  intros Hg Hs. pose proof Hg as [Hinv Hsym]. destruct o; cbn [step] in Hs.
  - by_alloc Hg Hs; intros x [].
  - by_alloc Hg Hs; intros x [].
  - destruct (handle_addr g a) as [x|] eqn:E1; [|discriminate]. destruct (handle_addr g d) as [y|] eqn:E2; [|discriminate].
    by_alloc Hg Hs. intros z [<-|[<-|[]]]; eapply handle_addr_live; eassumption.
  - (* HSym *)
    destruct (assoc_t name (symtab (gheap g))) as [a|] eqn:E.
    + injection Hs as <-. apply push_handle_ginv; auto. right. destruct Hsym as [S1 _]. destruct (S1 name a E) as (c & Hc & Hb & _). rewrite <- Hb. apply in_map. exact Hc.
    + destruct (allocate p (gheap g) KSym name []) as [[h1 a]|] eqn:Ea; [|discriminate]. injection Hs as <-.
      destruct (alloc_spec p (gheap g) h1 (live g) KSym name [] a Hinv ltac:(intros x []) Ea) as (h0 & Hinv0 & Hsub & Hu' & Hinv' & Hanz & Hsy & Hnot).
      apply push_handle_ginv.
      * destruct Hinv' as [W C F [Fr Fn] Cov]. constructor; auto. split; assumption.
      * exact (intern_symok p (gheap g) h1 (live g) name a Hinv Hsym E Ea).
      * right. change (used (Heap (cells h1) (ff h1) ((name, a) :: symtab h1) (next h1))) with (used h1). rewrite Hu'. unfold boxes. rewrite map_app. apply in_or_app. right. left. reflexivity.
  - by_alloc Hg Hs; intros x [].
  - destruct (handle_addr g a) as [x|] eqn:E1; [|discriminate]. destruct (handle_addr g d) as [y|] eqn:E2; [|discriminate].
    by_alloc Hg Hs. intros z [<-|[<-|[]]]; eapply handle_addr_live; eassumption.
  - (* HMeta *)
    destruct (handle_addr g x) as [a|] eqn:E1; [|discriminate].
    assert (Hk : forall z, In z [a] -> z = 0 \/ In z (live g)) by (intros z [<-|[]]; eapply handle_addr_live; eassumption).
    destruct (find_cell a (cells (gheap g))) as [c|].
    + destruct (ckind c); try discriminate; by_alloc Hg Hs; exact Hk.
    + destruct (a =? 0); [|discriminate]. by_alloc Hg Hs; exact Hk.
  - (* HFun *)
    destruct (handle_addr g body) as [b|] eqn:E1; [|discriminate]. destruct (handle_addr g env) as [e|] eqn:E2; [|discriminate].
    destruct (addrs_of g params) as [ps|] eqn:E3; [|discriminate].
    by_alloc Hg Hs.
    intros z [<-|[<-|Hz]]; [eapply handle_addr_live; eassumption|eapply handle_addr_live; eassumption|eapply addrs_of_live; eassumption].
  - by_alloc Hg Hs; intros x [].
  - (* HClone *)
    destruct (handle_addr g (Some i)) as [a|] eqn:E; [|discriminate]. injection Hs as <-.
    apply push_handle_ginv; auto. eapply live_used; [exact Hinv|eapply handle_addr_live; exact E].
  - (* HDrop *)
    destruct (nth_error (handles g) i) as [[a|]|] eqn:E; try discriminate. injection Hs as <-.
    unfold ginv. cbn [gheap]. split; [|apply bump_symok; exact Hsym].
    unfold live. cbn [handles globals].
    apply inv_decr. eapply inv_perm; [|exact Hinv]. unfold live.
    apply Permutation_trans with ((a :: handle_addrs (firstn i (handles g) ++ None :: skipn (S i) (handles g))) ++ global_addrs (globals g)); [|reflexivity].
    apply Permutation_app_tail. apply drop_handles. exact E.
  - (* HCar *)
    destruct (handle_addr g (Some i)) as [a|] eqn:E; [|discriminate]. destruct (find_cell a (cells (gheap g))) as [c|] eqn:Ef; [|discriminate].
    destruct (ckind c); try discriminate. destruct (kids c) as [|x [|y [|? ?]]] eqn:Ek; try discriminate. injection Hs as <-.
    apply push_handle_ginv; auto. eapply kid_ok; [exact Hinv|eapply find_live_used; [exact Hg|eapply handle_addr_live; exact E|exact Ef]|rewrite Ek; left; reflexivity].
  - destruct (handle_addr g (Some i)) as [a|] eqn:E; [|discriminate]. destruct (find_cell a (cells (gheap g))) as [c|] eqn:Ef; [|discriminate].
    destruct (ckind c); try discriminate. destruct (kids c) as [|x [|y [|? ?]]] eqn:Ek; try discriminate. injection Hs as <-.
    apply push_handle_ginv; auto. eapply kid_ok; [exact Hinv|eapply find_live_used; [exact Hg|eapply handle_addr_live; exact E|exact Ef]|rewrite Ek; right; left; reflexivity].
  - (* HUnmeta *)
    destruct (handle_addr g (Some i)) as [a|] eqn:E; [|discriminate]. destruct (find_cell a (cells (gheap g))) as [c|] eqn:Ef; [|discriminate].
    pose proof (find_live_used g a c Hg (handle_addr_live g _ a E) Ef) as Hcu.
    assert (Hself : a = 0 \/ In a (boxes (used (gheap g)))) by (eapply live_used; [exact Hinv|eapply handle_addr_live; exact E]).
    destruct (ckind c); try (injection Hs as <-; apply push_handle_ginv; auto; fail).
    destruct (kids c) as [|x [|? ?]] eqn:Ek; try (injection Hs as <-; apply push_handle_ginv; auto; fail).
    injection Hs as <-. apply push_handle_ginv; auto. eapply kid_ok; [exact Hinv|exact Hcu|rewrite Ek; left; reflexivity].
  - (* HParts *)
    destruct (handle_addr g (Some i)) as [a|] eqn:E; [|discriminate]. destruct (find_cell a (cells (gheap g))) as [c|] eqn:Ef; [|discriminate].
    pose proof (find_live_used g a c Hg (handle_addr_live g _ a E) Ef) as Hcu.
    assert (Hgen : forall l g0, ginv g0 -> (forall x, In x l -> x = 0 \/ In x (boxes (used (gheap g0)))) ->
                   (forall g1 x, boxes (used (gheap (push_handle g1 (gheap g1) x))) = boxes (used (gheap g1))) ->
                   ginv (fold_left (fun g' x => push_handle g' (gheap g') x) l g0)).
    { induction l as [|x l IHl]; intros g0 Hg0 Hl Hb; [exact Hg0|]. cbn [fold_left]. apply IHl.
      - destruct Hg0. apply push_handle_ginv; auto. apply Hl. left. reflexivity.
      - intros y Hy. rewrite Hb. apply Hl. right. exact Hy.
      - exact Hb. }
    assert (Hbx : forall g1 x, boxes (used (gheap (push_handle g1 (gheap g1) x))) = boxes (used (gheap g1))).
    { intros g1 x. unfold push_handle. cbn [gheap]. unfold incr. destruct (N.eq_dec x 0) as [->|Hx]; [rewrite bump_null; reflexivity|].
      rewrite used_bump by exact Hx. apply boxes_bump. }
    destruct (ckind c); try discriminate; injection Hs as <-; (apply Hgen; [exact Hg|intros x Hx; eapply kid_ok; eassumption|exact Hbx]).
  - (* HDefine *)
    destruct (handle_addr g i) as [a|] eqn:E; [|discriminate]. injection Hs as <-.
    assert (Hinc : inv (incr a (gheap g)) (handle_addrs (handles g) ++ global_addrs ((gcur g, name, a) :: globals g))).
    { cbn [global_addrs map snd]. eapply inv_perm; [apply Permutation_middle|]. apply inv_incr; [exact Hinv|]. eapply live_used; [exact Hinv|eapply handle_addr_live; exact E]. }
    unfold ginv. cbn [gheap].
    destruct (find (same_key (gcur g) name) (globals g)) as [[[m0 n0] old]|] eqn:Ef.
    + split; [|apply bump_symok, bump_symok; exact Hsym].
      destruct (find_some_in _ _ _ Ef) as [Hin Hk].
      pose proof (decr_entry (incr a (gheap g)) (handle_addrs (handles g)) ((gcur g, name, a) :: globals g) (m0, n0, old)
                    (fun e => same_key (gcur g) name e && negb (N.eqb (snd e) a && false)) Hinc (or_intror Hin)) as Hd.
      cbn [snd] in Hd. unfold live. cbn [handles globals].
      (* the new entry itself must stay: use the plain key filter on the old table instead *)
      clear Hd.
      pose proof (decr_entry (incr a (gheap g)) (a :: handle_addrs (handles g)) (globals g) (m0, n0, old) (same_key (gcur g) name)) as Hd.
      cbn [snd] in Hd. eapply inv_perm; [|apply Hd; [|exact Hin|exact Hk]].
      * cbn [global_addrs map snd]. apply Permutation_middle.
      * eapply inv_perm; [|exact Hinc]. cbn [global_addrs map snd]. apply Permutation_sym, Permutation_middle.
    + split; [|apply bump_symok; exact Hsym]. unfold live. cbn [handles globals].
      eapply inv_weaken; [|exact Hinc]. intros x. rewrite !cnt_app. apply Nat.add_le_mono_l.
      cbn [global_addrs map snd]. unfold cnt. cbn [count_occ]. pose proof (cnt_filter_le (fun e => negb (same_key (gcur g) name e)) (globals g) x) as Hl. unfold cnt, global_addrs in Hl.
      destruct (N.eq_dec a x); lia.
  - (* HUndefine *)
    injection Hs as <-. unfold ginv. cbn [gheap]. unfold live. cbn [handles globals].
    destruct (find (same_key (gcur g) name) (globals g)) as [[[m0 n0] old]|] eqn:Ef.
    + split; [|apply bump_symok; exact Hsym]. destruct (find_some_in _ _ _ Ef) as [Hin Hk].
      apply (decr_entry (gheap g) (handle_addrs (handles g)) (globals g) (m0, n0, old) (same_key (gcur g) name)); assumption.
    + split; [|exact Hsym]. eapply inv_weaken; [|exact Hinv]. intros x. unfold live. rewrite !cnt_app. apply Nat.add_le_mono_l. apply cnt_filter_le.
  - (* HDefmodule *)
    injection Hs as <-. unfold ginv. cbn [gheap]. unfold live. cbn [handles globals].
    assert (Hgen : forall gl h0, inv h0 (handle_addrs (handles g) ++ global_addrs gl) -> symok h0 ->
              inv (fold_left (fun h' e => decr (snd e) h') (filter (in_module name) gl) h0) (handle_addrs (handles g) ++ global_addrs (filter (fun e => negb (in_module name e)) gl)) /\
              symok (fold_left (fun h' e => decr (snd e) h') (filter (in_module name) gl) h0)).
    { induction gl as [|e gl IHg]; intros h0 Hi Hs0; [split; assumption|]. cbn [filter]. destruct (in_module name e) eqn:Em; cbn [negb fold_left].
      - apply IHg; [|apply bump_symok; exact Hs0]. apply inv_decr. eapply inv_perm; [|exact Hi]. cbn [global_addrs map]. apply Permutation_sym, Permutation_middle.
      - assert (Hi' : inv h0 (snd e :: handle_addrs (handles g) ++ global_addrs gl)) by (eapply inv_perm; [|exact Hi]; cbn [global_addrs map]; apply Permutation_sym, Permutation_middle).
        (* keep the entry: carry its address along in the handle part *)
        clear IHg.
        assert (Hgen2 : forall gl h1 Hd, inv h1 (Hd ++ global_addrs gl) -> symok h1 ->
                  inv (fold_left (fun h' e => decr (snd e) h') (filter (in_module name) gl) h1) (Hd ++ global_addrs (filter (fun e => negb (in_module name e)) gl)) /\
                  symok (fold_left (fun h' e => decr (snd e) h') (filter (in_module name) gl) h1)).
        { clear. induction gl as [|e gl IHg]; intros h1 Hd Hi Hs1; [split; assumption|]. cbn [filter]. destruct (in_module name e) eqn:Em; cbn [negb fold_left].
          - apply IHg; [|apply bump_symok; exact Hs1]. apply inv_decr. eapply inv_perm; [|exact Hi]. cbn [global_addrs map]. apply Permutation_sym, Permutation_middle.
          - destruct (IHg h1 (Hd ++ [snd e])) as [I1 I2]; [|exact Hs1|].
            + eapply inv_perm; [|exact Hi]. cbn [global_addrs map]. rewrite <- app_assoc. reflexivity.
            + split; [|exact I2]. eapply inv_perm; [|exact I1]. cbn [global_addrs map]. rewrite <- app_assoc. reflexivity. }
        destruct (Hgen2 gl h0 (handle_addrs (handles g) ++ [snd e])) as [I1 I2]; [|exact Hs0|].
        + eapply inv_perm; [|exact Hi]. cbn [global_addrs map]. rewrite <- app_assoc. reflexivity.
        + split; [|exact I2]. eapply inv_perm; [|exact I1]. cbn [global_addrs map]. rewrite <- app_assoc. reflexivity. }
    apply Hgen; assumption.
  - (* HSetmodule *)
    destruct (mem_text_l name (gmods g)); [|discriminate]. injection Hs as <-. exact Hg.
  - (* HCollect *)
    destruct (collect p (gheap g)) as [h1|] eqn:Ec; [|discriminate]. injection Hs as <-.
    split; [eapply inv_collect; eassumption|]. destruct Hinv as [Hwf _ _ _ _]. eapply collect_symok; eassumption.
Qed.
