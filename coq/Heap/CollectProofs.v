(* collect: exactly the reachable cells stay in use, untouched; the heap invariants hold afterwards *)
From PL Require Import Heap.HeapModel Heap.MarkProofs Heap.SweepProofs.
From Coq Require Import Permutation.
Local Open Scope N_scope.

Definition boxes (l : list cell) : list addr := map box l.

(* well-formed vector: distinct non-null boxes, first_free within the vector *)
Definition wf (h : heap) : Prop :=
  NoDup (boxes (cells h)) /\ Forall (fun c => box c <> 0) (cells h) /\ (ff h <= List.length (cells h))%nat.
(* every pointer stored in a used cell designates a used cell (never the free suffix, never a released box) *)
Definition closed (h : heap) : Prop :=
  forall c a, In c (used h) -> In a (kids c) -> a <> 0 -> In a (boxes (used h)).
(* free cells carry no handles *)
Definition free_rc0 (h : heap) : Prop := Forall (fun c => rc c = 0%nat) (free h).

Definition HReach (h : heap) (a : addr) : Prop := Reach (cells h) (roots h) a.

Lemma used_free h : cells h = used h ++ free h.
Proof. unfold used, free. symmetry. apply firstn_skipn. Qed.

Lemma find_cell_nodup l c : NoDup (boxes l) -> In c l -> find_cell (box c) l = Some c.
Proof.
  induction l as [|x l IH]; intros Hn Hin; [destruct Hin|].
  cbn. inversion Hn as [|? ? Hnot Hn']; subst. destruct Hin as [->|Hin].
  - rewrite N.eqb_refl. reflexivity.
  - destruct (N.eqb_spec (box x) (box c)) as [E|E].
    + exfalso. apply Hnot. rewrite E. apply in_map. exact Hin.
    + apply IH; assumption.
Qed.

Lemma In_used_cells h c : In c (used h) -> In c (cells h).
Proof. intros H. rewrite used_free. apply in_or_app. left. exact H. Qed.

Lemma root_reach h c : In c (used h) -> rc c <> 0%nat -> Forall (fun c => box c <> 0) (cells h) -> HReach h (box c).
Proof.
  intros Hin Hrc Hnz. apply reach_root.
  - unfold roots. apply in_map. apply filter_In. split; [exact Hin|]. destruct (Nat.eqb_spec (rc c) 0); [contradiction|reflexivity].
  - rewrite Forall_forall in Hnz. apply Hnz. apply In_used_cells. exact Hin.
Qed.

Lemma firstn_In_sub {A} (l : list A) n x : In x (firstn n l) -> In x l.
Proof. revert n. induction l as [|a l IH]; intros [|n] H; cbn in *; auto; try tauto. destruct H; auto. right. eapply IH. eassumption. Qed.

Lemma firstn_app_ge {A} (l1 l2 : list A) n : (List.length l1 <= n)%nat -> firstn n (l1 ++ l2) = l1 ++ firstn (n - List.length l1) l2.
Proof. intros H. rewrite firstn_app. rewrite firstn_all2 by exact H. reflexivity. Qed.

Section Collect.
Variables (p : policy) (h h' : heap).
Hypothesis Hwf : wf h.
Hypothesis Hcl : closed h.
Hypothesis Hfr : free_rc0 h.
Hypothesis Hc : collect p h = Some h'.

(* the pieces of the computation *)
Lemma collect_pieces : exists marked k f,
  (forall a, In a marked <-> HReach h a) /\
  Permutation (k ++ f) (used h) /\
  Forall (fun c => mem_addr (box c) marked = true) k /\
  Forall (fun c => mem_addr (box c) marked = false) f /\
  used h' = k /\ ff h' = List.length k /\ symtab h' = drop_freed_symbols f (symtab h) /\ next h' = next h /\
  exists n, cells h' = k ++ firstn n (f ++ free h).
Proof.
  unfold collect in Hc.
  destruct (mark (mark_fuel h) (cells h) (rev (roots h)) []) as [marked|] eqn:Em; [|discriminate].
  destruct (sweep (ff h) marked [] (used h) []) as [kept freed] eqn:Es.
  destruct (sweep_spec marked (ff h) [] (used h) [] kept freed) as (k & f & Hk & Hf & Hp & Fk & Ff).
  { unfold used. rewrite firstn_length. lia. }
  { exact Es. }
  cbn in Hk. rewrite app_nil_r in Hf. subst kept freed.
  exists marked, k, f. split.
  { intros a. rewrite (mark_exact (cells h) (mark_fuel h) (rev (roots h)) marked Em a).
    unfold HReach. split; intros H.
    - induction H as [a Hin Hn|a c b Hra IH Hfc Hk Hn]; [apply reach_root; [apply in_rev; exact Hin|exact Hn]|eapply reach_edge; eassumption].
    - induction H as [a Hin Hn|a c b Hra IH Hfc Hk Hn]; [apply reach_root; [apply in_rev; rewrite rev_involutive; exact Hin|exact Hn]|eapply reach_edge; eassumption]. }
  assert (Hform : ff h' = List.length k /\ symtab h' = drop_freed_symbols f (symtab h) /\ next h' = next h /\
                  exists n, cells h' = k ++ firstn n (f ++ free h)).
  { destruct (Nat.ltb (maxfree p (List.length k)) (List.length (k ++ f ++ free h) - List.length k)); injection Hc as <-; cbn [cells ff symtab next].
    - repeat split; auto. eexists. rewrite firstn_app_ge by lia. reflexivity.
    - repeat split; auto. exists (List.length (f ++ free h)). rewrite firstn_all. reflexivity. }
  destruct Hform as (Hff & Hsy & Hnx & n & Hcells).
  repeat split; auto.
  - unfold used. rewrite Hff, Hcells. rewrite firstn_app_ge by lia. rewrite Nat.sub_diag. cbn. rewrite app_nil_r. reflexivity.
  - exists n. exact Hcells.
Qed.

(* C03 / C01: exactly the reachable cells are in use after the collection, as the very same records *)
Theorem collect_used_exact c : In c (used h') <-> In c (used h) /\ HReach h (box c).
Proof.
  destruct collect_pieces as (marked & k & f & Hm & Hp & Fk & Ff & Hu & _).
  rewrite Hu. split.
  - intros Hin. split.
    + apply (Permutation_in _ Hp). apply in_or_app. left. exact Hin.
    + apply Hm. apply mem_addr_In. rewrite Forall_forall in Fk. apply Fk. exact Hin.
  - intros [Hin Hr]. apply (Permutation_in _ (Permutation_sym Hp)) in Hin. apply in_app_or in Hin as [Hin|Hin]; [exact Hin|].
    exfalso. rewrite Forall_forall in Ff. specialize (Ff c Hin). apply Hm, mem_addr_In in Hr. congruence.
Qed.

Lemma cells_sub c : In c (cells h') -> In c (cells h).
Proof.
  destruct collect_pieces as (marked & k & f & Hm & Hp & Fk & Ff & Hu & Hff & Hs & Hn & n & Hcells).
  rewrite Hcells, used_free. intros Hin. apply in_app_or in Hin as [Hin|Hin].
  - apply in_or_app. left. apply (Permutation_in _ Hp). apply in_or_app. left. exact Hin.
  - apply firstn_In_sub in Hin. apply in_app_or in Hin as [Hin|Hin].
    + apply in_or_app. left. apply (Permutation_in _ Hp). apply in_or_app. right. exact Hin.
    + apply in_or_app. right. exact Hin.
Qed.
End Collect.

Lemma NoDup_boxes_perm l l' : Permutation l l' -> NoDup (boxes l) -> NoDup (boxes l').
Proof. intros Hp Hn. eapply Permutation_NoDup; [apply Permutation_map; exact Hp|exact Hn]. Qed.

Lemma NoDup_firstn {A} (l : list A) n : NoDup l -> NoDup (firstn n l).
Proof.
  revert n. induction l as [|a l IH]; intros [|n] H; cbn; try constructor.
  - inversion H as [|? ? Hnot Hn]; subst. intros Hin. apply Hnot. eapply firstn_In_sub. exact Hin.
  - inversion H; subst. apply IH. assumption.
Qed.

Lemma NoDup_app_l {A} (l1 l2 : list A) : NoDup (l1 ++ l2) -> NoDup l1 /\ NoDup l2.
Proof.
  induction l1 as [|a l1 IH]; cbn; intros H; [split; [constructor|exact H]|].
  inversion H as [|? ? Hnot Hn]; subst. destruct (IH Hn) as [H1 H2]. split; [|exact H2].
  constructor; [|exact H1]. intros Hin. apply Hnot. apply in_or_app. left. exact Hin.
Qed.

Section CollectInv.
Variables (p : policy) (h h' : heap).
Hypothesis Hwf : wf h.
Hypothesis Hcl : closed h.
Hypothesis Hfr : free_rc0 h.
Hypothesis Hc : collect p h = Some h'.

Theorem collect_wf : wf h'.
Proof.
  destruct (collect_pieces p h h' Hc) as (marked & k & f & Hm & Hp & Fk & Ff & Hu & Hff & Hs & Hn & n & Hcells).
  destruct Hwf as (Hnd & Hnz & Hle).
  assert (Hperm : Permutation (k ++ f ++ free h) (cells h)).
  { rewrite used_free, app_assoc. apply Permutation_app_tail. exact Hp. }
  repeat split.
  - rewrite Hcells. unfold boxes.
    assert (Hnd' : NoDup (boxes (k ++ f ++ free h))) by (eapply NoDup_boxes_perm; [apply Permutation_sym; exact Hperm|exact Hnd]).
    unfold boxes in Hnd'. rewrite map_app in *. 
    assert (Hfn : forall x, In x (map box (firstn n (f ++ free h))) -> In x (map box (f ++ free h))).
    { intros x Hx. apply in_map_iff in Hx as (c & <- & Hc'). apply in_map. eapply firstn_In_sub. exact Hc'. }
    clear -Hnd' Hfn. revert Hnd'. generalize (map box k) as l1. induction l1 as [|a l1 IH]; cbn; intros Hnd'.
    + rewrite <- firstn_map. apply NoDup_firstn. exact Hnd'.
    + inversion Hnd' as [|? ? Hnot Hn']; subst. constructor; [|apply IH; exact Hn'].
      intros Hin. apply Hnot. apply in_app_or in Hin as [Hin|Hin]; apply in_or_app; [left; exact Hin|right; apply Hfn; exact Hin].
  - rewrite Forall_forall in *. intros c Hin. apply Hnz. eapply cells_sub; eassumption.
  - rewrite Hff, Hcells, app_length. lia.
Qed.

Theorem collect_closed : closed h'.
Proof.
  destruct (collect_pieces p h h' Hc) as (marked & k & f & Hm & Hp & Fk & Ff & Hu & _).
  destruct Hwf as (Hnd & Hnz & Hle).
  intros c a Hin Hk Ha.
  pose proof (proj1 (collect_used_exact p h h' Hc c) Hin) as [Hinu Hr].
  assert (Hra : HReach h a).
  { eapply reach_edge; [exact Hr| |exact Hk|exact Ha]. apply find_cell_nodup; [exact Hnd|apply In_used_cells; exact Hinu]. }
  destruct (proj1 (in_map_iff box (used h) a) (Hcl c a Hinu Hk Ha)) as (c' & Hb & Hin').
  apply in_map_iff. exists c'. split; [exact Hb|].
  apply (collect_used_exact p h h' Hc c'). split; [exact Hin'|rewrite Hb; exact Hra].
Qed.

Theorem collect_free_rc0 : free_rc0 h'.
Proof.
  destruct (collect_pieces p h h' Hc) as (marked & k & f & Hm & Hp & Fk & Ff & Hu & Hff & Hs & Hn & n & Hcells).
  destruct Hwf as (Hnd & Hnz & Hle).
  unfold free_rc0, free. rewrite Hff, Hcells.
  rewrite skipn_app, skipn_all, Nat.sub_diag. cbn [app skipn].
  apply Forall_forall. intros c Hin. apply firstn_In_sub in Hin. apply in_app_or in Hin as [Hin|Hin].
  - (* a freed cell: unmarked, hence not a root *)
    destruct (Nat.eq_dec (rc c) 0) as [E|E]; [exact E|exfalso].
    assert (Hinu : In c (used h)) by (apply (Permutation_in _ Hp); apply in_or_app; right; exact Hin).
    pose proof (root_reach h c Hinu E Hnz) as Hr. apply Hm, mem_addr_In in Hr.
    rewrite Forall_forall in Ff. rewrite (Ff c Hin) in Hr. discriminate.
  - unfold free_rc0 in Hfr. rewrite Forall_forall in Hfr. apply Hfr. exact Hin.
Qed.

(* the roots, and hence what is reachable, are the same before and after *)
Lemma collect_roots a : In a (roots h') <-> In a (roots h).
Proof.
  destruct Hwf as (Hnd & Hnz & Hle). unfold roots. rewrite !in_map_iff. split; intros (c & Hb & Hin); apply filter_In in Hin as [Hin Hrc]; exists c; (split; [exact Hb|]); apply filter_In; (split; [|exact Hrc]).
  - apply (collect_used_exact p h h' Hc c). exact Hin.
  - apply (collect_used_exact p h h' Hc c). split; [exact Hin|]. apply root_reach; auto. destruct (Nat.eqb_spec (rc c) 0); [discriminate|assumption].
Qed.

Lemma find_cell_after a c : HReach h a -> find_cell a (cells h) = Some c -> find_cell a (cells h') = Some c.
Proof.
  intros Hr Hf. destruct Hwf as (Hnd & Hnz & Hle). destruct collect_wf as (Hnd' & _ & _).
  destruct (find_cell_In _ _ _ Hf) as [Hin Hb]. subst a.
  apply find_cell_nodup; [exact Hnd'|].
  (* c is a used cell of h: a reachable address is the box of a used cell *)
  assert (Hu : In c (used h)).
  { assert (Hbu : In (box c) (boxes (used h))).
    { clear Hf. remember (box c) as a eqn:Ea. clear Ea. induction Hr as [a Hin' Hn|a c0 b Hra IH Hfc Hk Hn].
      - unfold roots in Hin'. apply in_map_iff in Hin' as (c1 & <- & Hf1). apply filter_In in Hf1 as [Hf1 _]. apply in_map. exact Hf1.
      - destruct (find_cell_In _ _ _ Hfc) as [Hin0 Hb0]. subst a.
        apply in_map_iff in IH as (c1 & Hb1 & Hin1).
        assert (c1 = c0).
        { pose proof (find_cell_nodup (cells h) c1 Hnd (In_used_cells h c1 Hin1)) as H1. rewrite Hb1, Hfc in H1. congruence. }
        subst c1. eapply Hcl; eassumption. }
    apply in_map_iff in Hbu as (c1 & Hb1 & Hin1).
    pose proof (find_cell_nodup (cells h) c1 Hnd (In_used_cells h c1 Hin1)) as H1. rewrite Hb1, Hf in H1. congruence. }
  apply In_used_cells. apply (collect_used_exact p h h' Hc c). split; [exact Hu|exact Hr].
Qed.

Theorem collect_reach a : HReach h' a <-> HReach h a.
Proof.
  split; intros H.
  - induction H as [a Hin Hn|a c b Hra IH Hfc Hk Hn].
    + apply reach_root; [apply collect_roots; exact Hin|exact Hn].
    + eapply reach_edge; [exact IH| |exact Hk|exact Hn].
      destruct (find_cell_In _ _ _ Hfc) as [Hin Hb]. destruct Hwf as (Hnd & _ & _).
      rewrite <- Hb. apply find_cell_nodup; [exact Hnd|]. eapply cells_sub; eassumption.
  - induction H as [a Hin Hn|a c b Hra IH Hfc Hk Hn].
    + apply reach_root; [apply collect_roots; exact Hin|exact Hn].
    + eapply reach_edge; [exact IH|apply find_cell_after; eassumption|exact Hk|exact Hn].
Qed.

(* C01 for a collection: every reachable address designates, before and after, the very
   same cell record (kind, payload, pointers, handle count), and that cell is in use *)
Theorem collect_preserves_reachable a c : HReach h a -> find_cell a (cells h) = Some c ->
  find_cell a (cells h') = Some c /\ In c (used h').
Proof.
  intros Hr Hf. split; [apply find_cell_after; assumption|].
  pose proof (find_cell_after a c Hr Hf) as Hf'. destruct (find_cell_In _ _ _ Hf') as [Hin Hb].
  destruct (find_cell_In _ _ _ Hf) as [Hin0 _].
  (* as in find_cell_after: c is used in h and reachable *)
  destruct Hwf as (Hnd & Hnz & Hle). destruct collect_wf as (Hnd' & _ & Hle').
  rewrite used_free in Hin. apply in_app_or in Hin as [Hin|Hin]; [exact Hin|exfalso].
  (* a free cell of h' has count 0 and is ... but a reachable cell is kept in the used prefix *)
  assert (Hu' : exists c1, In c1 (used h') /\ box c1 = a).
  { clear Hf Hf' Hin Hin0. rewrite <- Hb in Hr |- *. clear Hb.
    assert (Hr' : HReach h' (box c)) by (apply collect_reach; exact Hr).
    remember (box c) as x eqn:Ex. clear Ex c.
    induction Hr' as [x Hin' Hn|x c0 b Hra IH Hfc Hk Hn].
    - unfold roots in Hin'. apply in_map_iff in Hin' as (c1 & Hb1 & Hf1). apply filter_In in Hf1 as [Hf1 _]. exists c1. auto.
    - destruct (IH (proj1 (collect_reach _) Hra)) as (c1 & Hin1 & Hb1).
      assert (c1 = c0).
      { pose proof (find_cell_nodup (cells h') c1 Hnd' (In_used_cells h' c1 Hin1)) as H1. rewrite Hb1, Hfc in H1. congruence. }
      subst c1. pose proof (collect_closed c0 b Hin1 Hk Hn) as Hbx. apply in_map_iff in Hbx as (c2 & Hb2 & Hin2). exists c2. auto. }
  destruct Hu' as (c1 & Hin1 & Hb1).
  pose proof (find_cell_nodup (cells h') c1 Hnd' (In_used_cells h' c1 Hin1)) as H1. rewrite Hb1, Hf' in H1. injection H1 as <-.
  (* c is both in the used prefix and in the free suffix of a duplicate-free vector *)
  rewrite used_free in Hnd'. unfold boxes in Hnd'. rewrite map_app in Hnd'.
  clear -Hnd' Hin Hin1. induction (used h') as [|y l IH]; [destruct Hin1|].
  cbn in Hnd'. inversion Hnd' as [|? ? Hnot Hn]; subst. destruct Hin1 as [->|Hin1].
  - apply Hnot. apply in_or_app. right. apply in_map. exact Hin.
  - apply IH; assumption.
Qed.
End CollectInv.
