(* Facts about the Rust source, decided by computation over Generated/Static_gen.v *)
From PL Require Import Generated.Static_gen.
From Coq Require Import String List Bool.
Import ListNotations.
Local Open Scope string_scope.

Definition pair_eqb (a b : string * string) : bool := String.eqb (fst a) (fst b) && String.eqb (snd a) (snd b).
Definition mem_pair (x : string * string) (l : list (string * string)) : bool := existsb (pair_eqb x) l.

(* the pointer fields that are edges of the object graph: everything except a symbol's
   self-reference and the handle's own pointer (a root, not an edge) *)
Definition edge_fields : list (string * string) :=
  filter (fun f => negb (pair_eqb f ("Symbol", "own_address")) && negb (pair_eqb f ("GcRef", "pointer"))) pointer_fields.

(* the model's edges, by kind (HeapModel.kids): these are the fields the model follows *)
Definition model_edges : list (string * string) :=
  [("ConsCell", "car"); ("ConsCell", "cdr"); ("Trap", "normal_body"); ("Trap", "trap_body");
   ("NormalFunction", "body"); ("NormalFunction", "environment"); ("NormalFunction", "parameters"); ("Meta", "value")].

Definition index_of (x : string) (l : list string) : nat :=
  (fix go (l : list string) (i : nat) : nat := match l with [] => i | y :: r => if String.eqb x y then i else go r (S i) end) l 0.

(* every raw-pointer field declared in a heap struct is pushed by the mark phase, and the
   mark phase pushes nothing the model does not know as an edge *)
Lemma marked_fields_cover_pointer_fields :
  forallb (fun f => mem_pair f mark_pushes) edge_fields = true /\
  forallb (fun f => mem_pair f model_edges || pair_eqb f ("root", "cell")) mark_pushes = true /\
  forallb (fun f => mem_pair f edge_fields) model_edges = true.
Proof. vm_compute. repeat split. Qed.

(* handles held by the module tables are dropped before the cell vector (declaration order) *)
Lemma teardown_order :
  Nat.ltb (index_of "modules" memory_fields) (index_of "cells" memory_fields) = true /\
  Nat.ltb (index_of "current_module" memory_fields) (index_of "cells" memory_fields) = true.
Proof. vm_compute. split; reflexivity. Qed.

(* raw pointers, unsafe, forget/leak occur only in src/memory *)
Lemma unsafe_confined : raw_pointer_use_outside_memory = [].
Proof. reflexivity. Qed.

(* the only places that iterate over a hash map (or over a list produced by such an iteration) *)
Lemma hash_iterations_known :
  forallb (fun f => mem_pair f [("src/memory/mod.rs", "get_global"); ("src/memory/mod.rs", "get_module_of_global");
                                ("src/native/debug/mod.rs", "receive"); ("src/native/eval/mod.rs", "eval_internal");
                                ("src/native/eval/mod.rs", "macroexpand_internal")]) hash_iteration_sites = true.
Proof. vm_compute. reflexivity. Qed.
