(* The mark phase terminates: in a heap whose used cells point only at used cells, the fuel the model
   gives it (cells + all pointer fields + cells) always suffices, and no pointer is dangling - so a
   collection always completes, in every state that satisfies the invariant. *)
From PL Require Import Heap.HeapModel Heap.MarkProofs Heap.CollectProofs.
From Coq Require Import Lia.
Local Open Scope N_scope.

Section Term.
Variable all : list cell.
Variable P : addr -> Prop.
Hypothesis Hfind : forall a, P a -> exists c, find_cell a all = Some c /\ forall k, In k (kids c) -> k = 0 \/ P k.

(* pointer fields of the cells not visited yet *)
Fixpoint mu (l : list cell) (visited : list addr) : nat :=
  match l with
  | [] => O
  | c :: r => ((if mem_addr (box c) visited then 0 else List.length (kids c)) + mu r visited)%nat
  end.

Lemma mu_visit_le l a visited : (mu l (a :: visited) <= mu l visited)%nat.
Proof.
  induction l as [|c r IH]; cbn [mu]; [lia|].
  cbn [mem_addr]. destruct (a =? box c); cbn [orb]; destruct (mem_addr (box c) visited); lia.
Qed.

Lemma mu_visit l a visited c : find_cell a l = Some c -> mem_addr a visited = false ->
  (mu l (a :: visited) + List.length (kids c) <= mu l visited)%nat.
Proof.
  induction l as [|x r IH]; cbn [find_cell mu]; [discriminate|].
  destruct (N.eqb_spec (box x) a) as [E|E]; intros H Hv.
  - injection H as <-. cbn [mem_addr]. rewrite E, N.eqb_refl. cbn [orb]. rewrite Hv. pose proof (mu_visit_le r a visited). lia.
  - pose proof (IH H Hv). cbn [mem_addr]. destruct (N.eqb_spec a (box x)); [congruence|]. cbn [orb]. destruct (mem_addr (box x) visited); lia.
Qed.

Lemma mark_enough : forall fuel stack visited, (forall a, In a stack -> a = 0 \/ P a) ->
  (List.length stack + mu all visited < fuel)%nat -> mark fuel all stack visited <> None.
Proof.
  induction fuel as [|f IH]; intros stack visited Hs Hm; [lia|].
  cbn [mark]. destruct stack as [|a st]; [discriminate|].
  destruct ((a =? 0) || mem_addr a visited) eqn:Eskip.
  - apply IH; [intros b Hb; apply Hs; right; exact Hb|]. simpl Datatypes.length in Hm. lia.
  - apply orb_false_iff in Eskip as [Ea Ev]. apply N.eqb_neq in Ea.
    destruct (Hs a (or_introl eq_refl)) as [H0|Hp]; [congruence|].
    destruct (Hfind a Hp) as (c & Hc & Hk). rewrite Hc.
    apply IH.
    + intros b Hb. apply in_app_or in Hb as [Hb|Hb]; [apply Hk; apply in_rev; exact Hb|apply Hs; right; exact Hb].
    + rewrite app_length, rev_length. pose proof (mu_visit all a visited c Hc Ev). simpl Datatypes.length in Hm. unfold addr in *. lia.
Qed.

Lemma mu_nil_le l : (mu l [] <= fold_right (fun c n => (List.length (kids c) + n)%nat) 0%nat l)%nat.
Proof. induction l as [|c r IH]; cbn; lia. Qed.
End Term.

Lemma find_cell_app a l1 l2 : find_cell a (l1 ++ l2) = match find_cell a l1 with Some c => Some c | None => find_cell a l2 end.
Proof. induction l1 as [|x r IH]; cbn; [reflexivity|]. destruct (box x =? a); [reflexivity|exact IH]. Qed.

Lemma find_cell_boxes a l : In a (boxes l) -> exists c, find_cell a l = Some c /\ In c l.
Proof.
  induction l as [|x r IH]; cbn; [contradiction|]. intros [E|Hin].
  - exists x. rewrite E, N.eqb_refl. auto.
  - destruct (N.eqb_spec (box x) a); [exists x; auto|]. destruct (IH Hin) as (c & Hc & Hi). exists c. auto.
Qed.

Lemma filter_len {A} (f : A -> bool) l : (List.length (filter f l) <= List.length l)%nat.
Proof. induction l as [|x r IH]; cbn; [lia|]. destruct (f x); cbn; lia. Qed.

(* in a heap whose used cells point only at used cells the mark phase completes *)
Theorem mark_completes h : closed h -> mark (mark_fuel h) (cells h) (rev (roots h)) [] <> None.
Proof.
  intros Hcl.
  apply (mark_enough (cells h) (fun a => In a (boxes (used h)))).
  - intros a Ha. destruct (find_cell_boxes a (used h) Ha) as (c & Hc & Hin).
    exists c. split.
    + rewrite (used_free h), find_cell_app, Hc. reflexivity.
    + intros k Hk. destruct (N.eq_dec k 0) as [->|Hn]; [left; reflexivity|right]. exact (Hcl c k Hin Hk Hn).
  - intros a Ha. right. apply in_rev in Ha. unfold roots in Ha. apply in_map_iff in Ha as (c & <- & Hc).
    apply filter_In in Hc as [Hc _]. unfold boxes. apply in_map. exact Hc.
  - rewrite rev_length. unfold roots. rewrite map_length.
    pose proof (mu_nil_le (cells h)) as Hmu.
    assert (Hr : (List.length (filter (fun c => negb (Nat.eqb (rc c) 0)) (used h)) <= List.length (cells h))%nat).
    { etransitivity; [apply filter_len|]. unfold used. rewrite firstn_length. lia. }
    unfold mark_fuel. lia.
Qed.

(* hence a collection always completes *)
Corollary collect_completes p h : closed h -> exists h', collect p h = Some h'.
Proof.
  intros Hcl. unfold collect. destruct (mark (mark_fuel h) (cells h) (rev (roots h)) []) as [marked|] eqn:E.
  - destruct (sweep (ff h) marked [] (used h) []) as [kept freed]. destruct (Nat.ltb _ _); eexists; reflexivity.
  - exfalso. exact (mark_completes h Hcl E).
Qed.
