(* The symbol table invariant (C04) and its preservation by collection and allocation *)
From PL Require Import Heap.HeapModel Heap.MarkProofs Heap.SweepProofs Heap.CollectProofs Heap.HeapInv Heap.AllocProofs.
From Coq Require Import Permutation.
Local Open Scope N_scope.

(* every entry designates the used symbol cell of that name; every used named-symbol cell is
   the entry of its name (hence at most one used cell per name) *)
Definition symok (h : heap) : Prop :=
  (forall n a, assoc_t n (symtab h) = Some a -> exists c, In c (used h) /\ box c = a /\ ckind c = KSym /\ payload c = n) /\
  (forall c, In c (used h) -> ckind c = KSym -> assoc_t (payload c) (symtab h) = Some (box c)).

Lemma assoc_remove_sym_same n t : assoc_t n (remove_sym n t) = None.
Proof.
  induction t as [|[k v] t IH]; cbn; [reflexivity|]. destruct (text_eqb_spec k n) as [->|E]; [exact IH|].
  cbn. destruct (text_eqb_spec n k); [congruence|exact IH].
Qed.

Lemma assoc_remove_sym_other n m t : n <> m -> assoc_t n (remove_sym m t) = assoc_t n t.
Proof.
  intros Hn. induction t as [|[k v] t IH]; cbn; [reflexivity|]. destruct (text_eqb_spec k m) as [->|E].
  - destruct (text_eqb_spec n m); [congruence|exact IH].
  - cbn. destruct (text_eqb_spec n k); [reflexivity|exact IH].
Qed.

(* what the sweep's removals leave in the table *)
Lemma drop_freed_spec f : forall t n,
  assoc_t n (drop_freed_symbols f t) =
  if existsb (fun c => match ckind c with KSym => text_eqb (payload c) n | _ => false end) f then None else assoc_t n t.
Proof.
  unfold drop_freed_symbols. induction f as [|c f IH]; intros t n; [reflexivity|]. cbn [fold_left existsb]. rewrite IH.
  destruct (ckind c) eqn:Ek; cbn [orb]; try reflexivity.
  destruct (text_eqb_spec (payload c) n) as [->|E]; cbn [orb].
  - destruct (existsb _ f); [reflexivity|apply assoc_remove_sym_same].
  - destruct (existsb _ f); [reflexivity|]. apply assoc_remove_sym_other. congruence.
Qed.

Lemma bump_symok d a h : symok h -> symok (bump d a h).
Proof.
  destruct (N.eq_dec a 0) as [->|Ha]; [auto|]. intros [S1 S2]. destruct (bump_cells d a h Ha) as (_ & _ & _ & Hs).
  split.
  - intros n b Hn. rewrite Hs in Hn. destruct (S1 n b Hn) as (c & Hc & Hb & Hk & Hp).
    exists (bumpc d a c). rewrite used_bump by exact Ha. split; [apply in_map; exact Hc|]. rewrite bumpc_box. destruct (bumpc_kind d a c) as [-> ->]. auto.
  - intros c Hc Hk. rewrite used_bump in Hc by exact Ha. apply in_map_iff in Hc as (c0 & <- & Hc0).
    destruct (bumpc_kind d a c0) as [Hk0 Hp0]. rewrite Hk0 in Hk. rewrite Hp0, bumpc_box, Hs. apply S2; assumption.
Qed.

Lemma collect_symok p h h' : wf h -> symok h -> collect p h = Some h' -> symok h'.
Proof.
  intros (Hnd & Hnz & Hle) [S1 S2] Hc.
  destruct (collect_pieces p h h' Hc) as (marked & k & f & Hm & Hp & Fk & Ff & Hu & Hff & Hs & Hn & n0 & Hcells).
  assert (Hdisj : forall c, In c k -> In c f -> False).
  { intros c Hck Hcf. rewrite Forall_forall in Fk, Ff. pose proof (Fk c Hck) as E1. pose proof (Ff c Hcf) as E2. congruence. }
  assert (Hkf : forall c, In c (used h) -> In c k \/ In c f).
  { intros c Hc0. apply (Permutation_in _ (Permutation_sym Hp)) in Hc0. apply in_app_or. exact Hc0. }
  split.
  - intros n a Hna. rewrite Hs, drop_freed_spec in Hna.
    destruct (existsb _ f) eqn:Ex; [discriminate|].
    destruct (S1 n a Hna) as (c & Hc0 & Hb & Hk & Hpl). exists c. rewrite Hu. repeat split; auto.
    destruct (Hkf c Hc0) as [H|H]; [exact H|exfalso].
    assert (existsb (fun c => match ckind c with KSym => text_eqb (payload c) n | _ => false end) f = true).
    { apply existsb_exists. exists c. split; [exact H|]. rewrite Hk, Hpl. apply text_eqb_refl. }
    congruence.
  - intros c Hc0 Hk. rewrite Hu in Hc0.
    assert (Hcu : In c (used h)) by (apply (Permutation_in _ Hp); apply in_or_app; left; exact Hc0).
    rewrite Hs, drop_freed_spec.
    destruct (existsb _ f) eqn:Ex; [exfalso|apply S2; assumption].
    apply existsb_exists in Ex as (c' & Hc' & Hm').
    destruct (ckind c') eqn:Ek'; try discriminate. apply text_eqb_eq in Hm'.
    assert (Hcu' : In c' (used h)) by (apply (Permutation_in _ Hp); apply in_or_app; right; exact Hc').
    pose proof (S2 c' Hcu' Ek') as H1. pose proof (S2 c Hcu Hk) as H2. rewrite Hm' in H1. rewrite H1 in H2. injection H2 as Hbb.
    assert (c' = c).
    { pose proof (find_cell_nodup _ c Hnd (In_used_cells h c Hcu)) as F1.
      pose proof (find_cell_nodup _ c' Hnd (In_used_cells h c' Hcu')) as F2. rewrite Hbb in F2. congruence. }
    subst c'. eapply Hdisj; eassumption.
Qed.

(* allocation of anything but a named symbol leaves the table valid *)
Lemma alloc_symok p h h' L k pl ks a : inv h L -> symok h -> (forall x, In x ks -> x = 0 \/ In x L) ->
  allocate p h k pl ks = Some (h', a) -> k <> KSym -> symok h'.
Proof.
  intros Hinv Hs Hks Ha Hk.
  destruct (alloc_spec p h h' L k pl ks a Hinv Hks Ha) as (h1 & Hinv1 & Hsub & Hu' & Hinv' & Hanz & Hsy & Hnot).
  assert (Hs1 : symok h1).
  { destruct Hsub as [[_ ->]|[_ Hc]]; [exact Hs|]. destruct Hinv as [Hwf _ _ _ _]. eapply collect_symok; eassumption. }
  destruct Hs1 as [S1 S2]. split.
  - intros n b Hn. rewrite Hsy in Hn. destruct (S1 n b Hn) as (c & Hc & Hb & Hkc & Hp). exists c. rewrite Hu'. split; [apply in_or_app; left; exact Hc|auto].
  - intros c Hc Hkc. rewrite Hu' in Hc. rewrite Hsy. apply in_app_or in Hc as [Hc|[<-|[]]]; [apply S2; assumption|]. cbn in Hkc. congruence.
Qed.

(* interning a name that is not in the table: the new cell is registered under its name *)
Lemma intern_symok p h h' L name a : inv h L -> symok h -> assoc_t name (symtab h) = None ->
  allocate p h KSym name [] = Some (h', a) ->
  symok (Heap (cells h') (ff h') ((name, a) :: symtab h') (next h')).
Proof.
  intros Hinv Hs Hnone Ha.
  destruct (alloc_spec p h h' L KSym name [] a Hinv ltac:(intros x []) Ha) as (h1 & Hinv1 & Hsub & Hu' & Hinv' & Hanz & Hsy & Hnot).
  assert (Hs1 : symok h1 /\ assoc_t name (symtab h1) = None).
  { destruct Hsub as [[_ ->]|[_ Hc]]; [auto|]. destruct Hinv as [Hwf _ _ _ _]. split; [eapply collect_symok; eassumption|].
    destruct (collect_pieces p h h1 Hc) as (marked & k & f & _ & _ & _ & _ & _ & _ & Hst & _).
    rewrite Hst, drop_freed_spec. destruct (existsb _ f); [reflexivity|exact Hnone]. }
  destruct Hs1 as [[S1 S2] Hn1].
  assert (Hused : used (Heap (cells h') (ff h') ((name, a) :: symtab h') (next h')) = used h1 ++ [newcell KSym name [] a]) by exact Hu'.
  split; cbn [symtab]; rewrite Hused.
  - intros n b Hn. cbn [assoc_t] in Hn. destruct (text_eqb_spec n name) as [->|E].
    + injection Hn as <-. exists (newcell KSym name [] a). split; [apply in_or_app; right; left; reflexivity|auto].
    + rewrite Hsy in Hn. destruct (S1 n b Hn) as (c & Hc & Hb & Hkc & Hp). exists c. split; [apply in_or_app; left; exact Hc|auto].
  - intros c Hc Hkc. cbn [assoc_t]. apply in_app_or in Hc as [Hc|[<-|[]]].
    + pose proof (S2 c Hc Hkc) as H2. destruct (text_eqb_spec (payload c) name) as [E|E]; [rewrite E, Hn1 in H2; discriminate|rewrite Hsy; exact H2].
    + cbn. rewrite text_eqb_refl. reflexivity.
Qed.

(* C04: in a valid heap, two used named-symbol cells have the same address iff the same name *)
Theorem symbols_same_name_same_cell h c1 c2 : wf h -> symok h ->
  In c1 (used h) -> In c2 (used h) -> ckind c1 = KSym -> ckind c2 = KSym ->
  (box c1 = box c2 <-> payload c1 = payload c2).
Proof.
  intros (Hnd & _ & _) [S1 S2] H1 H2 K1 K2. split; intros E.
  - assert (c1 = c2).
    { pose proof (find_cell_nodup _ c1 Hnd (In_used_cells h c1 H1)) as F1. pose proof (find_cell_nodup _ c2 Hnd (In_used_cells h c2 H2)) as F2. rewrite E in F1. congruence. }
    congruence.
  - pose proof (S2 c1 H1 K1) as A1. pose proof (S2 c2 H2 K2) as A2. rewrite E in A1. congruence.
Qed.

(* distinct used cells have distinct addresses: a generated symbol (identified by its address)
   is equal only to itself *)
Theorem distinct_cells_distinct_addresses h c1 c2 : wf h -> In c1 (used h) -> In c2 (used h) -> box c1 = box c2 -> c1 = c2.
Proof.
  intros (Hnd & _ & _) H1 H2 E.
  pose proof (find_cell_nodup _ c1 Hnd (In_used_cells h c1 H1)) as F1. pose proof (find_cell_nodup _ c2 Hnd (In_used_cells h c2 H2)) as F2. rewrite E in F1. congruence.
Qed.
