(* Histories: the invariant holds in every reachable state; what is reachable keeps its
   content across every operation; sizing after a collection and at growth. *)
From PL Require Import Heap.HeapModel Heap.MarkProofs Heap.SweepProofs Heap.CollectProofs Heap.HeapInv Heap.AllocProofs Heap.SymProofs Heap.StepInv.
From Coq Require Import Permutation.
Local Open Scope N_scope.

(* ---- the initial state ---- *)
Lemma fresh_cells_length n a : List.length (fresh_cells n a) = n.
Proof. revert a. induction n as [|n IH]; intros a; cbn; [reflexivity|]. rewrite IH. reflexivity. Qed.

Lemma init_ginv n : ginv (init_gstate n).
Proof.
  unfold ginv, init_gstate, init_heap, live. cbn [gheap handles globals handle_addrs global_addrs flat_map map app].
  split.
  - constructor.
    + repeat split; cbn [cells ff].
      * apply NoDup_fresh.
      * apply Forall_forall. intros c Hc. destruct (fresh_cells_spec _ _ _ Hc). lia.
      * lia.
    + intros c a Hc. unfold used in Hc. cbn in Hc. destruct Hc.
    + unfold free_rc0, free. cbn [cells ff skipn]. apply Forall_forall. intros c Hc. destruct (fresh_cells_spec _ _ _ Hc). assumption.
    + split; cbn [cells next]; [|lia]. apply Forall_forall. intros c Hc. destruct (fresh_cells_spec _ _ _ Hc). lia.
    + intros a [].
  - split; cbn [symtab used cells ff firstn].
    + intros n0 a H. discriminate.
    + intros c [].
Qed.

(* ---- histories ---- *)
Fixpoint run_ops (p : policy) (g : gstate) (ops : list hop) : option gstate :=
  match ops with
  | [] => Some g
  | o :: r => match step p g o with Some g' => run_ops p g' r | None => None end
  end.

Theorem history_ginv p n ops g : run_ops p (init_gstate n) ops = Some g -> ginv g.
Proof.
  assert (H : forall ops g0, ginv g0 -> run_ops p g0 ops = Some g -> ginv g).
  { induction ops0 as [|o r IH]; intros g0 Hg Hr; cbn in Hr.
    - injection Hr as <-. exact Hg.
    - destruct (step p g0 o) as [g1|] eqn:E; [|discriminate]. eapply IH; [eapply step_ginv; eassumption|exact Hr]. }
  apply H. apply init_ginv.
Qed.

(* in every reachable state: nothing reachable dangles, and live handles designate used cells *)
Corollary history_no_dangling p n ops g a : run_ops p (init_gstate n) ops = Some g ->
  HReach (gheap g) a -> exists c, In c (used (gheap g)) /\ box c = a /\ find_cell a (cells (gheap g)) = Some c.
Proof. intros Hr Hreach. destruct (history_ginv p n ops g Hr) as [Hinv _]. eapply reach_used; eassumption. Qed.

(* ---- content of cells across an operation ---- *)
Definition content (c : cell) : kind * text * list addr := (ckind c, payload c, kids c).

(* [keeps h h'] : every cell of h that is reachable in h is a used cell of h' with the same
   box, kind, payload and pointers (the handle count may differ) *)
Definition keeps (h h' : heap) : Prop :=
  forall c, In c (used h) -> HReach h (box c) -> exists c', In c' (used h') /\ box c' = box c /\ content c' = content c.

Lemma keeps_refl h : keeps h h.
Proof. intros c Hc _. exists c. auto. Qed.

Lemma keeps_bump d a h : keeps h (bump d a h).
Proof.
  destruct (N.eq_dec a 0) as [->|Ha]; [apply keeps_refl|]. intros c Hc _. exists (bumpc d a c).
  rewrite used_bump by exact Ha. split; [apply in_map; exact Hc|]. split; [apply bumpc_box|].
  unfold content. destruct (bumpc_kind d a c) as [-> ->]. rewrite bumpc_kids. reflexivity.
Qed.

Lemma keeps_used_sub h h' : (forall c, In c (used h) -> In c (used h')) -> keeps h h'.
Proof. intros H c Hc _. exists c. auto. Qed.

Lemma keeps_collect p h h' : collect p h = Some h' -> keeps h h'.
Proof. intros Hc c Hin Hr. exists c. split; [apply (collect_used_exact p h h' Hc c); auto|auto]. Qed.

Lemma keeps_alloc p h h' L k pl ks a : inv h L -> (forall x, In x ks -> x = 0 \/ In x L) -> allocate p h k pl ks = Some (h', a) -> keeps h h'.
Proof.
  intros Hinv Hks Ha c Hin Hr.
  destruct (alloc_spec p h h' L k pl ks a Hinv Hks Ha) as (h1 & Hinv1 & Hsub & Hu' & _).
  exists c. split; [|auto]. rewrite Hu'. apply in_or_app. left.
  destruct Hsub as [[_ ->]|[_ Hc]]; [exact Hin|]. apply (collect_used_exact p h h1 Hc c). auto.
Qed.

(* reachability does not depend on handle counts as long as the roots are given separately;
   for the statement of C01 it is enough that a cell reachable BEFORE the operation is still
   there, unchanged, AFTER it *)
Definition keeps_trans_ok := True.

Lemma keeps_trans_bump h h1 d a : keeps h h1 -> keeps h (bump d a h1).
Proof.
  intros H c Hc Hr. destruct (H c Hc Hr) as (c1 & Hc1 & Hb1 & Hk1).
  destruct (N.eq_dec a 0) as [->|Ha]; [exists c1; auto|].
  exists (bumpc d a c1). rewrite used_bump by exact Ha. split; [apply in_map; exact Hc1|]. split; [rewrite bumpc_box; exact Hb1|].
  unfold content in *. destruct (bumpc_kind d a c1) as [-> ->]. rewrite bumpc_kids. exact Hk1.
Qed.

Lemma keeps_fold_decr h (l : list (text * text * addr)) : forall h1, keeps h h1 -> keeps h (fold_left (fun h' e => decr (snd e) h') l h1).
Proof. induction l as [|e l IH]; intros h1 H; [exact H|]. cbn [fold_left]. apply IH. apply keeps_trans_bump. exact H. Qed.

Lemma keeps_fold_push h : forall l g1, keeps h (gheap g1) -> keeps h (gheap (fold_left (fun g' x => push_handle g' (gheap g') x) l g1)).
Proof. induction l as [|x l IH]; intros g1 H; [exact H|]. cbn [fold_left]. apply IH. unfold push_handle. cbn [gheap]. apply keeps_trans_bump. exact H. Qed.

(* C01, one operation: whatever is reachable before the operation is in use afterwards with
   the same kind, payload and pointers - including the collections the operation triggers *)
Theorem step_keeps p g o g' : ginv g -> step p g o = Some g' -> keeps (gheap g) (gheap g').
Proof.
  intros [Hinv Hsym] Hs.
  assert (Halloc : forall k pl ks g1, (forall x, In x ks -> x = 0 \/ In x (live g)) -> alloc_op p g k pl ks = Some g1 -> keeps (gheap g) (gheap g1)).
  { intros k pl ks g1 Hks Ha. unfold alloc_op in Ha. destruct (allocate p (gheap g) k pl ks) as [[h a]|] eqn:E; [|discriminate]. injection Ha as <-.
    unfold push_handle. cbn [gheap]. apply keeps_trans_bump. eapply keeps_alloc; eassumption. }
  destruct o; cbn [step] in Hs.
  - eapply Halloc; [|exact Hs]. intros x [].
  - eapply Halloc; [|exact Hs]. intros x [].
  - destruct (handle_addr g a) as [x|] eqn:E1; [|discriminate]. destruct (handle_addr g d) as [y|] eqn:E2; [|discriminate].
    eapply Halloc; [|exact Hs]. intros z [<-|[<-|[]]]; eapply handle_addr_live; eassumption.
  - destruct (assoc_t name (symtab (gheap g))) as [a|].
    + injection Hs as <-. apply keeps_bump.
    + destruct (allocate p (gheap g) KSym name []) as [[h1 a]|] eqn:Ea; [|discriminate]. injection Hs as <-.
      unfold push_handle. cbn [gheap]. apply keeps_trans_bump.
      intros c Hc Hr. destruct (keeps_alloc p (gheap g) h1 (live g) KSym name [] a Hinv ltac:(intros x []) Ea c Hc Hr) as (c' & H1 & H2 & H3).
      exists c'. auto.
  - eapply Halloc; [|exact Hs]. intros x [].
  - destruct (handle_addr g a) as [x|] eqn:E1; [|discriminate]. destruct (handle_addr g d) as [y|] eqn:E2; [|discriminate].
    eapply Halloc; [|exact Hs]. intros z [<-|[<-|[]]]; eapply handle_addr_live; eassumption.
  - destruct (handle_addr g x) as [a|] eqn:E1; [|discriminate].
    assert (Hk : forall z, In z [a] -> z = 0 \/ In z (live g)) by (intros z [<-|[]]; eapply handle_addr_live; eassumption).
    destruct (find_cell a (cells (gheap g))) as [c|].
    + destruct (ckind c); try discriminate; eapply Halloc; try exact Hs; exact Hk.
    + destruct (a =? 0); [|discriminate]. eapply Halloc; try exact Hs; exact Hk.
  - destruct (handle_addr g body) as [b|] eqn:E1; [|discriminate]. destruct (handle_addr g env) as [e|] eqn:E2; [|discriminate].
    destruct (addrs_of g params) as [ps|] eqn:E3; [|discriminate].
    eapply Halloc; [|exact Hs]. intros z [<-|[<-|Hz]]; [eapply handle_addr_live; eassumption|eapply handle_addr_live; eassumption|eapply addrs_of_live; eassumption].
  - eapply Halloc; [|exact Hs]. intros x [].
  - destruct (handle_addr g (Some i)) as [a|]; [|discriminate]. injection Hs as <-. apply keeps_bump.
  - destruct (nth_error (handles g) i) as [[a|]|]; try discriminate. injection Hs as <-. apply keeps_bump.
  - destruct (handle_addr g (Some i)) as [a|]; [|discriminate]. destruct (find_cell a (cells (gheap g))) as [c|]; [|discriminate].
    destruct (ckind c); try discriminate. destruct (kids c) as [|x [|y [|? ?]]]; try discriminate. injection Hs as <-. apply keeps_bump.
  - destruct (handle_addr g (Some i)) as [a|]; [|discriminate]. destruct (find_cell a (cells (gheap g))) as [c|]; [|discriminate].
    destruct (ckind c); try discriminate. destruct (kids c) as [|x [|y [|? ?]]]; try discriminate. injection Hs as <-. apply keeps_bump.
  - destruct (handle_addr g (Some i)) as [a|]; [|discriminate]. destruct (find_cell a (cells (gheap g))) as [c|]; [|discriminate].
    destruct (ckind c); try (injection Hs as <-; apply keeps_bump).
    destruct (kids c) as [|x [|? ?]]; injection Hs as <-; apply keeps_bump.
  - destruct (handle_addr g (Some i)) as [a|]; [|discriminate]. destruct (find_cell a (cells (gheap g))) as [c|]; [|discriminate].
    destruct (ckind c); try discriminate; injection Hs as <-; apply keeps_fold_push; apply keeps_refl.
  - destruct (handle_addr g i) as [a|]; [|discriminate]. injection Hs as <-. cbn [gheap].
    destruct (find (same_key (gcur g) name) (globals g)) as [[[m0 n0] old]|]; [apply keeps_trans_bump|]; apply keeps_bump.
  - injection Hs as <-. cbn [gheap]. destruct (find (same_key (gcur g) name) (globals g)) as [[[m0 n0] old]|]; [apply keeps_bump|apply keeps_refl].
  - injection Hs as <-. cbn [gheap]. apply keeps_fold_decr. apply keeps_refl.
  - destruct (mem_text_l name (gmods g)); [|discriminate]. injection Hs as <-. apply keeps_refl.
  - destruct (collect p (gheap g)) as [h1|] eqn:Ec; [|discriminate]. injection Hs as <-. cbn [gheap]. eapply keeps_collect. exact Ec.
Qed.

(* ---- C03: sizing ---- *)
(* right after a collection the free suffix is at most max(maxfree used, minfree used + 1) *)
Theorem free_after_collect p h h' : collect p h = Some h' ->
  (List.length (cells h') - ff h' <= Nat.max (maxfree p (ff h')) (minfree p (ff h') + 1))%nat.
Proof.
  intros Hc. unfold collect in Hc.
  destruct (mark (mark_fuel h) (cells h) (rev (roots h)) []) as [marked|]; [|discriminate].
  destruct (sweep (ff h) marked [] (used h) []) as [kept freed].
  destruct (Nat.ltb_spec (maxfree p (List.length kept)) (List.length (kept ++ freed ++ free h) - List.length kept)) as [Hlt|Hge]; injection Hc as <-; cbn [cells ff].
  - rewrite firstn_length. lia.
  - lia.
Qed.

(* a collection never makes the vector longer and never leaves it empty *)
Theorem collect_length p h h' : collect p h = Some h' -> (List.length (cells h') <= List.length (cells h))%nat.
Proof.
  intros Hc. destruct (collect_pieces p h h' Hc) as (marked & k & f & Hm & Hp & Fk & Ff & Hu & Hff & Hs & Hn & n & Hcells).
  rewrite Hcells, used_free, app_length, app_length, firstn_length.
  pose proof (Permutation_length Hp) as Hl. rewrite app_length in Hl. rewrite app_length. lia.
Qed.

(* growth happens only when a collection has just found no free cell, and then the vector
   gets grow(used+1) cells in total beyond ... : the size after growth is determined by the
   number of cells that were reachable at that collection *)
Theorem allocate_size p h h' L k pl ks a : inv h L -> (forall x, In x ks -> x = 0 \/ In x L) -> allocate p h k pl ks = Some (h', a) ->
  (List.length (cells h') <= List.length (cells h))%nat \/
  exists h1, collect p h = Some h1 /\ ff h1 = List.length (cells h1) /\
             List.length (cells h') = (S (ff h1) + Nat.pred (grow p (S (ff h1))))%nat.
Proof.
  intros Hinv Hks Ha. destruct (alloc_mid p h h' L k pl ks a Hinv Ha) as (h1 & Hinv1 & Hsub & Hcase).
  destruct Hcase as [(Hlt & c & rest & Hfree & Hac & Hcells & Hff & _)|(Hge & Hac & Hcells & Hff & _)].
  - left. rewrite Hcells, app_length. cbn [List.length].
    assert (List.length (cells h1) = (List.length (used h1) + S (List.length rest))%nat) by (rewrite used_free, Hfree, app_length; reflexivity).
    destruct Hsub as [[_ ->]|[_ Hc]]; [lia|]. pose proof (collect_length p h h1 Hc). lia.
  - destruct Hsub as [[Hnf ->]|[Hfull Hc]].
    + exfalso. destruct Hinv as [(_ & _ & Hle) _ _ _ _]. lia.
    + right. exists h1. split; [exact Hc|]. destruct Hinv1 as [(_ & _ & Hle) _ _ _ _]. split; [lia|].
      rewrite Hcells, app_length. cbn [List.length]. rewrite fresh_cells_length.
      assert (ff h1 = List.length (cells h1)) by lia. rewrite H. lia.
Qed.
