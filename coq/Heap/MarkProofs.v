(* The mark phase computes exactly the set of addresses reachable from the roots. *)
From PL Require Import Heap.HeapModel.
Local Open Scope N_scope.

Lemma mem_addr_In a l : mem_addr a l = true <-> In a l.
Proof.
  induction l as [|x l IH]; cbn; [split; [discriminate|tauto]|].
  rewrite orb_true_iff, IH, N.eqb_eq. tauto.
Qed.

Lemma find_cell_In a l c : find_cell a l = Some c -> In c l /\ box c = a.
Proof.
  induction l as [|x l IH]; cbn; [discriminate|].
  destruct (N.eqb_spec (box x) a) as [E|E]; [intros H; injection H as <-; auto|].
  intros H. destruct (IH H). auto.
Qed.

Lemma In_edges c a : In a (edges c) <-> In a (kids c) /\ a <> 0.
Proof. unfold edges. rewrite filter_In. destruct (N.eqb_spec a 0); cbn; split; intros [H1 H2]; split; auto; congruence. Qed.

Section Mark.
Variable all : list cell.

(* reachability through the edge relation of the vector [all] *)
Inductive Reach (rs : list addr) : addr -> Prop :=
| reach_root a : In a rs -> a <> 0 -> Reach rs a
| reach_edge a c b : Reach rs a -> find_cell a all = Some c -> In b (kids c) -> b <> 0 -> Reach rs b.

(* invariant of the loop: [rs] = everything that has ever been on the stack or visited *)
Definition sound (rs stack visited : list addr) : Prop :=
  (forall a, In a stack -> a <> 0 -> Reach rs a) /\ (forall a, In a visited -> Reach rs a).

Definition closed_but (stack visited : list addr) : Prop :=
  forall a c b, In a visited -> find_cell a all = Some c -> In b (kids c) -> b <> 0 -> In b visited \/ In b stack.

Lemma mark_spec fuel : forall rs stack visited S,
  mark fuel all stack visited = Some S ->
  sound rs stack visited -> closed_but stack visited ->
  (forall a, In a rs -> a <> 0 -> In a visited \/ In a stack) ->
  (forall a, In a S <-> Reach rs a).
Proof.
  induction fuel as [|f IH]; intros rs stack visited S Hm Hs Hc Hr; [discriminate|].
  cbn [mark] in Hm. destruct stack as [|a st].
  - (* stack empty: visited is closed and contains the roots *)
    injection Hm as <-. intros a. split; [apply Hs|].
    induction 1 as [a Hin Hn|a c b Hra IHr Hf Hk Hn].
    + destruct (Hr a Hin Hn) as [H|[]]. exact H.
    + destruct (Hc a c b IHr Hf Hk Hn) as [H|[]]. exact H.
  - destruct ((a =? 0) || mem_addr a visited) eqn:E.
    + (* skip *)
      apply (IH rs st visited S Hm).
      * destruct Hs as [H1 H2]. split; [intros x Hx; apply H1; right; exact Hx|exact H2].
      * intros x c b Hx Hf Hk Hn. destruct (Hc x c b Hx Hf Hk Hn) as [H|[H|H]]; auto.
        subst b. apply orb_true_iff in E as [E|E]; [apply N.eqb_eq in E; congruence|].
        left. apply mem_addr_In. exact E.
      * intros x Hx Hn. destruct (Hr x Hx Hn) as [H|[H|H]]; auto.
        subst x. apply orb_true_iff in E as [E|E]; [apply N.eqb_eq in E; congruence|].
        left. apply mem_addr_In. exact E.
    + apply orb_false_iff in E as [E0 Ev]. apply N.eqb_neq in E0.
      destruct (find_cell a all) as [c|] eqn:Ef; [|discriminate].
      apply (IH rs (rev (kids c) ++ st) (a :: visited) S Hm).
      * destruct Hs as [H1 H2].
        assert (Ha : Reach rs a) by (apply H1; [left; reflexivity|exact E0]).
        split.
        -- intros x Hx Hn. apply in_app_or in Hx as [Hx|Hx].
           ++ apply in_rev in Hx. eapply reach_edge; eassumption.
           ++ apply H1; [right; exact Hx|exact Hn].
        -- intros x [<-|Hx]; [exact Ha|apply H2; exact Hx].
      * intros x c' b Hx Hf Hk Hn. destruct Hx as [<-|Hx].
        -- rewrite Ef in Hf. injection Hf as <-. right. apply in_or_app. left. apply in_rev. rewrite rev_involutive. exact Hk.
        -- destruct (Hc x c' b Hx Hf Hk Hn) as [H|[H|H]].
           ++ left. right. exact H.
           ++ subst b. left. left. reflexivity.
           ++ right. apply in_or_app. right. exact H.
      * intros x Hx Hn. destruct (Hr x Hx Hn) as [H|[H|H]].
        -- left. right. exact H.
        -- subst x. left. left. reflexivity.
        -- right. apply in_or_app. right. exact H.
Qed.

Theorem mark_exact fuel rs S : mark fuel all rs [] = Some S -> forall a, In a S <-> Reach rs a.
Proof.
  intros Hm. apply (mark_spec fuel rs rs [] S Hm).
  - split; [intros a Hin Hn; apply reach_root; assumption|intros a []].
  - intros a c b [].
  - intros a Hin _. right. exact Hin.
Qed.

(* nothing null and nothing outside the vector is ever marked *)
Lemma reach_nonnull rs a : Reach rs a -> a <> 0.
Proof. induction 1; assumption. Qed.
End Mark.
