(* allocate_internal preserves the invariant and touches no cell that was in use *)
From PL Require Import Heap.HeapModel Heap.MarkProofs Heap.SweepProofs Heap.CollectProofs Heap.HeapInv.
From Coq Require Import Permutation.
Local Open Scope N_scope.

Lemma split_at_ff h : (ff h < List.length (cells h))%nat ->
  exists c rest, free h = c :: rest /\ cells h = used h ++ c :: rest /\ List.length (used h) = ff h /\ nth_error (cells h) (ff h) = Some c.
Proof.
  intros Hlt. unfold used, free.
  destruct (skipn (ff h) (cells h)) as [|c rest] eqn:E.
  - exfalso. pose proof (skipn_length (ff h) (cells h)) as Hl. rewrite E in Hl. cbn in Hl. lia.
  - exists c, rest. split; [reflexivity|]. pose proof (firstn_skipn (ff h) (cells h)) as Hs. rewrite E in Hs.
    split; [symmetry; exact Hs|]. split; [rewrite firstn_length; lia|].
    rewrite <- Hs at 1. rewrite nth_error_app2; rewrite firstn_length; [|lia].
    replace (ff h - Nat.min (ff h) (List.length (cells h)))%nat with 0%nat by lia. reflexivity.
Qed.

Lemma set_nth_app l1 c l2 f : set_nth (List.length l1) f (l1 ++ c :: l2) = l1 ++ f c :: l2.
Proof. induction l1 as [|x l1 IH]; cbn; [reflexivity|]. rewrite IH. reflexivity. Qed.

Lemma firstn_app_exact {A} (l1 l2 : list A) : firstn (List.length l1) (l1 ++ l2) = l1.
Proof. rewrite firstn_app, Nat.sub_diag, firstn_all. cbn. apply app_nil_r. Qed.
Lemma skipn_app_exact {A} (l1 l2 : list A) : skipn (List.length l1) (l1 ++ l2) = l2.
Proof. rewrite skipn_app, Nat.sub_diag, skipn_all. reflexivity. Qed.

Lemma boxes_fresh n a : boxes (fresh_cells n a) = map (fun i => a + N.of_nat i) (seq 0 n).
Proof.
  revert a. induction n as [|n IH]; intros a; [reflexivity|]. cbn [fresh_cells boxes map seq]. f_equal; [cbn; lia|].
  change (map box (fresh_cells n (a + 1))) with (boxes (fresh_cells n (a + 1))). rewrite IH, <- seq_shift, map_map. apply map_ext. intros i. lia.
Qed.

Lemma fresh_cells_spec n a c : In c (fresh_cells n a) -> a <= box c < a + N.of_nat n /\ rc c = 0%nat.
Proof.
  revert a. induction n as [|n IH]; intros a Hin; [destruct Hin|]. cbn in Hin. destruct Hin as [<-|Hin].
  - cbn. lia.
  - destruct (IH _ Hin). lia.
Qed.

Lemma NoDup_fresh n a : NoDup (boxes (fresh_cells n a)).
Proof.
  rewrite boxes_fresh. apply FinFun.Injective_map_NoDup; [|apply seq_NoDup]. intros x y H. lia.
Qed.

Section Alloc.
Variables (p : policy) (h h' : heap) (L : list addr) (k : kind) (pl : text) (ks : list addr) (a : addr).
Hypothesis Hinv : inv h L.
Hypothesis Hks : forall x, In x ks -> x = 0 \/ In x L.
Hypothesis Ha : allocate p h k pl ks = Some (h', a).

Definition newcell : cell := Cell a k pl ks 0.

(* the heap after the optional collection *)
Lemma alloc_mid : exists h1, inv h1 L /\ ((ff h < List.length (cells h))%nat /\ h1 = h \/ (List.length (cells h) <= ff h)%nat /\ collect p h = Some h1) /\
  ((ff h1 < List.length (cells h1))%nat /\ (exists c rest, free h1 = c :: rest /\ a = box c /\
     cells h' = used h1 ++ newcell :: rest /\ ff h' = S (ff h1) /\ next h' = next h1 /\ symtab h' = symtab h1)
   \/ (List.length (cells h1) <= ff h1)%nat /\ a = next h1 /\
     cells h' = cells h1 ++ newcell :: fresh_cells (Nat.pred (grow p (S (List.length (cells h1))))) (a + 1) /\
     ff h' = S (ff h1) /\ next h' = a + 1 + N.of_nat (Nat.pred (grow p (S (List.length (cells h1))))) /\ symtab h' = symtab h1).
Proof.
  unfold allocate in Ha.
  destruct (if Nat.leb (List.length (cells h)) (ff h) then collect p h else Some h) as [h1|] eqn:E1; [|discriminate].
  exists h1.
  assert (Hinv1 : inv h1 L).
  { destruct (Nat.leb (List.length (cells h)) (ff h)); [eapply inv_collect; eassumption|injection E1 as <-; exact Hinv]. }
  split; [exact Hinv1|]. split.
  { destruct (Nat.leb_spec (List.length (cells h)) (ff h)); [right; split; [assumption|exact E1]|left; split; [assumption|congruence]]. }
  destruct (Nat.ltb_spec (ff h1) (List.length (cells h1))) as [Hlt|Hge].
  - left. split; [exact Hlt|]. destruct (split_at_ff h1 Hlt) as (c & rest & Hfree & Hcells & Hlen & Hnth).
    rewrite Hnth in Ha. injection Ha as <- <-. exists c, rest.
    assert (Hrc : rc c = 0%nat).
    { destruct Hinv1 as [_ _ Hfr _ _]. unfold free_rc0 in Hfr. rewrite Hfree in Hfr. inversion Hfr; assumption. }
    repeat split; auto. cbn [cells].
    rewrite Hcells at 1. rewrite <- Hlen, set_nth_app. unfold newcell. rewrite Hrc, H. reflexivity.
  - right. split; [exact Hge|]. injection Ha as Hh Hax. subst h'. cbn [cells ff next symtab].
    rewrite app_length. cbn [List.length]. rewrite Nat.add_1_r. rewrite <- app_assoc. unfold newcell. rewrite <- Hax.
    repeat split; reflexivity.
Qed.
End Alloc.

Lemma NoDup_boxes_replace l1 c c' l2 : box c' = box c -> NoDup (boxes (l1 ++ c :: l2)) -> NoDup (boxes (l1 ++ c' :: l2)).
Proof. intros Hb. unfold boxes. rewrite !map_app. cbn [map]. rewrite Hb. auto. Qed.

Lemma NoDup_app_intro {A} (l1 l2 : list A) : NoDup l1 -> NoDup l2 -> (forall x, In x l1 -> ~ In x l2) -> NoDup (l1 ++ l2).
Proof.
  induction l1 as [|a l1 IH]; cbn; intros H1 H2 Hd; [exact H2|].
  inversion H1 as [|? ? Hnot Hn]; subst. constructor.
  - intros Hin. apply in_app_or in Hin as [Hin|Hin]; [contradiction|]. apply (Hd a); [left; reflexivity|exact Hin].
  - apply IH; auto.
Qed.

Section AllocInv.
Variables (p : policy) (h h' : heap) (L : list addr) (k : kind) (pl : text) (ks : list addr) (a : addr).
Hypothesis Hinv : inv h L.
Hypothesis Hks : forall x, In x ks -> x = 0 \/ In x L.
Hypothesis Ha : allocate p h k pl ks = Some (h', a).

Notation nc := (newcell k pl ks a).

Theorem alloc_spec : exists h1, inv h1 L /\
  ((ff h < List.length (cells h))%nat /\ h1 = h \/ (List.length (cells h) <= ff h)%nat /\ collect p h = Some h1) /\
  used h' = used h1 ++ [nc] /\ inv h' L /\ a <> 0 /\ symtab h' = symtab h1 /\
  ~ In a (boxes (used h1)).
Proof.
  destruct (alloc_mid p h h' L k pl ks a Hinv Ha) as (h1 & Hinv1 & Hsub & Hcase).
  exists h1. split; [exact Hinv1|]. split; [exact Hsub|].
  pose proof Hinv1 as [Hwf Hcl Hfr Hfs Hcov]. destruct Hwf as (Hnd & Hnz & Hle). destruct Hfs as [Hfs Hnx0].
  assert (Hkids : forall x, In x ks -> x <> 0 -> In x (boxes (used h1))).
  { intros x Hx Hx0. destruct (Hks x Hx) as [->|HxL]; [congruence|]. destruct (Hcov x HxL Hx0) as (c & Hc & Hb & _). rewrite <- Hb. apply in_map. exact Hc. }
  destruct Hcase as [(Hlt & c & rest & Hfree & Hac & Hcells & Hff & Hnx & Hsy)|(Hge & Hac & Hcells & Hff & Hnx & Hsy)].
  - (* a free cell is reused: its box stays *)
    assert (Hc1 : cells h1 = used h1 ++ c :: rest) by (rewrite used_free, Hfree; reflexivity).
    assert (Hlen : List.length (used h1) = ff h1) by (unfold used; rewrite firstn_length; lia).
    assert (Hu' : used h' = used h1 ++ [nc]).
    { unfold used at 1. rewrite Hff, Hcells, <- Hlen. replace (S (List.length (used h1))) with (List.length (used h1 ++ [nc])) by (rewrite app_length; cbn; lia).
      change (used h1 ++ nc :: rest) with (used h1 ++ [nc] ++ rest). rewrite app_assoc. apply firstn_app_exact. }
    assert (Hf' : free h' = rest).
    { unfold free. rewrite Hff, Hcells, <- Hlen. replace (S (List.length (used h1))) with (List.length (used h1 ++ [nc])) by (rewrite app_length; cbn; lia).
      change (used h1 ++ nc :: rest) with (used h1 ++ [nc] ++ rest). rewrite app_assoc. apply skipn_app_exact. }
    assert (Hanz : a <> 0).
    { rewrite Hac. rewrite Forall_forall in Hnz. apply Hnz. rewrite Hc1. apply in_or_app. right. left. reflexivity. }
    assert (Hnotin : ~ In a (boxes (used h1))).
    { rewrite Hc1 in Hnd. unfold boxes in Hnd. rewrite map_app in Hnd. cbn [map] in Hnd. apply NoDup_remove_2 in Hnd.
      intros Hin. apply Hnd. apply in_or_app. left. rewrite <- Hac. exact Hin. }
    split; [exact Hu'|]. split; [|auto].
    constructor.
    + repeat split.
      * rewrite Hcells. apply (NoDup_boxes_replace (used h1) c nc rest); [cbn; exact Hac|rewrite <- Hc1; exact Hnd].
      * rewrite Hcells. apply Forall_app. rewrite Hc1 in Hnz. apply Forall_app in Hnz as [Hz1 Hz2]. split; [exact Hz1|].
        inversion Hz2 as [|x0 l0 Hz3 Hz4 [Hx0 Hl0]]. constructor; [cbn; exact Hanz|assumption].
      * rewrite Hff, Hcells, app_length. cbn. rewrite Hlen. rewrite Hc1, app_length in Hlt. cbn in Hlt. lia.
    + intros c0 b Hin Hk Hb. rewrite Hu' in *. unfold boxes. rewrite map_app. apply in_or_app.
      apply in_app_or in Hin as [Hin|[<-|[]]]; left; [eapply Hcl; eassumption|apply Hkids; assumption].
    + unfold free_rc0. rewrite Hf'. unfold free_rc0 in Hfr. rewrite Hfree in Hfr. inversion Hfr; assumption.
    + unfold fresh_ok. rewrite Hnx, Hcells. split; [|exact Hnx0]. rewrite Hc1 in Hfs. apply Forall_app in Hfs as [F1 F2]. apply Forall_app. split; [exact F1|].
      inversion F2 as [|x0 l0 F3 F4 [Hx0 Hl0]]. constructor; [cbn; rewrite Hac; assumption|assumption].
    + intros x Hx Hx0. destruct (Hcov x Hx Hx0) as (c0 & Hc0 & Hb0 & Hle0). exists c0. rewrite Hu'. split; [apply in_or_app; left; exact Hc0|auto].
  - (* the vector grows: a fresh box *)
    assert (Hall : used h1 = cells h1) by (unfold used; apply firstn_all2; exact Hge).
    assert (Hffl : ff h1 = List.length (cells h1)) by lia.
    set (n := Nat.pred (grow p (S (List.length (cells h1))))) in *.
    set (extra := fresh_cells n (a + 1)) in *.
    assert (Hu' : used h' = used h1 ++ [nc]).
    { unfold used at 1. rewrite Hff, Hcells, Hffl, Hall. replace (S (List.length (cells h1))) with (List.length (cells h1 ++ [nc])) by (rewrite app_length; cbn; lia).
      change (cells h1 ++ nc :: extra) with (cells h1 ++ [nc] ++ extra). rewrite app_assoc. apply firstn_app_exact. }
    assert (Hf' : free h' = extra).
    { unfold free. rewrite Hff, Hcells, Hffl. replace (S (List.length (cells h1))) with (List.length (cells h1 ++ [nc])) by (rewrite app_length; cbn; lia).
      change (cells h1 ++ nc :: extra) with (cells h1 ++ [nc] ++ extra). rewrite app_assoc. apply skipn_app_exact. }
    assert (Hlt : forall c0, In c0 (cells h1) -> box c0 < a).
    { intros c0 Hc0. rewrite Hac. rewrite Forall_forall in Hfs. auto. }
    assert (Hanz : a <> 0) by (rewrite Hac; lia).
    assert (Hnotin : ~ In a (boxes (used h1))).
    { rewrite Hall. intros Hin. apply in_map_iff in Hin as (c0 & Hb0 & Hc0). specialize (Hlt c0 Hc0). lia. }
    split; [exact Hu'|]. split; [|auto].
    constructor.
    + repeat split.
      * rewrite Hcells. unfold boxes. rewrite map_app. apply NoDup_app_intro; [exact Hnd| |].
        -- cbn [map]. constructor.
           ++ intros Hin. apply in_map_iff in Hin as (c0 & Hb0 & Hc0). destruct (fresh_cells_spec _ _ _ Hc0) as [Hr _]. cbn in Hb0. lia.
           ++ apply NoDup_fresh.
        -- intros x Hx Hx2. apply in_map_iff in Hx as (c0 & Hb0 & Hc0). specialize (Hlt c0 Hc0).
           destruct Hx2 as [Hx2|Hx2]; [cbn in Hx2; lia|]. apply in_map_iff in Hx2 as (c1 & Hb1 & Hc1). destruct (fresh_cells_spec _ _ _ Hc1) as [Hr _]. lia.
      * rewrite Hcells. apply Forall_app. split; [exact Hnz|]. constructor; [cbn; exact Hanz|].
        apply Forall_forall. intros c1 Hc1. destruct (fresh_cells_spec _ _ _ Hc1) as [Hr _]. lia.
      * rewrite Hff, Hcells, app_length. cbn. lia.
    + intros c0 b Hin Hk Hb. rewrite Hu' in *. unfold boxes. rewrite map_app. apply in_or_app.
      apply in_app_or in Hin as [Hin|[<-|[]]]; left; [eapply Hcl; eassumption|apply Hkids; assumption].
    + unfold free_rc0. rewrite Hf'. apply Forall_forall. intros c1 Hc1. destruct (fresh_cells_spec _ _ _ Hc1) as [_ Hr]. exact Hr.
    + unfold fresh_ok. rewrite Hnx, Hcells. split; [|lia]. apply Forall_app. split.
      * apply Forall_forall. intros c0 Hc0. specialize (Hlt c0 Hc0). lia.
      * constructor; [cbn; lia|]. apply Forall_forall. intros c1 Hc1. destruct (fresh_cells_spec _ _ _ Hc1) as [Hr _]. fold n. lia.
    + intros x Hx Hx0. destruct (Hcov x Hx Hx0) as (c0 & Hc0 & Hb0 & Hle0). exists c0. rewrite Hu'. split; [apply in_or_app; left; exact Hc0|auto].
Qed.
End AllocInv.
