(* The heap of src/memory/mod.rs: a vector of cells (each a Box with a stable address),
   split into a used prefix [0, ff) and a free suffix; handles (GcRef) are counted per
   cell; `collect` = mark (DFS from the cells with a positive handle count, with a
   visited check) + swap-sweep + shrink.  Addresses are abstract numbers handed out by a
   counter; a released Box is never re-issued (the real allocator may reuse the numeric
   address: the comparison with the implementation is up to a bijection on live boxes). *)
From PL Require Export Base.Chars.
From Coq Require Import String.
Local Open Scope string_scope.
Local Open Scope list_scope.
Local Open Scope N_scope.

Definition addr := N.            (* 0 = null *)

(* kind tags as in the driver's snapshot *)
Inductive kind := KNum | KChr | KCons | KSym | KUSym | KFun | KNat | KTrap | KMeta.

(* [kids]: the raw pointer fields that are EDGES for the collector, in declaration order
   (cons: car cdr; trap: normal trap; function: body environment params...; meta: value);
   a symbol's own_address is not an edge and is not stored (it always equals the box) *)
Record cell := Cell { box : addr; ckind : kind; payload : text; kids : list addr; rc : nat }.

Definition default_cell (a : addr) : cell := Cell a KNum [48] [] 0.   (* Number(0), count 0 *)

Record heap := Heap {
  cells : list cell;               (* the vector *)
  ff : nat;                        (* first_free *)
  symtab : list (text * addr);     (* the symbol table (a hash map: order irrelevant) *)
  next : addr                      (* next fresh box address *)
}.

(* sizing policy: the f32 computations of the code, as functions (DESIGN.md, C03) *)
Record policy := Policy { maxfree : nat -> nat; minfree : nat -> nat; grow : nat -> nat }.

Definition kind_eqb (a b : kind) : bool :=
  match a, b with
  | KNum, KNum | KChr, KChr | KCons, KCons | KSym, KSym | KUSym, KUSym | KFun, KFun | KNat, KNat
  | KTrap, KTrap | KMeta, KMeta => true
  | _, _ => false
  end.

Fixpoint mem_addr (a : addr) (l : list addr) : bool :=
  match l with [] => false | x :: r => (x =? a) || mem_addr a r end.

Fixpoint find_cell (a : addr) (l : list cell) : option cell :=
  match l with [] => None | c :: r => if box c =? a then Some c else find_cell a r end.

Definition used (h : heap) : list cell := firstn (ff h) (cells h).
Definition free (h : heap) : list cell := skipn (ff h) (cells h).

(* ---- mark ---- *)
Definition edges (c : cell) : list addr := filter (fun a => negb (a =? 0)) (kids c).

(* pop; skip if visited (or null); otherwise visit and push the edges.  The raw pointer is
   dereferenced wherever it points: the lookup is over the WHOLE vector; None = the pointer
   designates no cell at all (dangling) - the model then stops with None *)
Fixpoint mark (fuel : nat) (all : list cell) (stack visited : list addr) : option (list addr) :=
  match fuel with
  | O => None
  | S f =>
    match stack with
    | [] => Some visited
    | a :: st =>
      if (a =? 0) || mem_addr a visited then mark f all st visited
      else match find_cell a all with
           | Some c => mark f all (rev (kids c) ++ st) (a :: visited)
           | None => None
           end
    end
  end.

Definition roots (h : heap) : list addr := map box (filter (fun c => negb (Nat.eqb (rc c) 0)) (used h)).

Definition mark_fuel (h : heap) : nat :=
  S (List.length (cells h) + fold_right (fun c n => (List.length (kids c) + n)%nat) 0%nat (cells h) + List.length (cells h)).

(* ---- sweep: the `while i < first_free` loop with swap(i, first_free - 1), as a zipper:
   vector = rev kept_rev ++ todo ++ freed ++ old free suffix ---- *)
Fixpoint unsnoc {A} (l : list A) : option (list A * A) :=
  match l with
  | [] => None
  | [x] => Some ([], x)
  | x :: r => match unsnoc r with Some (i, l') => Some (x :: i, l') | None => None end
  end.

Fixpoint sweep (n : nat) (marked : list addr) (kept_rev todo freed : list cell) : list cell * list cell :=
  match n with
  | O => (rev kept_rev ++ todo, freed)
  | S n' =>
    match todo with
    | [] => (rev kept_rev, freed)
    | x :: t =>
      if mem_addr (box x) marked then sweep n' marked (x :: kept_rev) t freed
      else match unsnoc t with
           | None => (rev kept_rev, x :: freed)
           | Some (mid, l) => sweep n' marked kept_rev (l :: mid) (x :: freed)
           end
    end
  end.

Fixpoint remove_sym (name : text) (t : list (text * addr)) : list (text * addr) :=
  match t with
  | [] => []
  | (n, a) :: r => if text_eqb n name then remove_sym name r else (n, a) :: remove_sym name r
  end.

Definition drop_freed_symbols (freed : list cell) (t : list (text * addr)) : list (text * addr) :=
  fold_left (fun t c => match ckind c with KSym => remove_sym (payload c) t | _ => t end) freed t.

(* collect: None = the mark phase met a dangling pointer or ran out of fuel *)
Definition collect (p : policy) (h : heap) : option heap :=
  match mark (mark_fuel h) (cells h) (rev (roots h)) [] with
  | None => None
  | Some marked =>
    let '(kept, freed) := sweep (ff h) marked [] (used h) [] in
    let vec := kept ++ freed ++ free h in
    let u := List.length kept in
    let tab := drop_freed_symbols freed (symtab h) in
    if Nat.ltb (maxfree p u) (List.length vec - u)
    then Some (Heap (firstn (u + minfree p u + 1) vec) u tab (next h))
    else Some (Heap vec u tab (next h))
  end.

(* ---- allocate_internal ---- *)
Fixpoint fresh_cells (n : nat) (a : addr) : list cell :=
  match n with O => [] | S k => default_cell a :: fresh_cells k (a + 1) end.

Fixpoint set_nth (n : nat) (f : cell -> cell) (l : list cell) : list cell :=
  match l, n with
  | [], _ => []
  | c :: r, O => f c :: r
  | c :: r, S k => c :: set_nth k f r
  end.

(* returns the heap and the address of the cell that now holds the content *)
Definition allocate (p : policy) (h : heap) (k : kind) (pl : text) (ks : list addr) : option (heap * addr) :=
  match (if Nat.leb (List.length (cells h)) (ff h) then collect p h else Some h) with
  | None => None
  | Some h1 =>
    if Nat.ltb (ff h1) (List.length (cells h1)) then
      match nth_error (cells h1) (ff h1) with
      | Some c => Some (Heap (set_nth (ff h1) (fun c => Cell (box c) k pl ks (rc c)) (cells h1)) (S (ff h1)) (symtab h1) (next h1), box c)
      | None => None
      end
    else
      let a := next h1 in
      let vec := cells h1 ++ [Cell a k pl ks 0] in
      let extra := Nat.pred (grow p (List.length vec)) in
      Some (Heap (vec ++ fresh_cells extra (a + 1)) (S (ff h1)) (symtab h1) (a + 1 + N.of_nat extra), a)
  end.

(* handle counts *)
Definition bump (d : bool) (a : addr) (h : heap) : heap :=
  if a =? 0 then h else
  Heap (map (fun c => if box c =? a then Cell (box c) (ckind c) (payload c) (kids c) (if d then S (rc c) else Nat.pred (rc c)) else c) (cells h))
       (ff h) (symtab h) (next h).
Definition incr := bump true.
Definition decr := bump false.

Definition init_heap (n : nat) : heap := Heap (fresh_cells n 1) 0 [] (1 + N.of_nat n).

(* ---- histories: operations over a table of live handles and the global tables ---- *)
Record gstate := GState {
  gheap : heap;
  handles : list (option addr);                       (* the embedder's handle table *)
  globals : list (text * text * addr);                (* (module, name, value): each entry holds a handle *)
  gmods : list text;                                  (* the modules that exist *)
  gcur : text
}.

Inductive hop :=
| HNum (payload : text) | HChr (payload : text)
| HCons (a d : option nat)            (* handle indices; None = nil *)
| HSym (name : text) | HGensym
| HTrap (a d : option nat)
| HMeta (x : option nat) (payload : text)
| HFun (payload : text) (body env : option nat) (params : list nat)
| HNat (payload : text)
| HClone (i : nat) | HDrop (i : nat)
| HCar (i : nat) | HCdr (i : nat) | HUnmeta (i : nat) | HParts (i : nat)
| HDefine (name : text) (i : option nat) | HUndefine (name : text)
| HDefmodule (name : text) | HSetmodule (name : text)
| HCollect.

Definition handle_addr (g : gstate) (i : option nat) : option addr :=
  match i with
  | None => Some 0
  | Some k => match nth_error (handles g) k with Some (Some a) => Some a | _ => None end
  end.

Fixpoint assoc_t {A} (k : text) (l : list (text * A)) : option A :=
  match l with [] => None | (k', v) :: r => if text_eqb k k' then Some v else assoc_t k r end.
Fixpoint remove_t {A} (k : text) (l : list (text * A)) : list (text * A) :=
  match l with [] => [] | (k', v) :: r => if text_eqb k k' then remove_t k r else (k', v) :: remove_t k r end.

Definition same_key (m n : text) (e : text * text * addr) : bool := text_eqb (fst (fst e)) m && text_eqb (snd (fst e)) n.
Definition in_module (m : text) (e : text * text * addr) : bool := text_eqb (fst (fst e)) m.
Fixpoint mem_text_l (k : text) (l : list text) : bool := match l with [] => false | x :: r => text_eqb k x || mem_text_l k r end.

Definition push_handle (g : gstate) (h : heap) (a : addr) : gstate :=
  GState (incr a h) (handles g ++ [Some a]) (globals g) (gmods g) (gcur g).

Definition alloc_op (p : policy) (g : gstate) (k : kind) (pl : text) (ks : list addr) : option gstate :=
  match allocate p (gheap g) k pl ks with
  | Some (h, a) => Some (push_handle g h a)
  | None => None
  end.

Fixpoint addrs_of (g : gstate) (l : list nat) : option (list addr) :=
  match l with
  | [] => Some []
  | i :: r => match handle_addr g (Some i), addrs_of g r with
              | Some a, Some rs => Some (a :: rs)
              | _, _ => None
              end
  end.

(* None = the operation is not applicable (dead handle, wrong kind): the generator skips it *)
Definition step (p : policy) (g : gstate) (o : hop) : option gstate :=
  let h := gheap g in
  match o with
  | HNum pl => alloc_op p g KNum pl []
  | HChr pl => alloc_op p g KChr pl []
  | HCons a d => match handle_addr g a, handle_addr g d with
                 | Some x, Some y => alloc_op p g KCons [] [x; y]
                 | _, _ => None
                 end
  | HTrap a d => match handle_addr g a, handle_addr g d with
                 | Some x, Some y => alloc_op p g KTrap [] [x; y]
                 | _, _ => None
                 end
  | HMeta x pl => match handle_addr g x with
                  | Some a => match find_cell a (cells h) with
                              | Some c => match ckind c with KMeta => None | _ => alloc_op p g KMeta pl [a] end
                              | None => if a =? 0 then alloc_op p g KMeta pl [a] else None
                              end
                  | None => None
                  end
  | HFun pl body env params =>
    match handle_addr g body, handle_addr g env, addrs_of g params with
    | Some b, Some e, Some ps => alloc_op p g KFun pl (b :: e :: ps)
    | _, _, _ => None
    end
  | HNat pl => alloc_op p g KNat pl []
  | HGensym => alloc_op p g KUSym [] []
  | HSym name =>
    match assoc_t name (symtab h) with
    | Some a => Some (push_handle g h a)
    | None => match allocate p h KSym name [] with
              | Some (h1, a) => Some (push_handle g (Heap (cells h1) (ff h1) ((name, a) :: symtab h1) (next h1)) a)
              | None => None
              end
    end
  | HClone i => match handle_addr g (Some i) with Some a => Some (push_handle g h a) | None => None end
  | HDrop i => match nth_error (handles g) i with
               | Some (Some a) => Some (GState (decr a h) (firstn i (handles g) ++ None :: skipn (S i) (handles g)) (globals g) (gmods g) (gcur g))
               | _ => None
               end
  | HCar i | HCdr i =>
    match handle_addr g (Some i) with
    | Some a => match find_cell a (cells h) with
                | Some c => match ckind c, kids c with
                            | KCons, [x; y] => Some (push_handle g h (match o with HCar _ => x | _ => y end))
                            | _, _ => None
                            end
                | None => None
                end
    | None => None
    end
  | HUnmeta i =>
    match handle_addr g (Some i) with
    | Some a => match find_cell a (cells h) with
                | Some c => match ckind c, kids c with
                            | KMeta, [x] => Some (push_handle g h x)
                            | _, _ => Some (push_handle g h a)
                            end
                | None => None
                end
    | None => None
    end
  | HParts i =>
    match handle_addr g (Some i) with
    | Some a => match find_cell a (cells h) with
                | Some c => match ckind c with
                            | KFun | KTrap => Some (fold_left (fun g' x => push_handle g' (gheap g') x) (kids c) g)
                            | _ => None
                            end
                | None => None
                end
    | None => None
    end
  | HDefine name i =>
    match handle_addr g i with
    | Some a =>
      let h1 := incr a h in
      let h2 := match find (same_key (gcur g) name) (globals g) with Some (_, _, old) => decr old h1 | None => h1 end in
      Some (GState h2 (handles g) ((gcur g, name, a) :: filter (fun e => negb (same_key (gcur g) name e)) (globals g)) (gmods g) (gcur g))
    | None => None
    end
  | HUndefine name =>
    let h1 := match find (same_key (gcur g) name) (globals g) with Some (_, _, old) => decr old h | None => h end in
    Some (GState h1 (handles g) (filter (fun e => negb (same_key (gcur g) name e)) (globals g)) (gmods g) (gcur g))
  | HDefmodule name =>
    let old := filter (in_module name) (globals g) in
    Some (GState (fold_left (fun h' e => decr (snd e) h') old h) (handles g) (filter (fun e => negb (in_module name e)) (globals g))
                 (name :: gmods g) name)
  | HSetmodule name =>
    if mem_text_l name (gmods g) then Some (GState h (handles g) (globals g) (gmods g) name) else None
  | HCollect => match collect p h with Some h1 => Some (GState h1 (handles g) (globals g) (gmods g) (gcur g)) | None => None end
  end.

Definition init_gstate (n : nat) : gstate := GState (init_heap n) [] [] [s "default"] (s "default").
