(* comparison of a model heap with a snapshot of the real heap (addresses already renamed
   into the model's numbering by the harness) *)
From PL Require Export Heap.HeapModel.
Local Open Scope N_scope.

Definition snap_cell := (addr * nat * kind * text * list addr)%type.
Record snapshot := Snap { s_len : nat; s_ff : nat; s_used : list snap_cell; s_free : list (addr * nat); s_syms : list (text * addr) }.

Fixpoint addrs_eqb (a b : list addr) : bool :=
  match a, b with [], [] => true | x :: a', y :: b' => (x =? y) && addrs_eqb a' b' | _, _ => false end.

Definition cell_matches (c : cell) (sc : snap_cell) : bool :=
  let '(a, r, k, pl, ks) := sc in
  (box c =? a) && Nat.eqb (rc c) r && kind_eqb (ckind c) k && text_eqb (payload c) pl && addrs_eqb (kids c) ks.

Fixpoint cells_match (l : list cell) (sl : list snap_cell) : bool :=
  match l, sl with [], [] => true | c :: l', x :: sl' => cell_matches c x && cells_match l' sl' | _, _ => false end.

Fixpoint free_match (l : list cell) (sl : list (addr * nat)) : bool :=
  match l, sl with
  | [], [] => true
  | c :: l', (a, r) :: sl' => (box c =? a) && Nat.eqb (rc c) r && free_match l' sl'
  | _, _ => false
  end.

Definition syms_match (t : list (text * addr)) (st : list (text * addr)) : bool :=
  Nat.eqb (List.length t) (List.length st) &&
  forallb (fun e => match assoc_t (fst e) t with Some a => a =? snd e | None => false end) st.

Definition heap_matches (h : heap) (sn : snapshot) : bool :=
  Nat.eqb (List.length (cells h)) (s_len sn) && Nat.eqb (ff h) (s_ff sn) &&
  cells_match (used h) (s_used sn) && free_match (free h) (s_free sn) && syms_match (symtab h) (s_syms sn).

(* run a history, comparing after every operation; returns the index of the first operation
   after which the model differs from the snapshot (or at which the model cannot proceed) *)
Fixpoint run_history (p : policy) (g : gstate) (ops : list (hop * snapshot)) (i : nat) : option nat :=
  match ops with
  | [] => None
  | (o, sn) :: r =>
    match step p g o with
    | None => Some i
    | Some g' => if heap_matches (gheap g') sn then run_history p g' r (S i) else Some i
    end
  end.

(* the sizing policy of the tree: exact rationals of Generated/Config_gen.v *)
From PL Require Import Generated.Config_gen.
Definition ratio (num den : N) (n : nat) : nat := N.to_nat (N.of_nat n * num / den).
Definition tree_policy : policy :=
  Policy (ratio MAXIMUM_FREE_RATIO_num MAXIMUM_FREE_RATIO_den)
         (ratio MINIMUM_FREE_RATIO_num MINIMUM_FREE_RATIO_den)
         (ratio ALLOCATION_RATIO_num ALLOCATION_RATIO_den).
Definition tree_init : gstate := init_gstate (N.to_nat INITIAL_FREE_CELLS).
