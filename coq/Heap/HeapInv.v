(* The safety invariant of the heap together with the multiset L of addresses held by live
   handles and global definitions, and its preservation by the building blocks of every
   operation: taking a handle, dropping one, collecting, allocating. *)
From PL Require Import Heap.HeapModel Heap.MarkProofs Heap.SweepProofs Heap.CollectProofs.
From Coq Require Import Permutation.
Local Open Scope N_scope.

Definition cnt (a : addr) (L : list addr) : nat := count_occ N.eq_dec L a.

(* every non-null live address designates a used cell whose handle count covers the handles *)
Definition covered (h : heap) (L : list addr) : Prop :=
  forall a, In a L -> a <> 0 -> exists c, In c (used h) /\ box c = a /\ (cnt a L <= rc c)%nat.

Definition fresh_ok (h : heap) : Prop := Forall (fun c => box c < next h) (cells h) /\ 0 < next h.

Inductive inv (h : heap) (L : list addr) : Prop :=
  Inv : wf h -> closed h -> free_rc0 h -> fresh_ok h -> covered h L -> inv h L.

Lemma cnt_perm a L L' : Permutation L L' -> cnt a L = cnt a L'.
Proof.
  unfold cnt. intros Hp. induction Hp as [|x l l' Hp IH|x y l|l1 l2 l3 H1 IH1 H2 IH2]; cbn; auto.
  - destruct (N.eq_dec x a); congruence.
  - destruct (N.eq_dec x a), (N.eq_dec y a); reflexivity.
  - congruence.
Qed.

Lemma cnt_cons_eq a L : cnt a (a :: L) = S (cnt a L).
Proof. unfold cnt. cbn [count_occ]. destruct (N.eq_dec a a); [reflexivity|congruence]. Qed.
Lemma cnt_cons_neq a x L : x <> a -> cnt a (x :: L) = cnt a L.
Proof. intros H. unfold cnt. cbn [count_occ]. destruct (N.eq_dec x a); [congruence|reflexivity]. Qed.

Lemma inv_perm h L L' : Permutation L L' -> inv h L -> inv h L'.
Proof.
  intros Hp [H1 H2 H3 H4 H5]. constructor; auto.
  intros a Hin Hn. destruct (H5 a (Permutation_in _ (Permutation_sym Hp) Hin) Hn) as (c & Hc & Hb & Hle).
  exists c. repeat split; auto. rewrite <- (cnt_perm a L L' Hp). exact Hle.
Qed.

(* ---- bump ---- *)
Definition bumpc (d : bool) (a : addr) (c : cell) : cell :=
  if box c =? a then Cell (box c) (ckind c) (payload c) (kids c) (if d then S (rc c) else Nat.pred (rc c)) else c.

Lemma bump_cells d a h : a <> 0 -> cells (bump d a h) = map (bumpc d a) (cells h) /\ ff (bump d a h) = ff h /\ next (bump d a h) = next h /\ symtab (bump d a h) = symtab h.
Proof. intros Ha. unfold bump. destruct (N.eqb_spec a 0); [contradiction|]. cbn. auto. Qed.

Lemma bump_null d h : bump d 0 h = h.
Proof. reflexivity. Qed.

Lemma bumpc_box d a c : box (bumpc d a c) = box c.
Proof. unfold bumpc. destruct (box c =? a); reflexivity. Qed.
Lemma bumpc_kids d a c : kids (bumpc d a c) = kids c.
Proof. unfold bumpc. destruct (box c =? a); reflexivity. Qed.
Lemma bumpc_kind d a c : ckind (bumpc d a c) = ckind c /\ payload (bumpc d a c) = payload c.
Proof. unfold bumpc. destruct (box c =? a); auto. Qed.

Lemma boxes_bump d a l : boxes (map (bumpc d a) l) = boxes l.
Proof. unfold boxes. rewrite map_map. apply map_ext. intros c. apply bumpc_box. Qed.

Lemma used_bump d a h : a <> 0 -> used (bump d a h) = map (bumpc d a) (used h).
Proof. intros Ha. destruct (bump_cells d a h Ha) as (Hc & Hf & _). unfold used. rewrite Hc, Hf. apply firstn_map. Qed.
Lemma free_bump d a h : a <> 0 -> free (bump d a h) = map (bumpc d a) (free h).
Proof. intros Ha. destruct (bump_cells d a h Ha) as (Hc & Hf & _). unfold free. rewrite Hc, Hf. apply skipn_map. Qed.

Lemma bump_wf d a h : wf h -> wf (bump d a h).
Proof.
  destruct (N.eq_dec a 0) as [->|Ha]; [auto|]. intros (H1 & H2 & H3). destruct (bump_cells d a h Ha) as (Hc & Hf & _).
  unfold wf. rewrite Hc, Hf, boxes_bump, map_length. repeat split; auto.
  apply Forall_forall. intros c Hin. apply in_map_iff in Hin as (c0 & <- & Hin0). rewrite bumpc_box. rewrite Forall_forall in H2. auto.
Qed.

Lemma bump_closed d a h : closed h -> closed (bump d a h).
Proof.
  destruct (N.eq_dec a 0) as [->|Ha]; [auto|]. intros Hcl c b Hin Hk Hb.
  rewrite used_bump in * by exact Ha. rewrite boxes_bump.
  apply in_map_iff in Hin as (c0 & <- & Hin0). rewrite bumpc_kids in Hk. eapply Hcl; eassumption.
Qed.

Lemma bump_fresh d a h : fresh_ok h -> fresh_ok (bump d a h).
Proof.
  destruct (N.eq_dec a 0) as [->|Ha]; [auto|]. unfold fresh_ok. destruct (bump_cells d a h Ha) as (Hc & _ & Hn & _).
  rewrite Hc, Hn. intros [H H0]. split; [|exact H0]. apply Forall_forall. intros c Hin. apply in_map_iff in Hin as (c0 & <- & Hin0).
  rewrite bumpc_box. rewrite Forall_forall in H. auto.
Qed.

Lemma bump_free_rc0 d a h : wf h -> In a (boxes (used h)) -> free_rc0 h -> free_rc0 (bump d a h).
Proof.
  intros (Hnd & Hnz & Hle) Hin Hfr.
  assert (Ha : a <> 0).
  { apply in_map_iff in Hin as (c & <- & Hc). rewrite Forall_forall in Hnz. apply Hnz. apply In_used_cells. exact Hc. }
  unfold free_rc0. rewrite free_bump by exact Ha. apply Forall_forall. intros c Hc.
  apply in_map_iff in Hc as (c0 & <- & Hc0). unfold free_rc0 in Hfr. rewrite Forall_forall in Hfr.
  unfold bumpc. destruct (N.eqb_spec (box c0) a) as [E|E]; [|apply Hfr; exact Hc0].
  (* a free cell cannot have the box of a used cell *)
  exfalso. rewrite used_free in Hnd. unfold boxes in Hnd. rewrite map_app in Hnd.
  apply in_map_iff in Hin as (c1 & Hb1 & Hc1).
  rewrite <- Hb1 in E. clear -Hnd Hc0 Hc1 E. induction (used h) as [|y l IH]; [destruct Hc1|].
  cbn in Hnd. inversion Hnd as [|x0 l0 Hnot Hn [Hx Hl]]. destruct Hc1 as [Hy|Hc1].
  - apply Hnot. apply in_or_app. right. rewrite Hy, <- E. apply in_map. exact Hc0.
  - apply IH; assumption.
Qed.

(* taking a handle to a used cell (GcRef::new / clone) *)
Lemma inv_incr h L a : inv h L -> a = 0 \/ In a (boxes (used h)) -> inv (incr a h) (a :: L).
Proof.
  intros [Hwf Hcl Hfr Hfs Hcov] Ha.
  destruct (N.eq_dec a 0) as [->|Hn].
  - unfold incr. rewrite bump_null. constructor; auto.
    intros b [<-|Hb] Hb0; [congruence|]. destruct (Hcov b Hb Hb0) as (c & Hc & Hbx & Hle). exists c. repeat split; auto.
    rewrite cnt_cons_neq by congruence. exact Hle.
  - destruct Ha as [Ha|Ha]; [contradiction|]. unfold incr.
    constructor; [apply bump_wf|apply bump_closed|apply bump_free_rc0|apply bump_fresh|]; auto.
    intros b Hb Hb0. rewrite used_bump by exact Hn.
    destruct (N.eq_dec a b) as [<-|Hab].
    + apply in_map_iff in Ha as (c & Hbx & Hc). exists (bumpc true a c). split; [apply in_map; exact Hc|]. split; [rewrite bumpc_box; exact Hbx|].
      unfold bumpc. rewrite Hbx, N.eqb_refl. cbn [rc]. rewrite cnt_cons_eq.
      destruct (in_dec N.eq_dec a L) as [HinL|HnL].
      * destruct (Hcov a HinL Hn) as (c' & Hc' & Hbx' & Hle).
        assert (c' = c).
        { destruct Hwf as (Hnd & _). pose proof (find_cell_nodup _ c Hnd (In_used_cells h c Hc)) as H1.
          pose proof (find_cell_nodup _ c' Hnd (In_used_cells h c' Hc')) as H2. rewrite Hbx in H1. rewrite Hbx' in H2. congruence. }
        subst c'. lia.
      * unfold cnt. rewrite (proj1 (count_occ_not_In N.eq_dec L a) HnL). lia.
    + destruct Hb as [Hb|Hb]; [congruence|]. destruct (Hcov b Hb Hb0) as (c & Hc & Hbx & Hle).
      exists (bumpc true a c). split; [apply in_map; exact Hc|]. split; [rewrite bumpc_box; exact Hbx|].
      unfold bumpc. destruct (N.eqb_spec (box c) a); [congruence|]. rewrite cnt_cons_neq by exact Hab. exact Hle.
Qed.

(* dropping a handle (GcRef::drop) *)
Lemma inv_decr h L a : inv h (a :: L) -> inv (decr a h) L.
Proof.
  intros [Hwf Hcl Hfr Hfs Hcov].
  destruct (N.eq_dec a 0) as [->|Hn].
  - unfold decr. rewrite bump_null. constructor; auto.
    intros b Hb Hb0. destruct (Hcov b (or_intror Hb) Hb0) as (c & Hc & Hbx & Hle). exists c. repeat split; auto.
    rewrite cnt_cons_neq in Hle by congruence. exact Hle.
  - destruct (Hcov a (or_introl eq_refl) Hn) as (ca & Hca & Hbxa & Hlea).
    assert (Hina : In a (boxes (used h))) by (rewrite <- Hbxa; apply in_map; exact Hca).
    unfold decr. constructor; [apply bump_wf|apply bump_closed|apply bump_free_rc0|apply bump_fresh|]; auto.
    intros b Hb Hb0. rewrite used_bump by exact Hn.
    destruct (Hcov b (or_intror Hb) Hb0) as (c & Hc & Hbx & Hle).
    exists (bumpc false a c). split; [apply in_map; exact Hc|]. split; [rewrite bumpc_box; exact Hbx|].
    unfold bumpc. destruct (N.eqb_spec (box c) a) as [E|E]; cbn [rc].
    + assert (Hab : b = a) by congruence. rewrite Hab in Hle |- *. rewrite cnt_cons_eq in Hle. lia.
    + rewrite cnt_cons_neq in Hle by congruence. exact Hle.
Qed.

(* a live address is a root, hence reachable *)
Lemma live_reach h L a : inv h L -> In a L -> a <> 0 -> HReach h a.
Proof.
  intros [Hwf Hcl Hfr Hfs Hcov] Hin Hn. destruct (Hcov a Hin Hn) as (c & Hc & Hbx & Hle).
  rewrite <- Hbx. apply root_reach; [exact Hc| |apply Hwf].
  unfold cnt in Hle. pose proof (proj1 (count_occ_In N.eq_dec L a) Hin). lia.
Qed.

(* every reachable address designates a used cell: nothing reachable dangles *)
Theorem reach_used h L a : inv h L -> HReach h a -> exists c, In c (used h) /\ box c = a /\ find_cell a (cells h) = Some c.
Proof.
  intros [Hwf Hcl Hfr Hfs Hcov] Hr. destruct Hwf as (Hnd & Hnz & Hle).
  induction Hr as [a Hin Hn|a c b Hra IH Hfc Hk Hn].
  - unfold roots in Hin. apply in_map_iff in Hin as (c & Hb & Hf). apply filter_In in Hf as [Hf _].
    exists c. repeat split; auto. rewrite <- Hb. apply find_cell_nodup; [exact Hnd|apply In_used_cells; exact Hf].
  - destruct IH as (c1 & Hc1 & Hb1 & Hf1). rewrite Hfc in Hf1. injection Hf1 as <-.
    pose proof (Hcl c b Hc1 Hk Hn) as Hbx. apply in_map_iff in Hbx as (c2 & Hb2 & Hc2).
    exists c2. repeat split; auto. rewrite <- Hb2. apply find_cell_nodup; [exact Hnd|apply In_used_cells; exact Hc2].
Qed.

(* collection *)
Lemma collect_fresh p h h' : fresh_ok h -> collect p h = Some h' -> fresh_ok h'.
Proof.
  intros Hf Hc. destruct (collect_pieces p h h' Hc) as (marked & k & f & Hm & Hp & Fk & Ff & Hu & Hff & Hs & Hn & n & Hcells).
  unfold fresh_ok in *. rewrite Hn. destruct Hf as [Hf H0]. split; [|exact H0]. apply Forall_forall. intros c Hin. rewrite Forall_forall in Hf. apply Hf. eapply cells_sub; eassumption.
Qed.

Lemma inv_collect p h h' L : inv h L -> collect p h = Some h' -> inv h' L.
Proof.
  intros Hinv Hc. pose proof Hinv as [Hwf Hcl Hfr Hfs Hcov].
  constructor; [eapply collect_wf|eapply collect_closed|eapply collect_free_rc0|eapply collect_fresh|]; eauto.
  intros a Hin Hn. destruct (Hcov a Hin Hn) as (c & Hcu & Hbx & Hle). exists c. repeat split; auto.
  apply (collect_used_exact p h h' Hc c). split; [exact Hcu|]. rewrite Hbx. eapply live_reach; eassumption.
Qed.
