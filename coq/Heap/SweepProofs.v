(* The swap-sweep partitions the used prefix into the marked cells (kept) and the unmarked
   ones (freed): nothing is lost, duplicated or altered. *)
From PL Require Import Heap.HeapModel Heap.MarkProofs.
From Coq Require Import Permutation.
Local Open Scope N_scope.

Lemma unsnoc_spec {A} (l : list A) : match unsnoc l with
                                     | None => l = []
                                     | Some (i, x) => l = i ++ [x]
                                     end.
Proof.
  induction l as [|a l IH]; [reflexivity|]. cbn [unsnoc]. destruct l as [|b l]; [reflexivity|].
  destruct (unsnoc (b :: l)) as [[i x]|]; [|discriminate]. rewrite IH. reflexivity.
Qed.

Lemma sweep_spec marked : forall n kept_rev todo freed kept freed',
  (List.length todo <= n)%nat ->
  sweep n marked kept_rev todo freed = (kept, freed') ->
  exists k f, kept = rev kept_rev ++ k /\ freed' = f ++ freed /\ Permutation (k ++ f) todo /\
              Forall (fun c => mem_addr (box c) marked = true) k /\
              Forall (fun c => mem_addr (box c) marked = false) f.
Proof.
  induction n as [|n IH]; intros kept_rev todo freed kept freed' Hn Hs.
  - destruct todo; [|cbn in Hn; lia]. cbn in Hs. injection Hs as <- <-.
    exists [], []. rewrite !app_nil_r. repeat split; auto.
  - cbn [sweep] in Hs. destruct todo as [|x t].
    + injection Hs as <- <-. exists [], []. rewrite !app_nil_r. repeat split; auto.
    + destruct (mem_addr (box x) marked) eqn:Em.
      * destruct (IH (x :: kept_rev) t freed kept freed' ltac:(cbn in Hn; lia) Hs) as (k & f & Hk & Hf & Hp & Fk & Ff).
        exists (x :: k), f. cbn [rev] in Hk. rewrite <- app_assoc in Hk. repeat split; auto.
        cbn. constructor. exact Hp.
      * pose proof (unsnoc_spec t) as Hu. destruct (unsnoc t) as [[mid l]|].
        -- subst t.
           destruct (IH kept_rev (l :: mid) (x :: freed) kept freed') as (k & f & Hk & Hf & Hp & Fk & Ff); [|exact Hs|].
           { cbn in Hn. rewrite app_length in Hn. cbn in *. lia. }
           exists k, (f ++ [x]). repeat split; auto.
           ++ rewrite Hf, <- app_assoc. reflexivity.
           ++ rewrite app_assoc. apply Permutation_trans with (x :: k ++ f); [apply Permutation_sym, Permutation_cons_append|].
              constructor. apply Permutation_trans with (l :: mid); [exact Hp|]. apply Permutation_cons_append.
           ++ apply Forall_app; split; [exact Ff|]. constructor; [exact Em|constructor].
        -- subst t. injection Hs as <- <-. exists [], [x]. rewrite app_nil_r. repeat split; auto.
Qed.
