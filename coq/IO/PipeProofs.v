From PL Require Import IO.Pipe.
Local Open Scope N_scope.

(* the abstract stream: bytes and flush marks *)
Inductive item := IB (b : N) | IMark.

Definition items_msg (m : msg) : list item := match m with MBytes bs => map IB bs | MEof => [IMark] end.
Definition pending (p : pipe) : list item := map IB (buf p) ++ flat_map items_msg (chan p).

Definition sent_op (o : pop) : list item :=
  match o with PWrite bs => map IB bs | PFlush => [IMark] | PRead _ => [] end.
Definition recv_out (x : pout) : list item :=
  match x with ORead [] => [IMark] | ORead bs => map IB bs | _ => [] end.

(* side conditions of the property: writes and read buffers are non-empty *)
Definition op_ok (o : pop) : Prop :=
  match o with PWrite bs => bs <> [] | PFlush => True | PRead n => (0 < n)%nat end.
Definition chan_ok (p : pipe) : Prop := Forall (fun m => m <> MBytes []) (chan p).

Lemma flat_map_app' {A B} (f : A -> list B) l1 l2 : flat_map f (l1 ++ l2) = flat_map f l1 ++ flat_map f l2.
Proof. induction l1; cbn; [reflexivity|]. rewrite IHl1, app_assoc. reflexivity. Qed.

Lemma recv_firstn (k : nat) (b : list N) : (0 < k)%nat -> b <> [] ->
  recv_out (ORead (firstn k b)) = map IB (firstn k b).
Proof. intros Hk Hb. destruct k; [lia|]. destruct b; [congruence|]. reflexivity. Qed.

Lemma drain_stream n b c : (0 < n)%nat -> b <> [] ->
  let '(p', x) := drain n b c in
  map IB b ++ flat_map items_msg c = recv_out x ++ pending p'.
Proof.
  intros Hn Hb. unfold drain, pending. cbn [buf chan].
  assert (Hk : (0 < Nat.min n (length b))%nat) by (destruct b; [congruence|cbn; lia]).
  rewrite recv_firstn by assumption.
  rewrite app_assoc, <- map_app, firstn_skipn. reflexivity.
Qed.

Lemma step_stream p o : chan_ok p -> op_ok o ->
  let '(p', x) := step p o in
  pending p ++ sent_op o = recv_out x ++ pending p' /\ chan_ok p'.
Proof.
  intros Hc Ho. destruct o as [bs| |n]; cbn [step sent_op].
  - unfold pending, chan_ok in *. cbn [chan buf recv_out]. rewrite flat_map_app'. cbn.
    rewrite app_nil_r, app_assoc. split; [reflexivity|].
    apply Forall_app; split; [exact Hc|]. constructor; [|constructor]. cbn in Ho. congruence.
  - unfold pending, chan_ok in *. cbn [chan buf recv_out]. rewrite flat_map_app'. cbn.
    rewrite app_assoc. split; [reflexivity|].
    apply Forall_app; split; [exact Hc|]. constructor; [congruence|constructor].
  - cbn in Ho. rewrite app_nil_r. destruct p as [c b]. cbn [buf chan]. destruct b as [|b0 b].
    + destruct c as [|[bs|] c].
      * split; [reflexivity|exact Hc].
      * unfold chan_ok in *. cbn [chan] in *. inversion Hc as [|? ? Hbs Hrest]; subst.
        assert (Hne : bs <> []) by congruence.
        pose proof (drain_stream n bs c Ho Hne) as H. destruct (drain n bs c) as [p' x] eqn:E.
        unfold pending at 1. cbn [buf chan map flat_map items_msg app].
        split; [exact H|]. unfold drain in E. injection E as <- _. exact Hrest.
      * unfold chan_ok in *. cbn [chan] in *. inversion Hc as [|? ? _ Hrest]; subst.
        split; [reflexivity|exact Hrest].
    + pose proof (drain_stream n (b0 :: b) c Ho ltac:(congruence)) as H.
      destruct (drain n (b0 :: b) c) as [p' x] eqn:E.
      unfold pending at 1. cbn [buf chan]. split; [exact H|].
      unfold drain in E. injection E as <- _. exact Hc.
Qed.

(* exactly-once, in-order delivery with flush marks in place, for every operation sequence *)
Theorem run_stream : forall ops p, chan_ok p -> Forall op_ok ops ->
  let '(p', xs) := run p ops in
  pending p ++ flat_map sent_op ops = flat_map recv_out xs ++ pending p' /\ chan_ok p'.
Proof.
  induction ops as [|o ops IH]; intros p Hc Hops; cbn [run flat_map].
  - rewrite app_nil_r. split; [reflexivity|exact Hc].
  - inversion Hops as [|? ? Ho Hrest]; subst.
    pose proof (step_stream p o Hc Ho) as Hs. destruct (step p o) as [p1 x].
    destruct Hs as [Hs Hc1]. specialize (IH p1 Hc1 Hrest). destruct (run p1 ops) as [p2 xs].
    destruct IH as [IH Hc2]. split; [|exact Hc2].
    rewrite app_assoc, Hs, <- app_assoc, IH, app_assoc. reflexivity.
Qed.

Corollary fifo_from_empty ops : Forall op_ok ops ->
  let '(p', xs) := run pipe_init ops in
  flat_map sent_op ops = flat_map recv_out xs ++ pending p'.
Proof.
  intros H. pose proof (run_stream ops pipe_init ltac:(constructor) H) as R.
  destruct (run pipe_init ops) as [p' xs]. destruct R as [R _]. exact R.
Qed.

(* an empty pipe times out: no data, no end-of-message *)
Lemma empty_read_times_out n : step pipe_init (PRead n) = (pipe_init, OTimeout).
Proof. reflexivity. Qed.

Lemma read_empty_iff_nothing_pending p n : chan_ok p -> (0 < n)%nat ->
  (snd (step p (PRead n)) = OTimeout <-> pending p = []).
Proof.
  intros Hc Hn. destruct p as [c b]. unfold pending. cbn [step buf chan].
  destruct b as [|b0 b].
  - destruct c as [|[bs|] c]; cbn.
    + split; auto.
    + unfold chan_ok in Hc. cbn in Hc. inversion Hc as [|? ? Hbs _]; subst.
      destruct bs; [congruence|]. split; [discriminate|]. cbn. discriminate.
    + split; discriminate.
  - split; [discriminate|]. cbn. discriminate.
Qed.

(* a read never returns more than the buffer size, and returns data whenever data is next *)
Lemma read_bounded p n : match snd (step p (PRead n)) with ORead bs => (length bs <= n)%nat | _ => True end.
Proof.
  destruct p as [c b]. cbn [step buf chan]. destruct b as [|b0 b].
  - destruct c as [|[bs|] c]; cbn; auto; [|lia].
    rewrite firstn_length. lia.
  - cbn [drain snd]. rewrite firstn_length. lia.
Qed.

(* recorded: an EMPTY write is observed as a spurious zero-length read (the side condition
   of the theorem is necessary) *)
Lemma empty_write_looks_like_flush :
  snd (run pipe_init [PWrite []; PRead 1%nat]) = [OWrote 0%nat; ORead []].
Proof. reflexivity. Qed.

Example fifo_example :
  Forall op_ok [PWrite [1;2;3]; PFlush; PRead 2%nat; PRead 2%nat; PRead 2%nat; PRead 2%nat] /\
  snd (run pipe_init [PWrite [1;2;3]; PFlush; PRead 2%nat; PRead 2%nat; PRead 2%nat; PRead 2%nat])
  = [OWrote 3%nat; OFlushed; ORead [1;2]; ORead [3]; ORead []; OTimeout].
Proof. split; [repeat constructor; cbn; (congruence || lia)|reflexivity]. Qed.
