From PL Require Import IO.Stdin.
Local Open Scope N_scope.

Lemma split_nl_acc t : forall acc, split_nl t acc = match split_nl t [] with Some (l, r) => Some (rev acc ++ l, r) | None => None end.
Proof.
  induction t as [|c t IH]; intros acc; [reflexivity|]. cbn [split_nl]. destruct (c =? c_nl).
  - reflexivity.
  - rewrite IH. rewrite (IH [c]). destruct (split_nl t []) as [[l r]|]; [|reflexivity]. cbn [rev app]. rewrite <- app_assoc. reflexivity.
Qed.

Lemma split_nl_app_some a b l r : split_nl a [] = Some (l, r) -> split_nl (a ++ b) [] = Some (l, r ++ b).
Proof.
  revert l r. induction a as [|c a IH]; intros l r H; [discriminate|]. cbn [split_nl app] in *. destruct (c =? c_nl).
  - injection H as <- <-. reflexivity.
  - rewrite split_nl_acc in H |- *. destruct (split_nl a []) as [[l0 r0]|] eqn:E; [|discriminate]. injection H as <- <-.
    rewrite (IH l0 r0 eq_refl). reflexivity.
Qed.

Lemma split_nl_app_none a b : split_nl a [] = None ->
  split_nl (a ++ b) [] = match split_nl b [] with Some (l, r) => Some (a ++ l, r) | None => None end.
Proof.
  induction a as [|c a IH]; intros H; cbn [app].
  - destruct (split_nl b []) as [[l r]|]; reflexivity.
  - cbn [split_nl] in *. destruct (c =? c_nl); [discriminate|]. rewrite split_nl_acc in H |- *.
    destruct (split_nl a []) as [[l0 r0]|] eqn:E; [discriminate|]. rewrite (IH eq_refl).
    destruct (split_nl b []) as [[l r]|]; reflexivity.
Qed.

Lemma split_nl_shorter t l r : split_nl t [] = Some (l, r) -> (List.length r < List.length t)%nat /\ l <> [] /\ t = l ++ r.
Proof.
  revert l r. induction t as [|c t IH]; intros l r H; [discriminate|]. cbn [split_nl] in H. destruct (c =? c_nl).
  - injection H as <- <-. cbn. repeat split; [lia|discriminate].
  - rewrite split_nl_acc in H. destruct (split_nl t []) as [[l0 r0]|] eqn:E; [|discriminate]. injection H as <- <-.
    destruct (IH l0 r0 eq_refl) as (H1 & H2 & H3). cbn. repeat split; [lia|discriminate|]. rewrite H3. reflexivity.
Qed.

Definition no_empty (cs : list text) : Prop := Forall (fun c => c <> []) cs.

(* one call: the line returned is the first line of the whole pending text, and the pending
   text shrinks by exactly that line *)
Lemma read_line_spec : forall cs acc, no_empty cs ->
  let '(l, rest) := read_line cs acc in
  no_empty rest /\
  match split_nl (concat cs) [] with
  | Some (l0, r0) => l = acc ++ l0 /\ concat rest = r0
  | None => l = acc ++ concat cs /\ rest = []
  end.
Proof.
  induction cs as [|c cs IH]; intros acc Hne.
  - cbn. rewrite app_nil_r. repeat split. constructor.
  - inversion Hne as [|? ? Hc Hcs]; subst. cbn [read_line concat]. destruct c as [|x c]; [congruence|].
    destruct (split_nl (x :: c) []) as [[l0 r0]|] eqn:E.
    + rewrite (split_nl_app_some _ (concat cs) l0 r0 E). destruct r0 as [|y r0].
      * split; [exact Hcs|]. split; reflexivity.
      * split; [constructor; [discriminate|exact Hcs]|]. split; reflexivity.
    + specialize (IH (acc ++ x :: c) Hcs). destruct (read_line cs (acc ++ x :: c)) as [l rest]. destruct IH as [Hr Hs].
      split; [exact Hr|]. rewrite (split_nl_app_none _ (concat cs) E).
      destruct (split_nl (concat cs) []) as [[l1 r1]|].
      * destruct Hs as [-> ->]. split; [rewrite <- app_assoc; reflexivity|reflexivity].
      * destruct Hs as [-> ->]. split; [rewrite <- app_assoc; reflexivity|reflexivity].
Qed.

(* every line exactly once and in order, however the bytes are batched *)
Theorem lines_exactly_once : forall fuel cs, no_empty cs -> (List.length (concat cs) < fuel)%nat ->
  all_lines fuel cs = lines_of fuel (concat cs).
Proof.
  induction fuel as [|f IH]; intros cs Hne Hf; [lia|].
  cbn [all_lines lines_of]. pose proof (read_line_spec cs [] Hne) as Hs. destruct (read_line cs []) as [l rest]. destruct Hs as [Hr Hs].
  destruct (concat cs) as [|x t] eqn:Ec.
  - cbn in Hs. destruct Hs as [-> ->]. reflexivity.
  - destruct (split_nl (x :: t) []) as [[l0 r0]|] eqn:E.
    + destruct Hs as [-> Hrest]. cbn [app]. destruct (split_nl_shorter _ _ _ E) as (Hlen & Hnz & _).
      destruct l0 as [|y l0]; [congruence|]. f_equal. rewrite <- Hrest. apply IH; [exact Hr|]. rewrite Hrest. cbn in Hf, Hlen. lia.
    + destruct Hs as [-> ->]. cbn [app]. f_equal. destruct f; reflexivity.
Qed.

(* the chunking does not matter: two ways of batching the same bytes give the same lines *)
Corollary chunking_irrelevant fuel cs cs' : no_empty cs -> no_empty cs' -> concat cs = concat cs' ->
  (List.length (concat cs) < fuel)%nat -> all_lines fuel cs = all_lines fuel cs'.
Proof. intros H1 H2 E Hf. rewrite (lines_exactly_once fuel cs H1 Hf), (lines_exactly_once fuel cs' H2); [rewrite E; reflexivity|rewrite <- E; exact Hf]. Qed.

(* what the reader created afresh for every call did (the defect that was repaired): the rest
   of a chunk after the first newline is lost *)
Fixpoint read_line_fresh (chunks : list text) (acc : text) : text * list text :=
  match chunks with
  | [] => (acc, [])
  | [] :: r => (acc, r)
  | c :: r => match split_nl c [] with
              | Some (l, _) => (acc ++ l, r)
              | None => read_line_fresh r (acc ++ c)
              end
  end.

Lemma fresh_reader_loses_lines :
  let two_lines_one_chunk := [[97; 10; 98; 10]] in
  fst (read_line_fresh two_lines_one_chunk []) = [97; 10] /\ snd (read_line_fresh two_lines_one_chunk []) = [] /\
  all_lines 10 two_lines_one_chunk = [[97; 10]; [98; 10]].
Proof. vm_compute. repeat split. Qed.
