(* Standard input through ONE buffered reader that lives as long as the interpreter
   (src/native/io/mod.rs input_file on *stdin*, src/memory/mod.rs Memory.stdin): the OS
   delivers the bytes in chunks; read_line returns up to and including the next newline;
   what follows the newline in the chunk stays buffered for the next call. *)
From PL Require Export Base.Chars.
Local Open Scope N_scope.

Fixpoint split_nl (t acc : text) : option (text * text) :=
  match t with
  | [] => None
  | c :: r => if c =? c_nl then Some (rev (c :: acc), r) else split_nl r (c :: acc)
  end.

(* the pending input: the buffered leftover (if any) is the first chunk; an EMPTY chunk is a
   read that returned 0 bytes (end of file at that moment) *)
Fixpoint read_line (chunks : list text) (acc : text) : text * list text :=
  match chunks with
  | [] => (acc, [])
  | [] :: r => (acc, r)
  | c :: r => match split_nl c [] with
              | Some (l, []) => (acc ++ l, r)
              | Some (l, rest) => (acc ++ l, rest :: r)
              | None => read_line r (acc ++ c)
              end
  end.

(* the lines a program sees by calling input-file until end of file *)
Fixpoint all_lines (fuel : nat) (chunks : list text) : list text :=
  match fuel with
  | O => []
  | S f => match read_line chunks [] with
           | ([], _) => []
           | (l, rest) => l :: all_lines f rest
           end
  end.

(* specification: cut the whole byte string after every newline *)
Fixpoint lines_of (fuel : nat) (t : text) : list text :=
  match fuel with
  | O => []
  | S f => match t with
           | [] => []
           | _ => match split_nl t [] with
                  | Some (l, rest) => l :: lines_of f rest
                  | None => [t]
                  end
           end
  end.
