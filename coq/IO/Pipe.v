(* The in-process byte pipe of src/io/mod.rs: IoSender::write / flush put messages into an
   mpsc channel, IoReceiver::read drains its private buffer and, when that is empty, takes
   the next message (or times out).  [step] transcribes the three methods. *)
From PL Require Export Base.Chars.
Local Open Scope N_scope.

Inductive msg := MBytes (bs : list N) | MEof.
Record pipe := { chan : list msg; buf : list N }.
Definition pipe_init : pipe := {| chan := []; buf := [] |}.

Inductive pop := PWrite (bs : list N) | PFlush | PRead (n : nat).
Inductive pout := OWrote (n : nat) | OFlushed | ORead (bs : list N) | OTimeout.

Definition drain (n : nat) (b : list N) (c : list msg) : pipe * pout :=
  let k := Nat.min n (length b) in
  ({| chan := c; buf := skipn k b |}, ORead (firstn k b)).

Definition step (p : pipe) (o : pop) : pipe * pout :=
  match o with
  | PWrite bs => ({| chan := chan p ++ [MBytes bs]; buf := buf p |}, OWrote (length bs))
  | PFlush => ({| chan := chan p ++ [MEof]; buf := buf p |}, OFlushed)
  | PRead n =>
    match buf p with
    | [] => match chan p with
            | [] => (p, OTimeout)
            | MEof :: c => ({| chan := c; buf := [] |}, ORead [])
            | MBytes bs :: c => drain n bs c
            end
    | b => drain n b (chan p)
    end
  end.

Fixpoint run (p : pipe) (ops : list pop) : pipe * list pout :=
  match ops with
  | [] => (p, [])
  | o :: r => let '(p1, x) := step p o in let '(p2, xs) := run p1 r in (p2, x :: xs)
  end.

Definition pout_eqb (a b : pout) : bool :=
  match a, b with
  | OWrote x, OWrote y => Nat.eqb x y
  | OFlushed, OFlushed => true
  | ORead x, ORead y => text_eqb x y
  | OTimeout, OTimeout => true
  | _, _ => false
  end.

Fixpoint pouts_eqb (a b : list pout) : bool :=
  match a, b with
  | [], [] => true
  | x :: a', y :: b' => pout_eqb x y && pouts_eqb a' b'
  | _, _ => false
  end.
