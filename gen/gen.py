#!/usr/bin/env python3
"""Translator /repo -> /verif/coq/Generated/*.v  (run on every check).

Regular-expression level, not a Rust parser.  Every extraction either succeeds or raises
TieBroken(name, why): a pattern that can no longer be found is a broken tie between the
model and the source, never silently skipped.  Files are rewritten only if their content
changes, so `make` stays incremental."""
import os, re, sys, json

REPO = os.environ.get("VERIF_REPO", "/repo")
OUT = os.path.join(os.path.dirname(os.path.abspath(__file__)), "..", "coq", "Generated")

class TieBroken(Exception):
    def __init__(self, name, why):
        super().__init__(f"{name}: {why}")
        self.name, self.why = name, why

def src(path):
    with open(os.path.join(REPO, path), encoding="utf-8") as f:
        return f.read()

def coq_string(s):
    return '"' + s.replace('"', '""') + '"'

def coq_text(s):
    """a Coq term of type [list N] holding the code points of s"""
    return "[" + ";".join(str(ord(c)) for c in s) + "]%N"

def write_if_changed(name, content):
    os.makedirs(OUT, exist_ok=True)
    p = os.path.join(OUT, name)
    old = None
    if os.path.exists(p):
        with open(p, encoding="utf-8") as f:
            old = f.read()
    if old != content:
        with open(p, "w", encoding="utf-8") as f:
            f.write(content)
        return True
    return False

def fn_body(text, name):
    """body (between the outermost braces) of `fn name(`"""
    m = re.search(r"\bfn\s+" + re.escape(name) + r"\s*(<[^>]*>)?\s*\(", text)
    if not m:
        raise TieBroken(name, "function not found")
    i = text.index("{", m.end())
    depth, j = 0, i
    while j < len(text):
        if text[j] == "{":
            depth += 1
        elif text[j] == "}":
            depth -= 1
            if depth == 0:
                return text[i + 1:j]
        j += 1
    raise TieBroken(name, "unbalanced braces")

def squash(s):
    s = re.sub(r"//[^\n]*", "", s)
    return re.sub(r"\s+", " ", s).strip()

# ---------------------------------------------------------------------------
# config.rs
# ---------------------------------------------------------------------------
def gen_config():
    t = src("src/config.rs")
    def const(name, ty):
        m = re.search(r"pub const " + name + r"\s*:\s*" + ty + r"\s*=\s*([^;]+);", t)
        if not m:
            raise TieBroken("config." + name, "constant not found")
        return m.group(1).strip()
    def ratio(name):
        v = const(name, "f32")
        m = re.fullmatch(r"(\d+)\.(\d+)", v)
        if not m:
            raise TieBroken("config." + name, f"cannot read f32 literal {v}")
        num = int(m.group(1) + m.group(2)); den = 10 ** len(m.group(2))
        from math import gcd
        g = gcd(num, den)
        return num // g, den // g
    def usize(name):
        v = const(name, "usize")
        try:
            return int(eval(v.replace("_", ""), {"__builtins__": {}}))
        except Exception:
            raise TieBroken("config." + name, f"cannot evaluate {v}")
    lines = ["(* GENERATED from src/config.rs by gen/gen.py - do not edit *)",
             "From Coq Require Import NArith.", "Local Open Scope N_scope.", ""]
    for n in ["INITIAL_FREE_CELLS", "MAX_RECURSION_DEPTH", "GUI_OUTPUT_BUFFER_SIZE", "CALL_STACK_SIZE"]:
        lines.append(f"Definition {n} : N := {usize(n)}.")
    for n in ["MAXIMUM_FREE_RATIO", "MINIMUM_FREE_RATIO", "ALLOCATION_RATIO"]:
        a, b = ratio(n)
        lines.append(f"Definition {n}_num : N := {a}.")
        lines.append(f"Definition {n}_den : N := {b}.")
    return "\n".join(lines) + "\n"

# ---------------------------------------------------------------------------
# numbers/mod.rs : the shape of each arithmetic native
# ---------------------------------------------------------------------------
OPS = {"add": "OpAdd", "sub": "OpSub", "mul": "OpMul", "div": "OpDiv", "rem": "OpRem"}
RAWOPS = {"+": "OpAdd", "-": "OpSub", "*": "OpMul", "/": "OpDiv", "%": "OpRem"}
CMPS = {"<": "CmpLt", ">": "CmpGt", "<=": "CmpLe", ">=": "CmpGe"}

def arith_shape(name, body):
    b = squash(body)
    m = re.match(r"validate_args!\(mem, (\w+)\.name, args, \(let x: TypeLabel::Number\), \(let y: TypeLabel::Number\)\); (.*)$", b)
    if not m:
        raise TieBroken("numbers." + name, "argument validation is not (x: Number, y: Number)")
    rest = m.group(2)
    ERR = r'Err\(make_error\(mem, "([a-z-]+)", \w+\.name, &vec!\[\]\)\)'
    OKN = r"Ok\(mem\.allocate_number\((.+?)\)\)"
    def value_shape(e, guard):
        # e: expression producing the Ok/Err result for the non-guarded case
        mm = re.fullmatch(r"if let Some\(z\) = x\.checked_(\w+)\(\*y\) \{ " + OKN + r" \} else \{ " + ERR + r" \}", e)
        if mm and mm.group(2) == "z" and mm.group(1) in OPS:
            return f'AOp {guard} Checked {OPS[mm.group(1)]} {coq_string(mm.group(3))}'
        mm = re.fullmatch(OKN, e)
        if mm:
            v = mm.group(1)
            m2 = re.fullmatch(r"x\.(wrapping|saturating)_(\w+)\(\*y\)", v)
            if m2 and m2.group(2) in OPS:
                return f'AOp {guard} {m2.group(1).capitalize()} {OPS[m2.group(2)]} ""'
            m2 = re.fullmatch(r"\*x ([-+*/%]) \*y", v)
            if m2:
                return f'AOp {guard} Raw {RAWOPS[m2.group(1)]} ""'
        raise TieBroken("numbers." + name, "unrecognised result expression: " + e)
    mm = re.fullmatch(r"if \*y == 0 \{ " + ERR + r" \} else (?:\{ (.*) \}|(if let .*))", rest)
    if mm:
        inner = mm.group(2) if mm.group(2) is not None else mm.group(3)
        return value_shape(inner, f"(Some {coq_string(mm.group(1))})")
    mm = re.fullmatch(r'if \*x (<=|>=|<|>) \*y \{ Ok\(mem\.symbol_for\("t"\)\) \} else \{ Ok\(GcRef::nil\(\)\) \}', rest)
    if mm:
        return f"ACmp {CMPS[mm.group(1)]}"
    return value_shape(rest, "None")

def gen_numbers():
    t = src("src/native/numbers/mod.rs")
    consts = re.findall(r"pub const (\w+): NativeFunctionMetaData =\s*NativeFunctionMetaData\{\s*function:\s*(\w+),\s*name:\s*\"([^\"]+)\"", t)
    if not consts:
        raise TieBroken("numbers", "no native function descriptors found")
    lines = ["(* GENERATED from src/native/numbers/mod.rs by gen/gen.py - do not edit *)",
             "From PL Require Import Data.Arith.", "From Coq Require Import String List.", "Import ListNotations.",
             "Local Open Scope string_scope.", "",
             "Definition numbers_impl : list (string * arith_impl) :=", "  ["]
    items = []
    for const, fn, lname in consts:
        items.append(f"   ({coq_string(lname)}, {arith_shape(fn, fn_body(t, fn))})")
    lines.append(";\n".join(items))
    lines.append("  ].")
    return "\n".join(lines) + "\n"

# ---------------------------------------------------------------------------
# native table: load order, name, kind, parameter names, documentation, validate_args! signature
# ---------------------------------------------------------------------------
def rust_unescape(lit, raw):
    if raw:
        return lit
    out, i = [], 0
    while i < len(lit):
        c = lit[i]
        if c == "\\" and i + 1 < len(lit):
            n = lit[i + 1]
            if n == "n": out.append("\n"); i += 2
            elif n == "t": out.append("\t"); i += 2
            elif n == "r": out.append("\r"); i += 2
            elif n == "\\": out.append("\\"); i += 2
            elif n == '"': out.append('"'); i += 2
            elif n == "'": out.append("'"); i += 2
            elif n == "0": out.append("\0"); i += 2
            elif n == "\n":
                i += 2
                while i < len(lit) and lit[i] in " \t\n\r":
                    i += 1
            else:
                raise TieBroken("native docs", "unsupported escape \\" + n)
        else:
            out.append(c); i += 1
    return "".join(out)

LABELS = {"Any": "TAny", "Nil": "TNil", "Number": "TNumber", "Character": "TCharacter", "Cons": "TCons", "List": "TList",
          "String": "TString", "Symbol": "TSymbol", "Function": "TFunction", "Trap": "TTrap"}

def native_table():
    modt = src("src/native/mod.rs")
    order = re.findall(r"load_native_function\(mem,\s*(\w+)::(\w+)\);", modt)
    if not order:
        raise TieBroken("native table", "no load_native_function calls found")
    table = []
    for module, const in order:
        t = src(f"src/native/{module}/mod.rs")
        m = re.search(r"pub const " + const + r"\s*:\s*NativeFunctionMetaData\s*=\s*NativeFunctionMetaData\s*\{(.*?)\n\};", t, re.S)
        if not m:
            raise TieBroken(f"native {module}::{const}", "descriptor not found")
        body = m.group(1)
        def field(name, pat):
            mm = re.search(name + r"\s*:\s*" + pat, body, re.S)
            if not mm:
                raise TieBroken(f"native {module}::{const}", f"field {name} not found")
            return mm
        fn = field("function", r"(\w+)\s*,").group(1)
        lname = field("name", r'"([^"]*)"').group(1)
        kind = field("kind", r"FunctionKind::(\w+)").group(1)
        params = re.findall(r'"([^"]*)"', field("parameters", r"&\[(.*?)\]").group(1))
        dm = re.search(r'documentation\s*:\s*(r?)"((?:[^"\\]|\\.)*)"', body, re.S)
        if not dm:
            raise TieBroken(f"native {module}::{const}", "documentation not found")
        doc = rust_unescape(dm.group(2), dm.group(1) == "r")
        fb = fn_body(t, fn)
        vm = re.search(r"validate_args!\(\s*mem\s*,\s*" + const + r"\.name\s*,\s*args\s*((?:,\s*\(let\s+\w+\s*:\s*(?:TypeLabel::)?\w+\s*\))*)\s*\)", fb)
        if vm:
            sig = [LABELS[x] for x in re.findall(r":\s*(?:TypeLabel::)?(\w+)\s*\)", vm.group(1))]
            has_sig = True
        else:
            sig, has_sig = [], False
        depth_check = bool(re.search(r"if recursion_depth > config::MAX_RECURSION_DEPTH \{\s*return Err\(make_error\(mem, \"stackoverflow\", " + const + r"\.name", fb))
        # position of the depth check relative to the validation
        table.append(dict(module=module, const=const, fn=fn, name=lname, kind=kind, params=params, doc=doc, sig=sig, has_sig=has_sig, depth_check=depth_check))
    return table

def gen_natives():
    table = native_table()
    lines = ["(* GENERATED from src/native/mod.rs and src/native/*/mod.rs by gen/gen.py - do not edit *)",
             "From PL Require Import Data.Val.", "From Coq Require Import String List.", "Import ListNotations.", "Local Open Scope N_scope.", "",
             "Record native_info := { n_name : text; n_macro : bool; n_params : list text; n_doc : text;",
             "                        n_sig : option (list tlabel); n_depth_check : bool }.", "",
             "Definition native_table : list native_info :=", "  ["]
    items = []
    for e in table:
        sig = "Some [" + "; ".join(e["sig"]) + "]" if e["has_sig"] else "None"
        items.append("   {| n_name := %s; n_macro := %s; n_params := [%s]; n_doc := %s;\n      n_sig := %s; n_depth_check := %s |}" % (
            coq_text(e["name"]), "true" if e["kind"] == "Macro" else "false", "; ".join(coq_text(p) for p in e["params"]), coq_text(e["doc"]),
            sig, "true" if e["depth_check"] else "false"))
    lines.append(";\n".join(items))
    lines.append("  ].")
    return "\n".join(lines) + "\n"

# ---------------------------------------------------------------------------
# the Lisp sources, verbatim, as code points
# ---------------------------------------------------------------------------
def gen_lisp():
    lines = ["(* GENERATED: the verbatim text of the Lisp sources as code points - do not edit *)",
             "From Coq Require Import NArith List.", "Import ListNotations.", "Local Open Scope N_scope.", ""]
    for name, path in [("prelude_src", "src/prelude.lisp"), ("repl_src", "src/repl.lisp"), ("debugger_src", "src/debugger.lisp")]:
        lines.append(f"Definition {name} : list N := {coq_text(src(path))}.")
    return "\n".join(lines) + "\n"

# ---------------------------------------------------------------------------
# static facts about the Rust source (syntactic)
# ---------------------------------------------------------------------------
def struct_body(text, header_re):
    m = re.search(header_re + r"\s*\{", text)
    if not m:
        raise TieBroken(header_re, "declaration not found")
    i = m.end() - 1
    depth, j = 0, i
    while j < len(text):
        if text[j] == "{": depth += 1
        elif text[j] == "}":
            depth -= 1
            if depth == 0:
                return text[i + 1:j]
        j += 1
    raise TieBroken(header_re, "unbalanced braces")

def gen_static():
    mem = src("src/memory/mod.rs")
    # 1. raw-pointer fields of the heap structs
    ptr_fields = []
    for struct, hdr in [("ConsCell", r"pub struct ConsCell"), ("Symbol", r"pub struct Symbol"), ("NormalFunction", r"pub struct NormalFunction"),
                        ("Trap", r"pub struct Trap"), ("GcRef", r"pub struct GcRef")]:
        body = struct_body(mem, hdr)
        for name, ty in re.findall(r"(\w+)\s*:\s*([^,\n]+)", body):
            if "*mut CellContent" in ty or "*const CellContent" in ty:
                ptr_fields.append((struct, name))
    enum_body = struct_body(mem, r"pub enum MetaValue")
    mm = re.search(r"Meta\s*\{([^}]*)\}", enum_body)
    if not mm:
        raise TieBroken("MetaValue::Meta", "variant not found")
    for name, ty in re.findall(r"(\w+)\s*:\s*([^,}]+)", mm.group(1)):
        if "*mut CellContent" in ty or "*const CellContent" in ty:
            ptr_fields.append(("Meta", name))
    # 2. what the mark phase pushes
    collect = fn_body(mem, "collect")
    mark_part = collect.split("// remove unreachable cells")[0] if "// remove unreachable cells" in collect else collect
    pushes = re.findall(r"stack\.push\(((?:[^()]|\([^()]*\))*)\)", mark_part)
    norm = []
    for e in pushes:
        e = e.strip()
        if e == "cell.as_ptr_mut()": norm.append(("root", "cell"))
        elif e in ("*actual_value", "actual_value"): norm.append(("Meta", "value"))
        elif re.fullmatch(r"cons\.(\w+)", e): norm.append(("ConsCell", e.split(".")[1]))
        elif re.fullmatch(r"trap\.(\w+)", e): norm.append(("Trap", e.split(".")[1]))
        elif re.fullmatch(r"f\.(\w+)", e): norm.append(("NormalFunction", e.split(".")[1]))
        elif e in ("*p", "p"):
            if not re.search(r"for p in f\.parameters\.iter\(\)", mark_part):
                raise TieBroken("collect", "push of p outside the parameters loop")
            norm.append(("NormalFunction", "parameters"))
        else:
            raise TieBroken("collect", "unrecognised push in the mark phase: " + e)
    visited_check = bool(re.search(r"if\s*!\s*reachable\.insert\(cell\)\s*\{[^}]*continue", mark_part, re.S))
    # 3. field order of struct Memory
    mbody = struct_body(mem, r"pub struct Memory")
    mfields = re.findall(r"^\s*(?:pub\s+)?(\w+)\s*:", mbody, re.M)
    # 4. raw pointers / unsafe outside src/memory (hooks excluded)
    offenders = []
    for root, _, files in os.walk(os.path.join(REPO, "src")):
        for fn in files:
            if not fn.endswith(".rs"): continue
            path = os.path.join(root, fn)
            rel = os.path.relpath(path, REPO)
            if rel.startswith("src/memory/") or "verif" in rel: continue
            t = re.sub(r"//[^\n]*", "", open(path, encoding="utf-8").read())
            for pat in (r"\bunsafe\b", r"\*mut\b", r"\*const\b", r"\.pointer\b", r"mem::forget", r"ManuallyDrop", r"Box::leak", r"transmute"):
                if re.search(pat, t):
                    offenders.append((rel, pat.replace("\\b", "").replace("\\", "")))
    # 5. iterations over hash maps (anything whose order could reach an observable result)
    iters = []
    for rel in ["src/memory/mod.rs", "src/native/debug/mod.rs", "src/native/globals/mod.rs", "src/native/eval/mod.rs", "src/native/misc/mod.rs", "src/native/reflection/mod.rs"]:
        t = re.sub(r"//[^\n]*", "", src(rel))
        for fm in re.finditer(r"\bfn\s+(\w+)", t):
            name = fm.group(1)
            try:
                b = fn_body(t, name)
            except TieBroken:
                continue
            if re.search(r"(modules|definitions|symbols|exports|msg)\s*\.\s*(iter|keys|values|into_iter|drain)\s*\(", b) or re.search(r"for\s*\([^)]*\)\s*in\s*(self\.)?(modules|symbols)", b):
                iters.append((rel, name))
    iters = sorted(set(iters))
    def pairs(l):
        return "[" + "; ".join(f"({coq_string(a)}, {coq_string(b)})" for a, b in l) + "]"
    lines = ["(* GENERATED static facts about the Rust source by gen/gen.py - do not edit *)",
             "From Coq Require Import String List.", "Import ListNotations.", "Local Open Scope string_scope.", "",
             f"Definition pointer_fields : list (string * string) := {pairs(ptr_fields)}.",
             f"Definition mark_pushes : list (string * string) := {pairs(norm)}.",
             f"Definition mark_has_visited_check : bool := {'true' if visited_check else 'false'}.",
             f"Definition memory_fields : list string := [{'; '.join(coq_string(f) for f in mfields)}].",
             f"Definition raw_pointer_use_outside_memory : list (string * string) := {pairs(offenders)}.",
             f"Definition hash_iteration_sites : list (string * string) := {pairs(iters)}."]
    return "\n".join(lines) + "\n"

GENERATORS = {"Config_gen.v": gen_config, "Numbers_gen.v": gen_numbers, "NativeTable_gen.v": gen_natives, "LispSrc_gen.v": gen_lisp, "Static_gen.v": gen_static}

def main():
    status = {"generated": [], "changed": [], "broken": []}
    for name, g in GENERATORS.items():
        try:
            content = g()
        except TieBroken as e:
            status["broken"].append({"file": name, "what": e.name, "why": e.why})
            continue
        except Exception as e:
            status["broken"].append({"file": name, "what": name, "why": repr(e)})
            continue
        status["generated"].append(name)
        if write_if_changed(name, content):
            status["changed"].append(name)
    json.dump(status, sys.stdout, indent=1)
    print()
    return 1 if status["broken"] else 0

if __name__ == "__main__":
    sys.exit(main())
