#!/bin/bash
# regression over all seeded changes: each must be caught by its check(s)
cd "$(dirname "$0")"
for id in C01 C02 C03 C04 C05 C06 C07 C08 C09 C10 C11 C12 C13 C14 C15 C16 C17 C18 C19 C20 $(for i in $(seq -w 1 20); do echo C$i-2; done) $(ls seeded | grep -- "-3$"); do
  checks=${id%-[23]}
  [ $id = C04 ] && checks="C04 C13"
  [ $id = C10 ] && checks="C10 C12"
  [ $id = C19-2 ] && checks="C19 C08"
  rm -f seeded/$id/caught_by_*.json
  ./seedtest.sh $id $checks 2>&1 | grep -E "^==|obligations|patch does not" | cut -c1-200
done
python3 seeded/make_meta.py > /dev/null
