"""Shared machinery for the picilisp property checks (see /verif/DESIGN.md section 3)."""
import os, sys, re, json, time, subprocess, threading, select, hashlib, shutil

VERIF = os.path.dirname(os.path.dirname(os.path.abspath(__file__)))
REPO = os.environ.get("VERIF_REPO", "/repo")
COQ = os.path.join(VERIF, "coq")
BUILD = os.path.join(VERIF, ".build")
NPROC = int(os.environ.get("VERIF_NPROC", "16"))
GUARD = "picilisp_verif"

class InfraError(Exception):
    """tooling / build problem: exit 2, never a pass, never a VIOLATION"""

# ---------------------------------------------------------------------------
# PRNG: every random choice derives from (seed, case index)
# ---------------------------------------------------------------------------
MASK = (1 << 64) - 1

def splitmix(x):
    x = (x + 0x9E3779B97F4A7C15) & MASK
    z = x
    z = ((z ^ (z >> 30)) * 0xBF58476D1CE4E5B9) & MASK
    z = ((z ^ (z >> 27)) * 0x94D049BB133111EB) & MASK
    return z ^ (z >> 31)

class Rng:
    def __init__(self, seed, stream=0):
        self.s = splitmix((seed & MASK) ^ splitmix(stream & MASK))
    def next(self):
        self.s = (self.s + 0x9E3779B97F4A7C15) & MASK
        z = self.s
        z = ((z ^ (z >> 30)) * 0xBF58476D1CE4E5B9) & MASK
        z = ((z ^ (z >> 27)) * 0x94D049BB133111EB) & MASK
        return z ^ (z >> 31)
    def below(self, n):
        return self.next() % n
    def chance(self, num, den):
        return self.below(den) < num
    def choice(self, xs):
        return xs[self.below(len(xs))]
    def weighted(self, pairs):
        total = sum(w for _, w in pairs)
        k = self.below(total)
        for x, w in pairs:
            if k < w:
                return x
            k -= w
        return pairs[-1][0]
    def range(self, lo, hi):
        return lo + self.below(hi - lo + 1)

# ---------------------------------------------------------------------------
# text transport
# ---------------------------------------------------------------------------
def enc(s):
    return ".".join(str(ord(c)) for c in s) if s else "-"

def dec(s):
    if s in ("-", ""):
        return ""
    return "".join(chr(int(n)) for n in s.split("."))

def coq_text(s):
    return "[" + ";".join(str(ord(c)) for c in s) + "]"

def coq_string(s):
    return '"' + s.replace('"', '""') + '"'

def coq_Z(z):
    return f"({z})%Z"

def sh(cmd, timeout=600, cwd=None, env=None, input=None):
    e = dict(os.environ)
    e.update({"CARGO_NET_OFFLINE": "true"})
    if env:
        e.update(env)
    try:
        p = subprocess.run(cmd, shell=isinstance(cmd, str), cwd=cwd, env=e, input=input, capture_output=True, text=True, timeout=timeout)
        return p.returncode, p.stdout, p.stderr
    except subprocess.TimeoutExpired as ex:
        return 124, (ex.stdout or b"").decode("utf-8", "replace") if isinstance(ex.stdout, bytes) else (ex.stdout or ""), "TIMEOUT after %ss" % timeout

# ---------------------------------------------------------------------------
# translator + Coq build
# ---------------------------------------------------------------------------
def run_gen():
    rc, out, err = sh([sys.executable, os.path.join(VERIF, "gen", "gen.py")], timeout=120)
    try:
        status = json.loads(out)
    except Exception:
        raise InfraError("translator crashed: " + err[-2000:])
    return status

def coq_makefile():
    mk = os.path.join(COQ, "Makefile")
    proj = os.path.join(COQ, "_CoqProject")
    if not os.path.exists(mk) or os.path.getmtime(mk) < os.path.getmtime(proj):
        rc, out, err = sh("coq_makefile -f _CoqProject -o Makefile", cwd=COQ, timeout=120)
        if rc != 0:
            raise InfraError("coq_makefile failed: " + err)

_make_lock = threading.Lock()

def coq_make(targets, timeout=1500):
    """targets: list of .v paths relative to coq/ ; returns (ok, log)"""
    coq_makefile()
    vos = [t[:-2] + ".vo" if t.endswith(".v") else t for t in targets]
    with _make_lock:
        rc, out, err = sh(["make", "-j%d" % NPROC, "-k"] + vos, cwd=COQ, timeout=timeout)
    return rc == 0, out + err

def vo_exists(v):
    return os.path.exists(os.path.join(COQ, v[:-2] + ".vo"))

FORBIDDEN = re.compile(r"\b(Admitted|admit|Axiom|Axioms|Parameter|Parameters|Conjecture|Conjectures|Hypothesis|Hypotheses|Variable|Variables|Admit Obligations|Unset Guard Checking|Unset Positivity Checking|Unset Universe Checking|bypass_check|type-in-type|impredicative-set)\b")
ALLOWED_IN_SECTION = {"Variable", "Variables", "Hypothesis", "Hypotheses"}

def scan_forbidden():
    """no axiom-like declaration anywhere in the development (Variable/Hypothesis only inside a Section)"""
    bad = []
    files = []
    for root, _, fs in os.walk(COQ):
        for f in fs:
            if f.endswith(".v"):
                files.append(os.path.join(root, f))
    files.append(os.path.join(COQ, "_CoqProject"))
    for path in files:
        with open(path, encoding="utf-8") as fh:
            text = fh.read()
        # strip comments (nested)
        out, depth, i = [], 0, 0
        while i < len(text):
            if text.startswith("(*", i):
                depth += 1; i += 2
            elif text.startswith("*)", i) and depth > 0:
                depth -= 1; i += 2
            else:
                if depth == 0:
                    out.append(text[i])
                i += 1
        code = "".join(out)
        # strip string literals
        code = re.sub(r'"(?:[^"]|"")*"', '""', code)
        section_depth = 0
        for ln, line in enumerate(code.split("\n"), 1):
            if re.match(r"\s*Section\b", line):
                section_depth += 1
            if re.match(r"\s*End\b", line) and section_depth > 0:
                section_depth -= 1
            for m in FORBIDDEN.finditer(line):
                w = m.group(1)
                if w in ALLOWED_IN_SECTION and section_depth > 0:
                    continue
                bad.append(f"{os.path.relpath(path, COQ)}:{ln}: {w}")
    return bad

ALLOWED_AXIOMS = {
    # standard-library axioms that may appear through library lemmas; each is named in the evidence
    "functional_extensionality_dep", "proof_irrelevance", "classic", "JMeq_eq", "Eqdep.Eq_rect_eq.eq_rect_eq",
    "FunctionalExtensionality.functional_extensionality_dep", "ProofIrrelevance.proof_irrelevance",
}

def pin_check(pid, imports, theorems, timeout=600):
    """theorems: list of (name, statement).  Compiles `Check (name : statement)` and
    `Print Assumptions name` for each; returns list of dicts {name, ok, axioms, error}."""
    d = os.path.join(BUILD, "pin")
    os.makedirs(d, exist_ok=True)
    results = []
    def one(idx, name, stmt):
        path = os.path.join(d, f"{pid}_pin_{idx}.v")
        with open(path, "w") as f:
            f.write("".join(f"From PL Require Import {i}.\n" for i in imports))
            f.write("From Coq Require Import String ZArith NArith List.\nImport ListNotations.\nLocal Open Scope string_scope.\nLocal Open Scope list_scope.\n")
            f.write(f"Check ({name} : {stmt}).\nPrint Assumptions {name}.\n")
        rc, out, err = sh(["coqc", "-noglob", "-Q", COQ, "PL", path], timeout=timeout, cwd=d)
        res = {"name": name, "ok": False, "axioms": [], "error": None}
        if rc != 0:
            res["error"] = (err or out)[-1500:]
        else:
            if "Closed under the global context" in out:
                res["ok"] = True
            else:
                m = re.search(r"Axioms:\s*(.*)", out, re.S)
                axioms = re.findall(r"^([A-Za-z_][\w.']*)\s*:", m.group(1), re.M) if m else ["?"]
                res["axioms"] = axioms
                res["ok"] = all(a in ALLOWED_AXIOMS or a.split(".")[-1] in ALLOWED_AXIOMS for a in axioms)
                if not res["ok"]:
                    res["error"] = "depends on axioms not in the allow-list: " + ", ".join(axioms)
        results.append((idx, res))
    threads = []
    for idx, (name, stmt) in enumerate(theorems):
        t = threading.Thread(target=one, args=(idx, name, stmt))
        t.start(); threads.append(t)
    for t in threads:
        t.join()
    return [r for _, r in sorted(results, key=lambda x: x[0])]

def coqchk(modules, timeout=3000):
    rc, out, err = sh(["coqchk", "-silent", "-o", "-Q", COQ, "PL"] + modules, timeout=timeout, cwd=COQ)
    return rc == 0, out + err

def coq_eval(name, source, timeout=900):
    """compile a generated .v file under .build/cases and return coqc's stdout"""
    d = os.path.join(BUILD, "cases")
    os.makedirs(d, exist_ok=True)
    path = os.path.join(d, name + ".v")
    with open(path, "w") as f:
        f.write(source)
    rc, out, err = sh(["coqc", "-noglob", "-Q", COQ, "PL", path], timeout=timeout, cwd=d)
    for ext in (".vo", ".vok", ".vos", ".glob"):       # only coqc's output is wanted: the compiled files are dropped at once (disk)
        try:
            os.remove(os.path.join(d, name + ext))
        except OSError:
            pass
    if rc != 0:
        raise InfraError(f"model evaluation {name} failed (rc={rc}): " + (err or out)[-3000:])
    try:
        os.remove(path)
    except OSError:
        pass
    return out

def parse_N_list(out):
    """parse `= [1; 2; 3]%N : list N` (possibly wrapped) -> [1,2,3]"""
    m = re.search(r"=\s*(\[.*?\])", out, re.S)
    if not m:
        raise InfraError("cannot parse model output: " + out[:500])
    return [int(x) for x in re.findall(r"\d+", m.group(1))]

def coq_check_shards(name, preamble, case_terms, checker, shard_size=400, timeout=900, case_type=None):
    """case_terms: list of Coq terms (one per case); checker: a Coq function from case to bool.
    Returns the indices (into case_terms) on which checker returns false."""
    shards = [case_terms[i:i + shard_size] for i in range(0, len(case_terms), shard_size)]
    failing = []
    errors = []
    lock = threading.Lock()
    sem = threading.Semaphore(NPROC)
    def one(si, shard):
        with sem:
            src = preamble + "\nDefinition cases" + (f" : list ({case_type})" if case_type else "") + " := [\n" + ";\n".join(shard) + "\n].\n"
            src += ("Fixpoint bad_indices {A} (f : A -> bool) (l : list A) (i : N) : list N :=\n"
                    "  match l with [] => [] | x :: r => if f x then bad_indices f r (N.succ i) else i :: bad_indices f r (N.succ i) end.\n")
            src += f"Eval vm_compute in (bad_indices ({checker}) cases 0%N).\n"
            try:
                out = coq_eval(f"{name}_{si}", src, timeout=timeout)
                idx = parse_N_list(out)
                with lock:
                    failing.extend(si * shard_size + i for i in idx)
            except InfraError as e:
                with lock:
                    errors.append(str(e))
    ths = [threading.Thread(target=one, args=(si, sh_)) for si, sh_ in enumerate(shards)]
    for t in ths: t.start()
    for t in ths: t.join()
    if errors:
        raise InfraError(errors[0])
    return sorted(failing)

# ---------------------------------------------------------------------------
# the implementation, built from the working tree with the hooks on
# ---------------------------------------------------------------------------
_built = {}

def build_driver(profile="release"):
    if profile in _built:
        return _built[profile]
    target = os.path.join(BUILD, "target-verif")
    os.makedirs(target, exist_ok=True)
    cmd = ["cargo", "build", "--offline"] + (["--release"] if profile == "release" else [])
    rc, out, err = sh(cmd, cwd=REPO, timeout=3000, env={"RUSTFLAGS": f"--cfg {GUARD}", "CARGO_TARGET_DIR": target})
    if rc != 0:
        raise InfraError("the working tree does not build with the hooks enabled:\n" + err[-3000:])
    exe = os.path.join(target, profile, "picilisp")
    if not os.path.exists(exe):
        raise InfraError("driver binary missing after build")
    _built[profile] = exe
    return exe

def _die_with_parent():
    # a driver busy in a long evaluation never looks at its standard input: make the kernel end it when the check ends
    try:
        import ctypes
        ctypes.CDLL("libc.so.6", use_errno=True).prctl(1, 9)   # PR_SET_PDEATHSIG, SIGKILL
    except Exception:
        pass

class Driver:
    def __init__(self, exe, timeout=20.0):
        self.exe, self.timeout = exe, timeout
        self.p = None
    def start(self):
        self.p = subprocess.Popen([self.exe, "--verif-driver"], stdin=subprocess.PIPE, stdout=subprocess.PIPE, stderr=subprocess.DEVNULL, text=True, bufsize=1,
                                  preexec_fn=_die_with_parent)
    def stop(self):
        if self.p:
            try:
                self.p.kill()
            except Exception:
                pass
            try:
                self.p.wait(timeout=5)
            except Exception:
                pass
            self.p = None
    def ask(self, line):
        """returns the answer text, or 'crash <status>' / 'timeout'"""
        if self.p is None or self.p.poll() is not None:
            self.start()
        try:
            self.p.stdin.write("0 " + line + "\n")
            self.p.stdin.flush()
        except Exception:
            rc = self.p.poll()
            self.stop()
            return f"crash {rc}"
        r, _, _ = select.select([self.p.stdout], [], [], self.timeout)
        if not r:
            self.stop()
            return "timeout"
        ans = self.p.stdout.readline()
        if not ans:
            rc = None
            try:
                rc = self.p.wait(timeout=5)
            except Exception:
                pass
            self.stop()
            return f"crash {rc}"
        ans = ans.rstrip("\n")
        return ans[2:] if ans.startswith("0 ") else ans

def run_driver_cases(lines, profile="release", timeout=20.0, nproc=None):
    """run request lines on the implementation, in parallel worker processes; order preserved"""
    exe = build_driver(profile)
    n = len(lines)
    results = [None] * n
    nproc = nproc or NPROC
    nproc = max(1, min(nproc, n))
    def work(k):
        d = Driver(exe, timeout)
        try:
            for i in range(k, n, nproc):
                results[i] = d.ask(lines[i])
        finally:
            d.stop()
    ths = [threading.Thread(target=work, args=(k,)) for k in range(nproc)]
    for t in ths: t.start()
    for t in ths: t.join()
    return results

def baseline_binary_ok():
    return os.path.exists(os.path.join(REPO, "Cargo.toml"))

# ---------------------------------------------------------------------------
# known findings, violations, evidence
# ---------------------------------------------------------------------------
def load_known():
    p = os.path.join(VERIF, "known_findings.json")
    if not os.path.exists(p):
        return {"open": [], "fixed": []}
    with open(p) as f:
        return json.load(f)

class Report:
    def __init__(self, pid, tier, seed, level="proof"):
        self.pid, self.tier, self.seed, self.level = pid, tier, seed, level
        self.t0 = time.time()
        self.obligations = []       # dicts {name, ok, axioms, error}
        self.broken = []            # names of broken obligations / correspondences / ties
        self.violations = []        # dicts {what, replay(dict), found_input(bool)}
        self.known_lines = []
        self.coverage = {}
        self.assumptions = []
        self.samples = []
        self.notes = []
        self.evaluations = 0
        self.nontrivial = 0
    def add_obligations(self, res):
        self.obligations.extend(res)
        for r in res:
            if not r["ok"]:
                err = (r["error"] or "")
                if "makes inconsistent assumptions" in err or "Cannot find a physical path" in err or "Unable to locate library" in err:
                    err = "not re-established: a file it depends on no longer builds (see the proof obligation named first)"
                self.broken.append("theorem " + r["name"] + ": " + err[-400:])
    def violation(self, what, replay, found_input=True):
        self.violations.append({"what": what, "replay": replay, "found_input": found_input})
    def finish(self, checker_cmd, trusted_base, rule, extra=None):
        os.makedirs(os.path.join(VERIF, "evidence"), exist_ok=True)
        os.makedirs(os.path.join(VERIF, "replays"), exist_ok=True)
        wall = time.time() - self.t0
        # a broken obligation / correspondence with no concrete failing input is still a violation
        if self.broken and not self.violations:
            self.violation("no longer shown to hold: " + "; ".join(self.broken)[:1500], {"broken": self.broken}, found_input=False)
        lines = []
        total_violations = len(self.violations)
        # concrete failing inputs first, and at most 25 replay files per run (the count stays in the evidence)
        self.violations = sorted(self.violations, key=lambda v: not v["found_input"])[:25]
        import glob
        for old in glob.glob(os.path.join(VERIF, "replays", f"{self.pid}-*.json")):
            try:
                os.remove(old)
            except OSError:
                pass
        for k, v in enumerate(self.violations):
            path = os.path.join(VERIF, "replays", f"{self.pid}-{self.seed}-{k}.json")
            with open(path, "w") as f:
                json.dump({"property": self.pid, "seed": self.seed, "tier": self.tier, "what": v["what"], "replay": v["replay"], "broken": self.broken}, f, indent=1)
            lines.append(f"VIOLATION property={self.pid} replay={path}" + ("" if v["found_input"] else " no-failing-input-found"))
        discharged = sum(1 for o in self.obligations if o["ok"])
        cov = {
            "obligations": len(self.obligations), "discharged": discharged,
            "checker_cmd": checker_cmd, "trusted_base": trusted_base,
            "evaluations": self.evaluations, "distinct_nontrivial": self.nontrivial,
            "rule": rule, "samples": self.samples[:8] if self.samples else ["(no sample recorded)"],
            "theorems": [{"name": o["name"], "ok": o["ok"], "axioms": o["axioms"]} for o in self.obligations],
            "broken": self.broken, "notes": self.notes,
        }
        cov.update(self.coverage)
        if extra:
            cov.update(extra)
        # keys the evidence schema types: keep them well-typed whatever a property module put there
        for k in ("evaluations", "distinct_nontrivial", "states", "transitions", "traces_validated_against_impl", "obligations", "discharged", "programs", "disagreements_checked"):
            if k in cov and not (isinstance(cov[k], int) and not isinstance(cov[k], bool)):
                cov[k + "_detail"] = cov.pop(k)
        if total_violations > len(self.violations):
            cov["violations_total"] = total_violations
        ev = {"property_id": self.pid, "tier": self.tier, "seed": self.seed, "level": self.level,
              "coverage": cov, "assumptions": self.assumptions, "wall_s": round(wall, 2), "violations": total_violations}
        with open(os.path.join(VERIF, "evidence", f"{self.pid}.json"), "w") as f:
            json.dump(ev, f, indent=1)
        for l in self.known_lines:
            print(l)
        for l in lines:
            print(l)
        print(f"{self.pid}: obligations {discharged}/{len(self.obligations)} discharged, {self.evaluations} cases, {len(self.violations)} violation(s), {wall:.1f}s")
        return 1 if lines else 0

# coqchk re-checks vm_compute casts with its own, much slower, reduction machine
COQCHK_SKIP = {"C20": "the enumerated-family theorems are kernel computations of minutes in the VM; coqchk re-does them with the standard reduction machine and does not finish within an hour"}

def standard_proof_phase(rep, targets, imports, theorems):
    """gen + make + pinned statements + forbidden-word scan.  Returns True when every obligation holds."""
    st = run_gen()
    for b in st["broken"]:
        rep.broken.append(f"translator: {b['what']}: {b['why']}")
    ok, log = coq_make(targets)
    if not ok:
        # name the first failing file
        m = re.findall(r'File "\./([^"]+)", line (\d+).*?\n(Error:.*?)(?:\n\n|\nmake)', log, re.S)
        for f, ln, e in m[:3]:
            rep.broken.append(f"proof obligation {f}:{ln}: {e[:300]}")
        if not m:
            rep.broken.append("coq build failed: " + log[-600:])
    res = pin_check(rep.pid, imports, theorems)
    rep.add_obligations(res)
    bad = scan_forbidden()
    if bad:
        rep.broken.append("forbidden declarations in the development: " + ", ".join(bad[:5]))
    if rep.tier == "thorough" and not rep.broken and rep.pid in COQCHK_SKIP:
        rep.coverage["coqchk"] = {"ok": None, "skipped": COQCHK_SKIP[rep.pid]}
    elif rep.tier == "thorough" and not rep.broken:
        # independent re-check of the compiled property file and everything it depends on
        ok, out = coqchk(["PL.Properties." + rep.pid])
        m = re.search(r"\* Axioms:\s*(.*?)\n\s*\n", out, re.S)
        axioms = m.group(1).strip() if m else "?"
        clean = ok and axioms == "<none>" and all(f"{k}: <none>" in re.sub(r"\s+", " ", out) for k in
                  ("relying on type-in-type", "relying on unsafe (co)fixpoints", "whose positivity is assumed"))
        rep.coverage["coqchk"] = {"ok": ok, "axioms": axioms}
        if not clean:
            rep.broken.append("coqchk does not accept Properties/" + rep.pid + ".vo cleanly: " + out[-500:])
    return not rep.broken

TRUSTED_BASE_COMMON = [
    "Coq 8.16.1 kernel (coqc); vm_compute used inside proofs for finite decisions; no native_compute",
    "translator gen/gen.py (regular-expression level) for the Generated/*.v parts",
    "correspondence harness: cfg(picilisp_verif) driver in /repo/src/verif, vp/*.py, model evaluated inside Coq by vm_compute",
]
