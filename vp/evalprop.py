"""Shared driver for the evaluator-based properties: proof phase + correspondence of program
sets between the Coq evaluator model and the binary + property monitors on the binary."""
import json, re
from .common import *
from . import dump, evalcorr

def canon(t):
    return re.sub(r"0x[0-9a-f]+", "0x0", t or "")

class ProgramSet:
    def __init__(self, name, programs, env="p", opts="", compare_polls=True, shard_size=40, timeout=6.0, profile="release", state_expr=None):
        self.name, self.programs, self.env, self.opts = name, programs, env, opts
        self.compare_polls, self.shard_size, self.timeout, self.profile, self.state_expr = compare_polls, shard_size, timeout, profile, state_expr
        self.answers = self.parsed = self.bad = None

def run_sets(rep, sets, what="evaluator"):
    """runs the correspondence for each set; records hangs/crashes; returns True if all agree"""
    ok = True
    for ps in sets:
        ps.answers, ps.parsed, ps.bad = evalcorr.correspond(f"{rep.pid.lower()}_{ps.name}", ps.programs, env=ps.env, opts=ps.opts,
                                                            shard_size=ps.shard_size, timeout=ps.timeout, profile=ps.profile,
                                                            compare_polls=ps.compare_polls, state_expr=ps.state_expr)
        rep.evaluations += len(ps.programs)
        if ps.bad:
            ok = False
    return ok

def outcome_kinds(sets):
    kinds = {}
    for ps in sets:
        for r in ps.parsed:
            if "special" in r:
                k = r["special"]
            elif not r["results"]:
                k = "none"
            else:
                st, d = r["results"][-1]
                k = st
                if st == "sig":
                    m = re.match(r"K S107\.105\.110\.100 K S([0-9.]+)", d)
                    k = "sig:" + (dec(m.group(1)) if m else "other")
            kinds[k] = kinds.get(k, 0) + 1
    return kinds

def report_disagreements(rep, sets, what):
    """a model/implementation disagreement with no property-level failing input found so far"""
    for ps in sets:
        if ps.bad:
            b = min(ps.bad, key=lambda i: len(evalcorr._prog(ps.programs[i])['text']))
            rep.broken.append(f"correspondence model/implementation ({what}, set {ps.name}): {len(ps.bad)} disagreement(s); shortest: {evalcorr._prog(ps.programs[b])!r} -> implementation: {ps.answers[b][:240]}")

def crashes_and_hangs(rep, sets, hang_is_violation=True, pid_for=None):
    for ps in sets:
        for i, r in enumerate(ps.parsed):
            sp = r.get("special")
            if sp in ("panic", "crash"):
                rep.violation(f"the interpreter {sp}ed on {ps.programs[i]!r}", {"program": ps.programs[i], "env": ps.env, "opts": ps.opts, "observed": ps.answers[i][:300]})
            elif sp == "timeout" and hang_is_violation:
                rep.violation(f"no answer within {ps.timeout}s for {ps.programs[i]!r}", {"program": ps.programs[i], "env": ps.env, "opts": ps.opts, "observed": "timeout"})

def last_result(r):
    if "special" in r or not r["results"]:
        return None, None
    return r["results"][-1]

def result_tree(r, k=-1):
    if "special" in r or not r["results"]:
        return None
    st, d = r["results"][k]
    if st not in ("ok", "sig"):
        return None
    try:
        return dump.parse_dump(d)
    except dump.Truncated:
        return None

def plist_get(tree, key):
    items = dump.list_items(tree) if tree else None
    if items is None:
        return None
    for i in range(0, len(items) - 1, 2):
        k = dump.strip_meta(items[i])
        if k == ("sym", key):
            return items[i + 1]
    return None

def generic_replay(path, env="p"):
    r = json.load(open(path)); print(json.dumps(r, indent=1)[:4000])
    rp = r.get("replay", {})
    p = rp.get("program")
    if p:
        print("implementation now answers:", run_driver_cases(evalcorr.driver_lines([p], rp.get("env", env), rp.get("opts", "")), timeout=8.0)[0][:800])
    return 0
