"""Correspondence between the evaluator model (coq/Eval) and the implementation for program texts."""
import re
from .common import *
from . import dump

STATE_OF = {"": "init_state", "p": "prelude_state", "pr": "repl_state", "pd": "debugger_state"}

def outcome_terms(results, special=None):
    """driver results -> list of Coq outcome terms"""
    terms = []
    uniq = {}
    for st, d in results:
        if st in ("ok", "sig", "rdsig"):
            try:
                tree = dump.parse_dump(d)
                v = dump.to_coq(tree, uniq)
                terms.append({"ok": "OOk", "sig": "OSig", "rdsig": "ORdSig"}[st] + " " + v)
            except dump.Truncated:
                terms.append({"ok": "OAnyOk", "sig": "OAnySig", "rdsig": "OAnySig"}[st])
        elif st == "abort":
            terms.append("OAbort")
        elif st.startswith("rd:"):
            terms.append(f"ORd {coq_text(st[3:])}")
        else:
            raise InfraError("unknown result status " + st)
    return terms

def canon_addresses(text):
    return re.sub(r"0x[0-9a-f]+", "0x0", text)

def driver_lines(programs, env="p", opts=""):
    o = f"env={env}" + ("," + opts if opts else "")
    return [f"run {o} {enc(p)}" for p in programs]

def expected_term(ans):
    """(coq term for the expected observation, parsed answer) or (None, parsed) for crashes etc."""
    r = dump.split_run_answer(ans)
    if "special" in r:
        sp = r["special"]
        if sp == "panic" or sp == "crash":
            return "([OPanic], [], 0)", r
        return None, r     # timeouts (possible non-termination) are reported to the caller, the model is not run on them
    outs = outcome_terms(r["results"])
    return f"([{'; '.join(outs)}], {coq_text(r['out'])}, {r['stats'].get('polls', '0')})", r

PREAMBLE = """From PL Require Import Eval.PreludeState.
Local Open Scope N_scope.
Definition mf := N.to_nat 200000.
Definition run_fuel := N.to_nat 30000.
Definition ends_special (l : list outcome) : bool := match rev l with (OPanic | OFuel) :: _ => true | _ => false end.
Definition chk (st0 : state) (c : text * (list outcome * text * N)) : bool :=
  let '(prog, (exp, eout, epolls)) := c in
  let '(st, os) := run_text run_fuel st0 prog in
  outcomes_match mf [] os exp && (ends_special exp || (text_eqb (out st) eout && (polls st =? epolls))).
Definition chk_nopolls (st0 : state) (c : text * (list outcome * text * N)) : bool :=
  let '(prog, (exp, eout, epolls)) := c in
  let '(st, os) := run_text run_fuel st0 prog in
  outcomes_match mf [] os exp && (ends_special exp || text_eqb (out st) eout).
"""

def correspond(name, programs, env="p", opts="", shard_size=40, timeout=6.0, profile="release", compare_polls=True, state_expr=None):
    """returns (answers, parsed, bad_indices): programs on which model and implementation disagree"""
    answers = run_driver_cases(driver_lines(programs, env, opts), profile=profile, timeout=timeout)
    terms, idx, parsed = [], [], []
    for i, (p, a) in enumerate(zip(programs, answers)):
        t, r = expected_term(a)
        parsed.append(r)
        if t is None:
            continue
        terms.append(f"({coq_text(p)}, {t})")
        idx.append(i)
    st = state_expr or STATE_OF[env]
    chk = "chk" if compare_polls else "chk_nopolls"
    bad = coq_check_shards(name, PREAMBLE, terms, f"{chk} {st}", shard_size=shard_size, timeout=1200, case_type="text * (list outcome * text * N)")
    return answers, parsed, [idx[b] for b in bad]

def model_outcome(program, env="p", state_expr=None):
    """what the model computes for one program (for replay files / diagnostics)"""
    st = state_expr or STATE_OF[env]
    src = PREAMBLE + f"Eval vm_compute in (let '(st, os) := run_text run_fuel {st} {coq_text(program)} in (os, out st, polls st)).\n"
    return coq_eval("model_one", src, timeout=600)[:6000]
