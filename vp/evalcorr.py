"""Correspondence between the evaluator model (coq/Eval) and the implementation for program texts."""
import re
from .common import *
from . import dump

STATE_OF = {"": "init_state", "p": "prelude_state", "pr": "repl_state", "pd": "debugger_state"}

def outcome_terms(results, special=None):
    """driver results -> list of Coq outcome terms"""
    terms = []
    uniq = {}
    for st, d in results:
        if st in ("ok", "sig", "rdsig"):
            try:
                tree = dump.parse_dump(d)
                v = dump.to_coq(tree, uniq)
                terms.append({"ok": "OOk", "sig": "OSig", "rdsig": "ORdSig"}[st] + " " + v)
            except dump.Truncated:
                terms.append({"ok": "OAnyOk", "sig": "OAnySig", "rdsig": "OAnySig"}[st])
        elif st == "abort":
            terms.append("OAbort")
        elif st.startswith("rd:"):
            terms.append(f"ORd {coq_text(st[3:])}")
        else:
            raise InfraError("unknown result status " + st)
    return terms

def canon_addresses(text):
    return re.sub(r"0x[0-9a-f]+", "0x0", text)

def _prog(p):
    return p if isinstance(p, dict) else {"text": p}

def driver_lines(programs, env="p", opts=""):
    lines = []
    for p in programs:
        p = _prog(p)
        o = [f"env={env}"]
        if opts:
            o.append(opts)
        if p.get("umb"):
            o.append("umb=" + ";".join(f"{k}:{c}" for k, c in p["umb"]))
        if p.get("attach"):
            o.append("attach=1")
        if p.get("cont"):
            o.append("cont=1")
        if p.get("stdin") is not None:
            o.append("stdin=" + "/".join(".".join(str(ord(ch)) for ch in c) if c else "-" for c in p["stdin"]))
        lines.append(f"run {','.join(o)} {enc(p['text'])}")
    return lines

def expected_term(ans):
    """(coq term for the expected observation, parsed answer) or (None, parsed) for crashes etc."""
    r = dump.split_run_answer(ans)
    if "special" in r:
        sp = r["special"]
        if sp == "panic" or sp == "crash":
            return "([OPanic], [], 0)", r
        return None, r     # timeouts (possible non-termination) are reported to the caller, the model is not run on them
    outs = outcome_terms(r["results"])
    return f"([{'; '.join(outs)}], {coq_text(r['out'])}, {r['stats'].get('polls', '0')})", r

PREAMBLE = """From PL Require Import Eval.PreludeState.
Local Open Scope N_scope.
Definition mf := N.to_nat 200000.
Definition run_fuel := N.to_nat 30000.
Definition ends_special (l : list outcome) : bool := match rev l with (OPanic | OFuel) :: _ => true | _ => false end.
Definition prepare (st : state) (inj : list (N * text)) (att : bool) (input : list text) : state :=
  State (mods st) (cur st) (gensyms st) (out st) input (att || match inj with [] => false | _ => true end) [] inj 0.
Definition chk (st0 : state) (c : text * list (N * text) * (bool * bool) * list text * (list outcome * text * N)) : bool :=
  let '(prog, inj, (att, cont), input, (exp, eout, epolls)) := c in
  let '(st, os) := run_text_cont cont run_fuel (prepare st0 inj att input) prog in
  outcomes_match mf [] os exp && (ends_special exp || (text_eqb (out st) eout && (polls st =? epolls))).
Definition chk_nopolls (st0 : state) (c : text * list (N * text) * (bool * bool) * list text * (list outcome * text * N)) : bool :=
  let '(prog, inj, (att, cont), input, (exp, eout, epolls)) := c in
  let '(st, os) := run_text_cont cont run_fuel (prepare st0 inj att input) prog in
  outcomes_match mf [] os exp && (ends_special exp || text_eqb (out st) eout).
"""

def correspond(name, programs, env="p", opts="", shard_size=40, timeout=6.0, profile="release", compare_polls=True, state_expr=None):
    """returns (answers, parsed, bad_indices): programs on which model and implementation disagree"""
    answers = run_driver_cases(driver_lines(programs, env, opts), profile=profile, timeout=timeout)
    terms, idx, parsed = [], [], []
    for i, (p, a) in enumerate(zip(programs, answers)):
        p = _prog(p)
        t, r = expected_term(a)
        parsed.append(r)
        if t is None:
            continue
        inj = "[" + "; ".join(f"({k}, {coq_text(c)})" for k, c in p.get("umb", [])) + "]"
        inp = "[" + "; ".join(coq_text(c) for c in (p.get("stdin") or [])) + "]"
        terms.append(f"({coq_text(p['text'])}, {inj}, ({'true' if p.get('attach') else 'false'}, {'true' if p.get('cont') else 'false'}), {inp}, {t})")
        idx.append(i)
    st = state_expr or STATE_OF[env]
    chk = "chk" if compare_polls else "chk_nopolls"
    bad = coq_check_shards(name, PREAMBLE, terms, f"{chk} {st}", shard_size=shard_size, timeout=1200,
                           case_type="text * list (N * text) * (bool * bool) * list text * (list outcome * text * N)")
    return answers, parsed, [idx[b] for b in bad]

def model_outcome(program, env="p", state_expr=None):
    """what the model computes for one program (for replay files / diagnostics)"""
    p = _prog(program)
    st = state_expr or STATE_OF[env]
    inj = "[" + "; ".join(f"({k}, {coq_text(c)})" for k, c in p.get("umb", [])) + "]"
    inp = "[" + "; ".join(coq_text(c) for c in (p.get("stdin") or [])) + "]"
    src = PREAMBLE + f"Eval vm_compute in (let '(st, os) := run_text_cont {'true' if p.get('cont') else 'false'} run_fuel (prepare {st} {inj} {'true' if p.get('attach') else 'false'} {inp}) {coq_text(p['text'])} in (os, out st, polls st)).\n"
    return coq_eval("model_one", src, timeout=600)[:6000]
