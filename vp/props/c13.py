"""C13 - `=` is a structural equivalence on data and ignores source metadata."""
import json
from ..common import *
from .. import dump, gen_data

PID = "C13"
MANIFEST = {
    "text": "Theorem for ALL pairs of data values (any depth, proper/improper lists, strings, metadata wrappers anywhere): the transcription of equal_internal returns structural equality of the metadata-stripped operands; that relation is reflexive on data, symmetric, transitive, identifies only identical stripped data and relates nil only to nil. The transcription is tied to src/native/misc/mod.rs by evaluating (= a b) on the binary for generated pairs/triples, reading back the actual operand structures (with their metadata) from the driver dump, and evaluating the model on exactly those values inside Coq.",
    "note": "Trusted: Coq kernel; the hand transcription of equal_internal (bound by the correspondence); values are modelled as immutable trees - sharing of substructure is invisible at this level (justified by the absence of mutation); the unbounded native recursion of equal_internal on very deep data is a C06 matter.",
    "technique": "Coq proof (transcribed primitive = structural equality modulo strip; equivalence laws) + differential check on generated pairs/triples",
}
TARGETS = ["Properties/C13.v"]
IMPORTS = ["Data.Equal", "Data.EqualProofs", "Properties.C13"]
THEOREMS = [
    ("C13_equal_is_structural", "forall fuel a b, is_data a = true -> is_data b = true -> (vsize a < fuel)%nat -> equal fuel a b = Some (data_eqb (strip a) (strip b))"),
    ("C13_reflexive", "forall v, is_data v = true -> data_eqb (strip v) (strip v) = true"),
    ("C13_symmetric", "forall a b, data_eqb a b = data_eqb b a"),
    ("C13_transitive", "forall a b c, data_eqb a b = true -> data_eqb b c = true -> data_eqb a c = true"),
    ("C13_equal_means_same_datum", "forall a b, data_eqb a b = true -> a = b"),
    ("C13_nil_only_with_nil", "forall v, is_data v = true -> (data_eqb (strip v) VNil = true <-> is_nil v = true)"),
]

def evalcorr_lines(progs):
    from .. import evalcorr
    return evalcorr.driver_lines(progs, env="p")

def run(tier, seed):
    rep = Report(PID, tier, seed)
    standard_proof_phase(rep, TARGETS, IMPORTS, THEOREMS)
    rng = Rng(seed, 13)
    n = 1500 if tier == "quick" else 30000
    triples = []
    kinds = {"variant": 0, "mutant": 0, "independent": 0, "shared": 0}
    for i in range(n):
        a = gen_data.gen_tree(rng, rng.range(0, 4))
        k = rng.below(8)
        if k < 3: b = a; kinds["variant"] += 1
        elif k < 6: b = gen_data.mutate(rng, a); kinds["mutant"] += 1
        else: b = gen_data.gen_tree(rng, rng.range(0, 3)); kinds["independent"] += 1
        k = rng.below(4)
        c = a if k == 0 else b if k == 1 else gen_data.mutate(rng, b) if k == 2 else gen_data.gen_tree(rng, 2)
        ea, eb, ec = gen_data.render(rng, a, rng.below(4)), gen_data.render(rng, b, rng.below(4)), gen_data.render(rng, c, rng.below(4))
        if rng.chance(1, 8):
            ea = f"((lambda (s) (cons s s)) {ea})"; eb = f"((lambda (s) (cons s s)) {eb})"; kinds["shared"] += 1
        triples.append((ea, eb, ec))
    lines = [f"run env=,limit=20000 {enc(f'((lambda (a b c) (list a b c (= a b) (= b a) (= b c) (= a c) (= a a) (= c c))) {ea} {eb} {ec})')}" for ea, eb, ec in triples]
    answers = run_driver_cases(lines)
    terms, idx, law_fail, trues = [], [], [], 0
    for i, ans in enumerate(answers):
        r = dump.split_run_answer(ans)
        if "special" in r or not r["results"] or r["results"][0][0] != "ok":
            rep.violation(f"evaluating = on data did not return a value: {ans[:200]}", {"expression": dec(lines[i].split(' ')[2]), "answer": ans[:500]})
            continue
        try:
            tree = dump.parse_dump(r["results"][0][1])
        except dump.Truncated:
            continue
        items = dump.list_items(tree)
        a, b, c = items[0], items[1], items[2]
        bools = [dump.strip_meta(x) == ("sym", "t") for x in items[3:9]]
        ab, ba, bc, ac, aa, cc = bools
        why = None
        if not aa or not cc: why = "not reflexive"
        elif ab != ba: why = "not symmetric"
        elif ab and bc and not ac: why = "not transitive"
        if why:
            law_fail.append({"why": why, "expression": dec(lines[i].split(' ')[2])})
        trues += ab
        u = {}
        terms.append(f"({dump.to_coq(a, u)}, {dump.to_coq(b, u)}, {'true' if ab else 'false'})")
        terms.append(f"({dump.to_coq(b, u)}, {dump.to_coq(c, u)}, {'true' if bc else 'false'})")
        idx.append(i); idx.append(i)
    pre = ("From PL Require Import Data.Equal.\n"
           "Definition chk_model (c : val * val * bool) : bool := let '(a, b, r) := c in match equal (S (vsize a)) a b with Some x => Bool.eqb x r | None => false end.\n"
           "Definition chk_spec (c : val * val * bool) : bool := let '(a, b, r) := c in negb (is_data a && is_data b) || Bool.eqb (data_eqb (strip a) (strip b)) r.\n")
    bad_model = coq_check_shards("c13_model", pre, terms, "chk_model", shard_size=250)
    bad_spec = coq_check_shards("c13_spec", pre, terms, "chk_spec", shard_size=250)
    for m in law_fail[:3]:
        rep.violation("= is " + m["why"], m)
    for b in bad_spec[:3]:
        rep.violation("= differs from structural equality modulo metadata", {"expression": dec(lines[idx[b]].split(' ')[2]), "answer": answers[idx[b]][:600], "which": "operands (a,b)" if b % 2 == 0 else "operands (b,c)"})
    if bad_model and not bad_spec and not law_fail:
        rep.broken.append(f"correspondence model/implementation (Equal.equal vs `=`): {len(bad_model)} disagreements, e.g. {dec(lines[idx[bad_model[0]]].split(' ')[2])}")
    # "nested to any depth": deep and long data, compared with itself and with separately built copies, at top level and
    # from inside non-tail calls (prelude environment; expectations dictated by the property)
    mk = "(lambda (n) (foldl (lambda (acc _) (list acc)) 'z (range n)))"
    imp = "(lambda (n) (foldl (lambda (acc i) (cons i acc)) 'end (range n)))"
    deep_cases = []
    for n in ([900, 1100, 3000] if tier == "quick" else [900, 1030, 1100, 3000, 20000]):
        deep_cases += [(f"((lambda (a) (= a a)) ({mk} {n}))", "t"), (f"((lambda (a b) (list (= a b) (= b a))) ({mk} {n}) ({mk} {n}))", "(t t)"),
                       (f"((lambda (a b) (list (= a a) (= a b) (= b a))) ({imp} {n}) ({imp} {n}))", "(t t t)"),
                       (f"((lambda (a b) (list (= a b) (= b a))) ({mk} {n}) ({mk} {n + 1}))", "(() ())"),
                       (f"((lambda (a) (= a a)) (range {n}))", "t")]
    deep_cases += [("(block (defun at-depth (k x) \"\" (if (= k 0) (= x x) (car (list (at-depth (substract k 1) x))))) (list (at-depth 300 '((1 (2 (3 (4)))) 5)) (at-depth 500 '((1 (2 (3 (4)))) 5))))", "(t t)")]
    # symbols are compared by identity: a generated symbol is not = to the interned symbol spelled like its printed form, at any position
    deep_cases += [("((lambda (g) (= g (read-simple (print g)))) (gensym))", "()"),
                   ("((lambda (g) (list (= g g) (= (list 1 g) (list 1 (read-simple (print g)))) (= (list g) (list g)))) (gensym))", "(t () t)"),
                   ("((lambda (g h) (list (= g h) (= (print g) (print h)))) (gensym) (gensym))", None),
                   ("((lambda (g) (= (cons 1 g) (cons 1 (read-simple (print g))))) (gensym))", "()"),
                   ("(= 'abc (read-simple \"abc\"))", "t")]
    da = run_driver_cases(evalcorr_lines([f"(print {p})" for p, _ in deep_cases]), timeout=120.0)
    for (p, want), a in zip(deep_cases, da):
        if want is None:
            continue
        rr = dump.split_run_answer(a)
        got = None
        if "results" in rr and rr["results"] and rr["results"][-1][0] == "ok":
            try:
                got = dump.text_of(dump.parse_dump(rr["results"][-1][1]))
            except dump.Truncated:
                pass
        crashed = rr.get("special") in ("crash", "panic")
        if got != want and not crashed:
            rep.violation(f"= on deep or long data: {p} gives {got if got is not None else a[:100]}, expected {want}", {"expression": p, "env": "p", "expected": want, "observed": a[:300]})
        elif crashed:
            rep.notes.append(f"the process died on {p[:80]} (native stack; C06/C07 territory, not a wrong answer of =)")
    rep.coverage["deep_cases"] = len(deep_cases)
    rep.evaluations = len(lines) + len(deep_cases)
    rep.nontrivial = len(set(t for t in terms if "VCons" in t))
    rep.samples = [dec(lines[k].split(' ')[2]) for k in (0, 1, 2)]
    rep.coverage["pair_kinds"] = kinds
    rep.coverage["pairs_equal"] = trues
    rep.coverage["pairs_total"] = len(idx) // 2
    rep.coverage["exhaustive"] = False
    rep.assumptions = ["values are immutable trees (no mutation primitive exists), so sharing is unobservable by ="]
    return rep.finish("make -C coq Properties/C13.vo && coqc <pinned statements>", TRUSTED_BASE_COMMON + ["axioms: none"],
                      "triples (a,b,c) of generated data: b is a re-rendering of a with different metadata placement (3/8), a one-place mutant (3/8) or independent (2/8); operands read back from the binary with their metadata; non-trivial = a compared pair containing at least one cons")

def replay(path):
    r = json.load(open(path)); print(json.dumps(r, indent=1))
    e = r.get("replay", {}).get("expression")
    if e:
        print("implementation now answers:", run_driver_cases([f"run env=,limit=20000 {enc(e)}"])[0][:800])
    return 0
