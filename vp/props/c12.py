"""C12 - integer arithmetic is exact or signals."""
import json
from ..common import *

PID = "C12"
MANIFEST = {
    "text": "Theorems over ALL pairs of 64-bit integers: the natives add/substract/multiply/divide/</> as written in the source (their shapes are regenerated from src/native/numbers/mod.rs on every run) compute the exact-or-signal specification; the specification never wraps/saturates/panics; division truncates toward zero; MIN/-1 is the only overflowing quotient; parse_i64 (show_i64 z) = z for every i64. A change of an operator (checked_add -> wrapping_add, removed guard) changes the generated model and breaks C12_natives_meet_spec; the check then finds the failing pair on the binary.",
    "note": "Trusted: Coq kernel; the regex translator for numbers/mod.rs; Rust's checked_* / format! / parse::<i64> behave as modelled (compared on all 24x24 boundary pairs per native + random pairs + literal spellings each run); argument validation (validate_args!) is covered by C05/C06.",
    "technique": "Coq proof over generated native shapes + differential check against the binary",
}
TARGETS = ["Properties/C12.v"]
IMPORTS = ["Data.Arith", "Data.ArithProofs", "Data.DecimalProofs", "Generated.Numbers_gen", "Properties.C12"]
THEOREMS = [
    ("C12_natives_meet_spec",
     "forall n x y, in_i64 x = true -> in_i64 y = true -> exists a, impl_of n = Some a /\\ arith_eval a x y = arith_spec n x y"),
    ("C12_spec_exact_or_signal",
     """forall n x y,
  match arith_spec n x y with
  | AOk r => in_i64 r = true /\\
             match n with NAdd => r = (x + y)%Z | NSub => r = (x - y)%Z | NMul => r = (x * y)%Z
                        | NDiv => y <> 0%Z /\\ r = Z.quot x y | _ => False end
  | ASig k => match n with
              | NAdd => in_i64 (x + y) = false /\\ k = "arithmetic-overflow"%string
              | NSub => in_i64 (x - y) = false /\\ k = "arithmetic-overflow"%string
              | NMul => in_i64 (x * y) = false /\\ k = "arithmetic-overflow"%string
              | NDiv => (y = 0%Z /\\ k = "divide-by-zero"%string) \\/
                        (y <> 0%Z /\\ in_i64 (Z.quot x y) = false /\\ k = "arithmetic-overflow"%string)
              | _ => False end
  | ABool b => match n with NLess => (b = true <-> (x < y)%Z) | NGreater => (b = true <-> (x > y)%Z) | _ => False end
  | APanic | APanicOrWrap _ => False
  end"""),
    ("C12_division_truncates_toward_zero",
     "forall x y : Z, y <> 0%Z -> let q := Z.quot x y in let r := (x - q * y)%Z in (Z.abs r < Z.abs y)%Z /\\ ((0 <= x)%Z -> (0 <= r)%Z) /\\ ((x <= 0)%Z -> (r <= 0)%Z)"),
    ("C12_only_min_by_minus_one_overflows",
     "forall x y, in_i64 x = true -> in_i64 y = true -> y <> 0%Z -> in_i64 (Z.quot x y) = false -> x = i64_min /\\ y = (-1)%Z"),
    ("C12_literal_round_trip", "forall z, in_i64 z = true -> parse_i64 (show_i64 z) = Some z"),
]

MIN, MAX = -2**63, 2**63 - 1
NAMES = [("NAdd", "add"), ("NSub", "substract"), ("NMul", "multiply"), ("NDiv", "divide"), ("NLess", "<"), ("NGreater", ">")]

def boundary_values():
    r = 3037000499  # floor(sqrt(MAX))
    vs = [0, 1, -1, 2, -2, MIN, MAX, MIN + 1, MAX - 1, r, r + 1, r - 1, -r, -r - 1, -r + 1,
          MAX // 2, MAX // 2 + 1, MAX // 2 - 1, MIN // 2, MIN // 2 + 1, MIN // 2 - 1, 2**32, -2**32, 2**31]
    return vs

def random_value(rng):
    k = rng.below(6)
    if k == 0: return rng.range(-10, 10)
    if k == 1: return rng.range(MIN, MAX)
    if k == 2: return rng.choice([MIN, MAX]) + rng.range(-3, 3) * (1 if rng.chance(1, 2) else 0)
    if k == 3: return (1 << rng.range(0, 62)) * rng.choice([1, -1]) + rng.range(-2, 2)
    if k == 4: return rng.range(-2**33, 2**33)
    return rng.choice(boundary_values()) + rng.range(-1, 1)

def clamp(z):
    return max(MIN, min(MAX, z))

def parse_outcome(ans):
    """driver answer -> Coq ares term (or None if unparseable)"""
    if ans.startswith("panic") or ans.startswith("crash"):
        return "APanic"
    res = ans.split(" | ")[0]
    if res.startswith("ok I"):
        return f"AOk ({res[4:]})%Z"
    if res == "ok S116":
        return "ABool true"
    if res == "ok N":
        return "ABool false"
    if res.startswith("sig K S107.105.110.100 K S"):
        kind = dec(res.split(" ")[4][1:])
        return f"ASig {coq_string(kind)}"
    return None

def literal_cases(rng, n):
    lits = []
    for v in boundary_values():
        lits.append(str(v))
    lits += ["+5", "-0", "+0", "007", "-007", "9223372036854775808", "-9223372036854775809", "+9223372036854775807",
             "99999999999999999999", "-", "+", "1-", "+-1", "--1", "1a", "0x10", "1_000"]
    for _ in range(n):
        v = random_value(rng)
        lits.append(str(clamp(v)))
        if rng.chance(1, 4):
            lits.append(("+" if v >= 0 else "") + str(clamp(v)))
        if rng.chance(1, 6):
            lits.append(str(v * 7 + 2**63))   # mostly out of range
    return lits

def run(tier, seed):
    rep = Report(PID, tier, seed)
    standard_proof_phase(rep, TARGETS, IMPORTS, THEOREMS)

    rng = Rng(seed, 12)
    nrand = 1500 if tier == "quick" else 60000
    cases = []
    bv = boundary_values()
    for cn, ln in NAMES:
        for x in bv:
            for y in bv:
                cases.append((cn, ln, x, y))
    for i in range(nrand):
        cn, ln = NAMES[rng.below(len(NAMES))]
        cases.append((cn, ln, clamp(random_value(rng)), clamp(random_value(rng))))
    profiles = ["release"] if tier == "quick" else ["release", "debug"]
    mismatches_model, mismatches_spec = [], []
    for profile in profiles:
        lines = [f"run env= {enc(f'({ln} {x} {y})')}" for (cn, ln, x, y) in cases]
        answers = run_driver_cases(lines, profile=profile)
        terms, idxmap = [], []
        for i, ((cn, ln, x, y), ans) in enumerate(zip(cases, answers)):
            o = parse_outcome(ans)
            if o is None:
                rep.violation(f"unexpected answer from the implementation for ({ln} {x} {y}): {ans[:200]}", {"expression": f"({ln} {x} {y})", "answer": ans, "profile": profile})
                continue
            terms.append(f"({cn}, ({x})%Z, ({y})%Z, {o})")
            idxmap.append(i)
        pre = ("From PL Require Import Data.ArithImpl.\nFrom Coq Require Import String.\nOpen Scope string_scope.\n"
               f"Definition release := {'true' if profile == 'release' else 'false'}.\n"
               "Definition chk_model (c : arith_name * Z * Z * ares) : bool := let '(n, x, y, r) := c in\n"
               "  match impl_of n with Some a => ares_match release (arith_eval a x y) r | None => false end.\n"
               "Definition chk_spec (c : arith_name * Z * Z * ares) : bool := let '(n, x, y, r) := c in ares_match release (arith_spec n x y) r.\n")
        bad_model = coq_check_shards(f"c12_model_{profile}", pre, terms, "chk_model", shard_size=800)
        bad_spec = coq_check_shards(f"c12_spec_{profile}", pre, terms, "chk_spec", shard_size=800)
        for b in bad_spec:
            cn, ln, x, y = cases[idxmap[b]]
            mismatches_spec.append({"expression": f"({ln} {x} {y})", "observed": answers[idxmap[b]][:300], "profile": profile,
                                    "how": f"picilisp --expression '({ln} {x} {y})'"})
        for b in bad_model:
            cn, ln, x, y = cases[idxmap[b]]
            mismatches_model.append({"expression": f"({ln} {x} {y})", "observed": answers[idxmap[b]][:300], "profile": profile})
        rep.evaluations += len(cases)
    # the property itself fails on these inputs (implementation differs from the exact-or-signal specification)
    for m in mismatches_spec[:5]:
        rep.violation("implementation differs from the exact-or-signal specification on " + m["expression"], m)
    if mismatches_model and not mismatches_spec:
        rep.broken.append(f"correspondence model/implementation (arith_eval vs binary): {len(mismatches_model)} disagreements, first {mismatches_model[0]}")

    # literals: print and read back
    lits = literal_cases(rng, 200 if tier == "quick" else 5000)
    answers = run_driver_cases([f"run env= {enc(l)} {''}".strip() for l in lits])
    prints = run_driver_cases([f"run env= {enc('(print ' + l + ')')}" for l in lits])
    terms, idx = [], []
    for i, (l, a, p) in enumerate(zip(lits, answers, prints)):
        res = a.split(" | ")[0]
        if res.startswith("ok M") and " I" in res:
            z = res.split(" I")[1]
            # printed text: char list
            pr = p.split(" | ")[0]
            toks = pr.split(" ")
            printed = "".join(chr(int(t[1:])) for t in toks if t.startswith("C"))
            terms.append(f"({coq_text(l)}%N, Some ({z})%Z, {coq_text(printed)}%N)")
        elif res.startswith("rd:error") or res.startswith("ok M") or res.startswith("sig") or res.startswith("ok"):
            # not read as a number (symbol, error, ...)
            isnum = False
            terms.append(f"({coq_text(l)}%N, None, []%N)")
        else:
            rep.violation(f"unexpected answer for literal {l}: {a[:200]}", {"literal": l, "answer": a})
            continue
        idx.append(i)
    pre = ("From PL Require Import Data.Decimal.\n"
           "Definition looks_numeric (t : text) : bool := match t with c :: r => (is_digit c) || (((c =? c_plus) || (c =? c_minus)) && match r with d :: _ => is_digit d || (d =? c_plus) || (d =? c_minus) | [] => false end) | [] => false end.\n"
           "Definition chk (c : text * option Z * text) : bool := let '(lit, z, printed) := c in\n"
           "  match z with\n"
           "  | Some v => match parse_i64 lit with Some v' => (v =? v')%Z && text_eqb (show_i64 v) printed && match parse_i64 printed with Some v2 => (v2 =? v)%Z | None => false end | None => false end\n"
           "  | None => match parse_i64 lit with Some _ => false | None => true end\n"
           "  end.\n")
    bad = coq_check_shards("c12_lit", pre, terms, "chk", shard_size=1000)
    for b in bad[:5]:
        l = lits[idx[b]]
        rep.violation(f"integer literal {l}: reading/printing differs from parse_i64/show_i64", {"literal": l, "read": answers[idx[b]][:300], "printed": prints[idx[b]][:300]})
    rep.evaluations += len(lits)
    rep.nontrivial = len(set((c[0], c[2], c[3]) for c in cases if not (abs(c[2]) < 4 and abs(c[3]) < 4))) + len(set(lits))
    rep.samples = [f"({ln} {x} {y})" for (_, ln, x, y) in cases[40:44]] + lits[:3] + lits[-2:]
    rep.coverage["profiles"] = profiles
    rep.coverage["boundary_pairs_per_operation"] = len(bv) ** 2
    rep.coverage["exhaustive"] = False
    rep.assumptions = ["Rust i64::checked_add/sub/mul/div, format!(\"{}\") and str::parse::<i64> behave as modelled (arith_eval, show_i64, parse_i64); validated on all boundary pairs and random pairs in this run",
                       "the regular-expression translator reads each arithmetic native's shape correctly (Generated/Numbers_gen.v)"]
    return rep.finish("make -C coq Properties/C12.vo && coqc <pinned statements> (vp/common.py pin_check)",
                      TRUSTED_BASE_COMMON + ["axioms: none (Closed under the global context for all five theorems)"],
                      "all 24x24 boundary pairs for each of the 6 natives plus random pairs (one splitmix64 stream from VERIF_SEED); a pair is non-trivial unless both operands are in [-3,3]; plus literal spellings (valid, signed, zero-padded, out of range, malformed)")

def replay(path):
    with open(path) as f:
        r = json.load(f)
    print(json.dumps(r, indent=1))
    e = r.get("replay", {}).get("expression")
    if e:
        ans = run_driver_cases([f"run env= {enc(e)}"])
        print("implementation now answers:", ans[0][:300])
    return 0
