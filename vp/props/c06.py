"""C06 - totality: every call ends in a value, a Lisp signal or the language's own abort; never a crash."""
import json, re, os, subprocess, sys
from ..common import *
from .. import dump, evalcorr, evalprop, gen_data

PID = "C06"
MANIFEST = {
    "text": "The model carries, as explicit panic outcomes, the panic sites transcribed from the Rust code (slice index, unwrap, as_conscell, unchecked arithmetic), and the theorems show that no input reaches them. The main theorem is evaluator-wide: for EVERY expression, environment, module, depth, amount of fuel and every state whose current module exists, neither the evaluator loop nor the expander nor eval / macroexpand / call-native-function / load-all ends in a panic site (mutual induction over the six functions; the only residue, named in the statement, is where the model itself gives up: file-system access and native-function values that name no table entry, which the interpreter cannot construct); it rests on: every primitive of the GENERATED table on every argument list that passes its generated signature; no module ever disappears and the current module always exists (so load-all's unwrap cannot fail); what read returns is a property list. Site by site: the reader and the native read for every text, source and start position (negative, zero, huge); the arithmetic natives as generated from the source on every pair of i64, in either build profile; evaluation beyond the depth limit is a signal for every expression; variable lookup is total on any value used as environment, exact on association lists, and parameter binding and trap handling only ever extend an association list by (symbol . value) pairs (all parameter lists, argument lists, rest parameters); send is total on every list. Tied to the code by the shared differential checks of the evaluator and reader models, and decided on the binary (debug and release profile, in-process panic capture and process exit status) by a type-shaped enumeration: every primitive applied to every combination of argument shapes (all types, boundary integers, improper, odd, long, deep and shared structures, hand-made functions, traps and environments) at every arity from 0 to one more than declared, plus malformed texts for read and deep/long data through print, =, eval, macroexpand and the command-line front end.",
    "note": "Partial: exhaustion of the native stack by uncounted recursion and panics inside the Rust standard library are runtime behaviour the model cannot exhibit; that part is decided by the enumeration on the binary (testing, not proof). Trusted: Coq kernel; transcription of panic sites (hand-written, bound by the correspondence: the model panics exactly where the binary does on the enumerated cases).",
    "technique": "Coq proof by mutual induction over the six evaluator functions that no evaluation reaches a transcribed panic site + per-primitive totality over the generated native table + module-persistence invariant + exhaustive type-shaped enumeration of primitives x argument shapes on the binary in both build profiles + model/binary agreement on the enumerated calls",
}
TARGETS = ["Properties/C06.v", "Eval/PreludeState.v"]
IMPORTS = ["Data.ReaderProofs", "Data.ArithProofs", "Eval.Eval", "Eval.EvalRules", "Eval.SemProofs", "Eval.TotalityProofs", "Eval.NativesTotal", "Eval.ModulesPersist", "Eval.EvalTotal", "Properties.C06"]
THEOREMS = [
    ("C06_reader_total", "forall src inp inv line col, rd_not_panic (read_text src inp inv line col)"),
    ("C06_arithmetic_total", "forall n x y a, in_i64 x = true -> in_i64 y = true -> impl_of n = Some a -> arith_eval a x y <> APanic /\\ forall w, arith_eval a x y <> APanicOrWrap w"),
    ("C06_depth_is_a_signal", 'forall f st e env m d, (MAXD < d)%N -> eval_internal (S f) st e env m d = (st, RSig (make_error "stackoverflow" (s "eval") []))'),
    ("C06_lookup_first_binding", "forall kv rest key v k' k, getv kv = VCons key v -> getv key = VSym k' -> env_lookup (VCons kv rest) k = if sym_eqb k' k then LFound v else env_lookup rest k"),
    ("C06_handmade_environment_harmless", 'forall k rest, env_lookup (VNum 5) k = LMissing /\\ env_lookup (VSym (Named (s "e"))) k = LMissing /\\ env_lookup (VCons (VNum 1) rest) k = env_lookup rest k /\\ env_lookup (VCons (VCons (VNum 1) (VNum 2)) rest) k = env_lookup rest k'),
    ("C06_binding_keeps_alist", "forall src params rest args env i n env', symbols params -> wf_env env -> pair_params src params rest args env i n = inl env' -> wf_env env'"),
    ("C06_trap_keeps_alist", 'forall sg env, wf_env env -> wf_env (VCons (VCons (vsym "*trapped-signal*") sg) env)'),
    ("C06_send_total", 'forall st data d l, list_to_vec data = Some l -> exists r, simple_native st (s "send") [data] d = Some (st, r) /\\ forall site, r <> RPanic site'),
    ("C06_send_odd_is_a_signal", 'forall st d, simple_native st (s "send") [VCons (vsym "a") VNil] d = Some (st, RSig (make_error "invalid-plist" (s "send") [("symbol", vsym "data")]))'),
    ("C06_read_total", "forall input source line col site, read_result input source line col <> RPanic site"),
    ("C06_no_primitive_panics", "forall st name info sig args d st' site, find_native name native_table = Some info -> n_sig info = Some sig -> validate name sig args = None -> simple_native st name args d = Some (st', RPanic site) -> model_limit site"),
    ("C06_evaluator_never_panics", "forall fuel, (forall st e env m d st' site, cur_ok st -> eval_internal fuel st e env m d = (st', RPanic site) -> residual site) /\\ (forall st e env m d st' site, cur_ok st -> eval_loop fuel st e env m d = (st', RPanic site) -> residual site) /\\ (forall st e env m d ch st' site ch', cur_ok st -> expand_internal fuel st e env m d ch = (st', RPanic site, ch') -> residual site) /\\ (forall st e env m d st' site, cur_ok st -> expand_completely fuel st e env m d = (st', RPanic site) -> residual site) /\\ (forall st name args env d st' site, cur_ok st -> call_native fuel st name args env d = (st', RPanic site) -> residual site) /\\ (forall st cursor source line col d st' site, cur_ok st -> load_loop fuel st cursor source line col d = (st', RPanic site) -> residual site)"),
    ("C06_modules_persist", "forall fuel st name args env d st' r, call_native fuel st name args env d = (st', r) -> keeps st st'"),
    ("C06_residual_is", 'forall site, residual site <-> (site = "model: file system access is not modelled" \\/ site = "model: native function value without a table entry") \\/ site = "model: unknown native"'),
]

# argument shapes (Lisp expressions); the big ones are bound by a lambda around the call (define would
# print them for its debugger message, which takes minutes on shared structures)
BIG_THOROUGH = {"deep": "(foldl (lambda (acc _) (list acc)) nil (range 2000))",
                "long": "(range 20000)",
                "deepcdr": "(foldl (lambda (acc i) (cons i acc)) 'end (range 5000))",
                "nest2": "(foldl (lambda (acc _) (list acc acc)) 1 (range 16))"}
BIG_QUICK = {"deep": "(foldl (lambda (acc _) (list acc)) nil (range 1200))",
             "long": "(range 2500)",
             "deepcdr": "(foldl (lambda (acc i) (cons i acc)) 'end (range 1500))",
             "nest2": "(foldl (lambda (acc _) (list acc acc)) 1 (range 11))"}
BIG = dict(BIG_THOROUGH)

def with_big(form):
    used = [k for k in BIG if re.search(r"(?<![\w-])" + k + r"(?![\w-])", form)]
    if not used:
        return form
    return "((lambda (" + " ".join(used) + ") " + form + ") " + " ".join(BIG[k] for k in used) + ")"

SHAPES = [
    ("nil", "()"), ("zero", "0"), ("minus1", "-1"), ("max", "9223372036854775807"), ("min", "-9223372036854775808"), ("char", "%a"),
    ("sym", "'sym"), ("keya", "'a"), ("keyb", "'b"), ("string", "\"str\""), ("list", "'(1 2 3)"), ("oddplist", "'(a 1 b)"), ("plist", "'(a 1 b 2)"), ("badplist", "'(1 a 2)"),
    ("pair", "'(1 . 2)"), ("improper", "'(a b . c)"), ("lambda", "(lambda (x) x)"), ("restfn", "(lambda (& r) r)"), ("macro", "(macro (x) x)"),
    ("native", "car"), ("special", "eval"), ("trap", "(make-trap 1 2)"), ("gensym", "(gensym)"), ("stdout", "'*stdout*"), ("stdin", "'*stdin*"),
    ("ltype", "'lambda-type"), ("module", "'default"), ("amp", "'(x & r)"), ("form", "'(car (quote (1)))"), ("badfn", "(make-function '(x) 'y 5 'default 'lambda-type)"),
    ("deep", "deep"), ("long", "long"), ("deepcdr", "deepcdr"), ("nest2", "nest2"),
]
SMALL = [s for s in SHAPES if s[0] in ("nil", "min", "keyb", "oddplist", "improper", "lambda", "badfn", "deep")]
WRITES_FILES = {"output-file"}     # a string as its first argument names a file to create: not enumerated

def native_table():
    sys.path.insert(0, os.path.join(VERIF, "gen"))
    import gen as G
    return [(e["name"], len([p for p in e["params"] if p != "&"]), "&" in e["params"]) for e in G.native_table()]

def call_text(name, args):
    return "(" + " ".join([name] + [a for _, a in args]) + ")"

def enumerate_calls(rng, tier):
    """every primitive x every combination of shapes up to 2 arguments (thorough: full pool; quick: small pool plus a sample),
    sampled combinations beyond, at every arity from 0 to declared+1"""
    calls = []
    budget_pairs = 10**9 if tier == "thorough" else 40
    for name, arity, rest in native_table():
        for k in range(0, arity + 2):
            pool = SHAPES
            if name in WRITES_FILES:
                pool = [s for s in SHAPES if s[0] not in ("string", "list", "long", "deepcdr")]
            if k == 0:
                combos = [[]]
            elif k == 1:
                combos = [[a] for a in pool]
            elif k == 2:
                full = [[a, b] for a in pool for b in pool]
                if len(full) > budget_pairs:
                    combos = [[a, b] for a in SMALL for b in SMALL if a in pool] + [[rng.choice(pool), rng.choice(pool)] for _ in range(budget_pairs)]
                else:
                    combos = full
            else:
                m = 600 if tier == "thorough" else 25
                combos = [[rng.choice(pool) for _ in range(k)] for _ in range(m)]
                combos += [[a] * k for a in pool]
            for c in combos:
                if name in WRITES_FILES and c and c[0][0] in ("string", "list", "long", "deepcdr"):
                    continue
                calls.append((name, c))
    return calls

# calls made through the data-handling entry points named by the property
STRUCTURE_FORMS = [
    "(. '(a 1 b) 'b)", "(. '(a 1 b) 'a)", "(get-property-safe 'b '(a 1 b))", "(print deep)", "(print long)", "(print deepcdr)", "(= deep deep)", "(= long long)", "(= deepcdr deepcdr)", "(= nest2 nest2)", "(eval deep)", "(macroexpand deep)",
    "(eval (list 'quote deep))", "(macroexpand long)", "(eval long)", "(type-of deepcdr)", "(length long)", "(reverse long)", "(append long long)", "(signal deep)",
    "(eval (trap (signal deep) *trapped-signal*))", "(list deep deep)", "(get-metadata deep)", "(print (list deepcdr))", "(print nest2)",
    "(read (print deep) 'stdin 1 1)", "(read (print long) 'stdin 1 1)", "(send deep)", "(send long)", "(. long 'a)", "(. deepcdr 'a)",
    "((make-function '(x) 'y 5 'default 'lambda-type) 1)", "(call-native-function eval '(x) 5)", "(call-native-function eval '(x) '(1))", "(call-native-function eval '(x) '((1 . 2)))",
    "((make-function '(x) 'x '((y . 1)) 'default 'lambda-type) 1)", "((make-function '(x & r) 'r () 'default 'lambda-type) 1 2)", "((make-function '(1) 'x () 'default 'lambda-type) 1)",
    "((make-function '(x) '(car x) () 'nosuchmodule 'lambda-type) '(1))", "(eval (make-trap 'unbound 5))", "(eval (make-trap '(signal 1) '*trapped-signal*))",
    "(divide -9223372036854775808 -1)", "(multiply -9223372036854775808 -1)", "(substract 0 -9223372036854775808)", "(add 9223372036854775807 1)",
    "(read \"x\" 'stdin 1 0)", "(read \"x\" 'stdin 0 1)", "(read \"x\" 'stdin -9223372036854775808 1)", "(read \"x\" 'stdin 1 -9223372036854775808)",
    "(read \"x\" 'stdin 9223372036854775807 9223372036854775807)", "(read \"\\n\\n\" 'stdin 9223372036854775807 1)", "(read \"ab\" 'stdin 1 9223372036854775807)",
    "(read \"(a\\nb)\" '(1 2) 1 1)", "(read \"x\" \"file.lisp\" 1 1)", "(read \"x\" long 1 1)", "(load-all \"(car 5)\" 'stdin)", "(load-all \"(\" 'stdin)", "(load-all long 'stdin)",
    "(with-current-module car 'nosuch)", "(with-current-module deep 'prelude)", "(from-module car 'prelude)", "(export long)", "(export '(1 2))", "(export deepcdr)",
    "(define 'x 1 long)", "(define 'car 1 \"\")", "(undefine 'car)", "(undefine 'nosuch)", "(whereis 'nosuch)", "(gensym)", "(output-file '*stdout* long)", "(output-file '*stdout* deep)",
    "(output-file '*stdout* '(%a . %b))", "(input-file '*stdout*)", "(input-file 'nosuch)", "(input-file \"/nonexistent/file\")", "(destructure-function eval)", "(destructure-trap (make-trap deep deep))",
    "(unrest car)", "((unrest (lambda (& r) r)) 5)", "((unrest (lambda (& r) r)) '(1 . 2))", "(apply car deepcdr)", "(map car deep)", "(abort)", "(abort 1)",
]

def cli_case(exe, expr, timeout=30.0):
    """the command-line front end: exit status 0 (value) or 1 (error message) are fine; a signal or 101 is a crash"""
    try:
        p = subprocess.run([exe, "--expression", expr], stdin=subprocess.DEVNULL, stdout=subprocess.PIPE, stderr=subprocess.PIPE, timeout=timeout)
    except subprocess.TimeoutExpired:
        return "timeout", ""
    tail = (p.stderr or b"")[-300:].decode("utf8", "replace")
    if p.returncode in (0, 1) and "panicked" not in tail:
        return "ok", tail
    return f"exit {p.returncode}", tail

CLI_FORMS = [
    "(signal (foldl (lambda (acc _) (list acc)) nil (range 3000)))", "(foldl (lambda (acc _) (list acc)) nil (range 3000))", "(range 50000)",
    "(signal 'plain)", "(car 5)", "(throw 'kind 'k 'payload (range 2000))", "(", ")", "\"", "%", "'", "(abort)", "",
    "(block (defun deep (n) \"\" (if (= n 0) 0 (add 1 (deep (substract n 1))))) (deep 900))",
]

def panic_message(answer):
    w = answer.split(" ")
    if len(w) > 1 and w[0] in ("panic", "crash"):
        try:
            return dec(w[1])
        except Exception:
            return answer
    return answer

def classify(name, shapes, form, answer):
    """known class of a crash (none is open at present; the classes found so far have been repaired), or None"""
    return None

def run(tier, seed):
    rep = Report(PID, tier, seed)
    standard_proof_phase(rep, TARGETS, IMPORTS, THEOREMS)
    known = load_known()
    def entry(cls):
        e = [k for k in known["open"] if k["property"] == PID and k.get("class") == cls]
        return e[0] if e else None
    rng = Rng(seed, 6)
    BIG.clear(); BIG.update(BIG_THOROUGH if tier == "thorough" else BIG_QUICK)
    calls = enumerate_calls(rng, tier)
    programs = [with_big(call_text(n, c)) for n, c in calls] + [with_big(f) for f in STRUCTURE_FORMS]
    meta = [(n, [s for s, _ in c], None) for n, c in calls] + [(None, [], f) for f in STRUCTURE_FORMS]
    hits = {}
    outcome_kinds = {}
    per_profile = {}
    for profile in ("release", "debug"):
        answers = run_driver_cases(evalcorr.driver_lines(programs, env="p", opts="cont=1"), profile=profile, timeout=25.0)
        kinds = {}
        for (name, shapes, form), prog, a in zip(meta, programs, answers):
            r = dump.split_run_answer(a)
            k = r.get("special") or (r["results"][-1][0] if r["results"] else "none")
            kinds[k] = kinds.get(k, 0) + 1
            if k in ("panic", "crash", "timeout"):
                what = call_text(name, [(s, dict(SHAPES)[s]) for s in shapes]) if name else form
                cls = classify(name, shapes, form, a) if k != "timeout" else None
                if k == "timeout":
                    cls = "slow-structure" if (form or any(s in ("deep", "long", "deepcdr", "nest2") for s in shapes)) else None
                    if cls:      # a long computation on a very large structure is not a crash; note it
                        hits.setdefault("timeouts_on_large_structures", []).append(what)
                        continue
                if cls and entry(cls):
                    hits.setdefault(cls, []).append(f"{profile}: {what}")
                    continue
                rep.violation(f"{profile} build: the interpreter process {'panicked' if k == 'panic' else 'crashed' if k == 'crash' else 'hung'} on {what}: {panic_message(a)[:160]}",
                              {"profile": profile, "program": prog, "call": what, "observed": panic_message(a)[:400],
                               "how": f"picilisp --verif-driver ({profile}): run env=p,cont=1 <program>"})
        per_profile[profile] = kinds
        # the command-line front end (main thread, its own printing of results and errors)
        exe = build_driver(profile)
        for f in CLI_FORMS:
            st, tail = cli_case(exe, f)
            kinds["cli:" + st.split(" ")[0]] = kinds.get("cli:" + st.split(" ")[0], 0) + 1
            if st != "ok":
                cls = "uncaught-deep-signal" if f.startswith("(signal (foldl") or f.startswith("(foldl") else "debug-native-stack" if "deep 900" in f else None
                if cls and (entry(cls) or cls == "debug-native-stack"):
                    hits.setdefault(cls, []).append(f"{profile}: --expression {f}")
                    continue
                rep.violation(f"{profile} build: picilisp --expression {f!r} ended with {st}: {tail[-160:]}",
                              {"profile": profile, "how": f"{exe} --expression '{f}'", "observed": st + " " + tail})
    # the model's totality theorems are about the transcription: tie it to the binary on the enumerated calls
    # (small shapes only; the primitives that touch the file system are not modelled)
    small_names = {s for s, _ in SHAPES} - set(BIG) - {"badfn"}
    modelled = [(n, c) for n, c in calls if n not in ("input-file", "output-file") and all(s in small_names for s, _ in c)]
    step = max(1, len(modelled) // (400 if tier == "quick" else 6000))
    model_progs = [call_text(n, c) for n, c in modelled[seed % step::step]] + [f for f in STRUCTURE_FORMS if not any(b in f for b in BIG) and "file" not in f]
    ps = evalprop.ProgramSet("calls", model_progs, env="p", opts="cont=1", shard_size=40, timeout=20.0)
    evalprop.run_sets(rep, [ps])
    if ps.bad and not rep.violations:
        evalprop.report_disagreements(rep, [ps], "primitive calls on every argument shape")
    rep.coverage["model_vs_binary_calls"] = len(model_progs)
    for cls, lst in hits.items():
        e = entry(cls)
        if e:
            rep.known_lines.append(f"KNOWN-FINDING: property={PID} {e['what']} [{len(lst)} cases of this class in this run, e.g. {lst[0][:120]}]")
    # malformed texts for the reader, both profiles (the exhaustive comparison with the model is C11's)
    texts = []
    alphabet = ["(", ")", "'", "\"", "%", ";", " ", "\n", "a", "1", "-", "+", "\\", ".", ",", "\t", "é", "　"]
    for _ in range(800 if tier == "quick" else 20000):
        texts.append("".join(rng.choice(alphabet) for _ in range(rng.range(0, 12))))
    read_bad = 0
    for profile in ("release", "debug"):
        ans = run_driver_cases([f"read 1 1 {enc(t)}" for t in texts], profile=profile, timeout=20.0)
        for t, a in zip(texts, ans):
            if not (a.startswith("ok") or a.startswith("sig")):
                read_bad += 1
                rep.violation(f"{profile} build: read crashed on the text {t!r}: {a[:160]}", {"profile": profile, "text": t, "observed": a[:300]})
    rep.evaluations = 2 * (len(programs) + len(CLI_FORMS) + len(texts))
    rep.nontrivial = len(calls)
    rep.samples = [call_text(*calls[len(calls) // 3]), call_text(*calls[2 * len(calls) // 3])]
    rep.coverage.update({"primitives": len(native_table()), "shapes": [s for s, _ in SHAPES], "calls_enumerated": len(calls), "structure_forms": len(STRUCTURE_FORMS),
                         "outcomes_by_profile": per_profile, "known_class_hits": {k: len(v) for k, v in hits.items()}, "reader_texts": len(texts),
                         "exhaustive": tier == "thorough", "exhaustive_scope": "all primitives x all shape combinations for 0, 1 and 2 arguments (thorough tier); sampled beyond"})
    rep.assumptions = ["output-file with a text as first argument (a file name) is not enumerated: it creates files",
                       "a call that does not answer within 25 s on a 20000-element, 2000-deep or heavily shared structure is recorded as slow, not as a crash"]
    return rep.finish("make -C coq Properties/C06.vo && coqc <pinned statements>", TRUSTED_BASE_COMMON + ["axioms: none"],
                      "every primitive of the generated table x argument shapes of every type (boundary integers, odd/improper/deep/long structures, hand-made functions, traps, environments) at arities 0..declared+1, debug and release; non-trivial = enumerated primitive calls")

def replay(path):
    r = json.load(open(path)); print(json.dumps(r, indent=1)[:3000])
    rp = r.get("replay", {})
    if rp.get("program"):
        print("implementation now answers:", run_driver_cases(evalcorr.driver_lines([rp["program"]], env="p", opts="cont=1"), profile=rp.get("profile", "release"), timeout=60.0)[0][:600])
    return 0
