"""C08 - signals reach the innermost trap intact; abort untrappable; errors are plists."""
from ..common import *
from .. import dump, evalcorr, gen_prog
from ..evalprop import *

PID = "C08"
MANIFEST = {
    "text": "Theorems over the transcribed evaluator, for every trap, environment, module, state and depth: a non-nil signal of the normal body (whatever raised it, at whatever position and nesting - that is inside the hypothesis) runs THIS trap's handler in the trap's environment extended with *trapped-signal* bound to exactly that value; a signal of the handler is the trap's result (goes outward); values and ABORT pass untouched; ABORT passes ANY number n of nested traps (induction on n); `signal` can never produce an abort; validation errors of all natives and special forms, and define's already-defined error, are make_error plists with kind and source. Tied to the code by generated trap nests (signalling expression at every position, payloads of every type, every primitive error per argument position) run on the binary and in the model, and by a plist monitor on every signal the interpreter itself raises.",
    "note": "Trusted: Coq kernel; hand transcription of eval_internal (bound by the correspondence incl. poll counts); prelude text generated. The 'every interpreter error is a plist' clause is a theorem for validation/define errors and a monitor (all signals observed in this run) for the remaining error sites.",
    "technique": "Coq rules derived from the transcribed evaluator + induction over trap nesting + differential check and plist monitor on the binary",
}
TARGETS = ["Properties/C08.v", "Eval/PreludeState.v"]
IMPORTS = ["Eval.EvalRules", "Eval.SemProofs", "Properties.C08"]
THEOREMS = [
    ("C08_trap_catches_with_payload", 'forall f st st\' e env m d nb tb st1 sg, poll st = (st\', None) -> list_to_vec e = None -> getv e = VTrap nb tb -> eval_internal f st\' nb env m (d + 1)%N = (st1, RSig sg) -> eval_loop (S f) st e env m d = eval_internal f st1 tb (VCons (VCons (vsym "*trapped-signal*") sg) env) m (d + 1)%N'),
    ("C08_trapped_signal_is_the_signal", 'forall sg env, env_lookup (VCons (VCons (vsym "*trapped-signal*") sg) env) (Named (s "*trapped-signal*")) = LFound sg'),
    ("C08_handler_signal_goes_outward", 'forall f st st\' e env m d nb tb st1 sg st2 sg2, poll st = (st\', None) -> list_to_vec e = None -> getv e = VTrap nb tb -> eval_internal f st\' nb env m (d + 1)%N = (st1, RSig sg) -> eval_internal f st1 tb (VCons (VCons (vsym "*trapped-signal*") sg) env) m (d + 1)%N = (st2, RSig sg2) -> eval_loop (S f) st e env m d = (st2, RSig sg2)'),
    ("C08_trap_passes_everything_else", "forall f st st' e env m d nb tb st1 r, poll st = (st', None) -> list_to_vec e = None -> getv e = VTrap nb tb -> eval_internal f st' nb env m (d + 1)%N = (st1, r) -> (forall sg, r <> RSig sg) -> eval_loop (S f) st e env m d = (st1, r)"),
    ("C08_abort_through_any_nesting", "forall n k e handlers env m d, (List.length handlers = n)%nat -> aborts_from k e env m (d + N.of_nat n)%N -> (d + N.of_nat n <= MAXD + 1)%N -> aborts_from (k + 2 * n) (trap_nest n e handlers) env m d"),
    ("C08_signal_cannot_forge_abort", 'forall st x d, exists r, simple_native st (s "signal") [x] d = Some (st, r) /\\ r <> RAbort /\\ (is_nil x = false -> r = RSig x)'),
    ("C08_validation_errors_are_plists", "forall src sig args e, validate src sig args = Some e -> exists kind details, e = make_error kind src details"),
    ("C08_define_error_is_plist", 'forall st n v doc d x dtext, getv n = VSym x -> list_to_string doc = Some dtext -> is_global_defined st (sym_name x) = true -> simple_native st (s "define") [n; v; doc] d = Some (st, RSig (make_error "already-defined" (s "define") [("symbol", n)]))'),
]

PAYLOADS = ["'boom", "42", "%c", '"text"', "'(a (b) 1)", "(list 'kind 'my-kind 'n 7)", "(gensym)", "(lambda (x) x)", "(cons 1 2)", "t"]
SIGNALLERS = ["(signal {p})", "(car 5)", "(undefined-fn 1)", "unbound-var", "(add 1 'x)", "((lambda (x) x))", "(5 5)", "(throw 'kind 'thrown 'p {p})",
              "(divide 1 0)", "(add 9223372036854775807 1)", "(. '(a) 'a)", "(last nil)", "(read-simple \")\")", "(from-module 'x 'nomodule)",
              "(define 't 1 \"\")", "(make-function '(1) 'x nil 'default 'lambda-type)", "(lambda (x &) x)", "(quote)", "(if 1)"]
POSITIONS = ["{s}", "(list 1 {s} 3)", "({s} 1)", "(if {s} 1 2)", "(if 1 {s} 2)", "((lambda (x) (add x {s})) 1)", "(when t {s})",
             "(map (lambda (x) {s}) '(1 2))", "(cons {s} 1)", "(let (q {s}) q)", "(block 1 {s} 2)", "(and t {s})", "(foldl (lambda (a b) {s}) 0 '(1))"]

def trap_nest(rng, depth, signaller):
    """nested (eval (trap ...)) with handlers that return, re-signal or inspect the payload"""
    body = signaller
    for lvl in range(depth):
        k = rng.below(5)
        if k == 0: h = f"(list 'h{lvl} *trapped-signal*)"
        elif k == 1: h = f"(signal (list 'from-handler {lvl} *trapped-signal*))"
        elif k == 2: h = "*trapped-signal*"
        elif k == 3: h = f"(= *trapped-signal* *trapped-signal*)"
        else: h = f"(list 'kind-was (get-property-safe 'kind *trapped-signal*))"
        body = rng.choice(POSITIONS).replace("{s}", f"(eval (trap {body} {h}))")
    return body

def trap_object_nest(rng, depth, signaller):
    """trap OBJECTS directly as the normal body of other traps (only make-trap can build these):
    the inner trap is evaluated while the outer trap's frame is active"""
    t = f"(trap {signaller} {rng.choice(['(signal (list *trapped-signal* 0))', '*trapped-signal*', '(car 7)', '(list (quote h0) *trapped-signal*)'])})"
    for lvl in range(1, depth + 1):
        h = rng.choice([f"(list 'h{lvl} *trapped-signal*)", f"(signal (list 'again{lvl} *trapped-signal*))", "*trapped-signal*", "(undefined-handler-fn)"])
        body = rng.choice([t, t, t, "5", "()", "car", f"(lambda (x) {lvl})"]) if lvl == depth and rng.chance(1, 4) else t
        t = f"(make-trap {body} '{h})"
    return f"(eval {t})"

def plist_ok(tree):
    items = dump.list_items(tree) if tree else None
    if items is None or len(items) % 2:
        return False
    keys = [dump.strip_meta(items[i]) for i in range(0, len(items), 2)]
    return ("sym", "kind") in keys and ("sym", "source") in keys

def run(tier, seed):
    rep = Report(PID, tier, seed)
    standard_proof_phase(rep, TARGETS, IMPORTS, THEOREMS)
    rng = Rng(seed, 8)
    progs = []
    # every signaller at every position, caught by one trap that returns the payload
    for sg in SIGNALLERS:
        for pos in POSITIONS:
            s_ = sg.replace("{p}", rng.choice(PAYLOADS))
            progs.append("(eval (trap " + pos.replace("{s}", s_) + " (list 'caught *trapped-signal*)))")
    # payload identity through a gensym: the handler sees the very object that was signalled
    progs += ["((lambda (g) (eval (trap (list 1 (signal g)) (= g *trapped-signal*)))) (gensym))",
              "((lambda (g) (eval (trap (eval (trap (signal g) (signal *trapped-signal*))) (= g *trapped-signal*)))) (gensym))"]
    # abort under traps, inside closures, macros, natives
    progs += ["(eval (trap (abort) 'never))", "(eval (trap (eval (trap (list 1 (abort)) 'never)) 'never2))", "(try (abort) (catch-all (lambda (e) 'never)))",
              "(eval (trap (map (lambda (x) (abort)) '(1)) 'never))", "(eval (trap (load-all \"(abort)\" 'stdin) 'never))", "(eval (trap (call-native-function abort () ()) 'never))",
              "(eval (trap (signal ()) *trapped-signal*))", "(eval (trap (signal nil) *trapped-signal*))", "(eval (trap (eval '(abort)) 1))"]
    n = 150 if tier == "quick" else 3000
    for i in range(n):
        sg = rng.choice(SIGNALLERS).replace("{p}", rng.choice(PAYLOADS))
        progs.append(trap_nest(rng, rng.range(1, 8 if tier == "thorough" else 5), rng.choice(POSITIONS).replace("{s}", sg)))
    for i in range(60 if tier == "quick" else 1000):
        sg = rng.choice(SIGNALLERS).replace("{p}", rng.choice(PAYLOADS))
        progs.append(trap_object_nest(rng, rng.range(1, 4), sg))
    progs += ["(eval (make-trap (trap (signal 1) (signal (list *trapped-signal* 2))) '(list 'outer *trapped-signal*)))",
              "(eval (make-trap 5 'h))", "(eval (make-trap () 'h))", "(eval (make-trap car 'h))", "(eval (make-trap (make-trap (trap (abort) 1) 2) 3))"]
    # nests whose outcome the property itself dictates: every inner handler re-signals, the outermost returns
    dictated = []
    for depth in range(1, 5):
        for sg in ["(signal 'boom)", "(car 5)", "unbound-var", "(throw 'kind 'k)"]:
            for obj in (True, False):
                if obj:
                    t = f"(trap {sg} (signal (list 'lvl0 *trapped-signal*)))"
                    for lvl in range(1, depth):
                        t = f"(make-trap {t} '(signal (list 'lvl{lvl} *trapped-signal*)))"
                    dictated.append(f"(eval (make-trap {t} '(list 'outermost *trapped-signal*)))")
                else:
                    t = f"(eval (trap {sg} (signal (list 'lvl0 *trapped-signal*))))"
                    for lvl in range(1, depth):
                        t = f"(eval (trap (list 1 {t}) (signal (list 'lvl{lvl} *trapped-signal*))))"
                    dictated.append(f"(eval (trap (cons 0 {t}) (list 'outermost *trapped-signal*)))")
    # uncaught errors of the interpreter: every primitive with a wrong type at each position, wrong arity
    natives = [("cons", 2), ("car", 1), ("cdr", 1), (".", 2), ("append", 2), ("unrest", 1), ("read", 4), ("make-trap", 2), ("make-function", 5),
               ("call-native-function", 3), ("macroexpand", 1), ("eval", 1), ("load-all", 2), ("print", 1), ("add", 2), ("substract", 2), ("multiply", 2), ("divide", 2),
               ("<", 2), (">", 2), ("define", 3), ("undefine", 1), ("whereis", 1), ("export", 1), ("get-current-module", 0), ("from-module", 2), ("with-current-module", 2),
               ("destructure-trap", 1), ("destructure-function", 1), ("type-of", 1), ("get-metadata", 1), ("send", 1), ("input-file", 1), ("output-file", 2), ("gensym", 0), ("=", 2), ("abort", 0)]
    bad_vals = ["5", "'sym", "%c", "(cons 1 2)", "car", "(trap 1 2)", "()", '"str"']
    errprogs = []
    for name, ar in natives:
        errprogs.append("(" + name + " 1" * (ar + 1) + ")")
        if ar > 0:
            errprogs.append("(" + name + " 1" * (ar - 1) + ")")
        for pos in range(ar):
            for bv in (bad_vals if tier == "thorough" else [rng.choice(bad_vals), rng.choice(bad_vals)]):
                args = ["1"] * ar
                args[pos] = bv
                if name in ("input-file", "output-file") and pos == 0 and bv in ("()", '"str"'):
                    continue          # would touch the file system, which the model does not cover
                errprogs.append(f"({name} {' '.join(args)})")
    errprogs += ["(define 'zz 1 \"\") (define 'zz 2 \"\")", "(last nil)", "(read-simple \"(\")", "(unzip-list '(1))", "(let (a) a)", "(f)", "((lambda (x)))", "(lambda (&) 1)", "(lambda (x & y z) 1)"]
    # signals and aborts raised by a MACRO BODY while a form is expanded at run time (eval / macroexpand / load-all of
    # quoted forms inside traps): the handler sees exactly the value signalled, an abort passes every trap
    exact = []      # (program, expected printed result of the last form, or "abort")
    payloads = [("'plain", "plain"), ("(list 'kind 'k 'source 's)", "(kind k source s)"), ("(list 1 2 3)", "(1 2 3)"), ("5", "5"), ("(list 'a 1)", "(a 1)"), ("\"text\"", "\"text\"")]
    for pe, shown in payloads:
        mdef = f"(define 'm-sig (macro (& xs) (signal {pe})) \"\") (define 'f-sig (lambda (& xs) (signal {pe})) \"\")"
        for runner in ["(eval '(m-sig 1))", "(macroexpand '(m-sig 1))", "(eval '(list 1 (m-sig)))", "(eval '((lambda (x) (m-sig x)) 1))", "(load-all \"(m-sig)\" 'stdin)", "(f-sig 1)", "(eval '(when t (m-sig)))"]:
            exact.append((f"{mdef} (print (eval (trap {runner} *trapped-signal*)))", shown))
            exact.append((f"{mdef} (print (eval (trap (eval (trap {runner} (signal *trapped-signal*))) *trapped-signal*)))", shown))
    for runner in ["(eval '(m-abort))", "(macroexpand '(m-abort))", "(eval '(list 1 (m-abort)))", "(load-all \"(m-abort)\" 'stdin)", "(eval '(when t (m-abort)))", "(eval '(m-abort-inner))"]:
        mdef = "(define 'm-abort (macro (& xs) (abort)) \"\") (define 'm-abort-inner (macro () (eval (trap (abort) 'swallowed))) \"\")"
        exact.append((f"{mdef} (eval (trap (eval (trap {runner} 'inner)) 'outer))", "abort"))
        exact.append((f"{mdef} (try {runner} (catch-all (lambda (e) 'caught)))", "abort"))
    # traps whose handler is the empty list (a literal (), make-trap with nil, try without catchers, a macro-built form)
    for prog in ["(block (try (abort)) 'survived)", "(block (eval (trap (abort) ())) 'survived)", "(block (eval (make-trap '(abort) nil)) 'survived)",
                 "(block (eval (make-trap '(abort) ())) 'survived)", "(block (eval (eval (list 'trap '(abort) nil))) 'survived)", "(try (try (try (abort))))",
                 "(eval (trap (try (abort)) 'outer))", "(try (eval (trap (abort) 'inner)))", "(try (map (lambda (x) (if (= x 2) (abort) x)) '(1 2 3)))"]:
        exact.append((prog, "abort"))
    for prog, shown in [("(print (list (try (signal 'x)) 'went-on))", "(() went-on)"), ("(print (list (eval (trap (car 5) ())) 'went-on))", "(() went-on)"),
                        ("(print (list (eval (make-trap '(signal 1) nil)) 'went-on))", "(() went-on)")]:
        exact.append((prog, shown))
    sets = [ProgramSet("nests", progs), ProgramSet("errors", errprogs), ProgramSet("dictated", dictated), ProgramSet("macro_bodies", [p for p, _ in exact])]
    run_sets(rep, sets)
    for (prog, want), r, a in zip(exact, sets[3].parsed, sets[3].answers):
        st, d = last_result(r)
        if want == "abort":
            good = st == "abort"
            got = st
        else:
            t = result_tree(r)
            got = dump.text_of(t) if (t is not None and st == "ok") else st
            good = got == want
        if not good:
            rep.violation(f"a {'n abort' if want == 'abort' else ' signal'} raised by a macro body during run-time expansion did not arrive unchanged: expected {want}, observed {got}: {prog}",
                          {"program": prog, "expected": want, "observed": a[:400]})
            if len(rep.violations) >= 4:
                break
    # monitor: the signal of each inner handler reaches the next enclosing trap; the outermost handler's value is the result
    for i, r in enumerate(sets[2].parsed):
        st, d = last_result(r)
        t = result_tree(r)
        items = dump.list_items(t) if (t is not None and st == "ok") else None
        if not items or dump.strip_meta(items[0]) != ("sym", "outermost"):
            rep.violation("a signal did not reach the enclosing trap (or its payload was lost): " + dictated[i], {"program": dictated[i], "observed": sets[2].answers[i][:400], "expected": "(outermost <the signal of the handler below>)"})
            if len(rep.violations) >= 3:
                break
    crashes_and_hangs(rep, sets, hang_is_violation=False)
    # monitor: every signal the interpreter itself raised is a plist with kind and source
    nonplist = 0
    for i, r in enumerate(sets[1].parsed):
        st, d = last_result(r)
        if st == "sig":
            t = result_tree(r)
            if t is not None and not plist_ok(t):
                nonplist += 1
                if nonplist <= 3:
                    rep.violation(f"an error raised by the interpreter is not a property list with kind and source: {errprogs[i]}", {"program": errprogs[i], "signal": d[:300]})
    # monitor: abort never intercepted
    for i, p in enumerate(progs):
        if "(abort)" in p and "(signal" not in p and "car 5" not in p:
            st, d = last_result(sets[0].parsed[i])
            if st is not None and st != "abort" and p.startswith("(eval (trap (abort)") or (st == "ok" and "never" in (d or "") and False):
                rep.violation("a trap intercepted an abort: " + p, {"program": p, "observed": sets[0].answers[i][:300]})
    if not rep.violations:
        report_disagreements(rep, sets, "evaluator: traps and signals")
    rep.nontrivial = len(set(p for p in progs if p.count("(trap") >= 1)) + len(set(errprogs))
    rep.samples = [progs[5], progs[-1], errprogs[3]]
    rep.coverage.update({"outcomes": outcome_kinds(sets), "signallers": len(SIGNALLERS), "positions": len(POSITIONS), "exhaustive": False})
    return rep.finish("make -C coq Properties/C08.vo && coqc <pinned statements>", TRUSTED_BASE_COMMON + ["axioms: none"],
                      "every signalling expression x every position under one trap; random trap nests up to depth 5 (quick) / 8 with handlers that return, re-signal or compare the payload; every native with wrong arity and a wrong type at each position; non-trivial = contains a trap or provokes an interpreter error")

def replay(path):
    return generic_replay(path)
