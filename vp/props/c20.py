"""C20 - the stepping debugger (debug-eval of src/debugger.lisp) computes what the evaluator computes."""
import json, re
from ..common import *
from .. import dump, evalcorr, gen_prog, evalprop

PID = "C20"
MANIFEST = {
    "text": "The debugger text is generated from src/debugger.lisp and loaded into the evaluator model; theorems (kernel computation, PARTIAL: over enumerated families, not every program): on a 294-program family (literals, quote, bound and global variables, if, closures with fixed/rest parameters, primitives, eval+trap, a prelude macro) and on programs with output, raised and trapped signals and prelude functions, debug-eval yields the value or signal and the output of eval - detached, and attached to a scripted debugger answering always STEP-IN, always STEP-OVER, or mixed; the excluded empty-body function really disagrees (refutation theorem); detached receive returns nil and send never changes the state (any state, any data). Tied to the code by running debug-eval programs on the binary and in the model (detached and with scripted answers handed over exactly when the worker blocks in receive), and by the property monitor on the binary: (debug-eval 'P nil nil) against P for generated programs of the full language under random STEP-IN/STEP-OVER scripts, comparing value or signal and output.",
    "note": "Partial: the unbounded statement (every program, every answer sequence) is checked by differential monitoring, not proved. Known deviations are recorded as findings (functions with an empty body; signals raised by the evaluator itself have another shape under the debugger). Trusted: Coq kernel; transcription of the evaluator (bound by the correspondence, including poll counts); debugger and prelude texts are generated from the source.",
    "technique": "Coq kernel computation over the generated debugger text on enumerated program families (proof by reflection, bounded families) + differential check model/binary + value/output monitor on the binary with scripted debugger answers",
}
TARGETS = ["Properties/C20.v", "Eval/PreludeState.v"]
IMPORTS = ["Eval.PreludeState", "Eval.DebuggerProofs", "Eval.DebuggerDetached", "Eval.DebuggerAttached", "Properties.C20"]
THEOREMS = [
    ("C20_detached_partial", "forall p, In p programs1 -> has_body p = true -> agrees_with [] p = true"),
    ("C20_effects_partial", "forall p, In p effect_programs -> agrees_with [] p = true"),
    ("C20_attached_partial", "forall script p, In script scripts -> In p attached_family -> agrees_with script p = true"),
    ("C20_nil_body_refuted", "agrees_with [] VNil = false"),
    ("C20_receive_detached", 'forall st d, attached st = false -> simple_native st (s "receive") [] d = Some (st, ROk VNil)'),
    ("C20_send_keeps_state", 'forall st data d, exists r, simple_native st (s "send") [data] d = Some (st, r)'),
]

SPECIAL_ARITY = re.compile(r"kind wrong-number-of-arguments source (if|quote|lambda|macro|trap|eval) ")

FIXED = [
    "1", "'a", "t", "nil", "()", "\"str\"", "%c", "(add 1 2)", "(if nil 1 2)", "(if 1 2)", "((lambda (x) x) 5)", "((lambda (x & r) r) 1 2 3)", "((lambda (& r) r))",
    "((lambda (x x) x) 1 2)", "(when 1 5)", "(when nil 5)", "(not 1)", "(or nil 3)", "(or 2 (signal 'never))", "(and 1 2)", "(let (x 1 y 2) (list x y))",
    "(block 1 2 3)", "(eval (trap (car 5) *trapped-signal*))", "(eval (trap (signal 'a) (list 'got *trapped-signal*)))", "(signal 'top)", "(car 5)",
    "(map (lambda (x) (add x 1)) '(1 2 3))", "(foldl (lambda (a b) (add a b)) 0 '(1 2 3))", "(eval '(add 1 2))", "(eval (list 'when 1 2))", "(output \"hi\")",
    "((lambda (_ v) v) (output-file '*stdout* \"a\") ((lambda (_ v) v) (output-file '*stdout* \"b\") 3))", "(try (car 5) (catch-all (lambda (e) (. e 'kind))))",
    "(throw 'kind 'k 'payload 1)", "((macro (p) (list 'quote p)) (when a b))", "(((lambda (y) (lambda (x) (list x y))) 7) 1)", "(length '(1 2 3))",
    "(case ((= 1 2) 'a) ((= 1 1) 'b))", "(cons 1 2)", "'(1 . 2)", "(list 'a (list 'b))", "(apply + (list 1 2))", "(reverse '(1 2 3))",
]

def script_for(rng):
    k = rng.below(4)
    if k == 0:
        return []
    if k == 1:
        return [(0, "STEP-IN")]
    if k == 2:
        return [(0, "STEP-OVER")]
    return [(0, rng.choice(["STEP-IN", "STEP-OVER"])) for _ in range(rng.range(2, 14))]

def wrap(prologue, expr, script):
    return {"text": " ".join(prologue + [f"(debug-eval (quote {expr}) nil nil)"]), "umb": script, "attach": bool(script)}

def observation(ans):
    """(status, rendered value with addresses canonicalised, output), (evaluator-error count, calls of empty-body closures)"""
    r = dump.split_run_answer(ans)
    if "special" in r:
        return (r["special"],), (0, 0)
    cnt = (int(r["stats"].get("everr", 0)), int(r["stats"].get("nilbody", 0)))
    if not r["results"]:
        return ("none", "", r["out"]), cnt
    st, d = r["results"][-1]
    try:
        t = dump.show(dump.parse_dump(d))
    except dump.Truncated:
        t = "<truncated>" + d[:200]
    return (st, evalprop.canon(t), r["out"]), cnt

def run(tier, seed):
    rep = Report(PID, tier, seed)
    standard_proof_phase(rep, TARGETS, IMPORTS, THEOREMS)
    known = load_known()
    def entry(cls):
        e = [k for k in known["open"] if k["property"] == PID and k.get("class") == cls]
        return e[0] if e else None
    rng = Rng(seed, 20)

    # ---- property monitor on the binary: debug-eval against eval --------------------------------
    n = 400 if tier == "quick" else 6000
    cases = [([], e, script_for(rng)) for e in FIXED]
    stats = {}
    for i in range(n):
        pro, e, st = gen_prog.gen_program_parts(rng, gen_prog.WITH_PRELUDE, max_nodes=rng.choice([10, 25, 40]), depth=rng.range(2, 4),
                                                illtyped=0 if i % 4 else None)
        cases.append((pro, e, script_for(rng)))
        for k, v in st.items():
            stats[k] = stats.get(k, 0) + v
    direct = [" ".join(p + [e]) for p, e, s in cases]
    stepped = [wrap(p, e, s) for p, e, s in cases]
    a1 = run_driver_cases(evalcorr.driver_lines(direct, env="pd"), timeout=6.0)
    a2 = run_driver_cases(evalcorr.driver_lines(stepped, env="pd"), timeout=20.0)
    counts = {"agree": 0, "known_nil_body": 0, "known_evaluator_error": 0, "skipped_hang_direct": 0, "attached": 0, "signals": 0, "with_output": 0}
    kinds = {}
    for (pro, e, script), x, y in zip(cases, a1, a2):
        (ox, (everr, nilbody)), (oy, _) = observation(x), observation(y)
        if len(ox) > 1 and SPECIAL_ARITY.search(ox[1]): everr += 1
        kinds[ox[0]] = kinds.get(ox[0], 0) + 1
        if script: counts["attached"] += 1
        if ox[0] == "sig": counts["signals"] += 1
        if len(ox) > 2 and ox[2]: counts["with_output"] += 1
        if ox[0] == "timeout":
            counts["skipped_hang_direct"] += 1
            continue
        if ox[0] in ("panic", "crash") or oy[0] in ("panic", "crash"):
            rep.violation(f"the interpreter crashed evaluating {e!r} {'directly' if ox[0] in ('panic', 'crash') else 'through debug-eval'}",
                          {"prologue": pro, "expression": e, "script": script, "direct": x[:300], "debug_eval": y[:300]})
            continue
        if ox == oy:
            counts["agree"] += 1
            continue
        if nilbody > 0 and entry("nil-body-function"):
            counts["known_nil_body"] += 1
            continue
        if everr > 0 and entry("evaluator-error-signals"):
            counts["known_evaluator_error"] += 1
            continue
        rep.violation(f"debug-eval and eval differ on {e!r} with answers {[c for _, c in script] or 'detached'}: eval -> {ox}, debug-eval -> {oy}",
                      {"prologue": pro, "expression": e, "script": [c for _, c in script], "eval": list(ox), "debug_eval": list(oy),
                       "how": "picilisp --verif-driver, env=pd: evaluate the prologue forms, then the expression directly and through (debug-eval (quote E) nil nil)"})
    for cls, cnt in (("nil-body-function", counts["known_nil_body"]), ("evaluator-error-signals", counts["known_evaluator_error"])):
        if cnt and entry(cls):
            rep.known_lines.append(f"KNOWN-FINDING: property={PID} {entry(cls)['what']} [{cnt} programs of this class in this run]")

    # ---- correspondence model / binary on debug-eval programs (small ones: the model is slow here) ----
    m = 60 if tier == "quick" else 600
    small = [wrap([], e, script_for(rng)) for e in FIXED]
    for i in range(m):
        pro, e, st = gen_prog.gen_program_parts(rng, gen_prog.WITH_PRELUDE - {"hof"}, max_nodes=8, depth=2, illtyped=0 if i % 5 else None)
        small.append(wrap(pro, e, script_for(rng)))
    ps = evalprop.ProgramSet("dbg", small, env="pd", shard_size=8, timeout=20.0)
    evalprop.run_sets(rep, [ps])
    fuel_out = []
    if ps.bad:
        # the model gives up on fuel for long runs: those are not disagreements
        for b in ps.bad:
            mo = evalcorr.model_outcome(small[b], env="pd")
            if "OFuel" in mo:
                fuel_out.append(b)
        ps.bad = [b for b in ps.bad if b not in fuel_out]
    if ps.bad and not rep.violations:
        evalprop.report_disagreements(rep, [ps], "debug-eval programs")
    # thorough: the depth-2 family of the development (9366 programs), decided program by program by the kernel's
    # evaluator on the generated debugger text (a computation over an enumerated family, reported as such)
    family2 = None
    if tier == "thorough" and not rep.violations:
        pre = ("From PL Require Import Eval.PreludeState Eval.DebuggerProofs.\nLocal Open Scope N_scope.\n"
               "Definition ok2 (i : nat) : bool := match nth_error programs2 i with Some p => negb (has_body p) || agrees_with [] p | None => true end.\n")
        total = 9366
        idx = [f"{i}%nat" for i in range(0, total)]
        bad2 = coq_check_shards("c20_family2", pre, idx, "ok2", shard_size=300, timeout=3000, case_type="nat")
        family2 = {"programs": total, "disagreeing_indices": bad2[:20]}
        if bad2:
            rep.violation(f"debug-eval and eval differ (in the model, on the generated debugger text) on program number {bad2[0]} of the enumerated depth-2 family",
                          {"family": "programs2 of coq/Eval/DebuggerProofs.v", "index": bad2[0], "how": "Eval vm_compute in (nth_error programs2 %d)" % bad2[0]})
    rep.evaluations = 2 * len(cases) + len(small)
    rep.nontrivial = counts["attached"]
    rep.samples = [stepped[len(FIXED) + 1]["text"][:300], stepped[len(FIXED) + 2]["text"][:300]]
    rep.coverage.update({"monitor": counts, "direct_outcome_kinds": kinds, "construct_counts": stats, "model_vs_binary_programs": len(small),
                         "model_out_of_fuel_skipped": len(fuel_out), "exhaustive": False, "kernel_evaluated_depth2_family": family2})
    rep.assumptions = ["a direct evaluation that does not answer within 6 s is skipped (possible non-termination)",
                       "a scripted debugger repeats its last answer for ever; the answers are handed over when the worker blocks in receive (cfg hook), as a real debugger front end does"]
    return rep.finish("make -C coq Properties/C20.vo && coqc <pinned statements>", TRUSTED_BASE_COMMON + ["axioms: none"],
                      "fixed programs naming each construct + generated programs of the full generated language; non-trivial = run attached to a scripted debugger")

def replay(path):
    r = json.load(open(path)); print(json.dumps(r, indent=1)[:4000])
    rp = r.get("replay", {})
    if "expression" in rp:
        pro, e = rp.get("prologue", []), rp["expression"]
        script = [(0, c) for c in rp.get("script", [])]
        a = run_driver_cases(evalcorr.driver_lines([" ".join(pro + [e]), wrap(pro, e, script)], env="pd"), timeout=20.0)
        print("eval now      :", observation(a[0])[0])
        print("debug-eval now:", observation(a[1])[0])
    return 0
