"""C17 - the in-process I/O pipe is an exactly-once FIFO with message boundaries."""
import json, itertools
from ..common import *

PID = "C17"
MANIFEST = {
    "text": "Theorem for EVERY sequence of write/flush/read operations on the transcribed IoSender/IoReceiver state machine (any length, any chunk and buffer sizes, reads before data): written bytes + flush marks = bytes read + zero-length reads ++ what is still pending; timeout iff nothing pending; a read never exceeds its buffer. The model is tied to src/io/mod.rs by running the same operation sequences (exhaustive to a length bound, random beyond) on a real IoSender/IoReceiver pair and comparing every answer.",
    "note": "Trusted: Coq kernel; std::sync::mpsc is FIFO and linearisable; the pair is driven single-threaded at operation granularity (thread interleaving below that and the 1 ms recv_timeout are runtime behaviour the model cannot exhibit); side condition of the theorem: chunks and read buffers non-empty (an empty write is a spurious zero-length read: lemma empty_write_looks_like_flush, also compared).",
    "technique": "Coq refinement proof (state machine -> abstract stream) + exhaustive/random differential check against the real pipe",
}
TARGETS = ["Properties/C17.v"]
IMPORTS = ["IO.Pipe", "IO.PipeProofs", "Properties.C17"]
THEOREMS = [
    ("C17_fifo_exactly_once", "forall ops, Forall op_ok ops -> let '(p', xs) := run pipe_init ops in flat_map sent_op ops = flat_map recv_out xs ++ pending p'"),
    ("C17_fifo_any_state", "forall ops p, chan_ok p -> Forall op_ok ops -> let '(p', xs) := run p ops in pending p ++ flat_map sent_op ops = flat_map recv_out xs ++ pending p' /\\ chan_ok p'"),
    ("C17_timeout_iff_empty", "forall p n, chan_ok p -> (0 < n)%nat -> (snd (step p (PRead n)) = OTimeout <-> pending p = [])"),
    ("C17_read_bounded", "forall p n, match snd (step p (PRead n)) with ORead bs => (length bs <= n)%nat | _ => True end"),
]

def materialise(symbols):
    """symbols like 'w2','f','r3' -> concrete ops with distinct byte values"""
    ops, counter = [], 0
    for sy in symbols:
        if sy[0] == "w":
            k = int(sy[1:])
            bs = [(counter + i) % 251 + 1 for i in range(k)]
            counter += k
            ops.append(("w", bs))
        elif sy == "f":
            ops.append(("f",))
        else:
            ops.append(("r", int(sy[1:])))
    return ops

def with_drain(ops):
    total = sum(len(o[1]) for o in ops if o[0] == "w") + sum(1 for o in ops if o[0] != "r") + 2
    return ops + [("r", 3)] * total

def line_of(ops):
    parts = []
    for o in ops:
        if o[0] == "w":
            parts.append("w " + (".".join(map(str, o[1])) if o[1] else "-"))
        elif o[0] == "f":
            parts.append("f")
        else:
            parts.append(f"r {o[1]}")
    return "pipe " + ";".join(parts)

def coq_ops(ops):
    t = []
    for o in ops:
        if o[0] == "w":
            t.append("PWrite [" + ";".join(map(str, o[1])) + "]")
        elif o[0] == "f":
            t.append("PFlush")
        else:
            t.append(f"PRead {o[1]}%nat")
    return "[" + "; ".join(t) + "]"

def parse_answers(ans):
    outs = []
    for a in ans.split(" ; "):
        a = a.strip()
        if a.startswith("w") and a[1:].isdigit():
            outs.append(("wrote", int(a[1:])))
        elif a == "f":
            outs.append(("flushed",))
        elif a == "timeout":
            outs.append(("timeout",))
        elif a.startswith("r"):
            outs.append(("read", [] if a[1:] == "-" else [int(x) for x in a[1:].split(".")]))
        else:
            return None
    return outs

def coq_outs(outs):
    t = []
    for o in outs:
        if o[0] == "wrote": t.append(f"OWrote {o[1]}%nat")
        elif o[0] == "flushed": t.append("OFlushed")
        elif o[0] == "timeout": t.append("OTimeout")
        else: t.append("ORead [" + ";".join(map(str, o[1])) + "]")
    return "[" + "; ".join(t) + "]"

def monitor(ops, outs):
    """the property on the implementation alone (clean streams only): sent == received once drained"""
    sent, recv = [], []
    for o in ops:
        if o[0] == "w": sent += o[1]
        elif o[0] == "f": sent.append("mark")
    for o in outs:
        if o[0] == "read":
            recv += o[1] if o[1] else ["mark"]
    if sent != recv:
        return f"sent stream {sent} but received {recv}"
    if outs and outs[-1][0] != "timeout":
        return "a fully drained pipe did not report a timeout"
    for o, x in zip(ops, outs):
        if o[0] == "r" and x[0] == "read" and len(x[1]) > o[1]:
            return "a read returned more bytes than its buffer holds"
    return None

def run(tier, seed):
    rep = Report(PID, tier, seed)
    standard_proof_phase(rep, TARGETS, IMPORTS, THEOREMS)
    rng = Rng(seed, 17)
    alphabet = ["w1", "w2", "w3", "f", "r1", "r2", "r3"]
    maxlen = 5 if tier == "quick" else 6
    cases = []   # (ops, clean?)
    for n in range(1, maxlen + 1):
        for combo in itertools.product(alphabet, repeat=n):
            if not any(c[0] == "r" for c in combo) and n > 3:
                pass
            cases.append((with_drain(materialise(combo)), True))
    exhaustive_count = len(cases)
    nrand = 1500 if tier == "quick" else 20000
    for i in range(nrand):
        n = rng.range(6, 60)
        syms = [rng.weighted([("w1", 3), ("w2", 3), ("w3", 2), ("w5", 2), ("w9", 1), ("f", 4), ("r1", 4), ("r2", 3), ("r3", 3), ("r7", 2), ("r20", 1)]) for _ in range(n)]
        cases.append((with_drain(materialise(syms)), True))
    # separate stream with the excluded operations (empty writes, zero-size reads): model agreement only
    for i in range(300 if tier == "quick" else 3000):
        n = rng.range(2, 14)
        syms = [rng.weighted([("w0", 3), ("w1", 2), ("w2", 2), ("f", 3), ("r0", 3), ("r1", 3), ("r2", 2)]) for _ in range(n)]
        cases.append((materialise(syms) + [("r", 2)] * 6, False))
    # single writes of every size class (one byte ... far beyond any internal buffer), read back with large and small buffers
    big = []
    for size in [1, 100, 4095, 4096, 4097, 8191, 8192, 8193, 10000, 20000, 65536, 100000] if tier == "quick" else [1, 100, 1023, 1024, 1025, 4095, 4096, 4097, 8191, 8192, 8193, 10000, 16384, 20000, 65535, 65536, 65537, 100000, 300000]:
        data = [(rng.below(251) + 1) for _ in range(size)]
        for rb in (size + 10, 4096, 777):
            nreads = size // rb + 3
            big.append(([("w", data), ("f",)] + [("r", rb)] * (nreads + 2), True))
        if size >= 2:      # (an empty write is one of the operations the property excludes)
            big.append(([("w", data[: size // 2]), ("w", data[size // 2:]), ("f",)] + [("r", 50000)] * 12, True))
    # (binary only: the model counts sizes in unary, and its theorem already covers every size)
    big_answers = run_driver_cases([line_of(ops) for ops, _ in big], timeout=120)
    for (ops, _), ans in zip(big, big_answers):
        outs = parse_answers(ans)
        size = sum(len(o[1]) for o in ops if o[0] == "w")
        if outs is None or len(outs) != len(ops):
            rep.violation(f"unexpected answer from the pipe driver for a write of {size} bytes: {ans[:120]}", {"ops": line_of(ops)[:300], "answer": ans[:300]})
            continue
        why = monitor(ops, outs)
        wrote = [o[1] for o in outs if o[0] == "wrote"]
        asked = [len(o[1]) for o in ops if o[0] == "w"]
        if not why and wrote != asked:
            why = f"write reported {wrote} bytes accepted for writes of {asked} bytes"
        if why:
            rep.violation(f"pipe is not an exactly-once FIFO for a write of {size} bytes: " + (why if len(why) < 300 else why[:120] + " ... " + why[-120:]),
                          {"ops": line_of(ops)[:200] + " ...", "write_sizes": asked, "read_buffer": [o[1] for o in ops if o[0] == "r"][:1], "why": why[:400]})
    rep.coverage["large_single_writes"] = len(big)
    answers = run_driver_cases([line_of(ops) for ops, _ in cases], timeout=60)
    terms, idx = [], []
    mon_fail = []
    for i, ((ops, clean), ans) in enumerate(zip(cases, answers)):
        outs = parse_answers(ans)
        if outs is None or len(outs) != len(ops):
            rep.violation(f"unexpected answer from the pipe driver: {ans[:200]}", {"ops": line_of(ops), "answer": ans})
            continue
        if clean:
            why = monitor(ops, outs)
            if why:
                mon_fail.append({"ops": line_of(ops), "answers": ans, "why": why})
        terms.append(f"({coq_ops(ops)}, {coq_outs(outs)})")
        idx.append(i)
    pre = "From PL Require Import IO.Pipe.\nDefinition chk (c : list pop * list pout) : bool := pouts_eqb (snd (run pipe_init (fst c))) (snd c).\n"
    bad = coq_check_shards("c17", pre, terms, "chk", shard_size=1500)
    for m in sorted(mon_fail, key=lambda m: len(m["ops"]))[:3]:
        rep.violation("pipe is not an exactly-once FIFO: " + m["why"], m)
    if bad and not mon_fail:
        shortest = min(bad, key=lambda b: len(cases[idx[b]][0]))
        ops = cases[idx[shortest]][0]
        rep.broken.append(f"correspondence model/implementation (Pipe.step vs IoSender/IoReceiver): {len(bad)} disagreements; shortest: {line_of(ops)} -> {answers[idx[shortest]]}")
    rep.evaluations = len(cases)
    rep.nontrivial = len(set(line_of(o) for o, c in cases if any(x[0] == "r" for x in o) and any(x[0] == "w" for x in o)))
    rep.samples = [line_of(cases[k][0]) + "  ->  " + answers[k] for k in (400, exhaustive_count + 3, len(cases) - 1)]
    rep.coverage["exhaustive"] = False
    rep.coverage["exhaustive_part"] = f"all {exhaustive_count} sequences of length 1..{maxlen} over {alphabet} (each followed by draining reads)"
    rep.assumptions = ["std::sync::mpsc is FIFO/linearisable; operations are driven single-threaded (operation granularity)", "recv_timeout(1 ms) on an empty channel returns Timeout"]
    return rep.finish("make -C coq Properties/C17.vo && coqc <pinned statements>", TRUSTED_BASE_COMMON + ["axioms: none"],
                      f"exhaustive: every op sequence of length <= {maxlen} over 3 write sizes, flush, 3 read sizes; random sequences of 6..60 ops with larger chunks/buffers; a separate stream with empty writes and zero-size reads; non-trivial = contains at least one write and one read")

def replay(path):
    r = json.load(open(path))
    print(json.dumps(r, indent=1))
    ops = r.get("replay", {}).get("ops")
    if ops:
        print("implementation now answers:", run_driver_cases([ops])[0])
    return 0
