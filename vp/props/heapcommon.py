"""shared body of the heap checks C01 / C03 / C04"""
import json
from ..common import *
from .. import heap, dump, evalcorr

def gen_histories(rng_seed, stream, n, nops, kinds):
    hs = []
    for i in range(n):
        kind = kinds[i % len(kinds)]
        rng = Rng(rng_seed, stream * 100003 + i)
        if kind == "plain":
            hs.append(heap.HeapGen(rng, nops))
        elif kind == "burst":
            hs.append(heap.HeapGen(rng, nops, burst=True, collect_every=(3, 12)))
        elif kind == "rare":
            hs.append(heap.HeapGen(rng, nops, collect_every=(60, 200)))
        elif kind == "fullheap":
            hs.append(heap.HeapGen(rng, min(nops, 60), start_collect=False))
    return hs

def run_heap_check(rep, tier, seed, stream, props_of_interest, extra_programs=True):
    """model/implementation correspondence on generated histories + monitors; returns per-property monitor hits"""
    n = 64 if tier == "quick" else 500
    nops = 110 if tier == "quick" else 160
    hs = gen_histories(seed, stream, n, nops, ["plain", "burst", "plain", "rare", "burst", "plain", "plain", "fullheap"])
    runs = heap.run_histories(hs)
    hits = {}
    terms, idx = [], []
    nontrivial = 0
    colls = 0
    for i, (g, r) in enumerate(zip(hs, runs)):
        if "special" in r:
            rep.violation(f"the heap driver {r['special'][:60]} on a history of heap operations", {"history": ";".join(t for t, _ in g.ops), "observed": r["special"][:300]})
            continue
        colls += r["colls"]
        found = heap.monitor_history(r["ops"], r["snaps"])
        if r["monitor"] != "ok":
            found.append(("C01", -1, "collector monitor: " + dec(r["monitor"])))
        for prop, k, what in found:
            hits.setdefault(prop, []).append({"history": ";".join(r["ops"][: k + 1 if k >= 0 else len(r["ops"])]), "at_operation": k, "what": what})
        # non-triviality: some collection freed a cell and kept one reachable only through a fun/trap/meta edge
        kept_indirect = False
        freed = False
        for j, (op, sn) in enumerate(zip(r["ops"], r["snaps"])):
            if j > 0 and sn["ff"] < r["snaps"][j - 1]["ff"]:
                freed = True
            if any(c["kind"] in ("fun", "trap", "meta") and any(k != 0 for k in c["kids"]) for c in sn["cells"]):
                kept_indirect = True
        nontrivial += freed and kept_indirect
        terms.append(heap.history_term(g, r)); idx.append(i)
    bad = coq_check_shards(f"{rep.pid.lower()}_heap", heap.HEAP_PREAMBLE, terms, "chk", shard_size=4, case_type="list (hop * snapshot)", timeout=1500)
    rep.evaluations += len(hs)
    rep.nontrivial += nontrivial
    rep.coverage.update({"histories": len(hs), "operations_per_history": nops, "collections_observed": colls})
    rep.samples.append(";".join(t for t, _ in hs[1].ops[:14]) + ";...")
    first = None
    if bad:
        b = bad[0]
        k = heap.first_divergence(hs[idx[b]], runs[idx[b]])
        first = {"history": ";".join(t for t, _ in hs[idx[b]].ops[: (k + 1 if k is not None else 20)]), "diverges_after_operation": k,
                 "implementation_snapshot": (runs[idx[b]]["snaps"][k] if k is not None else None)}
    return hits, bad, first

GC_PROGRAMS = [
    "(define 'keep (make-trap (list 'signal ''boom) (list 'quote (range 6))) \"\") (length (range 3000)) (list (destructure-trap keep) (eval keep))",
    "(define 'f ((lambda (captured) (lambda (x) (cons x captured))) (range 8)) \"\") (length (range 3000)) (f 1)",
    "(define 'm (make-function '(a b) '(list a b) (list (cons 'z (range 5))) 'default 'lambda-type) \"\") (length (range 3000)) (destructure-function m) (m 1 2)",
    "(try (block (length (range 600)) (throw 'kind 'boom 'n 600)) (catch boom (lambda (e) (list 'caught (. e 'n)))))",
    "(define 'g (gensym) \"\") (define 'h (gensym) \"\") (length (range 3000)) (list (= g g) (= g h) (= 'abc 'abc))",
    "((lambda (d) (length (range 3000))) (foldl (lambda (a _) (cons a a)) nil (range 30)))",
    "(define 'q '(1 \"two\" (3 %c sym)) \"doc\") (length (map (lambda (x) (list x x)) (range 1500))) q (get-metadata 'q)",
]

def run_gc_programs(rep, schedules=("nat", "every", "k7", "prng3")):
    """evaluator programs under forced collection schedules with the collector monitor on: same results under every schedule"""
    results = {}
    for sch in schedules:
        progs = GC_PROGRAMS if sch == "nat" else [p.replace("(range 3000)", "(range 120)").replace("(range 1500)", "(range 80)").replace("(range 600)", "(range 100)").replace(" 600)", " 100)").replace("(range 30)))", "(range 12)))") for p in GC_PROGRAMS]
        lines = evalcorr.driver_lines(progs, "p", f"gc={sch},mon=1")
        results[sch] = run_driver_cases(lines, timeout=120.0)
        rep.evaluations += len(lines)
    hits = []
    for i, p in enumerate(GC_PROGRAMS):
        base = None
        for sch in schedules:
            a = results[sch][i]
            r = dump.split_run_answer(a)
            if "special" in r:
                hits.append({"program": p, "schedule": sch, "what": f"{r['special']} under collection schedule {sch}", "observed": a[:300]})
                continue
            if r["stats"].get("mon") != "ok":
                hits.append({"program": p, "schedule": sch, "what": "collector monitor: " + dec(r["stats"].get("mon", "-")), "observed": a[:300]})
            key = (tuple(r["results"]), r["out"]) if sch != "nat" else None
            if key is None:
                continue
            if base is None:
                base = (sch, key)
            elif key != base[1]:
                hits.append({"program": p, "schedule": sch, "what": f"result under collection schedule {sch} differs from the result under {base[0]}", "observed": a[:400]})
    rep.coverage["gc_schedules"] = list(schedules)
    rep.coverage["gc_programs"] = len(GC_PROGRAMS)
    return hits
