"""C01 - GC safety: nothing reachable is ever reclaimed, altered or left dangling."""
from ..common import *
from .heapcommon import *

PID = "C01"
MANIFEST = {
    "text": "Theorems over a transcription of the heap (cell vector with stable boxes, used prefix / free suffix, handle counts, DFS mark with visited check, swap-sweep, truncate, growth, symbol table), for ANY sizing policy: an invariant (distinct non-null boxes, every pointer of a used cell designates a used cell, free cells carry no handles, handle counts cover the live handles and globals, exact symbol table) holds in EVERY state reachable by ANY finite history of operations (all allocation kinds, interning, clone/drop, accessors, define/undefine, modules, explicit and allocation-triggered collections); every cell reachable before an operation is in use afterwards with the same kind, payload and pointers; every reachable address designates a used cell; mark computes exactly reachability; a collection keeps every reachable cell as the very same record. The pointer fields the model follows are tied to the source by a generated fact (every raw-pointer field of the heap structs is pushed in the mark phase of collect, and nothing else), the algorithms by step-by-step comparison of complete heap snapshots (vector order, boxes up to renaming, counts, table) on generated histories under bursts of forced collections, and evaluator programs run under four collection schedules with an independent reachability monitor inside collect.",
    "note": "Trusted: Coq kernel; the hand transcription of allocate_internal/collect/GcRef (bound by exact snapshot agreement after every operation); Rust ownership gives callers only live handles (raw pointers, unsafe, forget/leak occur only in src/memory: generated fact); a released Box is never re-issued in the model (stricter than the allocator). Termination of mark is proved (C01_mark_completes: in a heap whose used cells point only at used cells the fuel always suffices and no pointer dangles, hence C01_collection_always_completes in every reachable state).",
    "technique": "Coq invariant proof by induction over operation histories + generated static facts + snapshot-exact differential check + in-collector monitor",
}
TARGETS = ["Properties/C01.v", "Heap/Snapshot.v"]
IMPORTS = ["Heap.HeapModel", "Heap.MarkProofs", "Heap.CollectProofs", "Heap.MarkTermination", "Heap.HeapInv", "Heap.StepInv", "Heap.HistoryProofs", "Heap.StaticProofs", "Generated.Static_gen", "Properties.C01"]
THEOREMS = [
    ("C01_invariant_in_every_reachable_state", "forall p n ops g, run_ops p (init_gstate n) ops = Some g -> ginv g"),
    ("C01_every_operation_preserves_invariant", "forall p g o g', ginv g -> step p g o = Some g' -> ginv g'"),
    ("C01_reachable_keeps_content", "forall p g o g', ginv g -> step p g o = Some g' -> forall c, In c (used (gheap g)) -> HReach (gheap g) (box c) -> exists c', In c' (used (gheap g')) /\\ box c' = box c /\\ content c' = content c"),
    ("C01_no_dangling", "forall p n ops g a, run_ops p (init_gstate n) ops = Some g -> HReach (gheap g) a -> exists c, In c (used (gheap g)) /\\ box c = a /\\ find_cell a (cells (gheap g)) = Some c"),
    ("C01_collect_preserves_reachable", "forall p h h', wf h -> closed h -> free_rc0 h -> collect p h = Some h' -> forall a c, HReach h a -> find_cell a (cells h) = Some c -> find_cell a (cells h') = Some c /\\ In c (used h')"),
    ("C01_mark_exact", "forall all fuel rs S, mark fuel all rs [] = Some S -> forall a, In a S <-> Reach all rs a"),
    ("C01_marked_fields_cover_pointer_fields", 'forallb (fun f => mem_pair f mark_pushes) edge_fields = true /\\ forallb (fun f => mem_pair f model_edges || pair_eqb f ("root", "cell")) mark_pushes = true /\\ forallb (fun f => mem_pair f edge_fields) model_edges = true'),
    ("C01_teardown_and_confinement", '(Nat.ltb (index_of "modules" memory_fields) (index_of "cells" memory_fields) = true /\\ Nat.ltb (index_of "current_module" memory_fields) (index_of "cells" memory_fields) = true) /\\ raw_pointer_use_outside_memory = []'),
    ("C01_collection_always_completes", "forall p n ops g, run_ops p (init_gstate n) ops = Some g -> exists h', collect p (gheap g) = Some h'"),
    ("C01_mark_completes", "forall h, closed h -> mark (mark_fuel h) (cells h) (rev (roots h)) [] <> None"),
]

def run(tier, seed):
    rep = Report(PID, tier, seed)
    standard_proof_phase(rep, TARGETS, IMPORTS, THEOREMS)
    hits, bad, first = run_heap_check(rep, tier, seed, 1, ["C01"])
    for h in hits.get("C01", [])[:3]:
        rep.violation("heap history: " + h["what"], h)
    for h in run_gc_programs(rep)[:3]:
        rep.violation("program under a forced collection schedule: " + h["what"], h)
    if bad and not rep.violations:
        rep.broken.append(f"correspondence heap model/implementation: {len(bad)} histories diverge; first: {json.dumps(first)[:600]}")
    rep.coverage["exhaustive"] = False
    rep.assumptions = ["callers hold only live handles (Rust ownership); the allocator reusing a released address is outside the model"]
    return rep.finish("make -C coq Properties/C01.vo && coqc <pinned statements>", TRUSTED_BASE_COMMON + ["axioms: none"],
                      "histories of ~110 operations from a weighted generator (children from recent live handles, dropped with probability 1/2 after use; 6 symbol names; explicit collections every 10-40 ops, bursts before allocations, rare collections, and histories on the initial 256-cell heap); the real heap's snapshot is compared with the model after EVERY operation; non-trivial = some collection frees a cell while a function/trap/metadata cell with a non-null pointer is in use; plus 7 evaluator programs x 4 collection schedules with the collector monitor")

def replay(path):
    r = json.load(open(path)); print(json.dumps(r, indent=1)[:3000])
    h = r.get("replay", {}).get("history")
    if h:
        print("implementation now answers:", run_driver_cases(["heap monitor;" + h + ";snap"])[0][-600:])
    return 0
