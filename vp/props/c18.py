"""C18 - standard input is consumed line by line exactly once; REPL sessions are uniform."""
from ..common import *
from .. import dump, evalcorr
from ..evalprop import *

PID = "C18"
MANIFEST = {
    "text": "Theorem over the model of the one buffered reader behind input-file *stdin*: for EVERY byte string and EVERY batching of it into operating-system reads (all at once, line by line, byte by byte, any chunk sizes) successive calls return exactly the lines of the string, each once and in order, the last partial line included; one call returns the first pending line and leaves exactly the rest; two batchings of the same bytes are indistinguishable. Tied to src/native/io/mod.rs and Memory.stdin by a scripted Read installed through the cfg hook: the same scripts under many chunkings on the binary and in the model. REPL (repl.lisp, loaded from its generated text in the model): sessions of several forms (forms spanning lines, several forms on one line, blank lines, errors, end of input) under every chunking compared between model and binary on the complete transcript; sessions of thousands of forms on the binary must print one result per form and end cleanly.",
    "note": "PARTIAL: terminal line discipline and OS pipe behaviour are not modelled (the Read trait is the boundary); the REPL's 'k-th form treated like the first' is measured on long sessions (transcript and termination), not proved about the Lisp text. Trusted: Coq kernel; BufReader::read_line as modelled (ASCII scripts); transcription bound by correspondence.",
    "technique": "Coq proof over all chunkings (buffered line reader) + scripted-stdin differential check + long REPL sessions on the binary",
}
TARGETS = ["Properties/C18.v", "Eval/PreludeState.v"]
IMPORTS = ["IO.Stdin", "IO.StdinProofs", "Properties.C18"]
THEOREMS = [
    ("C18_lines_exactly_once", "forall fuel cs, no_empty cs -> (List.length (concat cs) < fuel)%nat -> all_lines fuel cs = lines_of fuel (concat cs)"),
    ("C18_chunking_irrelevant", "forall fuel cs cs', no_empty cs -> no_empty cs' -> concat cs = concat cs' -> (List.length (concat cs) < fuel)%nat -> all_lines fuel cs = all_lines fuel cs'"),
    ("C18_read_line_spec", "forall cs acc, no_empty cs -> let '(l, rest) := read_line cs acc in no_empty rest /\\ match split_nl (concat cs) [] with | Some (l0, r0) => l = acc ++ l0 /\\ concat rest = r0 | None => l = acc ++ concat cs /\\ rest = [] end"),
]

def chunkings(rng, text, k):
    """k different ways of batching the bytes of text"""
    out = [[text], [text[i:i + 1] for i in range(len(text))]]
    lines = text.split("\n")
    out.append([l + "\n" for l in lines[:-1]] + ([lines[-1]] if lines[-1] else []))
    while len(out) < k:
        cuts = sorted(set(rng.range(1, max(1, len(text) - 1)) for _ in range(rng.range(1, 6)))) if len(text) > 2 else []
        parts, prev = [], 0
        for c in cuts + [len(text)]:
            if c > prev: parts.append(text[prev:c]); prev = c
        out.append(parts)
    return [[c for c in ch if c] for ch in out]

SCRIPTS = [
    "(add 1 2)\n(add 3 4)\n(add 5 6)\n",
    "(add 1 2) (add 3 4)\n'sym\n",
    "(list 1\n 2\n 3)\n\"str\"\n",
    "\n\n(add 1 1)\n   \n; comment only\n(add 2 2)\n",
    "(car 5)\n(add 1 1)\n",
    ")\n(add 1 1)\n",
    "(define 'x 10 \"\")\nx\n(undefine 'x)\nx\n",
    "(add 1 2)",
    "(output \"hello\")\n(input \"? \")\nthis line is data\n(add 1 1)\n",
    "",
]

def run(tier, seed):
    rep = Report(PID, tier, seed)
    standard_proof_phase(rep, TARGETS, IMPORTS, THEOREMS)
    rng = Rng(seed, 18)
    # (1) raw line reads
    texts = ["a\nb\nc\n", "one line no newline", "x\n\ny\n", "\n", "ab\ncd", "l1\nl2\nl3\nl4\nl5\nl6\n"]
    for i in range(10 if tier == "quick" else 200):
        texts.append("".join(rng.choice(["a", "b", " ", "\n", "\n", "(", ")", "1"]) for _ in range(rng.range(1, 30))))
    reader = "(define 'rd (lambda (acc) (eval (trap (rd (cons (input-file *stdin*) acc)) (cons (. *trapped-signal* 'kind) acc)))) \"\") (reverse (rd nil))"
    cases = []
    for t in texts:
        for ch in chunkings(rng, t, 5 if tier == "quick" else 12):
            cases.append({"text": reader, "stdin": ch, "whole": t})
    sets = [ProgramSet("lines", cases, shard_size=25, timeout=20.0)]
    # (2) REPL sessions
    sessions = []
    for sc in SCRIPTS:
        for ch in chunkings(rng, sc, 4 if tier == "quick" else 10):
            sessions.append({"text": "(repl \">>> \" nil)", "stdin": ch, "whole": sc})
    sets.append(ProgramSet("repl", sessions, env="pr", shard_size=6, timeout=30.0))
    run_sets(rep, sets)
    crashes_and_hangs(rep, sets)
    # monitors on the binary
    for c, r in zip(cases, sets[0].parsed):
        t = result_tree(r)
        if t is None:
            continue
        got = [dump.text_of(x) for x in dump.list_items(t)[:-1]]
        want = [l for l in c["whole"].replace("\n", "\n\x00").split("\x00") if l]
        if got != want:
            rep.violation(f"lines delivered {got} but standard input holds {want} (chunking {c['stdin']})", {"program": c["text"], "stdin": c["stdin"], "env": "p", "observed": sets[0].answers[cases.index(c)][:300]})
            if len(rep.violations) > 3: break
    by_script = {}
    for s_, r in zip(sessions, sets[1].parsed):
        if "special" in r: continue
        by_script.setdefault(s_["whole"], []).append((s_["stdin"], r["out"], r["results"]))
    for sc, runs in by_script.items():
        outs = set(o for _, o, _ in runs)
        if len(outs) > 1:
            a, b = runs[0], next(x for x in runs if x[1] != runs[0][1])
            rep.violation(f"the REPL transcript depends on how the input is batched: script {sc!r}", {"program": "(repl \">>> \" nil)", "env": "pr", "stdin_a": a[0], "out_a": a[1], "stdin_b": b[0], "out_b": b[1]})
    # the k-th form like the first: a long session on the binary
    n = 1500 if tier == "quick" else 6000
    script = "".join(f"(add {i} 1)\n" for i in range(n))
    a = run_driver_cases(evalcorr.driver_lines([{"text": "(repl \">>> \" nil)", "stdin": [script[i:i + 4096] for i in range(0, len(script), 4096)]}], "pr"), timeout=600.0)[0]
    rep.evaluations += 1
    r = dump.split_run_answer(a)
    if "special" in r:
        rep.violation(f"a REPL session of {n} forms did not complete: {r['special']}", {"program": "(repl \">>> \" nil)", "env": "pr", "script": f"(add i 1) for i < {n}, one per line", "observed": a[:200]})
    else:
        results = [l.replace(">>> ", "") for l in r["out"].split("\n")]
        got = [x for x in results if x.strip().lstrip("-").isdigit()]
        if got != [str(i + 1) for i in range(n)] or last_result(r)[0] != "ok":
            first_bad = next((i for i, (g, w) in enumerate(zip(got + [None] * n, [str(i + 1) for i in range(n)])) if g != w), None)
            rep.violation(f"a REPL session of {n} forms printed {len(got)} results (first deviation at form {first_bad}); end: {last_result(r)}", {"program": "(repl \">>> \" nil)", "env": "pr", "script": f"(add i 1) for i < {n}, one per line", "transcript_tail": r["out"][-300:]})
    # a single form spread over very many lines: continuation lines must not cost recursion depth either
    for nl in ((1100,) if tier == "quick" else (1100, 5000)):
        script = "(add 1 2)\n(+\n" + "".join("1\n" for _ in range(nl)) + ")\n(add 3 4)\n"
        a = run_driver_cases(evalcorr.driver_lines([{"text": "(repl \">>> \" nil)", "stdin": [script[i:i + 4096] for i in range(0, len(script), 4096)]}], "pr"), timeout=300.0)[0]
        rep.evaluations += 1
        r = dump.split_run_answer(a)
        outl = [] if "special" in r else [l.replace(">>> ", "").replace("... ", "").strip() for l in r["out"].split("\n")]
        nums = [x for x in outl if x.lstrip("-").isdigit()]
        if "special" in r or nums != ["3", str(nl), "7"]:
            rep.violation(f"a form spread over {nl + 2} lines was not read and evaluated as one form: the session printed the numbers {nums[:8]}{'...' if len(nums) > 8 else ''} instead of 3, {nl}, 7",
                          {"program": "(repl \">>> \" nil)", "env": "pr", "script": f"(add 1 2) / (+ followed by {nl} lines holding 1 / ) / (add 3 4)", "observed": (r.get('special') or r['out'][-300:])})
    rep.coverage["long_session_forms"] = n
    if not rep.violations:
        report_disagreements(rep, sets, "standard input / REPL")
    rep.nontrivial = len(set((c["whole"], tuple(c["stdin"])) for c in cases + sessions if len(c["stdin"]) > 1))
    rep.samples = [{"stdin": cases[3]["stdin"]}, {"repl_script": SCRIPTS[1], "chunks": sessions[5]["stdin"]}]
    rep.coverage.update({"line_scripts": len(texts), "repl_scripts": len(SCRIPTS), "exhaustive": False})
    return rep.finish("make -C coq Properties/C18.vo && coqc <pinned statements>", TRUSTED_BASE_COMMON + ["axioms: none"],
                      "byte strings (fixed + random over a small alphabet with many newlines) x 5-12 chunkings each (whole, byte by byte, line by line, random cuts) read to end of file; 10 REPL scripts (multi-line forms, several forms per line, blanks, comments, errors, defines, input, missing final newline, empty) x 4-10 chunkings; one long session; non-trivial = more than one chunk")

def replay(path):
    return generic_replay(path)
