"""C02 - evaluation depends only on program and input (GC schedule, hash seed, addresses)."""
import re
from ..common import *
from .. import dump, evalcorr, gen_prog
from ..evalprop import *

PID = "C02"
MANIFEST = {
    "text": "Theorems: global lookup (value / ambiguity with its module list / not found) and whereis are functions of the SET of modules - equal for every permutation of the table, i.e. every hash seed and load order; the source iterates over hash maps only at the sites these theorems cover (generated fact); a collection at any point leaves exactly the same addresses reachable, each designating the very same cell record, so nothing reachable through handles can observe when collections happen; raw pointers are confined to src/memory (generated fact). The evaluator model is address-free by construction (addresses occur only in the printed form of functions, traps and generated symbols) and is tied to the code by the correspondence of the other properties. This check runs every generated program in several fresh processes (independent hash seeds and address-space layouts) under four collection schedules and requires identical results and output after canonicalising 0x... addresses, and agreement with the model.",
    "note": "PARTIAL: the program-level sentence is the conjunction of these theorems, the value-level model being a function of program and input, and Rust ownership (the evaluator reaches cells only through handles) - the last is a generated syntactic fact, not a proof about Rust; address-space layout and per-process seeds are sampled across processes. Trusted: Coq kernel; transcriptions bound by correspondence.",
    "technique": "Coq proofs (permutation invariance incl. sorted ambiguity lists; collection transparency) + generated static facts + multi-process / multi-schedule differential runs",
}
TARGETS = ["Properties/C02.v", "Eval/PreludeState.v"]
IMPORTS = ["Eval.State", "Eval.SortProofs", "Eval.ModulesProofs", "Heap.HeapModel", "Heap.MarkProofs", "Heap.CollectProofs", "Heap.HeapInv", "Heap.StaticProofs", "Generated.Static_gen", "Properties.C02"]
THEOREMS = [
    ("C02_lookup_independent_of_table_order", "forall ms ms' name asking, Permutation.Permutation ms ms' -> get_global ms name asking = get_global ms' name asking"),
    ("C02_whereis_independent_of_table_order", "forall ms ms' name, Permutation.Permutation ms ms' -> modules_defining ms name = modules_defining ms' name"),
    ("C02_hash_iterations_known", 'forallb (fun f => mem_pair f [("src/memory/mod.rs", "get_global"); ("src/memory/mod.rs", "get_module_of_global"); ("src/native/debug/mod.rs", "receive"); ("src/native/eval/mod.rs", "eval_internal"); ("src/native/eval/mod.rs", "macroexpand_internal")]) hash_iteration_sites = true'),
    ("C02_collection_invisible_through_handles", "forall p h h', wf h -> closed h -> free_rc0 h -> collect p h = Some h' -> (forall a, HReach h' a <-> HReach h a) /\\ (forall a c, HReach h a -> find_cell a (cells h) = Some c -> find_cell a (cells h') = Some c)"),
    ("C02_raw_pointers_confined", "raw_pointer_use_outside_memory = []"),
]

def lisp_string(t):
    return '"' + t.replace("\\", "\\\\").replace('"', '\\"') + '"'

MODULE_PROGRAMS = [
    " ".join(f"(load-all {lisp_string('(define (quote shared) (quote v' + m + ') (list))')} {lisp_string(m)})" for m in ms) + " (whereis 'shared) (eval (trap shared *trapped-signal*)) (macroexpand 'shared)"
    for ms in (["ma", "mb", "mc"], ["zeta", "alpha", "mid", "beta"], ["m1", "m2"], ["x" + str(i) for i in range(7)])
]

def canon_answer(a):
    r = dump.split_run_answer(a)
    if "special" in r:
        return ("special", r["special"])
    res = tuple((st, re.sub(r"U0x[0-9a-f]+", "U", d)) for st, d in r["results"])
    return (res, r["out"])

def run(tier, seed):
    rep = Report(PID, tier, seed)
    standard_proof_phase(rep, TARGETS, IMPORTS, THEOREMS)
    rng = Rng(seed, 2)
    n = 120 if tier == "quick" else 2500
    progs = list(MODULE_PROGRAMS)
    from .heapcommon import GC_PROGRAMS
    progs += [q.replace("(range 3000)", "(range 150)").replace("(range 1500)", "(range 90)").replace("(range 600)", "(range 120)").replace(" 600)", " 120)").replace("(range 30)))", "(range 12)))") for q in GC_PROGRAMS]
    progs += ["(try (block (length (range 60)) (car 5)) (catch wrong-argument-type (lambda (e) (list 'caught (. e 'source)))))",
              "(eval (make-trap '(block (length (range 80)) (signal 'x)) (list 'list ''handled '*trapped-signal* (list 'quote (range 5)))))"]
    progs += ["(list (gensym) (lambda (x) x) (trap 1 2) car)", "(print (list (gensym) (lambda (x) x) (trap 1 2) car))", "(describe map)",
              "(define 'a 1 \"\") (whereis 'a) (whereis 'car) (whereis 'nothing)"]
    for i in range(n):
        p, _ = gen_prog.gen_program(rng, gen_prog.WITH_PRELUDE, max_nodes=30, depth=rng.range(2, 5))
        progs.append(p)
    schedules = ["nat", "every", "k3", f"prng{seed % 1000}"]
    runs = {}
    processes = 2 if tier == "quick" else 4
    for sch in schedules:
        for pr in range(processes):
            runs[(sch, pr)] = run_driver_cases(evalcorr.driver_lines(progs, "p", f"gc={sch}"), timeout=10.0)
            rep.evaluations += len(progs)
    differing = 0
    for i, p in enumerate(progs):
        keys = {k: canon_answer(a[i]) for k, a in runs.items()}
        vals = set(keys.values())
        if any(v[0] == "special" and v[1] == "timeout" for v in vals):
            continue
        if len(vals) > 1:
            differing += 1
            if differing <= 3:
                ks = list(keys)
                other = next(k for k in ks if keys[k] != keys[ks[0]])
                rep.violation(f"the same program gives different results in different runs: {p[:200]}", {"program": p, "run_a": {"schedule": ks[0][0], "process": ks[0][1], "answer": runs[ks[0]][i][:400]}, "run_b": {"schedule": other[0], "process": other[1], "answer": runs[other][i][:400]}})
    # and the model agrees (natural schedule)
    sets = [ProgramSet("model", progs, shard_size=30, timeout=10.0)]
    run_sets(rep, sets)
    if not rep.violations:
        report_disagreements(rep, sets, "evaluator (address-free value model)")
    rep.nontrivial = len(set(progs))
    rep.samples = [progs[0][:300], progs[8]]
    rep.coverage.update({"schedules": schedules, "processes_per_schedule": processes, "programs": len(progs), "outcomes": outcome_kinds(sets), "exhaustive": False})
    rep.assumptions = ["independent processes have independent RandomState seeds and address-space layouts (ASLR)"]
    return rep.finish("make -C coq Properties/C02.vo && coqc <pinned statements>", TRUSTED_BASE_COMMON + ["axioms: none"],
                      "module programs defining one name in 2-7 modules (whereis, ambiguity lists) + address-printing programs + grammar-generated programs, each run in several fresh processes x 4 collection schedules (never forced, every allocation, every 3rd, pseudo-random); results compared after replacing 0x... addresses; every program distinct")

def replay(path):
    return generic_replay(path)
