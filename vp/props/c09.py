"""C09 - macro expansion preserves meaning, reaches a fixpoint, leaves quoted data alone."""
import json
from ..common import *
from .. import dump, evalcorr, gen_prog

PID = "C09"
MANIFEST = {
    "text": "Theorems over the transcribed expander (any form, environment, module, state): quote shields its datum completely; a macro body runs with the unevaluated operand forms bound to its parameters and its result replaces the call; the pass loop stops exactly at the first pass that reports no change; the native eval is expansion followed by evaluation of the expansion; the compound-operator form named by the property reaches its fixpoint and evaluates (computed by the kernel on the generated prelude). Tied to src/native/eval/mod.rs and src/prelude.lisp by running generated macro programs (prelude macros and inline macros, nested, in operator position, under quote) on the binary and in the model and by checking on the binary that eval x = eval (macroexpand x) and macroexpand (macroexpand x) = macroexpand x.",
    "note": "Trusted: Coq kernel; hand transcription of macroexpand_internal/macroexpand_completely (bound by the correspondence incl. poll counts); prelude text is generated from the source. Termination of expansion for arbitrary user macros is not a theorem (it depends on the macros); the unrestricted idempotence/meaning statements are checked on the binary as monitors, not proved for every program.",
    "technique": "Coq one-step rules derived from the transcribed expander + kernel computation on the generated prelude + differential check and idempotence/meaning monitors on the binary",
}
TARGETS = ["Properties/C09.v", "Eval/PreludeState.v"]
IMPORTS = ["Eval.EvalRules", "Eval.ExpandProofs", "Properties.C09"]
THEOREMS = [
    ("C09_quote_shield", 'forall f st e env m d ch q rest, (MAXD <? d)%N = false -> list_to_vec e = Some (q :: rest) -> is_sym q (s "macro") = false -> is_sym q (s "quote") = true -> expand_internal (S f) st e env m d ch = (st, ROk e, ch)'),
    ("C09_fixpoint_reached", "forall f st e env m d st1 e', expand_internal f st e env m (d + 1)%N false = (st1, ROk e', false) -> expand_completely (S f) st e env m d = (st1, ROk e')"),
    ("C09_pass_again", "forall f st e env m d st1 e', expand_internal f st e env m (d + 1)%N false = (st1, ROk e', true) -> expand_completely (S f) st e env m d = expand_completely f st1 e' env m d"),
    ("C09_eval_is_expand_then_eval", 'forall f st x env d st1 x\', expand_completely f st x env (cur st) (d + 1)%N = (st1, ROk x\') -> call_native (S f) st (s "eval") [x] env d = eval_internal f st1 x\' env (cur st) (d + 1)%N'),
    ("C09_operator_position", "operator_position_statement"),
    ("C09_macro_gets_forms", 'forall f st e env m d ch first rest st1 op ch1 restp params body cenv cmod st2 args ch2 newenv, (MAXD <? d)%N = false -> list_to_vec e = Some (first :: rest) -> is_sym first (s "macro") = false -> is_sym first (s "quote") = false -> expand_internal f st first env m (d + 1)%N ch = (st1, ROk op, ch1) -> getv op = VFun true restp params body cenv cmod -> expand_args f env m d st1 rest [] ch1 = (st2, inl args, ch2) -> pair_params (call_source e) params restp args cenv 0 (List.length args) = inl newenv -> expand_internal (S f) st e env m d ch = (let \'(st3, r) := eval_internal f st2 body newenv cmod (d + 1)%N in (st3, r, true))'),
]

FIXED_FORMS = [
    "((lambda (x) (when x 1)) 1)", "(let (x 1) (try x))", "((lambda (x) (and x (or x 2))) 5)", "(let (x 1) (and x (or x 2)))",
    "'(when a b)", "(quote (let (x 1) x))", "(list 'when 1 2)", "(when 1 (when 2 (when 3 4)))", "((lambda (f) (f 1)) (lambda (x) (when x (not x))))",
    "(block (when 1 2) (and 3 4))", "(case ((when nil 1) 'a) ((not nil) 'b))", "((macro (x) (list 'quote x)) (when a b))",
    "((macro (x) x) (when 1 2))", "((macro (x) (list 'when x 1)) t)", "((lambda (y) ((macro (x) (list 'and x 7)) y)) 3)", "((macro (x) (list (list 'macro '(y) '(list 'not y)) x)) 5)",
    "((macro (x) (list 'when x (list 'when x 2))) 1)", "(map (lambda (x) (when x (add x 1))) '(1 2))", "(try (when 1 (car 5)) (catch-all (lambda (e) 'caught)))",
    "(((lambda (y) (lambda (x) (when x y))) 7) 1)", "(apply + (list 1 (when 1 2)))", "(let (x '(when 1 2)) x)", "(throw 'kind (when 1 'k))",
]

# run-time eval from inside a closure / let: the form is expanded in the CALLER's environment (local macros, inline macros
# that use the caller's locals); (program, printed value)
LOCAL_EVAL = [
    ("((lambda (m) (eval '(m 1 2))) (macro (a b) (list 'add a b)))", "3"),
    ("((lambda (y) (eval '((macro (x) (list 'add x y)) 1))) 2)", "3"),
    ("(let (unless (macro (c x) (list 'if c nil x))) (eval '(unless nil 'ran)))", "ran"),
    ("((lambda (m) (eval (list 'm 5))) (macro (a) (list 'when t a)))", "5"),
    ("((lambda (m y) (eval '(list (m y) y))) (macro (a) (list 'add a 1)) 10)", "(11 10)"),
    ("((lambda (m) ((lambda (k) (eval '(m k))) 4)) (macro (a) (list 'add a a)))", "8"),
    ("((lambda (m) (eval (macroexpand '(m 1 2)))) (macro (a b) (list 'add a b)))", "3"),
    ("((lambda (m) (= (eval '(m 1 2)) (eval (macroexpand '(m 1 2))))) (macro (a b) (list 'add a b)))", "t"),
]

# macros whose expansion is again a call of a macro, many times over: the expansion is repeated until NOTHING changes,
# however many passes that takes; (definitions, expression, printed value)
CHAIN_DEFS = ("(define 'countdown (macro (n) (if (= n 0) (list 'quote 'done) (list 'countdown (substract n 1)))) \"\") "
              "(define 'my-list (macro (& xs) (if xs (list 'cons (car xs) (cons 'my-list (cdr xs))) nil)) \"\") ")
CHAINS = []
for _n in (3, 40, 70, 130, 400):
    CHAINS.append((CHAIN_DEFS, f"(countdown {_n})", "done"))
    CHAINS.append((CHAIN_DEFS, f"(macroexpand '(countdown {_n}))", "(quote done)"))
    CHAINS.append((CHAIN_DEFS, f"((lambda (x) (list (= (macroexpand (macroexpand x)) (macroexpand x)) (= (eval x) (eval (macroexpand x))))) '(countdown {_n}))", "(t t)"))
for _n in (5, 80, 200):
    CHAINS.append((CHAIN_DEFS, f"(length (my-list {' '.join(str(i) for i in range(_n))}))", str(_n)))

def wrap_monitors(form):
    """on the implementation: value of the form, value of its expansion, expansion twice vs once"""
    q = "'" + form if not form.startswith("'") else "(quote " + form + ")"
    return (f"((lambda (x) (list ((lambda (y) (= (macroexpand y) y)) (macroexpand x))"
            f" (print (eval (trap (eval x) (list 'sig *trapped-signal*))))"
            f" (print (eval (trap (eval (macroexpand x)) (list 'sig *trapped-signal*)))))) {q})")

def run(tier, seed):
    rep = Report(PID, tier, seed)
    standard_proof_phase(rep, TARGETS, IMPORTS, THEOREMS)
    rng = Rng(seed, 9)
    n = 250 if tier == "quick" else 4000
    progs = list(FIXED_FORMS) + [p for p, _ in LOCAL_EVAL]
    chain_progs = [d + e for d, e, _ in CHAINS if "400" not in e and "200" not in e]
    stats = {}
    feats = {"prelude", "let", "macros", "inline_macro", "trap", "signal", "closure", "hof", "eval"}
    for i in range(n):
        p, st = gen_prog.gen_program(rng, feats, max_nodes=30, depth=rng.range(2, 5))
        progs.append(p)
        for k, v in st.items():
            stats[k] = stats.get(k, 0) + v
    progs += chain_progs
    answers, parsed, bad = evalcorr.correspond("c09", progs)
    hangs = [i for i, r in enumerate(parsed) if r.get("special") == "timeout"]
    crashes = [i for i, r in enumerate(parsed) if r.get("special") in ("panic", "crash")]
    for i in hangs[:3]:
        rep.violation("expansion/evaluation does not terminate although every macro used terminates: " + progs[i], {"program": progs[i], "how": "picilisp --expression '" + progs[i] + "'", "observed": "no answer within the time limit"})
    for i in crashes[:2]:
        rep.violation("the interpreter crashed on " + progs[i], {"program": progs[i], "observed": answers[i][:300]})
    for k, (p, want) in enumerate(LOCAL_EVAL):
        i = len(FIXED_FORMS) + k
        pa = run_driver_cases(evalcorr.driver_lines(["(print " + p + ")"]), timeout=6.0)[0]
        rr = dump.split_run_answer(pa)
        got = None
        if "results" in rr and rr["results"] and rr["results"][-1][0] == "ok":
            try:
                got = dump.text_of(dump.parse_dump(rr["results"][-1][1]))
            except dump.Truncated:
                got = None
        if got != want:
            rep.violation(f"eval of a form inside a closure is not expansion in the caller's environment followed by evaluation: {p} gives {got if got is not None else pa[:120]}, expected {want}",
                          {"program": p, "expected": want, "observed": pa[:300]})
    chain_answers = run_driver_cases(evalcorr.driver_lines([d + "(print " + e + ")" for d, e, _ in CHAINS]), timeout=30.0)
    rep.evaluations += len(CHAINS)
    for (d, e, want), pa in zip(CHAINS, chain_answers):
        rr = dump.split_run_answer(pa)
        got = None
        if "results" in rr and rr["results"] and rr["results"][-1][0] == "ok":
            try:
                got = dump.text_of(dump.parse_dump(rr["results"][-1][1]))
            except dump.Truncated:
                got = None
        if got != want:
            rep.violation(f"a macro whose expansion needs many passes is not expanded to its fixpoint: {e} gives {got if got is not None else pa[:160]}, expected {want}",
                          {"program": d + e, "expected": want, "observed": pa[:300]})
    # meaning + idempotence monitors on the implementation
    local_eval = set(p for p, _ in LOCAL_EVAL)    # their expansions contain macro OBJECTS, on which = is not reflexive (C13 is about data free of functions)
    single = [p for p in progs if p.count("(define ") == 0 and p not in local_eval][: (150 if tier == "quick" else 1500)]
    mon = run_driver_cases(evalcorr.driver_lines([wrap_monitors(p) for p in single]), timeout=6.0)
    mon_checked = 0
    for p, a in zip(single, mon):
        r = dump.split_run_answer(a)
        if "special" in r or not r["results"] or r["results"][0][0] != "ok":
            continue
        try:
            items = dump.list_items(dump.parse_dump(r["results"][0][1]))
        except dump.Truncated:
            continue
        mon_checked += 1
        idem = dump.strip_meta(items[0]) == ("sym", "t")
        v1, v2 = dump.text_of(items[1]), dump.text_of(items[2])
        import re
        canon = lambda t: re.sub(r"0x[0-9a-f]+", "0x0", t or "")
        if not idem:
            rep.violation("expanding an expanded form changes it: " + p, {"program": wrap_monitors(p), "observed": a[:400]})
        if canon(v1) != canon(v2) and "#<symbol" not in canon(v1):
            rep.violation("eval x differs from eval (macroexpand x): " + p, {"program": wrap_monitors(p), "eval": v1, "eval_of_expansion": v2})
    if bad and not rep.violations:
        b = min(bad, key=lambda i: len(progs[i]))
        rep.broken.append(f"correspondence model/implementation (expander+evaluator) on {len(bad)} programs; shortest: {progs[b]} -> {answers[b][:300]}")
    rep.evaluations = len(progs) + len(single)
    rep.nontrivial = len(set(p for p in progs if any(m in p for m in ("(when", "(and", "(or", "(let", "(block", "(case", "(try", "(macro", "(not", "(throw"))))
    rep.samples = progs[19:23]
    rep.coverage.update({"construct_counts": stats, "hangs": len(hangs), "monitored_for_meaning_and_idempotence": mon_checked, "exhaustive": False})
    rep.assumptions = ["a program that does not answer within 6 s on the release build is classified as non-terminating"]
    return rep.finish("make -C coq Properties/C09.vo && coqc <pinned statements>", TRUSTED_BASE_COMMON + ["axioms: none"],
                      "fixed forms naming the property's cases (operator position, under quote, nested, inline macros) + generated programs over the prelude macros; non-trivial = uses at least one macro")

def replay(path):
    r = json.load(open(path)); print(json.dumps(r, indent=1))
    p = r.get("replay", {}).get("program")
    if p:
        print("implementation now answers:", run_driver_cases(evalcorr.driver_lines([p]), timeout=6.0)[0][:600])
    return 0
