"""C07 - tail calls run in constant depth; deep recursion signals instead of crashing."""
from ..common import *
from .. import dump, evalcorr
from ..evalprop import *

PID = "C07"
MANIFEST = {
    "text": "Theorems over the transcribed evaluator: the three tail positions (branch of if, body of a called closure, argument of eval) re-enter the evaluator loop at the SAME depth d, for every form/environment/state; beyond MAX_RECURSION_DEPTH every entry is a stackoverflow signal; and a tail-recursive loop through if + closure call runs to completion at the depth it was started at for EVERY list length n (induction on the list, fuel linear in n). Tied to the code by loops of 1500 iterations through each tail path and non-tail recursion at every depth in a window around the limit through each recursive path (operands, trap bodies, macro expansion, print), compared with the model on value/signal AND the number of evaluator steps; plus loops of 10^4..10^6 iterations on the binary alone.",
    "note": "PARTIAL for the physical clause: that the native stack suffices for MAX_RECURSION_DEPTH nested evaluator frames is runtime behaviour (frame sizes, OS stack) that the model cannot exhibit; it is measured on the binary in the release profile (window around the limit) and probed in the debug profile, where the unchanged code overflows the native stack before the limit (known finding). Trusted: Coq kernel; transcription of eval_internal (bound by the correspondence).",
    "technique": "Coq rules + induction over list length for the tail loop + differential check with step counts around the depth limit + stack probes on the binary",
}
TARGETS = ["Properties/C07.v", "Eval/PreludeState.v"]
IMPORTS = ["Eval.EvalRules", "Eval.SemProofs", "Eval.TailProofs", "Eval.PreludeState", "Eval.PreludeProofs", "Eval.LengthProofs", "Properties.C07"]
THEOREMS = [
    ("C07_tail_if", 'forall f st st\' e env m d q c t o st1 cv, poll st = (st\', None) -> list_to_vec e = Some [q; c; t; o] -> is_sym q (s "lambda") = false -> is_sym q (s "quote") = false -> is_sym q (s "if") = true -> eval_internal f st\' c env m (d + 1)%N = (st1, ROk cv) -> eval_loop (S f) st e env m d = eval_loop f st1 (if is_nil cv then o else t) env m d'),
    ("C07_tail_call", "forall f st st' e env m d first rest st1 op mac restp params body cenv cmod st2 args newenv, poll st = (st', None) -> list_to_vec e = Some (first :: rest) -> special_form first = false -> eval_internal f st' first env m (d + 1)%N = (st1, ROk op) -> getv op = VFun mac restp params body cenv cmod -> eval_args f env m d st1 rest [] = (st2, inl args) -> pair_params (call_source e) params restp args cenv 0 (List.length args) = inl newenv -> eval_loop (S f) st e env m d = eval_loop f st2 body newenv cmod d"),
    ("C07_tail_eval", 'forall f st st\' e env m d first rest st1 op st2 x st3 x\', poll st = (st\', None) -> list_to_vec e = Some (first :: rest) -> special_form first = false -> eval_internal f st\' first env m (d + 1)%N = (st1, ROk op) -> getv op = VNative (s "eval") -> eval_args f env m d st1 rest [] = (st2, inl [x]) -> expand_completely f st2 x env m (d + 1)%N = (st3, ROk x\') -> eval_loop (S f) st e env m d = eval_loop f st3 x\' env m d'),
    ("C07_depth_guard", 'forall f st e env m d, (MAXD < d)%N -> eval_internal (S f) st e env m d = (st, RSig (make_error "stackoverflow" (s "eval") []))'),
    ("C07_loop_any_length", "forall (xs : list val) (d : N) (st : state), good st -> (d + 2 <= MAXD)%N -> exists fuel st', eval_loop fuel st walk_body (env_of (vec_to_list xs)) dflt d = (st', ROk done) /\\ good st'"),
    ("C07_prelude_length_constant_depth", "forall xs, in_i64 (Z.of_nat (List.length xs)) = true -> length_statement xs"),
]

DEFS = ("(defun loop-if (n) \"\" (if (= n 0) 'done (loop-if (substract n 1)))) "
        "(defun loop-ev (n) \"\" (if (= n 0) 'done (eval (list 'loop-ev (substract n 1))))) "
        "(defun walk (l) \"\" (if l (walk (cdr l)) 'done)) "
        "(defun deep (n) \"\" (if (= n 0) 0 (add 1 (deep (substract n 1))))) "
        "(defun deep-trap (n) \"\" (if (= n 0) 0 (eval (trap (add 1 (deep-trap (substract n 1))) (signal *trapped-signal*))))) "
        "(defun nest (n acc) \"\" (if (= n 0) acc (nest (substract n 1) (list acc)))) "
        "(defun nest-when (n acc) \"\" (if (= n 0) acc (nest-when (substract n 1) (list 'when 1 acc)))) ")

def tail_programs(n):
    return [DEFS + f"(loop-if {n})", DEFS + f"(loop-ev {n})", DEFS + f"(walk (range {n}))", DEFS + f"(length (range {n}))",
            DEFS + f"(foldl add 0 (range {n}))", DEFS + f"(length (reverse (range {n})))", DEFS + f"(length (map (lambda (x) x) (range {n})))",
            DEFS + f"(length (zip (range {n}) (range {n})))", DEFS + f"(length (enumerate (range {n})))"]

EXPECT = lambda n: ["Sdone", "Sdone", "Sdone", f"I{n}", f"I{n * (n - 1) // 2}", f"I{n}", f"I{n}", f"I{n}", f"I{n}"]

def run(tier, seed):
    rep = Report(PID, tier, seed)
    standard_proof_phase(rep, TARGETS, IMPORTS, THEOREMS)
    rng = Rng(seed, 7)
    # (1) tail loops, model vs binary incl. step counts
    small = tail_programs(1500)[:3] + tail_programs(200)
    # (2) non-tail recursion around the limit through each path
    window = list(range(1005, 1031)) if tier == "quick" else list(range(960, 1060))
    deep = []
    for d in window:
        deep.append(DEFS + f"(deep {d})")
    for d in window[::3]:
        deep.append(DEFS + f"(deep-trap {d // 2})")
        deep.append(DEFS + f"(length (print (nest {d} 1)))")
        deep.append(DEFS + f"(eval (nest-when {d} 7))")
        deep.append(DEFS + f"(= (nest {d} 1) (nest {d} 1))")
    sets = [ProgramSet("tail", small, shard_size=1, timeout=60.0), ProgramSet("deep", deep, shard_size=3, timeout=60.0)]
    run_sets(rep, sets)
    crashes_and_hangs(rep, sets)
    # (3) long loops on the binary alone: the property's "any number of iterations"
    big_n = [5000, 40000] if tier == "quick" else [5000, 100000, 1000000]
    for n in big_n:
        progs = tail_programs(n) if n <= 100000 else tail_programs(n)[:4]
        answers = run_driver_cases(evalcorr.driver_lines(progs), timeout=300.0)
        rep.evaluations += len(progs)
        for p, a, exp in zip(progs, answers, EXPECT(n)):
            r = dump.split_run_answer(a)
            st, d = last_result(r)
            ok = st == "ok" and d.split(" ")[-1 if exp.startswith("I") else 0].lstrip("M").endswith(exp.lstrip("S")) if False else None
            good = (st == "ok") and ((exp.startswith("I") and (" " + exp) in (" " + d)) or (exp == "Sdone" and "S100.111.110.101" in d))
            if not good:
                rep.violation(f"a tail-recursive loop of {n} iterations did not run to completion: {p[len(DEFS):]}", {"program": p, "observed": a[:300], "expected": exp})
    # (4) the debug profile (the profile the tests run), through the real entry point on the main thread
    known = load_known()
    try:
        exe = build_driver("debug")
        probe = "(block (defun deep (n) \"\" (if (= n 0) 0 (add 1 (deep (substract n 1))))) (deep {d}))"
        results = {}
        for depth in (900, 1010, 1030):
            rc, out, err = sh([exe, "--expression", probe.format(d=depth)], timeout=120)
            results[depth] = (rc, (out + err).strip()[:120])
            rep.evaluations += 1
        rep.coverage["debug_profile_probe"] = {str(k): v for k, v in results.items()}
        for depth, (rc, text) in results.items():
            crashed = rc not in (0, 1) or "overflowed its stack" in text
            expected_ok = (depth < 1018 and text.startswith(str(depth))) or (depth >= 1018 and "stackoverflow" in text)
            if crashed:
                entry = [k for k in known["open"] if k["property"] == PID and k.get("class") == "debug-native-stack"]
                if entry and depth >= 1000:
                    line = f"KNOWN-FINDING: property={PID} {entry[0]['what']}"
                    if line not in rep.known_lines:
                        rep.known_lines.append(line)
                else:
                    rep.violation(f"native stack overflow (process died) at recursion depth {depth} in the debug profile", {"program": probe.format(d=depth), "profile": "debug", "how": "target/debug/picilisp --expression '...'", "observed": text})
            elif not expected_ok:
                rep.violation(f"unexpected result at recursion depth {depth} in the debug profile", {"program": probe.format(d=depth), "profile": "debug", "observed": text})
    except InfraError as e:
        rep.notes.append("debug profile probe skipped: " + str(e)[:200])
    # (5) recursion THROUGH traps, far beyond the limit, on the real entry point (release, main thread): the protected body of a
    # trap is not a tail position - every level costs depth - so the outcome must be the stackoverflow signal, never a dead process
    try:
        exe_r = build_driver("release")
        trap_probes = [
            "(block (defun countdown (n) \"\" (try (if (= n 0) 'done (countdown (substract n 1))) (catch stackoverflow (lambda (e) (list 'caught 'stackoverflow))))) (countdown {n}))",
            "(block (defun dig (n) \"\" (eval (trap (if (= n 0) (signal 'bottom) (dig (substract n 1))) (list 'trapped (. *trapped-signal* 'kind))))) (dig {n}))",
            "(block (defun dig2 (n) \"\" (eval (trap (if (= n 0) 'bottom (dig2 (substract n 1))) 'stackoverflow-was-trapped))) (dig2 {n}))",
        ]
        for tp in trap_probes:
            for n in ((100000,) if tier == "quick" else (3000, 100000, 400000)):
                rc, out, err = sh([exe_r, "--expression", tp.format(n=n)], timeout=300)
                rep.evaluations += 1
                text = (out + err).strip()
                if rc not in (0, 1) or "overflowed its stack" in text or "panicked" in text:
                    rep.violation(f"recursion {n} deep through traps killed the process (exit {rc}) instead of signalling stackoverflow", {"program": tp.format(n=n), "profile": "release", "how": "picilisp --expression '...'", "observed": text[-300:]})
                elif "stackoverflow" not in text:
                    rep.violation(f"recursion {n} deep through traps neither signalled stackoverflow nor died: {text[:120]}", {"program": tp.format(n=n), "profile": "release", "observed": text[-300:]})
    except InfraError as e:
        rep.notes.append("release trap probe skipped: " + str(e)[:200])
    # (6) the accumulating functions of the prelude on lists far longer than the depth limit: they are loops, every one must
    # return its result (release binary; the documented results themselves are C16's business - here only "a value, at constant depth")
    n6 = 5000 if tier == "quick" else 60000
    accum = [(f"(length (range {n6}))", str(n6)), (f"(foldl add 0 (range {n6}))", str(n6 * (n6 - 1) // 2)),
             (f"(foldr (lambda (x acc) (add x acc)) 0 (range {n6}))", str(n6 * (n6 - 1) // 2)), (f"(length (map (lambda (x) (add x 1)) (range {n6})))", str(n6)),
             (f"(car (reverse (range {n6})))", str(n6 - 1)), (f"(length (zip (range {n6}) (range {n6})))", str(n6)), (f"(length (enumerate (range {n6})))", str(n6)),
             (f"(last (range {n6}))", str(n6 - 1)), (f"(length (init (range {n6})))", str(n6 - 1)), (f"(apply + (range {n6}))", str(n6 * (n6 - 1) // 2)),
             (f"(length (foldr cons nil (range {n6})))", str(n6))]
    aa = run_driver_cases(evalcorr.driver_lines(["(print " + p + ")" for p, _ in accum]), timeout=120.0)
    rep.evaluations += len(accum)
    for (p, want), a in zip(accum, aa):
        rr = dump.split_run_answer(a)
        got = None
        if "results" in rr and rr["results"] and rr["results"][-1][0] == "ok":
            try:
                got = dump.text_of(dump.parse_dump(rr["results"][-1][1]))
            except dump.Truncated:
                got = None
        if got != want:
            rep.violation(f"an accumulating prelude function does not run at constant depth on a list of {n6} elements: {p} gives {got if got is not None else a[:160]}",
                          {"program": p, "env": "p", "expected": want, "observed": a[:300]})
    rep.coverage["prelude_accumulators"] = len(accum)
    if not rep.violations:
        report_disagreements(rep, sets, "evaluator depth/tail behaviour")
    rep.nontrivial = len(set(small + deep))
    rep.samples = [small[0][len(DEFS):], deep[0][len(DEFS):], deep[-1][len(DEFS):]]
    rep.coverage.update({"outcomes": outcome_kinds(sets), "depth_window": [window[0], window[-1]], "long_loops": big_n, "exhaustive": False})
    rep.assumptions = ["default 8 MiB stack: the driver evaluates on a thread created with config::CALL_STACK_SIZE", "native frame sizes are whatever rustc produced for this build; the release profile is what the registered checks build"]
    return rep.finish("make -C coq Properties/C07.vo && coqc <pinned statements>", TRUSTED_BASE_COMMON + ["axioms: none"],
                      "loops of 1500 and 200 iterations through each tail path (model vs binary with step counts); non-tail recursion at every depth of the window around the limit through operands, trap bodies, print, macro expansion and =; loops of up to 40000 (quick) / 10^6 iterations on the binary; one debug-profile probe; every program is distinct")

def replay(path):
    return generic_replay(path)
