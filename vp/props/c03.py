"""C03 - garbage is reclaimed and the heap stays proportional to live data."""
from ..common import *
from .heapcommon import *

PID = "C03"
MANIFEST = {
    "text": "Theorems over the transcribed heap, for ANY sizing policy (hence also the f32 one): immediately after a collection EXACTLY the cells reachable from handles and globals are in use; the free suffix is then at most max(maxfree(used), minfree(used)+1); a collection never lengthens the vector; the vector grows only when a collection has just found every cell reachable, and its new size is used+1+(grow(used+1)-1), a function of the live count; in every reachable state every live handle/global designates a used cell covered by its count and free cells carry none. Tied to the code by exact snapshot agreement after every operation (len, first_free, vector), long allocate/drop loops with constant live data on the binary (heap size must stay bounded), a handle-accounting probe at return to top level, the complete sweep of the f32 sizing arithmetic against the rational policy up to 2^24, and a collection-time probe on shared structure.",
    "note": "PARTIAL: 'handles are dropped on every exit path' is Rust RAII (no forget/leak outside src/memory: generated fact) and is probed, not proved; the unbounded-session corollary is the composition of the per-operation theorems and is additionally measured. Trusted: Coq kernel; transcription (snapshot agreement); f32 = rational policy on the swept range.",
    "technique": "Coq proofs over the heap model parametric in the sizing policy + snapshot-exact differential check + boundedness/accounting probes + exhaustive f32 sweep",
}
TARGETS = ["Properties/C03.v", "Heap/Snapshot.v"]
IMPORTS = ["Heap.HeapModel", "Heap.MarkProofs", "Heap.CollectProofs", "Heap.HeapInv", "Heap.StepInv", "Heap.HistoryProofs", "Properties.C03"]
THEOREMS = [
    ("C03_collect_exact", "forall p h h', collect p h = Some h' -> forall c, In c (used h') <-> In c (used h) /\\ HReach h (box c)"),
    ("C03_free_after_collect", "forall p h h', collect p h = Some h' -> (List.length (cells h') - ff h' <= Nat.max (maxfree p (ff h')) (minfree p (ff h') + 1))%nat"),
    ("C03_collect_never_grows", "forall p h h', collect p h = Some h' -> (List.length (cells h') <= List.length (cells h))%nat"),
    ("C03_growth_bounded_by_live", "forall p h h' L k pl ks a, inv h L -> (forall x, In x ks -> x = 0%N \\/ In x L) -> allocate p h k pl ks = Some (h', a) -> (List.length (cells h') <= List.length (cells h))%nat \\/ exists h1, collect p h = Some h1 /\\ ff h1 = List.length (cells h1) /\\ List.length (cells h') = (S (ff h1) + Nat.pred (grow p (S (ff h1))))%nat"),
    ("C03_handles_covered", "forall p n ops g, run_ops p (init_gstate n) ops = Some g -> inv (gheap g) (live g)"),
]

def run(tier, seed):
    rep = Report(PID, tier, seed)
    standard_proof_phase(rep, TARGETS, IMPORTS, THEOREMS)
    hits, bad, first = run_heap_check(rep, tier, seed, 3, ["C03"])
    for h in hits.get("C03", [])[:3]:
        rep.violation("heap history: " + h["what"], h)
    # bounded memory for long sessions with bounded live data: allocate/drop loops on the real heap
    N = 20000 if tier == "quick" else 400000
    loop = "heap " + ";".join(["num 1", "sym 97", "cons 0 1"] + sum([[f"num {i % 90}", f"cons {3 + 2 * i} 2", f"drop {3 + 2 * i}", f"drop {4 + 2 * i}"] for i in range(N // 4)], []) + ["snap", "collect", "snap"])
    a = run_driver_cases([loop], timeout=600.0)[0]
    rep.evaluations += 1
    try:
        segs = a.split(" ; ")
        before, after = heap.parse_snapshot(segs[-3]), heap.parse_snapshot(segs[-1].split(" | mon")[0])
        rep.coverage["long_loop"] = {"operations": N, "len_before_final_collect": before["len"], "len_after": after["len"], "used_after": after["ff"]}
        if before["len"] > 64 or after["ff"] != 3 or after["len"] > 8:
            rep.violation(f"after {N} allocate/drop operations with 3 live cells the heap has {before['len']} cells ({after['len']} after a collection, {after['ff']} in use)", {"history": "num 1;sym a;cons 0 1; then repeated (num, cons, drop, drop)", "observed": segs[-3][:200] + " / " + segs[-1][:200]})
    except Exception as e:
        rep.violation("the long allocate/drop loop did not complete: " + a[:200], {"observed": a[:300]})
    # handle accounting at return to top level: sum of handle counts = number of global definitions (+ nothing held by the embedder)
    progs = ["(length (map (lambda (x) (list x x)) (range 300)))", "(try (car 5) (catch-all (lambda (e) e)))", "(eval (trap (signal (range 50)) 1))", "(define 'zz (range 40) \"\") zz (undefine 'zz)", "(abort)",
             # every way out of a trap handler, a closure, a macro, a primitive with a callback, a load
             "(eval (trap (eval (trap (signal (range 50)) (signal *trapped-signal*))) 1))", "(eval (trap (signal (range 50)) (signal (list 2 *trapped-signal*))))",
             "(eval (trap (signal (range 50)) (abort)))", "(eval (trap (eval (trap (signal 1) (abort))) 2))",
             "(try (try (car 5) (catch-all (lambda (e) (throw 'kind 'again 'payload (range 30))))) (catch-all (lambda (e) 'ok)))",
             "(try (car 5) (catch-all (lambda (e) (car 6))))", "(map (lambda (x) (car x)) (list (range 20) 2))", "(foldl (lambda (a x) (signal (list a x))) 0 '(1 2))",
             "((lambda (x y) x) (range 30))", "((lambda (x) x) (range 30) 2)", "(macroexpand '(when))", "(eval '(let (a) a))",
             "(load-all \"(car 5)\" 'stdin)", "(load-all \"(\" 'stdin)", "(eval (trap (load-all \"(signal (range 30))\" 'stdin) (signal *trapped-signal*)))",
             "(eval (trap ((lambda (f) (f f)) (lambda (f) (add 1 (f f)))) (list 'overflow (. *trapped-signal* 'kind))))",
             "(eval (trap ((lambda (f) (f f)) (lambda (f) (add 1 (f f)))) (signal *trapped-signal*)))",
             "(read \"(1 2\" 'stdin 1 1)", "(read-simple \")\")", "(print (signal (range 20)))", "(call-native-function car (list 5) ())",
             "(define 'zz 1 \"\") (eval (trap (define 'zz 2 \"\") (signal *trapped-signal*))) (undefine 'zz)"]
    answers = run_driver_cases(evalcorr.driver_lines(progs, "p", "cont=1"), timeout=30.0)
    base = dump.split_run_answer(run_driver_cases(evalcorr.driver_lines(["1"], "p"))[0])["stats"]
    for p, a in zip(progs, answers):
        st = dump.split_run_answer(a).get("stats", {})
        rep.evaluations += 1
        if st and int(st["rcsum"]) - int(st["defs"]) != int(base["rcsum"]) - int(base["defs"]):
            rep.violation(f"after {p} returned to top level {int(st['rcsum']) - int(st['defs'])} handles are alive besides the global definitions (a fresh interpreter has {int(base['rcsum']) - int(base['defs'])})", {"program": p, "observed": a[-200:]})
    # f32 sizing arithmetic vs the rational policy: complete sweep
    upto = 2 ** 22 if tier == "quick" else 2 ** 24
    sw = run_driver_cases([f"f32sweep {upto}"], timeout=600.0)[0]
    rep.coverage["f32_sweep"] = {"upto": upto, "first_disagreement": sw}
    if not (sw.startswith("maxfree none") or int(sw.split(" ")[1]) > 5000000) or "minfree none" not in sw or "grow none" not in sw:
        rep.broken.append("the f32 sizing arithmetic differs from the rational policy of Config_gen.v below 5,000,000 cells: " + sw)
    # collection time on shared structure (exponential without a visited check)
    t0 = time.time()
    a = run_driver_cases(evalcorr.driver_lines(["((lambda (d) (length (range 3000))) (foldl (lambda (a _) (cons a a)) nil (range 34)))"], "p"), timeout=30.0)[0]
    rep.evaluations += 1
    rep.coverage["shared_structure_collect_s"] = round(time.time() - t0, 2)
    if a == "timeout":
        rep.violation("a collection with a 34-level shared structure alive does not finish within 30 s (mark without visited check)", {"program": "((lambda (d) (length (range 3000))) (foldl (lambda (a _) (cons a a)) nil (range 34)))", "observed": "timeout"})
    if bad and not rep.violations:
        rep.broken.append(f"correspondence heap model/implementation: {len(bad)} histories diverge; first: {json.dumps(first)[:600]}")
    rep.coverage["exhaustive"] = False
    return rep.finish("make -C coq Properties/C03.vo && coqc <pinned statements>", TRUSTED_BASE_COMMON + ["axioms: none", "sizing policy: theorems hold for any policy; the tree's f32 policy equals the rational one on the swept range"],
                      "generated heap histories compared snapshot by snapshot (exactness and free-space monitor after every explicit collection); one long allocate/drop loop; 27 programs for handle accounting (every exit path of traps, handlers, closures, macros, callbacks, loads); exhaustive f32 sweep; shared-structure probe; non-trivial as for C01")

def replay(path):
    r = json.load(open(path)); print(json.dumps(r, indent=1)[:3000]); return 0
