"""C19 - INTERRUPT and ABORT stop any evaluation; the interpreter stays usable."""
from ..common import *
from .. import dump, evalcorr
from ..evalprop import *

PID = "C19"
MANIFEST = {
    "text": "Theorems over the transcribed evaluator with a command channel whose arrival schedule is universally quantified: for EVERY expression, environment, module and depth - terminating or not - an activation that reaches its next step with INTERRUPT first in the channel returns the interrupted signal at once, with ABORT returns the abort, in both cases leaving the global tables and the current module untouched; the abort then passes any number of enclosing traps (C08). Tied to the code by injecting the command exactly before poll k (cfg hook) for programs that terminate, loop in tail position, or loop through traps that catch everything, with k swept over the first polls, comparing value/signal/output and the number of polls with the model, and by evaluating further forms in the same interpreter afterwards. The two blocking primitives (receive, waiting for standard input) are exercised on the binary with a command sent by a helper thread while the worker is blocked.",
    "note": "PARTIAL: thread scheduling, mpsc delivery latency and the blocking calls themselves are runtime behaviour; the model is the evaluator's poll discipline. 'At any moment' is modelled as 'before any poll k'; no poll happens inside a garbage collection or inside a single primitive. Trusted: Coq kernel; transcription of the poll at the loop head (bound by the correspondence incl. poll counts).",
    "technique": "Coq theorems over the poll discipline (schedule universally quantified) + deterministic poll-indexed injection compared with the model + threaded probes of the blocking primitives",
}
TARGETS = ["Properties/C19.v", "Eval/PreludeState.v"]
IMPORTS = ["Eval.EvalRules", "Eval.SemProofs", "Properties.C19"]
THEOREMS = [
    ("C19_interrupt_at_next_step", 'forall f st e env m d rest_chan, attached st = true -> chan st = s "INTERRUPT" :: rest_chan -> exists st\', eval_loop (S f) st e env m d = (st\', RSig (make_error "interrupted" (s "eval") [])) /\\ mods st\' = mods st /\\ cur st\' = cur st'),
    ("C19_abort_at_next_step", 'forall f st e env m d rest_chan, attached st = true -> chan st = s "ABORT" :: rest_chan -> exists st\', eval_loop (S f) st e env m d = (st\', RAbort) /\\ mods st\' = mods st /\\ cur st\' = cur st'),
    ("C19_abort_passes_traps", "forall n k e handlers env m d, (List.length handlers = n)%nat -> aborts_from k e env m (d + N.of_nat n)%N -> (d + N.of_nat n <= MAXD + 1)%N -> aborts_from (k + 2 * n) (trap_nest n e handlers) env m d"),
    ("C19_injected_command_is_seen", 'forall st c, attached st = true -> chan st = [] -> inject st = [((polls st + 1)%N, c)] -> c = s "INTERRUPT" -> exists st\', poll st = (st\', Some (RSig (make_error "interrupted" (s "eval") [])))'),
]

PRE = ("(define 'marker 'still-here \"\") "
       "(defun spin (n) \"\" (spin (add n 1))) "
       "(defun stubborn (n) \"\" (block (try (car 5) (catch-all (lambda (e) 'ignored))) (stubborn (add n 1)))) "
       "(defun lazy (n) \"\" (block (try (car 5)) (lazy (add n 1)))) ")
AFTER = " (list 'alive (add 1 2) marker (length (range 5)))"
BODIES = {
    "terminating": "(length (map (lambda (x) (add x 1)) (range 30)))",
    "tail-loop": "(spin 0)",
    "printing-loop": "(infinite-loop 0)",
    "through-catch-all": "(stubborn 0)",
    "inside-trap": "(eval (trap (spin 0) (list 'trapped (. *trapped-signal* 'kind))))",
    # traps whose handler is the empty list (try without catchers, make-trap with nil, a literal () handler)
    "through-empty-try": "(lazy 0)",
    "inside-empty-trap": "(block (eval (trap (spin 0) ())) (eval (make-trap '(spin 0) nil)) (try (spin 0)) (spin 0))",
}
SWALLOWS_INTERRUPT = ("through-catch-all", "through-empty-try", "inside-empty-trap")

def run(tier, seed):
    rep = Report(PID, tier, seed)
    standard_proof_phase(rep, TARGETS, IMPORTS, THEOREMS)
    rng = Rng(seed, 19)
    ks = list(range(1, 60)) + [rng.range(60, 3000) for _ in range(40 if tier == "quick" else 600)]
    if tier == "thorough":
        ks = list(range(1, 1500)) + ks
    # poll indices count from the start of a case: find out how many polls the prologue takes
    pre = dump.split_run_answer(run_driver_cases(evalcorr.driver_lines([PRE]))[0])
    P = int(pre["stats"]["polls"])
    rep.coverage["prologue_polls"] = P
    cases = []
    for name, body in BODIES.items():
        for k in ks if name != "terminating" else [k for k in ks if k < 400]:
            for cmd in ("INTERRUPT", "ABORT"):
                if name in SWALLOWS_INTERRUPT and cmd == "INTERRUPT":
                    umb = [(P + k, "INTERRUPT"), (P + k + 400 + rng.below(50), "ABORT")]   # the loop may catch the interrupt: end it with an abort later
                else:
                    umb = [(P + k, cmd)]
                # poll indices count from the start of the case: the prologue consumes some polls first
                cases.append({"text": PRE + body + AFTER, "umb": umb, "cont": True, "what": name, "cmd": cmd, "k": k})
    if tier == "quick":
        cases = [c for i, c in enumerate(cases) if i % 3 == seed % 3]
    sets = [ProgramSet("inject", cases, shard_size=12, timeout=20.0)]
    run_sets(rep, sets)
    ps = sets[0]
    stopped = {"INTERRUPT": 0, "ABORT": 0}
    for i, (c, r) in enumerate(zip(cases, ps.parsed)):
        if "special" in r:
            rep.violation(f"{c['cmd']} before poll {c['k']} did not stop {c['what']} (or the interpreter died): {r['special']}", {"program": c["text"], "umb": c["umb"], "cont": True, "observed": ps.answers[i][:300]})
            continue
        res = r["results"]
        # the last form is the usability probe: it must evaluate normally with the definition still there
        st, d = res[-1]
        t = result_tree(r)
        items = dump.list_items(t) if t is not None and st == "ok" else None
        if not items or [dump.strip_meta(x) for x in items[:3]] != [("sym", "alive"), ("num", 3), ("sym", "still-here")]:
            late = len(res) >= 1 and P + c["k"] > int(r["stats"].get("polls", "0"))
            if not late:
                rep.violation(f"after {c['cmd']} before poll {c['k']} in {c['what']} the interpreter is not usable / lost its globals", {"program": c["text"], "umb": c["umb"], "cont": True, "observed": ps.answers[i][:500]})
        kinds = [x[0] for x in res]
        if "abort" in kinds: stopped["ABORT"] += 1
        if any(x[0] == "sig" and "105.110.116.101.114.114.117.112.116.101.100" in x[1] for x in res) or any("116.114.97.112.112.101.100" in x[1] for x in res if x[0] == "ok"):
            stopped["INTERRUPT"] += 1
        # (an INTERRUPT that arrives outside the swallowing trap ends the evaluation itself: the later ABORT is then never polled)
        ended_by_interrupt = any(x[0] == "sig" and "105.110.116.101.114.114.117.112.116.101.100" in x[1] for x in res)
        if c["what"] != "terminating" and any(u[1] == "ABORT" for u in c["umb"]) and "abort" not in kinds and not (c["cmd"] == "INTERRUPT" and ended_by_interrupt):
            rep.violation(f"ABORT before poll {c['k']} did not end the non-terminating evaluation", {"program": c["text"], "umb": c["umb"], "observed": ps.answers[i][:300]})
    # blocking primitives, on the binary with a helper thread
    blocked = [
        ("(receive)", "attach=1,delay=150:INTERRUPT", "sig", "114.101.99.101.105.118.101"),
        ("(receive)", "attach=1,delay=150:ABORT", "abort", ""),
        ("(eval (trap (receive) (list 'caught (. *trapped-signal* 'kind))))", "attach=1,delay=150:INTERRUPT", "ok", "105.110.116.101.114.114.117.112.116.101.100"),
        ("(eval (trap (receive) 'never))", "attach=1,delay=150:ABORT", "abort", ""),
        ("(input-file *stdin*)", "attach=1,stdinpipe=1,delay=150:INTERRUPT", "sig", "105.110.112.117.116.45.102.105.108.101"),
        ("(input-file *stdin*)", "attach=1,stdinpipe=1,delay=150:ABORT", "abort", ""),
    ]
    # several commands pending at once while the worker is blocked: they are honoured in the order sent - an ABORT followed
    # closely by an INTERRUPT still aborts, also inside a trap that would have caught the interrupt (repeated: timing)
    for _ in range(4):
        blocked += [("(eval (trap (input-file *stdin*) 'caught))", "attach=1,stdinpipe=1,delay=150:ABORT;153:INTERRUPT", "abort", ""),
                    ("(eval (trap (receive) 'caught))", "attach=1,delay=150:ABORT;153:INTERRUPT", "abort", "")]
    lines = [f"run env=p,cont=1,{o} {enc(p + ' (add 40 2)')}" for p, o, _, _ in blocked]
    answers = run_driver_cases(lines, timeout=20.0)
    rep.evaluations += len(lines)
    for (p, o, want, frag), a in zip(blocked, answers):
        r = dump.split_run_answer(a)
        res = r.get("results") or []
        if ";" in o:      # two commands: the second one may legitimately still be pending and stop the following form
            good = len(res) == 2 and res[0][0] == want and frag in res[0][1] and (res[1] == ("ok", "I42") or res[1][0] == "sig")
        else:
            good = len(res) == 2 and res[0][0] == want and frag in res[0][1] and res[1] == ("ok", "I42")
        if not good:
            rep.violation(f"a command sent while the worker is blocked in {p} was not honoured (or the interpreter was not usable afterwards)", {"program": p + " (add 40 2)", "opts": o, "observed": a[:300]})
    # (programs without traps, also none inside the macros they use: the let macro traps signals while it checks its bindings)
    # every step is a stopping point: a command pending before poll k of a terminating evaluation with P polls
    # (1 <= k <= P) must end THAT evaluation at step k - nothing later runs, the next form evaluates normally
    every = ["((lambda (x) x) 5)", "(output-file '*stdout* ((lambda (x) x) \"hi\"))", "(if (car '(1)) ((lambda (y) (add y 1)) 2) 3)",
             "(map (lambda (x) (add x 1)) '(1 2 3))", "(foldl (lambda (a b) (add a b)) 0 '(1 2 3 4))",
             "((lambda (_ v) v) (output-file '*stdout* \"a\") ((lambda (_ v) v) (output-file '*stdout* \"b\") 'done))", "'quoted", "(quote (a b))",
             "((lambda (f) (f 1)) (lambda (x) (lambda (y) x)))", "(block (output-file '*stdout* \"1\") (output-file '*stdout* \"2\") 3)"]
    base = run_driver_cases(evalcorr.driver_lines(every, env="p"), timeout=20.0)
    step_cases = []
    for prog, a in zip(every, base):
        r = dump.split_run_answer(a)
        if "special" in r:
            continue
        total = int(r["stats"]["polls"])
        for k in range(1, total + 1):
            for cmd in ("INTERRUPT", "ABORT"):
                step_cases.append((prog, k, cmd, total, r["out"]))
    if tier == "quick":
        step_cases = [c for i, c in enumerate(step_cases) if i % 2 == seed % 2 or c[1] >= c[3] - 3]
    sa = run_driver_cases(evalcorr.driver_lines([{"text": c[0] + " (add 40 2)", "umb": [(c[1], c[2])], "cont": True} for c in step_cases], env="p"), timeout=20.0)
    rep.evaluations += len(step_cases)
    for (prog, k, cmd, total, out), a in zip(step_cases, sa):
        r = dump.split_run_answer(a)
        res = r.get("results") or []
        want = "abort" if cmd == "ABORT" else "sig"
        good = (len(res) == 2 and res[0][0] == want and (cmd == "ABORT" or "105.110.116.101.114.114.117.112.116.101.100" in res[0][1])
                and res[1] == ("ok", "I42") and out.startswith(r.get("out", "")))
        if not good:
            rep.violation(f"{cmd} pending before step {k} of {total} of {prog} did not stop the evaluation at that step",
                          {"program": prog + " (add 40 2)", "umb": [[k, cmd]], "cont": True, "env": "p", "observed": a[:300],
                           "expected": f"first form ends with {'the abort' if cmd == 'ABORT' else 'the interrupted signal'}, second form gives 42"})
    rep.coverage["every_step_probes"] = len(step_cases)
    if not rep.violations:
        report_disagreements(rep, sets, "poll discipline")
    rep.nontrivial = len(set((c["what"], c["cmd"], c["k"]) for c in cases))
    rep.samples = [{"what": c["what"], "inject": c["umb"], "answer": a[:160]} for c, a in list(zip(cases, ps.answers))[:3]]
    rep.coverage.update({"stopped": stopped, "poll_indices": [min(ks), max(ks)], "program_shapes": list(BODIES), "blocking_probes": len(blocked), "exhaustive": False})
    rep.assumptions = ["mpsc delivers a sent command to the next try_recv / recv of the worker", "a command is 'sent at instant t' = it is in the channel before the first poll after t"]
    return rep.finish("make -C coq Properties/C19.vo && coqc <pinned statements>", TRUSTED_BASE_COMMON + ["axioms: none"],
                      "for each of 7 program shapes (terminating, tail loop, printing loop, loop through catch-all traps, loop inside a trap, loop through a try without catchers, loop inside traps with an empty handler) x {INTERRUPT, ABORT} x poll index k (1..59 and random up to 3000; thorough: every k up to 1500), followed by a usability probe in the same interpreter; 6 threaded probes of the blocking primitives; every (shape, command, k) is distinct")

def replay(path):
    return generic_replay(path)
